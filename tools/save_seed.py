#!/usr/bin/env python3
"""save_seed.py <ID> <k> <srcdir> <needs> <ran> <detected_by>  -> /verif/seeded/<ID>-<k>/"""
import sys, json, shutil, os, glob
pid, k, src, needs, ran, det = sys.argv[1:7]
d = f"/verif/seeded/{pid}-{k}"
os.makedirs(d, exist_ok=True)
shutil.copy(f"{src}/patch.diff", f"{d}/patch.diff")
for f in glob.glob(f"{src}/demo*") + glob.glob(f"{src}/notes.md"):
    if os.path.isdir(f):
        shutil.copytree(f, f"{d}/{os.path.basename(f)}", dirs_exist_ok=True)
    elif os.path.getsize(f) < 200000:
        shutil.copy(f, d)
json.dump({"property": pid, "source": "fresh sub-agent given only the property text and a scratch worktree",
           "needs_to_manifest": needs, "confirmed": ran, "detected_by": det}, open(f"{d}/meta.json", "w"), indent=1)
print("saved", d)
