#!/usr/bin/env python3
"""Regenerates /verif/MANIFEST.json from the table below (kept here so the file is always valid)."""
import json, os
V = "/verif"
CHECKS = {
 "C19": dict(cat="exploration", engine="E1-schedx",
   technique="stateless model checking of the implementation: exhaustive enumeration of goroutine interleavings under a controlled scheduler with iterative deviation (preemption) bounding",
   text="Every schedule (at mutex/once/channel/select/reflect.Select granularity) of 9 closed 2-4 thread scenarios over the real aqua/event Feed/Subscription/Scope code is executed up to a deviation bound (quick 2, thorough 3-5) and checked by an interval-order oracle (exactly-once, no delivery after Unsubscribe returned, Send count, common order, no deadlock, no leaked goroutine). A coverage statement for the bound, not a proof.",
   note="Trusts: testing/synctest quiescence detection (go1.26.8); the AST instrumenter that inserts scheduling points into an overlay copy of the current sources; small-scope hypothesis. Data races are outside the cooperative scheduler.",
   ref="4/C19, 2.2"),
 "C02": dict(cat="model_checking", engine="E2-seqx",
   technique="explicit-state exploration of the implementation: every arrival history (tree class x linear extension x batching x fork-choice coin answers) replayed on the real BlockChain, invariant checked after every transition",
   text="All unordered weighted block trees with <= 4 (quick) / 5 (thorough) blocks and difficulties {1,2,3}, every parent-closed arrival order, every batching into linked segments <= 3 and both answers of the exact-tie coin are imported into a fresh real core.BlockChain; after every InsertChain the stored TD arithmetic, 'head is a heaviest imported block', TD monotonicity and the persisted head pointer are checked against own arithmetic. Exhaustive within the stated bounds.",
   note="Trusts: full-fake engine (header rules skipped so arbitrary difficulties import), overlay rewrite that routes math/rand's coin through an enumerated script, exported core.GenerateChain as block builder. Small-scope hypothesis on tree size.",
   ref="4/C02, 2.3"),
 "C03": dict(cat="model_checking", engine="E2-seqx",
   technique="explicit-state exploration of the implementation: every operation history over InsertChain / InsertHeaderChain / SetHead on small transaction-carrying block trees, at-rest invariant after every transition",
   text="All weighted trees with <= 4/5 blocks (difficulties {1,2}) whose blocks carry a transaction shared by sibling branches and a branch-only transaction; every arrival order, batching, coin answer, plus one SetHead(n) for every n inserted after every prefix; full-import chain and header-first twin. After every operation: number index == ancestry of the head, nothing mapped above it, header/body/receipts/TD retrievable, transaction lookups resolve iff canonical.",
   note="Trusts: as C02; 'lookup resolves' is defined through core.GetTransaction, the function the RPC API uses.",
   ref="4/C03, 2.3"),
 "C04": dict(cat="fault_enumeration", engine="E3-crashx",
   technique="exhaustive crash-point and single-fault enumeration: every prefix of the recorded atomic write-unit log is materialised and reopened, every unit is made to fail once, on the real import/reorg/SetHead/Stop paths",
   text="6 (quick) / 8 (thorough) histories (linear, reorg to longer, reorg to shorter-heavier, side chain in two batches, three-way fork, SetHead+re-import, pre-image heavy) under archive and pruning configurations and Batch.ValueSize scales x1/x64/x1024: for every prefix of the unit log the image is reopened with NewBlockChain and the recovery oracle (no panic, admissible head, complete head state by an independent raw-image trie walker, index agrees with ancestry, root-present-implies-trie-present, re-feed converges) is applied; for every unit a failure is injected and the lock-idle / no-deadlock / recovery oracle applied.",
   note="Trusts: atomic-unit crash model (no torn batches), full-fake engine, log.Crit->sentinel rewrite, deadlock watchdog (20 s + goroutine parked on a sync primitive, unchanged for 2 s). Known open findings are listed in known_findings.jsonl.",
   ref="4/C04, 2.4"),
 "C15": dict(cat="exploration", engine="E2-seqx + E1-schedx",
   technique="exhaustive operation sequences on the real TxPool with a predicate invariant after every step, plus stateless model checking of 3-thread scenarios (controlled scheduler, preemption bounding) with a sequential-consistency oracle",
   text="Sequential: every sequence of depth 3 (quick) / 4 (thorough) over a 24-symbol colliding alphabet (remote/local adds of pre-signed transactions of two senders at nonces 0-3 and three price levels around the bump, unaffordable / over-gas transactions, gas-price changes, head changes to four scripted heads incl. a reorg and a balance drop), from two initial heads, under default / tiny-limit / no-locals configurations; after every operation the pending set must be gap-free from the chain nonce, affordable, unique per (sender, nonce), within limits, replacements only with the bump, dropped transactions re-pooled. Concurrent: six 3-thread scenarios on the real pool with its real event loop, every schedule up to 2 (3) preemptions; invariant at quiescence and at observers, final content equal to some sequential order, no deadlock/leak.",
   note="Trusts: AST instrumentation of core and aqua/event, synctest quiescence, in-package accessors VerifReset/VerifIsLocal; txFeed.Send goroutines run unmanaged (they share no state with the pool). Small-scope hypothesis.",
   ref="4/C15, 2.2, 2.3"),
 "C05": dict(cat="exploration", engine="E4-latx",
   technique="exhaustive enumeration of value-moving macro programs, uncle sets and cut-off heights against an arithmetic supply oracle",
   text="Total supply (sum over RawDump) before/after ApplyTransaction, Process and Finalize for the full product of outer action x value x callee behaviour x trailer x nesting x epoch, all 463 uncle sets at heights around 42,000,000 and the HF4 block; change <= scheduled issuance, equality unless a SELFDESTRUCT executed in a surviving frame (seen by a tracer).",
   note="Trusts: the harness's hand-written issuance schedule and tracer-based burn detection; small-scope hypothesis over program shapes.",
   ref="4/C05, 2.5"),
 "C06": dict(cat="exploration", engine="E4-latx",
   technique="exhaustive boundary-lattice enumeration of transactions against a hand-computed gas/fee reference",
   text="Full lattice (after pruning numeric duplicates) of sender balance x nonce x price x gas limit x value x recipient kind x data shape x position x coinbase x epoch through ApplyTransaction, Process and InsertChain; exact gasUsed from a Yellow-Paper fee computation in the harness, exact sender/coinbase deltas, post-state equality via RawDump, receipts, and rejection of consensus-invalid transactions with untouched head/state.",
   note="Trusts: the harness's own intrinsic/execution gas arithmetic for 12 fixed programs; one open known finding (pre-EIP-158 failed call to an absent precompile leaves an empty account).",
   ref="4/C06, 2.5"),
 "C01": dict(cat="exploration", engine="E2-seqx + E4-latx",
   technique="exhaustive arrival-history exploration of the real block import (linear extensions of a block tree, batching/restart deviations, cache configurations) with read-back comparison and independent root recomputation, plus exhaustive single-field corruption of every block",
   text="A 14-block tree (8 main-chain blocks with transfers, creation, SSTORE set/clear, LOG0-4, REVERT, out-of-gas, SELFDESTRUCT, an uncle, an empty block; two side branches) is built with core.GenerateChain under the test fork schedule and a mainnet-shaped one; every k-th of the 7425 parent-closed arrival orders (k=29 quick, 2 thorough), every single batching merge and every single restart position on selected orders, under archive / pruning / eager-pruning caches, is imported into a fresh BlockChain; after every import the stored receipts, gas, bloom and post-state must equal the builder's and the tx/receipt/state roots recomputed with the independent refmpt reference must equal the header. Every block x 14 single-field corruptions (alone and inside a batch) must be rejected with head, TD and the full database image unchanged, after which the genuine block still imports.",
   note="Trusts: fake-seal engine, exported builder as source of expected results (cross-checked by refmpt), account universe of the harness for the independent state root. The miner-built-block clause is not covered (see DESIGN).",
   ref="4/C01"),
 "C12": dict(cat="exploration", engine="E4-latx",
   technique="exhaustive lattice and single-bit-flip enumeration of signed transactions against a reference signer written from the Yellow Paper / EIP-2 / EIP-155",
   text="7128 base transactions (6 keys x 108 contents x Frontier/Homestead/EIP-155 with 9 chain ids incl. 9-bit and >64-bit V) through Sender/AsMessage/decode, RLP+JSON round trips, every foreign signer, cached sender under every ordered signer pair, every single-field replacement, the full V/R/S boundary lattice incl. the malleated twin, every single-bit flip of the RLP, and TxPool.AddRemote / ApplyTransaction around the Homestead/EIP-155 fork heights.",
   note="Shares only btcec point recovery, rlp and keccak with the code under test. Open known finding: EIP-155 signer accepts high-S (consensus rule, not repaired).",
   ref="4/C12"),
 "C13": dict(cat="exploration", engine="E4-latx + E1-schedx",
   technique="exhaustive boundary-lattice enumeration of headers and uncle sets against a reference rule checker with a literal difficulty table; batch verification compared with one-by-one verification",
   text="VerifyHeader over 5 network schedules x parent heights around every fork x parent difficulty x time delta x every single field deviation (and pairs on a reduced context set) inside a synctest bubble (fixed clock for the 15 s rule); VerifyUncles over all ordered candidate lists of length <= 3 from a real block tree in the 2-uncle and 1-uncle epochs; VerifyHeaders on 714 linked batches (n <= 4, first invalid header at every position, pairs, orphans) against sequential verification free-running under several GOMAXPROCS values, and - under the controlled scheduler on an instrumented copy of consensus/aquahash (channel operations and the coordinator select as scheduling points, select tie-breaks enumerated) - every schedule up to 2 (3) preemptions of batches with n <= 3 (4) and 1-2 (3) workers with the first invalid header at every position: results in input order and equal to one-by-one verification, no deadlock, no leak.",
   note="refhdr/refdiff are transcribed from the property text and the pinned constants; the early-abort path of VerifyHeaders is not explored under the scheduler (see DESIGN).",
   ref="4/C13"),
 "C14": dict(cat="exploration", engine="E4-latx",
   technique="exhaustive enumeration of nonces, straddling difficulties, mix-digest alterations, fork heights and sealer configurations against an independent PoW reference (x/crypto argon2, own ethash and RLP)",
   text="Version schedule at heights around HF5/HF8/HF9 of all six built-in networks; header/seal-free hashes for 4 versions x 6 header shapes with every single-byte field flip; VerifySeal over nonces x difficulties incl. floor(2^256/h)-1/0/+1, 0, negative; every single-byte mix-digest alteration; light vs full vs reference ethash; sealer with 1-3 threads at difficulties 1..256 for every version.",
   note="refpow imports nothing from the repository. hash == target exactly cannot be constructed (difficulty is hashed into the header), so <= vs < at the boundary is unobservable.",
   ref="4/C14"),
 "C18": dict(cat="exploration", engine="E4-latx",
   technique="exhaustive enumeration of environment configurations x transports x every registered RPC method (by reflection) x small argument lattices on a real node, observing signing by effect",
   text="A real node.Node with the aqua service and a keystore (locked + unlocked funded account) on in-proc, IPC, HTTP and WS; one worker process per combination of the opt-in variables (7 quick, 36 thorough); every exported method of every registered API (141 entries, no hand-written list) with ~1200 argument tuples per configuration and plain/batch/alias/subscribe wire variants; a recording wallet, the tx pool and a scan of results for signatures/transactions attributable to keystore keys decide whether a keystore key signed; must not happen on a transport that is not opted in, and must be possible on one that is.",
   note="Trusts in-package accessors that expose the registered API list and the server's own callback-selection rule. Harness-disrupting methods are called last (thorough) and listed in the evidence.",
   ref="4/C18"),
 "C20": dict(cat="exploration", engine="E4-latx",
   technique="exhaustive single-character alteration of every byte of key files and edit-distance-1 passphrases, against an independent reference reader/writer of the key-file formats",
   text="7 keys x 4-7 passphrases x v3-scrypt / v3-pbkdf2 / v1 formats composed by the harness with fixed salt and IV plus the repository's vectors; round trips through EncryptKey/DecryptKey and the KeyStore API; every passphrase at edit distance 1; every byte of the file (hex digits, numbers, names, structure) altered by each alternative symbol, through DecryptKey, KeyStore.Unlock and KeyStore.Import: error or the original key and address, never another key, another address or a panic.",
   note="Passphrases with the same HMAC key (trailing NUL) are the same credential by RFC 2104. One open finding: files without an address member cannot detect a changed IV (format limitation).",
   ref="4/C20"),
 "C17": dict(cat="exploration", engine="E4-latx",
   technique="exhaustive truncation / single-byte alteration / boundary-size enumeration of discovery datagrams, RLPx handshakes and frames and sub-protocol messages against reference peers and a reference framer",
   text="Discovery: 8 base packets in both dialects truncated at every length (re-signed), every byte altered (as sent / re-hashed / re-signed), zero buffers, type sweeps, in four protocol states, through decodePacket and handlePacket under a virtual clock. RLPx: all message sequences <= 3 over a code x size x snappy lattice, 16 MiB boundaries, every position of a 3-message stream altered / dropped / duplicated / truncated, crafted correctly-MACed malformed frames; handshake auth/ack truncated at every length and altered at every byte (wire and plaintext) against a reference peer for both formats. Sub-protocol: every code x all short RLP strings, 23 valid messages with all truncations and alterations, the header-query lattice and size limits through the real ProtocolManager in worker subprocesses. Oracles: delivered == authenticated or error, no panic / wedge, bounded allocation and answers.",
   note="Fixed keys, empty discovery table, write-ahead case log for crashes in background goroutines; in-package export seams under inpkg/p2p, inpkg/p2p/discover, inpkg/aqua.",
   ref="4/C17"),
}
NOT_YET = {}
def main():
    props = [json.loads(l) for l in open(f"{V}/properties.jsonl")]
    checks, na = [], []
    for p in props:
        i = p["id"]
        c = CHECKS.get(i)
        if not c or not os.path.isdir(f"{V}/harness/{i.lower()}"):
            na.append({"property_id": i, "reason": NOT_YET.get(i, "check not built yet in this session (planned: see DESIGN.md section 4); nothing is claimed")})
            continue
        checks.append({
          "property_id": i,
          "quick_cmd": f"bin/check {i} --tier quick",
          "thorough_cmd": f"bin/check {i} --tier thorough",
          "evidence_file": f"/verif/evidence/{i}.json",
          "replay_cmd_template": f"bin/check {i} --replay {{path}}",
          "engine": c["engine"],
          "level_claimed": {"category": c["cat"], "text": c["text"], "design_ref": c["ref"]},
          "level_note": c["note"],
          "technique": c["technique"],
        })
    m = {
      "version": 1,
      "setup_cmd": "bin/setup",
      "hooks": {"guard": "verif", "enable": "go1.26.8 test -c -tags verif -overlay <generated> (bin/check): scheduling hooks, in-package probes and seams are overlay files generated from /repo's current working tree at check time; nothing is committed to /repo for them",
                "baseline_off_cmd": "cd /repo && go build ./... && go test -vet=off -count=1 -timeout 25m ./...",
                "source_commits": [], "add_only": True},
      "engines": [
        {"name": "E1-schedx", "path": "harness/vrt", "serves_properties": ["C19", "C15", "C13"], "kind_free_text": "controlled scheduler (testing/synctest quiescence) + stateless DFS over schedules with deviation bounding, on instrumented overlay copies of the real packages"},
        {"name": "E2-seqx", "path": "harness/seqx", "serves_properties": ["C01","C02","C03","C09","C10","C15","C16"], "kind_free_text": "exhaustive operation sequences / explicit-state BFS over real objects (state = replayed history), reference models in Go"},
        {"name": "E3-crashx", "path": "harness/crashx", "serves_properties": ["C04"], "kind_free_text": "write-log crash-prefix and single-fault enumeration over the aquadb.Database seam"},
        {"name": "E4-latx", "path": "harness/lat", "serves_properties": ["C05","C06","C07","C08","C11","C12","C13","C14","C16","C17","C18","C20"], "kind_free_text": "exhaustive boundary-lattice / bounded-length / single-mutation input enumeration against reference models"},
      ],
      "checks": checks,
      "not_applicable": na,
      "notes": "All checks rebuild the harness together with /repo's current working tree (go build -overlay), see DESIGN.md 2.1. Exit 0 held / 1 VIOLATION / 2 harness error.",
    }
    json.dump(m, open(f"{V}/MANIFEST.json", "w"), indent=1)
    print("checks:", [c["property_id"] for c in checks], "na:", len(na))
main()
