module verif/tools/verif-instr

go 1.24
