package main

// namedRewrites are file-specific source rewrites selected by a check's verif.conf (REWRITES=...).
// Each must find its construct or exit 3 (the check then reports a harness error, never a violation).
var namedRewrites = map[string]func(){}
