package main

import "strings"

// namedRewrites are file-specific source rewrites selected by a check's verif.conf (REWRITES=...).
// Each must find its construct or exit 3 (the check then reports a harness error, never a violation).
var namedRewrites = map[string]func(){}

func init() {
	// mathrand: route the fork-choice coin (mrand.Float64) of core through zzverif/vrand.
	namedRewrites["mathrand"] = func() {
		for _, rel := range []string{"core/blockchain.go", "core/headerchain.go"} {
			_, src := srcOf(rel)
			s := string(src)
			const old = `mrand "math/rand"`
			if strings.Count(s, old) != 1 {
				die(3, "rewrite mathrand: %s does not import math/rand as mrand exactly once", rel)
			}
			s = strings.Replace(s, old, `mrand "`+modPath+`/zzverif/vrand"`, 1)
			emit(rel, []byte(s))
		}
	}
}

func init() {
	// logexit: make log.Crit raise a recoverable sentinel panic instead of exiting (fault injection).
	namedRewrites["logexit"] = func() {
		rel := "common/log/root.go"
		_, src := srcOf(rel)
		s := string(src)
		i := strings.Index(s, "func Crit(")
		if i < 0 {
			die(3, "rewrite logexit: func Crit not found in %s", rel)
		}
		j := strings.Index(s[i:], "os.Exit(1)")
		if j < 0 {
			die(3, "rewrite logexit: os.Exit(1) not found in Crit")
		}
		s = s[:i+j] + "verifExit(msg)\n\t" + s[i+j:]
		emit(rel, []byte(s))
	}
}
