// verif-instr writes the go build overlay used by every check (DESIGN.md 2.1, Appendix B):
//
//   - /verif/harness/**            -> <repo>/zzverif/**            (virtual in-module packages)
//   - /verif/inpkg/<pkg>/*.go      -> <repo>/<pkg>/*.go            (in-package probes, tag verif)
//   - instrumented copies of the CURRENT sources of the packages named by -instrument
//   - named file-specific rewrites (-rewrites)
//
// The repository is only read. Exit status 0 ok, 3 = a construct that a rewrite needs was not found.
package main

import (
	"bytes"
	"encoding/json"
	"flag"
	"fmt"
	"go/ast"
	"go/format"
	"go/parser"
	"go/token"
	"os"
	"path/filepath"
	"sort"
	"strconv"
	"strings"
)

const modPath = "gitlab.com/aquachain/aquachain"

var (
	repo, verif, scratch string
	replace              = map[string]string{}
)

func die(code int, f string, a ...interface{}) {
	fmt.Fprintf(os.Stderr, "verif-instr: "+f+"\n", a...)
	os.Exit(code)
}

func main() {
	var instr, inpkg, rewrites, out, nogo string
	flag.StringVar(&repo, "repo", "/repo", "")
	flag.StringVar(&verif, "verif", "/verif", "")
	flag.StringVar(&scratch, "scratch", "", "")
	flag.StringVar(&instr, "instrument", "", "")
	flag.StringVar(&inpkg, "inpkg", "", "")
	flag.StringVar(&rewrites, "rewrites", "", "")
	flag.StringVar(&out, "out", "", "")
	flag.StringVar(&nogo, "nogo", "", "")
	flag.Parse()
	if scratch == "" || out == "" {
		die(2, "need -scratch and -out")
	}
	repo, _ = filepath.Abs(repo)
	noGo = strings.Fields(nogo)

	// 1. harness packages
	hroot := filepath.Join(verif, "harness")
	filepath.Walk(hroot, func(p string, fi os.FileInfo, err error) error {
		if err != nil || fi.IsDir() {
			return nil
		}
		if !strings.HasSuffix(p, ".go") && !strings.HasSuffix(p, ".json") && !strings.HasSuffix(p, ".txt") {
			return nil
		}
		rel, _ := filepath.Rel(hroot, p)
		replace[filepath.Join(repo, "zzverif", rel)] = p
		return nil
	})

	// 2. in-package additions
	for _, pkg := range strings.Fields(inpkg) {
		dir := filepath.Join(verif, "inpkg", pkg)
		ents, err := os.ReadDir(dir)
		if err != nil {
			die(2, "inpkg %s: %v", pkg, err)
		}
		for _, e := range ents {
			if strings.HasSuffix(e.Name(), ".go") {
				replace[filepath.Join(repo, pkg, e.Name())] = filepath.Join(dir, e.Name())
			}
		}
	}

	// 3. instrumented packages
	for _, pkg := range strings.Fields(instr) {
		instrumentPkg(pkg)
	}

	// 4. named rewrites
	for _, rw := range strings.Fields(rewrites) {
		f, ok := namedRewrites[rw]
		if !ok {
			die(2, "unknown rewrite %q", rw)
		}
		f()
	}

	b, _ := json.MarshalIndent(map[string]interface{}{"Replace": replace}, "", " ")
	if err := os.WriteFile(out, b, 0o644); err != nil {
		die(2, "%v", err)
	}
}

// ---- source access: a file may already have been rewritten by an earlier step -------------------

func srcOf(rel string) (string, []byte) {
	abs := filepath.Join(repo, rel)
	p := abs
	if r, ok := replace[abs]; ok {
		p = r
	}
	b, err := os.ReadFile(p)
	if err != nil {
		die(3, "cannot read %s: %v", rel, err)
	}
	return abs, b
}

func emit(rel string, content []byte) {
	abs := filepath.Join(repo, rel)
	dst := filepath.Join(scratch, "src", rel)
	os.MkdirAll(filepath.Dir(dst), 0o755)
	if err := os.WriteFile(dst, content, 0o644); err != nil {
		die(2, "%v", err)
	}
	replace[abs] = dst
}

// ---- E1 instrumentation -------------------------------------------------------------------------

func instrumentPkg(pkg string) {
	dir := filepath.Join(repo, pkg)
	ents, err := os.ReadDir(dir)
	if err != nil {
		die(3, "instrument %s: %v", pkg, err)
	}
	var names []string
	for _, e := range ents {
		n := e.Name()
		if strings.HasSuffix(n, ".go") && !strings.HasSuffix(n, "_test.go") {
			names = append(names, n)
		}
	}
	sort.Strings(names)
	for _, n := range names {
		rel := filepath.Join(pkg, n)
		_, src := srcOf(rel)
		outb, changed := instrumentFile(rel, src)
		if changed {
			emit(rel, outb)
		}
	}
}

type inst struct {
	fset     *token.FileSet
	file     *ast.File
	base     string
	used     bool
	syncName string
	reflName string
	atomName string
	tmp      int
}

func instrumentFile(rel string, src []byte) ([]byte, bool) {
	fset := token.NewFileSet()
	f, err := parser.ParseFile(fset, rel, src, parser.ParseComments)
	if err != nil {
		die(3, "parse %s: %v", rel, err)
	}
	in := &inst{fset: fset, file: f, base: filepath.Base(rel)}
	changed := false
	for _, imp := range f.Imports {
		p, _ := strconv.Unquote(imp.Path.Value)
		switch p {
		case "C":
			return nil, false // cgo file: left alone
		case "sync":
			imp.Path.Value = strconv.Quote(modPath + "/zzverif/vsync")
			if imp.Name == nil {
				imp.Name = ast.NewIdent("sync")
			}
			in.syncName = imp.Name.Name
			changed = true
		case "reflect":
			in.reflName = "reflect"
			if imp.Name != nil {
				in.reflName = imp.Name.Name
			}
		case "sync/atomic":
			in.atomName = "atomic"
			if imp.Name != nil {
				in.atomName = imp.Name.Name
			}
		}
	}
	for _, d := range f.Decls {
		if fd, ok := d.(*ast.FuncDecl); ok && fd.Body != nil {
			in.block(fd.Body)
		}
	}
	// function literals at package level (var x = func(){...})
	for _, d := range f.Decls {
		if gd, ok := d.(*ast.GenDecl); ok {
			ast.Inspect(gd, func(n ast.Node) bool {
				if fl, ok := n.(*ast.FuncLit); ok {
					in.block(fl.Body)
					return false
				}
				return true
			})
		}
	}
	if in.used {
		changed = true
		addImport(f, "vrt", modPath+"/zzverif/vrt")
	}
	if !changed {
		return nil, false
	}
	// drop position-dependent comments problems: print via go/format on the AST
	var buf bytes.Buffer
	f.Comments = nil // comments would be misplaced after statement insertion; build tags are kept below
	if err := format.Node(&buf, fset, f); err != nil {
		die(3, "print %s: %v", rel, err)
	}
	hdr := buildConstraint(src)
	return append([]byte(hdr), buf.Bytes()...), true
}

// buildConstraint returns the //go:build and // +build lines of the original source.
func buildConstraint(src []byte) string {
	var b strings.Builder
	for _, line := range strings.Split(string(src), "\n") {
		t := strings.TrimSpace(line)
		if strings.HasPrefix(t, "package ") {
			break
		}
		if strings.HasPrefix(t, "//go:build") || strings.HasPrefix(t, "// +build") {
			b.WriteString(t + "\n")
		}
	}
	if b.Len() > 0 {
		b.WriteString("\n")
	}
	return b.String()
}

func addImport(f *ast.File, name, path string) {
	spec := &ast.ImportSpec{Name: ast.NewIdent(name), Path: &ast.BasicLit{Kind: token.STRING, Value: strconv.Quote(path)}}
	decl := &ast.GenDecl{Tok: token.IMPORT, Specs: []ast.Spec{spec}}
	f.Decls = append([]ast.Decl{decl}, f.Decls...)
	f.Imports = append(f.Imports, spec)
}

func (in *inst) loc(n ast.Node) string {
	return fmt.Sprintf("%s:%d", in.base, in.fset.Position(n.Pos()).Line)
}

func (in *inst) call(fn string, args ...ast.Expr) *ast.ExprStmt {
	in.used = true
	return &ast.ExprStmt{X: &ast.CallExpr{Fun: &ast.SelectorExpr{X: ast.NewIdent("vrt"), Sel: ast.NewIdent(fn)}, Args: args}}
}

func strLit(s string) ast.Expr { return &ast.BasicLit{Kind: token.STRING, Value: strconv.Quote(s)} }

// opKind reports whether node n (not descending into function literals or nested blocks) performs a
// synchronisation operation. blocking = may block natively (needs an After point).
func (in *inst) opKind(n ast.Node) (has, blocking bool) {
	if n == nil {
		return
	}
	ast.Inspect(n, func(x ast.Node) bool {
		switch v := x.(type) {
		case *ast.FuncLit, *ast.BlockStmt:
			return false
		case *ast.SendStmt:
			has, blocking = true, true
		case *ast.UnaryExpr:
			if v.Op == token.ARROW {
				has, blocking = true, true
			}
		case *ast.CallExpr:
			switch fn := v.Fun.(type) {
			case *ast.Ident:
				if fn.Name == "close" && len(v.Args) == 1 {
					has = true
				}
			case *ast.SelectorExpr:
				if id, ok := fn.X.(*ast.Ident); ok {
					if in.reflName != "" && id.Name == in.reflName && fn.Sel.Name == "Select" {
						// rewritten to vrt.Select below
						id.Name = "vrt"
						in.used = true
						has, blocking = true, true
						return true
					}
					if in.atomName != "" && id.Name == in.atomName {
						has = true
						return true
					}
				}
				switch fn.Sel.Name {
				case "TrySend", "TryRecv":
					has = true
				}
			}
		}
		return true
	})
	return
}

func (in *inst) block(b *ast.BlockStmt) {
	if b == nil {
		return
	}
	b.List = in.list(b.List)
}

func (in *inst) prependAfter(b *ast.BlockStmt, loc string) {
	b.List = append([]ast.Stmt{in.call("After", strLit(loc))}, b.List...)
}

func (in *inst) list(stmts []ast.Stmt) []ast.Stmt {
	var out []ast.Stmt
	for _, s := range stmts {
		out = append(out, in.stmt(s)...)
	}
	return out
}

// funcLits instruments the bodies of function literals that occur in n (outside nested blocks,
// which are handled by the statement walk).
func (in *inst) funcLits(n ast.Node) {
	if n == nil {
		return
	}
	ast.Inspect(n, func(x ast.Node) bool {
		switch v := x.(type) {
		case *ast.FuncLit:
			in.block(v.Body)
			return false
		case *ast.BlockStmt:
			return false
		}
		return true
	})
}

func (in *inst) stmt(s ast.Stmt) []ast.Stmt {
	loc := in.loc(s)
	switch v := s.(type) {
	case *ast.BlockStmt:
		in.block(v)
		return []ast.Stmt{v}
	case *ast.LabeledStmt:
		if sel, ok := v.Stmt.(*ast.SelectStmt); ok {
			if out, ok := in.selectStmt(sel, v.Label); ok {
				return out
			}
		}
		inner := in.stmt(v.Stmt)
		// keep the label on the real statement; points that precede it go before the label
		pre := inner[:0:0]
		for len(inner) > 1 && isVrtCall(inner[0]) {
			pre = append(pre, inner[0])
			inner = inner[1:]
		}
		v.Stmt = inner[0]
		return append(append(pre, v), inner[1:]...)
	case *ast.IfStmt:
		has1, _ := in.opKind(v.Init)
		has2, _ := in.opKind(v.Cond)
		in.funcLits(v.Init)
		in.funcLits(v.Cond)
		in.block(v.Body)
		if v.Else != nil {
			e := in.stmt(v.Else)
			if len(e) == 1 {
				v.Else = e[0]
			} else {
				v.Else = &ast.BlockStmt{List: e}
			}
		}
		if has1 || has2 {
			in.prependAfter(v.Body, loc)
			return []ast.Stmt{in.call("Point", strLit(loc)), v}
		}
		return []ast.Stmt{v}
	case *ast.ForStmt:
		has1, _ := in.opKind(v.Init)
		has2, _ := in.opKind(v.Cond)
		has3, _ := in.opKind(v.Post)
		in.funcLits(v.Init)
		in.funcLits(v.Cond)
		in.funcLits(v.Post)
		in.block(v.Body)
		if has1 || has2 || has3 {
			in.prependAfter(v.Body, loc)
			return []ast.Stmt{in.call("Point", strLit(loc)), v}
		}
		return []ast.Stmt{v}
	case *ast.RangeStmt:
		has, _ := in.opKind(v.X)
		in.funcLits(v.X)
		in.block(v.Body)
		if has || rangeOverChan[in.base+":"+strconv.Itoa(in.fset.Position(v.Pos()).Line)] {
			in.prependAfter(v.Body, loc)
			return []ast.Stmt{in.call("Point", strLit(loc)), v}
		}
		return []ast.Stmt{v}
	case *ast.SwitchStmt:
		has1, _ := in.opKind(v.Init)
		has2, _ := in.opKind(v.Tag)
		in.funcLits(v.Init)
		in.funcLits(v.Tag)
		in.clauses(v.Body)
		if has1 || has2 {
			return []ast.Stmt{in.call("Point", strLit(loc)), v, in.call("After", strLit(loc))}
		}
		return []ast.Stmt{v}
	case *ast.TypeSwitchStmt:
		in.clauses(v.Body)
		return []ast.Stmt{v}
	case *ast.SelectStmt:
		if out, ok := in.selectStmt(v, nil); ok {
			return out
		}
		hasDefault := false
		for _, c := range v.Body.List {
			cc := c.(*ast.CommClause)
			if cc.Comm == nil {
				hasDefault = true
			}
		}
		for _, c := range v.Body.List {
			cc := c.(*ast.CommClause)
			in.funcLits(cc.Comm)
			cc.Body = in.list(cc.Body)
			if !hasDefault {
				cc.Body = append([]ast.Stmt{in.call("After", strLit(in.loc(cc)))}, cc.Body...)
			}
		}
		return []ast.Stmt{in.call("Point", strLit(loc)), v}
	case *ast.GoStmt:
		return in.goStmt(v)
	case *ast.DeferStmt:
		in.funcLits(v.Call)
		return []ast.Stmt{v}
	case *ast.ReturnStmt:
		has, _ := in.opKind(v)
		in.funcLits(v)
		if has {
			return []ast.Stmt{in.call("Point", strLit(loc)), v}
		}
		return []ast.Stmt{v}
	case *ast.CaseClause, *ast.CommClause:
		return []ast.Stmt{s}
	default:
		has, blocking := in.opKind(s)
		in.funcLits(s)
		if !has {
			return []ast.Stmt{s}
		}
		out := []ast.Stmt{in.call("Point", strLit(loc)), s}
		if blocking {
			out = append(out, in.call("After", strLit(loc)))
		}
		return out
	}
}

func isVrtCall(s ast.Stmt) bool {
	es, ok := s.(*ast.ExprStmt)
	if !ok {
		return false
	}
	c, ok := es.X.(*ast.CallExpr)
	if !ok {
		return false
	}
	se, ok := c.Fun.(*ast.SelectorExpr)
	if !ok {
		return false
	}
	id, ok := se.X.(*ast.Ident)
	return ok && id.Name == "vrt"
}

func (in *inst) clauses(b *ast.BlockStmt) {
	for _, c := range b.List {
		if cc, ok := c.(*ast.CaseClause); ok {
			cc.Body = in.list(cc.Body)
		}
	}
}

// goStmt rewrites `go f(a, b)` to `{ f0 := f; a0 := a; b0 := b; vrt.Go(loc, func(){ f0(a0, b0) }) }`
// (operands evaluated at the go statement, as the language requires).
// noGo lists substrings of go-statement call expressions that stay native goroutines.
var noGo []string

func (in *inst) goStmt(g *ast.GoStmt) []ast.Stmt {
	if len(noGo) > 0 {
		var b bytes.Buffer
		format.Node(&b, in.fset, g.Call)
		for _, pat := range noGo {
			if strings.Contains(b.String(), pat) {
				in.funcLits(g.Call)
				return []ast.Stmt{g}
			}
		}
	}
	loc := in.loc(g)
	call := g.Call
	var pre []ast.Stmt
	newCall := &ast.CallExpr{Fun: call.Fun, Ellipsis: call.Ellipsis}
	if fl, ok := call.Fun.(*ast.FuncLit); ok {
		in.block(fl.Body)
	} else {
		in.tmp++
		name := fmt.Sprintf("vrtF%d", in.tmp)
		pre = append(pre, &ast.AssignStmt{Lhs: []ast.Expr{ast.NewIdent(name)}, Tok: token.DEFINE, Rhs: []ast.Expr{call.Fun}})
		newCall.Fun = ast.NewIdent(name)
	}
	for _, a := range call.Args {
		in.funcLits(a)
		if _, ok := a.(*ast.BasicLit); ok {
			newCall.Args = append(newCall.Args, a)
			continue
		}
		if id, ok := a.(*ast.Ident); ok && (id.Name == "nil" || id.Name == "true" || id.Name == "false") {
			newCall.Args = append(newCall.Args, a)
			continue
		}
		in.tmp++
		name := fmt.Sprintf("vrtA%d", in.tmp)
		pre = append(pre, &ast.AssignStmt{Lhs: []ast.Expr{ast.NewIdent(name)}, Tok: token.DEFINE, Rhs: []ast.Expr{a}})
		newCall.Args = append(newCall.Args, ast.NewIdent(name))
	}
	in.used = true
	goCall := &ast.ExprStmt{X: &ast.CallExpr{
		Fun: &ast.SelectorExpr{X: ast.NewIdent("vrt"), Sel: ast.NewIdent("Go")},
		Args: []ast.Expr{strLit(loc), &ast.FuncLit{
			Type: &ast.FuncType{Params: &ast.FieldList{}},
			Body: &ast.BlockStmt{List: []ast.Stmt{&ast.ExprStmt{X: newCall}}},
		}},
	}}
	if len(pre) == 0 {
		return []ast.Stmt{goCall}
	}
	return []ast.Stmt{&ast.BlockStmt{List: append(pre, goCall)}}
}

// rangeOverChan lists `for … range ch` statements over channels (syntactically indistinguishable
// from ranges over slices without type information); filled from -rangechan if ever needed.
var rangeOverChan = map[string]bool{}

// selectStmt rewrites a native select into registration calls on a vrt.Sel plus a switch, so that the
// pick among several ready cases is an enumerated choice under the scheduler (vrt.Select) and plain
// reflect.Select otherwise. Channel operands are hoisted into temporaries in source order, as the
// language evaluates them once on entering the select.
func (in *inst) selectStmt(v *ast.SelectStmt, label *ast.Ident) ([]ast.Stmt, bool) {
	loc := in.loc(v)
	in.tmp++
	sel := fmt.Sprintf("vrtSel%d", in.tmp)
	hasDefault := false
	for _, c := range v.Body.List {
		if c.(*ast.CommClause).Comm == nil {
			hasDefault = true
		}
	}
	vrtFn := func(name string) ast.Expr {
		return &ast.SelectorExpr{X: ast.NewIdent("vrt"), Sel: ast.NewIdent(name)}
	}
	boolLit := "false"
	if hasDefault {
		boolLit = "true"
	}
	pre := []ast.Stmt{
		in.call("Point", strLit(loc)),
		&ast.AssignStmt{Lhs: []ast.Expr{ast.NewIdent(sel)}, Tok: token.DEFINE, Rhs: []ast.Expr{&ast.CallExpr{Fun: vrtFn("NewSel"), Args: []ast.Expr{ast.NewIdent(boolLit)}}}},
	}
	sw := &ast.SwitchStmt{Tag: &ast.CallExpr{Fun: &ast.SelectorExpr{X: ast.NewIdent(sel), Sel: ast.NewIdent("Do")}}, Body: &ast.BlockStmt{}}
	idx := 0
	for _, c := range v.Body.List {
		cc := c.(*ast.CommClause)
		body := in.list(cc.Body)
		if cc.Comm == nil {
			sw.Body.List = append(sw.Body.List, &ast.CaseClause{List: nil, Body: body}) // default:
			continue
		}
		in.tmp++
		chv := fmt.Sprintf("vrtC%d", in.tmp)
		var head []ast.Stmt
		if !hasDefault {
			head = append(head, in.call("After", strLit(in.loc(cc))))
		}
		switch cm := cc.Comm.(type) {
		case *ast.SendStmt:
			in.funcLits(cm)
			pre = append(pre, &ast.AssignStmt{Lhs: []ast.Expr{ast.NewIdent(chv)}, Tok: token.DEFINE, Rhs: []ast.Expr{cm.Chan}})
			pre = append(pre, &ast.ExprStmt{X: &ast.CallExpr{Fun: vrtFn("SelSend"), Args: []ast.Expr{ast.NewIdent(sel), ast.NewIdent(chv), cm.Value}}})
		case *ast.ExprStmt: // case <-ch:
			ue, ok := cm.X.(*ast.UnaryExpr)
			if !ok || ue.Op != token.ARROW {
				return nil, false
			}
			in.funcLits(cm)
			pre = append(pre, &ast.AssignStmt{Lhs: []ast.Expr{ast.NewIdent(chv)}, Tok: token.DEFINE, Rhs: []ast.Expr{ue.X}})
			pre = append(pre, &ast.ExprStmt{X: &ast.CallExpr{Fun: vrtFn("SelRecv"), Args: []ast.Expr{ast.NewIdent(sel), ast.NewIdent(chv)}}})
		case *ast.AssignStmt: // case x := <-ch / x, ok := <-ch / x = <-ch
			if len(cm.Rhs) != 1 {
				return nil, false
			}
			ue, ok := cm.Rhs[0].(*ast.UnaryExpr)
			if !ok || ue.Op != token.ARROW {
				return nil, false
			}
			in.funcLits(cm)
			pre = append(pre, &ast.AssignStmt{Lhs: []ast.Expr{ast.NewIdent(chv)}, Tok: token.DEFINE, Rhs: []ast.Expr{ue.X}})
			pre = append(pre, &ast.ExprStmt{X: &ast.CallExpr{Fun: vrtFn("SelRecv"), Args: []ast.Expr{ast.NewIdent(sel), ast.NewIdent(chv)}}})
			val := &ast.CallExpr{Fun: vrtFn("SelVal"), Args: []ast.Expr{ast.NewIdent(sel), ast.NewIdent(chv)}}
			rhs := []ast.Expr{val}
			if len(cm.Lhs) == 2 {
				rhs = append(rhs, &ast.CallExpr{Fun: &ast.SelectorExpr{X: ast.NewIdent(sel), Sel: ast.NewIdent("SelOk")}})
			}
			head = append(head, &ast.AssignStmt{Lhs: cm.Lhs, Tok: cm.Tok, Rhs: rhs})
			if cm.Tok == token.DEFINE {
				// silence "declared and not used" exactly like the original would not: the original binds
				// the variables in the case scope too, so unused ones were already an error there
			}
		default:
			return nil, false
		}
		sw.Body.List = append(sw.Body.List, &ast.CaseClause{List: []ast.Expr{&ast.BasicLit{Kind: token.INT, Value: strconv.Itoa(idx)}}, Body: append(head, body...)})
		idx++
	}
	if !hasDefault {
		// keeps the statement terminating exactly when the original select was
		sw.Body.List = append(sw.Body.List, &ast.CaseClause{List: nil, Body: []ast.Stmt{&ast.ExprStmt{X: &ast.CallExpr{Fun: ast.NewIdent("panic"), Args: []ast.Expr{strLit("vrt: select chose no case")}}}}})
	}
	in.used = true
	var swStmt ast.Stmt = sw
	if label != nil {
		swStmt = &ast.LabeledStmt{Label: label, Stmt: sw}
	}
	return []ast.Stmt{&ast.BlockStmt{List: append(pre, swStmt)}}, true
}
