#!/usr/bin/env bash
# confirm_seed.sh <seed dir> <demo target dir in repo> <demo run regex> <pkg> [pkg...]
# Confirms a seeded change in a scratch copy: applies at /repo HEAD, builds, existing tests of the given
# packages pass, the demonstration fails with the change and passes without it.
set -u
SD="$1"; DDIR="$2"; RX="$3"; shift 3
export GOFLAGS=-mod=mod GOPROXY=off GOSUMDB=off GOTOOLCHAIN=local PATH=/root/go/pkg/mod/golang.org/toolchain@v0.0.1-go1.24.0.linux-amd64/bin:$PATH
S=/var/tmp/confirm-$$; rm -rf "$S"; cp -a /repo "$S"; cd "$S" && git checkout -q -- . 
git apply "$SD/patch.diff" || { echo "CONFIRM: patch does not apply"; rm -rf "$S"; exit 2; }
go build ./... 2>&1 | grep -v "warning\|duk_\|^#\|\^" | head -5
echo "--- existing tests with the change:"
go test -vet=off -count=1 "$@" 2>&1 | grep -v "no test files" | grep -a "^ok\|^FAIL\|^--- FAIL\|^panic" | tail -n 12
demo=$(ls "$SD"/demo*_test.go 2>/dev/null | head -1)
cp "$demo" "$DDIR/zz_seed_demo_test.go"
echo "--- demo WITH the change (must fail):"
go test -vet=off -count=1 -run "$RX" "./$DDIR/" 2>&1 | tail -n 6
git apply -R "$SD/patch.diff"
echo "--- demo WITHOUT the change (must pass):"
go test -vet=off -count=1 -run "$RX" "./$DDIR/" 2>&1 | tail -n 3
cd /; rm -rf "$S"
