//go:build verif

package accounts

import "reflect"

// VerifIndexBackend makes b discoverable through Backends(reflect.TypeOf(b)) without adding its
// wallets to the manager: the harness registers a recording backend that serves (wrapped) wallets of
// the real keystore, while code that type-asserts the concrete *keystore.KeyStore keeps working.
func (am *Manager) VerifIndexBackend(b Backend) {
	am.lock.Lock()
	defer am.lock.Unlock()
	kind := reflect.TypeOf(b)
	am.backends[kind] = append(am.backends[kind], b)
}
