//go:build verif

// Add-only exports for the C17 harness: the download queue's delivery functions (the place where
// block bodies and receipts sent by a peer are matched against the headers that commit to them).
// Nothing here changes behaviour; every function forwards to the unexported original.
package downloader

import (
	"math/big"

	"gitlab.com/aquachain/aquachain/common/log"
	"gitlab.com/aquachain/aquachain/core/types"
	"gitlab.com/aquachain/aquachain/params"
)

type VerifQueue struct {
	q *queue
	p *peerConnection
}

type VerifResult struct {
	Header       *types.Header
	Uncles       []*types.Header
	Transactions types.Transactions
	Receipts     types.Receipts
}

func VerifNewQueue(rule func(*big.Int) params.HeaderVersion, fast bool, from uint64) *VerifQueue {
	v := &VerifQueue{q: newQueue(rule), p: newPeerConnection("verif-peer", 64, nil, log.New())}
	mode := FullSync
	if fast {
		mode = FastSync
	}
	v.q.Prepare(from, mode)
	return v
}

func (v *VerifQueue) Schedule(headers []*types.Header, from uint64) int {
	return len(v.q.Schedule(headers, from))
}

// ReserveBodies returns the headers whose bodies were requested from the peer, in request order.
func (v *VerifQueue) ReserveBodies(n int) ([]*types.Header, error) {
	req, _, err := v.q.ReserveBodies(v.p, n)
	if req == nil {
		return nil, err
	}
	return append([]*types.Header(nil), req.Headers...), err
}

func (v *VerifQueue) ReserveReceipts(n int) ([]*types.Header, error) {
	req, _, err := v.q.ReserveReceipts(v.p, n)
	if req == nil {
		return nil, err
	}
	return append([]*types.Header(nil), req.Headers...), err
}

func (v *VerifQueue) DeliverBodies(txs [][]*types.Transaction, uncles [][]*types.Header) (int, error) {
	return v.q.DeliverBodies(v.p.id, txs, uncles)
}

func (v *VerifQueue) DeliverReceipts(rs [][]*types.Receipt) (int, error) {
	return v.q.DeliverReceipts(v.p.id, rs)
}

// Results returns the completed results the importer would be handed now (non-blocking).
func (v *VerifQueue) Results() []VerifResult {
	var out []VerifResult
	for _, r := range v.q.Results(false) {
		out = append(out, VerifResult{r.Header, r.Uncles, r.Transactions, r.Receipts})
	}
	return out
}
