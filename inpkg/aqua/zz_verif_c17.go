//go:build verif

// Add-only exports for the C17 harness. Nothing here changes behaviour; every function forwards to the
// unexported original or performs exactly the registration steps of ProtocolManager.handle.
package aqua

import (
	"math/big"
	"sync/atomic"

	"gitlab.com/aquachain/aquachain/common"
	"gitlab.com/aquachain/aquachain/p2p"
)

// VerifPeer wraps the unexported per-connection peer.
type VerifPeer struct{ p *peer }

func (pm *ProtocolManager) VerifNewPeer(version int, p *p2p.Peer, rw p2p.MsgReadWriter) *VerifPeer {
	return &VerifPeer{pm.newPeer(version, p, rw)}
}

// VerifHandshake is the status exchange at the start of handle().
func (pm *ProtocolManager) VerifHandshake(vp *VerifPeer) error {
	var (
		genesis = pm.blockchain.Genesis()
		head    = pm.blockchain.CurrentHeader()
		hash    = head.Hash()
		number  = head.Number.Uint64()
		td      = pm.blockchain.GetTd(hash, number)
	)
	return vp.p.Handshake(pm.networkId, td, hash, genesis.Hash())
}

// VerifRegister performs the registration steps of handle() (peer set, downloader).
func (pm *ProtocolManager) VerifRegister(vp *VerifPeer) error {
	if err := pm.peers.Register(vp.p); err != nil {
		return err
	}
	return pm.downloader.RegisterPeer(vp.p.id, vp.p.version, vp.p)
}

// VerifUnregister undoes VerifRegister without the network-level disconnect of removePeer.
func (pm *ProtocolManager) VerifUnregister(vp *VerifPeer) {
	pm.downloader.UnregisterPeer(vp.p.id)
	pm.peers.Unregister(vp.p.id)
}

func (pm *ProtocolManager) VerifRegistered(vp *VerifPeer) bool { return pm.peers.Peer(vp.p.id) != nil }

// VerifHandleMsg is handleMsg: read one message from the peer and process it.
func (pm *ProtocolManager) VerifHandleMsg(vp *VerifPeer) error { return pm.handleMsg(vp.p) }

func (pm *ProtocolManager) VerifSetAcceptTxs(on bool) {
	v := uint32(0)
	if on {
		v = 1
	}
	atomic.StoreUint32(&pm.acceptTxs, v)
}

func (pm *ProtocolManager) VerifSynchronising() bool { return pm.downloader.Synchronising() }

func (vp *VerifPeer) ID() string                    { return vp.p.id }
func (vp *VerifPeer) Head() (common.Hash, *big.Int) { return vp.p.Head() }
func (vp *VerifPeer) KnowsBlock(h common.Hash) bool { return vp.p.knownBlocks.Contains(h) }
func (vp *VerifPeer) KnowsTx(h common.Hash) bool    { return vp.p.knownTxs.Contains(h) }
