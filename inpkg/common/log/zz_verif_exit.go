//go:build verif

package log

// VerifCritExit is the sentinel panic that replaces os.Exit(1) in Crit under the "logexit" rewrite:
// the harness recovers it at the operation boundary and treats it as "the process died here".
type VerifCritExit struct{ Msg string }

// VerifCritPanics switches the sentinel on (off: Crit exits as usual).
var VerifCritPanics bool

func verifExit(msg string) {
	if VerifCritPanics {
		panic(VerifCritExit{Msg: msg})
	}
}
