//go:build verif

// Add-only exports for the C17 harness (network input is authenticated or rejected, never fatal).
// Nothing here changes behaviour; every function forwards to the unexported original.
package discover

import (
	"net"
	"time"
)

type (
	VerifConn      = conn
	VerifPing      = ping
	VerifPong      = pong
	VerifFindnode  = findnode
	VerifNeighbors = neighbors
	VerifEndpoint  = rpcEndpoint
	VerifRpcNode   = rpcNode
)

const (
	VerifHeadSize    = headSize
	VerifMacSize     = macSize
	VerifRespTimeout = respTimeout
	VerifBucketSize  = bucketSize
)

func VerifMaxNeighborsValue() int { return maxNeighbors }

// VerifDecodePacket is decodePacket. The packet is returned as an empty interface holding one of
// *VerifPing, *VerifPong, *VerifFindnode, *VerifNeighbors (or nil).
func VerifDecodePacket(netcompat bool, buf []byte) (interface{}, NodeID, []byte, error) {
	p, id, hash, err := decodePacket(netcompat, buf)
	if p == nil {
		return nil, id, hash, err
	}
	return p, id, hash, err
}

// VerifEncodePacket is encodePacket.
func VerifEncodePacket(netcompat bool, priv *PrivateKey, ptype byte, req interface{}) ([]byte, []byte, error) {
	return encodePacket(netcompat, priv, ptype, req)
}

// VerifUDP wraps the unexported transport together with its table.
type VerifUDP struct {
	u   *udp
	Tab *Table
}

// VerifNewUDP is newUDP (starts udp.loop, udp.readLoop and the table loop).
func VerifNewUDP(c VerifConn, cfg Config) (*VerifUDP, error) {
	tab, u, err := newUDP(c, cfg)
	if err != nil {
		return nil, err
	}
	return &VerifUDP{u: u, Tab: tab}, nil
}

func (v *VerifUDP) HandlePacket(from *net.UDPAddr, buf []byte) error {
	return v.u.handlePacket(from, buf)
}
func (v *VerifUDP) InitDone() <-chan struct{} { return v.Tab.initDone }
func (v *VerifUDP) Close()                    { v.Tab.Close() }
func (v *VerifUDP) Netcompat() bool           { return v.u.netcompat() }
func (v *VerifUDP) TableLen() int             { return v.Tab.len() }

// SetBond records a completed ping/pong exchange with id at time t (what a real bond does last).
func (v *VerifUDP) SetBond(id NodeID, t time.Time) error { return v.Tab.db.updateBondTime(id, t) }
func (v *VerifUDP) HasBond(id NodeID) bool               { return v.Tab.db.hasBond(id) }

// Ping / Findnode are the transport's own request functions (they register the pending reply).
func (v *VerifUDP) Ping(id NodeID, addr *net.UDPAddr) error { return v.u.ping(id, addr) }
func (v *VerifUDP) Findnode(id NodeID, addr *net.UDPAddr, target NodeID) ([]*Node, error) {
	return v.u.findnode(id, addr, target)
}
