//go:build verif

// Add-only exports for the C17 harness. Nothing here changes behaviour.
package p2p

import (
	"bytes"
	"crypto/ecdsa"
	"io"

	"gitlab.com/aquachain/aquachain/p2p/discover"
)

type (
	VerifSecrets = secrets
	VerifFrameRW = rlpxFrameRW
)

const (
	VerifEncAuthMsgLen  = encAuthMsgLen
	VerifEncAuthRespLen = encAuthRespLen
	VerifMaxUint24      = maxUint24
)

func VerifNewFrameRW(conn io.ReadWriter, s VerifSecrets, snappy bool) *VerifFrameRW {
	rw := newRLPXFrameRW(conn, s)
	rw.snappy = snappy
	return rw
}

func VerifInitiatorEncHandshake(conn io.ReadWriter, prv *ecdsa.PrivateKey, remoteID discover.NodeID) (VerifSecrets, error) {
	return initiatorEncHandshake(conn, prv, remoteID)
}

func VerifReceiverEncHandshake(conn io.ReadWriter, prv *ecdsa.PrivateKey) (VerifSecrets, error) {
	return receiverEncHandshake(conn, prv)
}

// VerifReadProtocolHandshake is readProtocolHandshake (first message after the key exchange).
func VerifReadProtocolHandshake(rw MsgReader) (id discover.NodeID, version uint64, err error) {
	hs, err := readProtocolHandshake(rw, nil)
	if err != nil {
		return id, 0, err
	}
	return hs.ID, hs.Version, nil
}

// ---- Peer.run over an in-memory message pipe (C17 part "peer") ----------------------------------------

type verifTransport struct{ *MsgPipeRW }

func (t verifTransport) doEncHandshake(prv *ecdsa.PrivateKey, dialDest *discover.Node) (discover.NodeID, error) {
	return discover.NodeID{}, nil
}
func (t verifTransport) doProtoHandshake(our *protoHandshake) (*protoHandshake, error) { return nil, nil }
func (t verifTransport) close(err error)                                               { t.MsgPipeRW.Close() }

// VerifRunPeer runs Peer.run for a peer whose connection is one end of a MsgPipe and which speaks the
// given protocols; it returns the remote end and a channel that receives run's error when it returns.
func VerifRunPeer(protos []Protocol) (remote *MsgPipeRW, done <-chan error) {
	local, rem := MsgPipe()
	c := &conn{transport: verifTransport{local}}
	for _, p := range protos {
		c.caps = append(c.caps, p.cap())
	}
	peer := newPeer(c, protos)
	errc := make(chan error, 1)
	go func() {
		_, err := peer.run()
		errc <- err
	}()
	return rem, errc
}

// VerifDiscMsg is the code of the devp2p disconnect message; VerifBaseProtocolLength the offset of
// the first sub-protocol's message codes.
const (
	VerifDiscMsg            = discMsg
	VerifBaseProtocolLength = baseProtocolLength
)

// VerifPeerHandle gives one base-protocol message to Peer.handle of a fresh peer without sub-protocols,
// on the caller's goroutine (so that the harness can recover a panic).
func VerifPeerHandle(code uint64, payload []byte) error {
	local, remote := MsgPipe()
	defer remote.Close()
	defer local.Close()
	p := newPeer(&conn{transport: verifTransport{local}}, nil)
	return p.handle(Msg{Code: code, Size: uint32(len(payload)), Payload: bytes.NewReader(payload)})
}

// VerifReadProtocolHandshakeMsg gives one message to readProtocolHandshake.
func VerifReadProtocolHandshakeMsg(code uint64, payload []byte) error {
	_, err := readProtocolHandshake(verifOneMsg{Msg{Code: code, Size: uint32(len(payload)), Payload: bytes.NewReader(payload)}}, nil)
	return err
}

type verifOneMsg struct{ m Msg }

func (o verifOneMsg) ReadMsg() (Msg, error) { return o.m, nil }
