//go:build verif

// Add-only exports for the C17 harness. Nothing here changes behaviour.
package p2p

import (
	"crypto/ecdsa"
	"io"

	"gitlab.com/aquachain/aquachain/p2p/discover"
)

type (
	VerifSecrets = secrets
	VerifFrameRW = rlpxFrameRW
)

const (
	VerifEncAuthMsgLen  = encAuthMsgLen
	VerifEncAuthRespLen = encAuthRespLen
	VerifMaxUint24      = maxUint24
)

func VerifNewFrameRW(conn io.ReadWriter, s VerifSecrets, snappy bool) *VerifFrameRW {
	rw := newRLPXFrameRW(conn, s)
	rw.snappy = snappy
	return rw
}

func VerifInitiatorEncHandshake(conn io.ReadWriter, prv *ecdsa.PrivateKey, remoteID discover.NodeID) (VerifSecrets, error) {
	return initiatorEncHandshake(conn, prv, remoteID)
}

func VerifReceiverEncHandshake(conn io.ReadWriter, prv *ecdsa.PrivateKey) (VerifSecrets, error) {
	return receiverEncHandshake(conn, prv)
}

// VerifReadProtocolHandshake is readProtocolHandshake (first message after the key exchange).
func VerifReadProtocolHandshake(rw MsgReader) (id discover.NodeID, version uint64, err error) {
	hs, err := readProtocolHandshake(rw, nil)
	if err != nil {
		return id, 0, err
	}
	return hs.ID, hs.Version, nil
}
