//go:build verif

package rpc

import (
	"reflect"
	"sort"
)

// VerifCallback describes one method the server's own reflection rule (suitableCallbacks) would
// expose for a receiver.
type VerifCallback struct {
	Name        string // wire name without namespace (formatName applied)
	GoName      string
	ArgTypes    []reflect.Type
	IsSubscribe bool
	HasCtx      bool
}

// VerifSuitableCallbacks applies the server's own rule to rcvr.
func VerifSuitableCallbacks(rcvr interface{}) []VerifCallback {
	v := reflect.ValueOf(rcvr)
	cbs, subs := suitableCallbacks(v, reflect.TypeOf(rcvr))
	var out []VerifCallback
	for n, c := range cbs {
		out = append(out, VerifCallback{Name: n, GoName: c.method.Name, ArgTypes: c.argTypes, HasCtx: c.hasCtx})
	}
	for n, c := range subs {
		out = append(out, VerifCallback{Name: n, GoName: c.method.Name, ArgTypes: c.argTypes, IsSubscribe: true, HasCtx: c.hasCtx})
	}
	sort.Slice(out, func(i, j int) bool {
		if out[i].Name != out[j].Name {
			return out[i].Name < out[j].Name
		}
		return !out[i].IsSubscribe && out[j].IsSubscribe
	})
	return out
}

// VerifRegistered lists what this server actually serves: "ns_method" and "ns_subscribe:method".
func (s *Server) VerifRegistered() []string {
	var out []string
	for ns, svc := range s.services {
		for m := range svc.callbacks {
			out = append(out, ns+"_"+m)
		}
		for m := range svc.subscriptions {
			out = append(out, ns+"_subscribe:"+m)
		}
	}
	sort.Strings(out)
	return out
}
