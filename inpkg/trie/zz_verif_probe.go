//go:build verif

package trie

// VerifLockIdle reports whether the trie database lock is free (deterministic: TryLock, no timeout).
func (db *Database) VerifLockIdle() bool {
	if db.lock.TryLock() {
		db.lock.Unlock()
		return true
	}
	return false
}
