//go:build verif

package node

import (
	"gitlab.com/aquachain/aquachain/aqua/accounts"
	"gitlab.com/aquachain/aquachain/rpc"
)

// VerifAPIs returns every API descriptor (namespace + service object) the running node handed to
// its RPC servers: the node's own APIs plus those of every registered service (C18 method universe).
func (n *Node) VerifAPIs() []rpc.API {
	n.lock.RLock()
	defer n.lock.RUnlock()
	return append([]rpc.API(nil), n.rpcAPIs...)
}

// VerifHandlers returns the per-transport RPC servers currently installed (nil when not running).
func (n *Node) VerifHandlers() map[string]*rpc.Server {
	n.lock.RLock()
	defer n.lock.RUnlock()
	return map[string]*rpc.Server{
		"inproc": n.inprocHandler, "ipc": n.ipcHandler, "http": n.httpHandler, "ws": n.wsHandler,
	}
}

// VerifListenAddrs returns the addresses the HTTP and WS listeners are actually bound to
// (the configured endpoints use port 0).
func (n *Node) VerifListenAddrs() (httpAddr, wsAddr string) {
	n.lock.RLock()
	defer n.lock.RUnlock()
	if n.httpListener != nil {
		httpAddr = n.httpListener.Addr().String()
	}
	if n.wsListener != nil {
		wsAddr = n.wsListener.Addr().String()
	}
	return
}

// VerifSetAccountManager replaces the account manager before Start (the services receive it through
// their ServiceContext). Used to interpose a recording wallet in front of the real keystore.
func (n *Node) VerifSetAccountManager(am *accounts.Manager) {
	n.lock.Lock()
	defer n.lock.Unlock()
	n.accman = am
}
