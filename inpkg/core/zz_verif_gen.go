//go:build verif

package core

import (
	"gitlab.com/aquachain/aquachain/common"
	"gitlab.com/aquachain/aquachain/core/types"
	"gitlab.com/aquachain/aquachain/core/vm"
)

// VerifAddTxWithChain is BlockGen.AddTx with a chain context, so that generated blocks may contain
// transactions whose execution reads ancestor hashes (BLOCKHASH). AddTx passes nil and panics there.
func (b *BlockGen) VerifAddTxWithChain(chain *BlockChain, tx *types.Transaction) {
	if b.gasPool == nil {
		b.SetCoinbase(common.Address{})
	}
	b.statedb.Prepare(tx.Hash(), common.Hash{}, len(b.txs))
	receipt, _, err := ApplyTransaction(b.config, chain, &b.header.Coinbase, b.gasPool, b.statedb, b.header, tx, &b.header.GasUsed, vm.Config{})
	if err != nil {
		panic(err)
	}
	b.txs = append(b.txs, tx)
	b.receipts = append(b.receipts, receipt)
}
