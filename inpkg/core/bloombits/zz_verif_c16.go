//go:build verif

package bloombits

import "errors"

// VerifBitset returns the rotated bit vector of bloom bit idx exactly like Bitset, but bounds idx by
// the number of bloom bits instead of by the section size. Generator.Bitset refuses idx >= section
// size, so for the small section sizes (8, 16) that check C16 enumerates it cannot hand out 2040 of
// the 2048 vectors that AddBloom has computed; this accessor reads them. (With section sizes >=
// 2048 the harness uses the real Bitset only.)
func (b *Generator) VerifBitset(idx uint) ([]byte, error) {
	if b.nextBit != b.sections {
		return nil, errors.New("bloom not fully generated yet")
	}
	if idx >= uint(len(b.blooms)) {
		return nil, errSectionOutOfBounds
	}
	return b.blooms[idx], nil
}
