//go:build verif

package core

import "gitlab.com/aquachain/aquachain/core/types"

// VerifReset is the tester's lockedReset: a synchronous head change.
func (pool *TxPool) VerifReset(oldHead, newHead *types.Header) { pool.lockedReset(oldHead, newHead) }
