//go:build verif

package core

import (
	"gitlab.com/aquachain/aquachain/common"
	"gitlab.com/aquachain/aquachain/core/types"
)

// VerifReset is the tester's lockedReset: a synchronous head change.
func (pool *TxPool) VerifReset(oldHead, newHead *types.Header) { pool.lockedReset(oldHead, newHead) }

// VerifIsLocal reports whether the pool treats addr as a local sender.
func (pool *TxPool) VerifIsLocal(addr common.Address) bool {
	pool.mu.RLock()
	defer pool.mu.RUnlock()
	return pool.locals.contains(addr)
}
