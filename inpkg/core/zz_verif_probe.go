//go:build verif

package core

// VerifLocksIdle returns the names of BlockChain locks that are not free (deterministic TryLock probe).
func (bc *BlockChain) VerifLocksIdle() []string {
	var busy []string
	if bc.mu.TryLock() {
		bc.mu.Unlock()
	} else {
		busy = append(busy, "BlockChain.mu")
	}
	if bc.chainmu.TryLock() {
		bc.chainmu.Unlock()
	} else {
		busy = append(busy, "BlockChain.chainmu")
	}
	if bc.procmu.TryLock() {
		bc.procmu.Unlock()
	} else {
		busy = append(busy, "BlockChain.procmu")
	}
	if !bc.stateCache.TrieDB().VerifLockIdle() {
		busy = append(busy, "trie.Database.lock")
	}
	return busy
}

// VerifResetLastWrite resets the package-level flush marker so that executions do not alias.
func VerifResetLastWrite() { lastWrite = 0 }
