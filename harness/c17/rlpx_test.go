package c17

// Part (b1): RLPx framing. Two real rlpxFrameRW instances keyed by a real encryption handshake of two
// fixed static keys; an independent reference framer (written from the RLPx specification) both
// cross-checks the wire bytes and produces correctly authenticated but malformed frames.

import (
	"bytes"
	"crypto/aes"
	"crypto/cipher"
	"encoding"
	"fmt"
	"hash"
	"io"
	"net"
	"sync"
	"time"

	"github.com/golang/snappy"
	"golang.org/x/crypto/sha3"

	"gitlab.com/aquachain/aquachain/p2p"
	"gitlab.com/aquachain/aquachain/p2p/discover"
	"gitlab.com/aquachain/aquachain/zzverif/ev"
	"gitlab.com/aquachain/aquachain/zzverif/ref/refrlp"
)

const maxU24 = 1<<24 - 1

// ---- session secrets from one real handshake, re-creatable any number of times ----------------------

type secTmpl struct {
	aes, mac          []byte
	iEgress, iIngress []byte // marshalled keccak states of the initiator side
	rEgress, rIngress []byte // ... of the receiver side
	iRemote, rRemote  discover.NodeID
}

func marshalHash(h hash.Hash) []byte {
	b, err := h.(encoding.BinaryMarshaler).MarshalBinary()
	if err != nil {
		ev.Broken("cannot marshal MAC state: %v", err)
	}
	return b
}

func restoreHash(state []byte) hash.Hash {
	h := sha3.NewLegacyKeccak256()
	if err := h.(encoding.BinaryUnmarshaler).UnmarshalBinary(state); err != nil {
		ev.Broken("cannot restore MAC state: %v", err)
	}
	return h
}

var (
	tmplOnce sync.Once
	tmplVal  *secTmpl
)

// sessionTemplate runs the real handshake (initiator keyAttacker -> receiver keyLocal) once over net.Pipe.
func sessionTemplate() *secTmpl {
	tmplOnce.Do(func() {
		c1, c2 := net.Pipe()
		type res struct {
			s   p2p.VerifSecrets
			err error
		}
		rc := make(chan res, 1)
		go func() {
			s, err := p2p.VerifReceiverEncHandshake(c2, keyLocal.ToECDSA())
			rc <- res{s, err}
		}()
		si, err := p2p.VerifInitiatorEncHandshake(c1, keyAttacker.ToECDSA(), locID)
		r := <-rc
		if err != nil || r.err != nil {
			ev.Broken("genuine handshake between two fixed keys failed: %v / %v", err, r.err)
		}
		if !bytes.Equal(si.AES, r.s.AES) || !bytes.Equal(si.MAC, r.s.MAC) {
			ev.Broken("genuine handshake produced different secrets on the two sides")
		}
		if si.RemoteID != locID || r.s.RemoteID != attID {
			ev.Broken("genuine handshake produced wrong remote identities")
		}
		tmplVal = &secTmpl{aes: si.AES, mac: si.MAC,
			iEgress: marshalHash(si.EgressMAC), iIngress: marshalHash(si.IngressMAC),
			rEgress: marshalHash(r.s.EgressMAC), rIngress: marshalHash(r.s.IngressMAC),
			iRemote: si.RemoteID, rRemote: r.s.RemoteID}
		c1.Close()
		c2.Close()
	})
	return tmplVal
}

func (t *secTmpl) initiator() p2p.VerifSecrets {
	return p2p.VerifSecrets{RemoteID: t.iRemote, AES: t.aes, MAC: t.mac, EgressMAC: restoreHash(t.iEgress), IngressMAC: restoreHash(t.iIngress)}
}
func (t *secTmpl) receiver() p2p.VerifSecrets {
	return p2p.VerifSecrets{RemoteID: t.rRemote, AES: t.aes, MAC: t.mac, EgressMAC: restoreHash(t.rEgress), IngressMAC: restoreHash(t.rIngress)}
}

// ---- reference framer (RLPx spec: header 16B enc + 16B MAC, frame padded to 16, 16B MAC) ------------

type refFramer struct {
	enc    cipher.Stream
	macc   cipher.Block
	egress hash.Hash
}

func newRefFramer(aesKey, macKey []byte, egress hash.Hash) *refFramer {
	b, err := aes.NewCipher(aesKey)
	if err != nil {
		ev.Broken("aes: %v", err)
	}
	m, err := aes.NewCipher(macKey)
	if err != nil {
		ev.Broken("aes: %v", err)
	}
	return &refFramer{enc: cipher.NewCTR(b, make([]byte, 16)), macc: m, egress: egress}
}

func (f *refFramer) updateMAC(seed []byte) []byte {
	buf := make([]byte, 16)
	f.macc.Encrypt(buf, f.egress.Sum(nil)[:16])
	for i := range buf {
		buf[i] ^= seed[i]
	}
	f.egress.Write(buf)
	return f.egress.Sum(nil)[:16]
}

// frame returns the wire bytes of one frame whose plaintext content (code || payload) is content and
// whose header announces size (normally len(content)).
func (f *refFramer) frame(content []byte, size int) []byte {
	head := make([]byte, 16)
	head[0], head[1], head[2] = byte(size>>16), byte(size>>8), byte(size)
	copy(head[3:], []byte{0xC2, 0x80, 0x80})
	f.enc.XORKeyStream(head, head)
	out := append([]byte{}, head...)
	out = append(out, f.updateMAC(head)...)
	body := append([]byte{}, content...)
	if p := len(body) % 16; p > 0 {
		body = append(body, make([]byte, 16-p)...)
	}
	f.enc.XORKeyStream(body, body)
	f.egress.Write(body)
	out = append(out, body...)
	seed := f.egress.Sum(nil)
	out = append(out, f.updateMAC(seed)...)
	return out
}

func encCode(code uint64) []byte { return refrlp.Encode(refrlp.Uint(code)) }

// ---- payload patterns ----------------------------------------------------------------------------------

var (
	patMu    sync.Mutex
	patCache = map[[2]int][]byte{}
)

// pattern 0: incompressible (fixed xorshift stream), pattern 1: highly compressible
func pattern(size, pat int) []byte {
	if size >= 1<<20 {
		patMu.Lock()
		defer patMu.Unlock()
		if b, ok := patCache[[2]int{size, pat}]; ok {
			return b
		}
	}
	b := make([]byte, size)
	if pat == 0 {
		x := uint64(0x9E3779B97F4A7C15)
		for i := 0; i+8 <= size; i += 8 {
			x ^= x << 13
			x ^= x >> 7
			x ^= x << 17
			b[i], b[i+1], b[i+2], b[i+3], b[i+4], b[i+5], b[i+6], b[i+7] = byte(x), byte(x>>8), byte(x>>16), byte(x>>24), byte(x>>32), byte(x>>40), byte(x>>48), byte(x>>56)
		}
		for i := size &^ 7; i < size; i++ {
			b[i] = byte(i*131 + 7)
		}
	} else {
		for i := range b {
			b[i] = byte(i >> 12)
		}
	}
	if size >= 1<<20 {
		patCache[[2]int{size, pat}] = b
	}
	return b
}

// ---- round trips -----------------------------------------------------------------------------------------

type rtMsg struct {
	Code uint64 `json:"code"`
	Size int    `json:"size"`
	Pat  int    `json:"pat"`
}

func rlpxFinding(scenario, oracle, id string, detail map[string]interface{}) finding {
	detail["part"] = "rlpx"
	return finding{scenario, oracle, id, detail}
}

func sizeClass(n int) string {
	switch {
	case n >= 1<<24:
		return "over"
	case n >= 1<<23:
		return "max"
	default:
		return fmt.Sprint(n)
	}
}

// evalRoundTrip writes seq through a real writer and reads it back through a real reader.
func evalRoundTrip(seq []rtMsg, useSnappy bool) (fs []finding, classes []string) {
	fs, classes = evalRoundTripMode(seq, useSnappy, false)
	if len(fs) == 0 && len(seq) >= 2 {
		f2, _ := evalRoundTripMode(seq, useSnappy, true)
		fs = append(fs, f2...)
	}
	return fs, classes
}

// posPattern is the payload of the message at position i of a sequence (position-dependent first byte).
func posPattern(m rtMsg, i int) []byte {
	b := pattern(m.Size, m.Pat)
	if m.Size > 0 && m.Size < 1<<20 {
		b = append([]byte(nil), b...)
		b[0] ^= byte(0x5a + i)
	}
	return b
}

func evalRoundTripMode(seq []rtMsg, useSnappy, hold bool) (fs []finding, classes []string) {
	t := sessionTemplate()
	conn := new(bytes.Buffer)
	w := p2p.VerifNewFrameRW(conn, t.initiator(), useSnappy)
	r := p2p.VerifNewFrameRW(conn, t.receiver(), useSnappy)
	rs := t.initiator()
	ref := newRefFramer(rs.AES, rs.MAC, rs.EgressMAC)
	detail := func() map[string]interface{} {
		return map[string]interface{}{"kind": "roundtrip", "seq": seq, "snappy": useSnappy}
	}
	id := fmt.Sprintf("snappy=%v", useSnappy)
	classes = append(classes, fmt.Sprintf("rlpx/roundtrip/%s/len=%d", id, len(seq)))
	defer func() {
		if x := recover(); x != nil {
			fs = append(fs, rlpxFinding("rlpx-roundtrip", "no-panic", id+"/"+panicSite()+"/"+normPanic(x), detail()))
		}
	}()
	var sent []rtMsg
	var sentPos []int
	for mi, m := range seq {
		payload := posPattern(m, mi)
		before := conn.Len()
		err := w.WriteMsg(p2p.Msg{Code: m.Code, Size: uint32(m.Size), Payload: bytes.NewReader(payload)})
		code := encCode(m.Code)
		content := payload
		wantOK := true
		if useSnappy {
			if m.Size > maxU24 {
				wantOK = false
			} else {
				content = snappy.Encode(nil, payload)
			}
		}
		if wantOK && len(code)+len(content) > maxU24 {
			wantOK = false
		}
		classes = append(classes, fmt.Sprintf("rlpx/roundtrip/%s/msg/codelen=%d/size=%s/pat=%d/written=%v", id, len(code), sizeClass(m.Size), m.Pat, err == nil))
		if (err == nil) != wantOK {
			fs = append(fs, rlpxFinding("rlpx-roundtrip", "oversize-refused-fitting-accepted", fmt.Sprintf("%s/write-ok=%v-want=%v", id, err == nil, wantOK), detail()))
			return fs, classes
		}
		if err != nil {
			if conn.Len() != before {
				fs = append(fs, rlpxFinding("rlpx-roundtrip", "refused-message-leaves-no-bytes", id, detail()))
				return fs, classes
			}
			continue
		}
		wire := conn.Bytes()[before:]
		if want := ref.frame(append(append([]byte{}, code...), content...), len(code)+len(content)); !bytes.Equal(wire, want) {
			fs = append(fs, rlpxFinding("rlpx-roundtrip", "wire-format-equals-reference-framing", id, detail()))
			return fs, classes
		}
		sent = append(sent, m)
		sentPos = append(sentPos, mi)
	}
	// Two consumption disciplines: each message consumed before the next is read, and - what
	// Peer.readLoop does, handing a message to the protocol goroutine while it already reads the next
	// frame - every message of the sequence read first and the payloads consumed afterwards. In the
	// second discipline later messages must not disturb the payload of an earlier one, so the bytes of
	// every message are made position-dependent by flipping its first byte.
	if hold {
		var gots []p2p.Msg
		for range sent {
			got, err := r.ReadMsg()
			if err != nil {
				fs = append(fs, rlpxFinding("rlpx-roundtrip", "written-equals-read", fmt.Sprintf("%s/read-error", id), detail()))
				return fs, classes
			}
			gots = append(gots, got)
		}
		for i, m := range sent {
			body, _ := io.ReadAll(gots[i].Payload)
			if gots[i].Code != m.Code || int(gots[i].Size) != m.Size || !bytes.Equal(body, posPattern(m, sentPos[i])) {
				fs = append(fs, rlpxFinding("rlpx-roundtrip", "written-equals-read", fmt.Sprintf("%s/message-%d-differs-when-consumed-after-later-reads", id, i), detail()))
				return fs, classes
			}
		}
	} else {
		for i, m := range sent {
			got, err := r.ReadMsg()
			if err != nil {
				fs = append(fs, rlpxFinding("rlpx-roundtrip", "written-equals-read", fmt.Sprintf("%s/read-error", id), detail()))
				return fs, classes
			}
			body, _ := io.ReadAll(got.Payload)
			if got.Code != m.Code || int(got.Size) != m.Size || !bytes.Equal(body, posPattern(m, sentPos[i])) {
				fs = append(fs, rlpxFinding("rlpx-roundtrip", "written-equals-read", fmt.Sprintf("%s/message-%d-differs", id, i), detail()))
				return fs, classes
			}
		}
	}
	if conn.Len() != 0 {
		fs = append(fs, rlpxFinding("rlpx-roundtrip", "written-equals-read", id+"/bytes-left-on-the-wire", detail()))
	}
	return fs, classes
}

var (
	rtCodes  = []uint64{0, 1, 16, 0x7f, 0x80, 0xffff}
	rtSmall  = []int{0, 1, 15, 16, 17, 55, 56, 1024}
	syncMark = rtMsg{0x10, 17, 0}
)

func codeLen(c uint64) int { return len(encCode(c)) }

// rtSequences enumerates the message sequences of the round-trip lattice.
func rtSequences(thorough bool) [][]rtMsg {
	var kinds []rtMsg
	for _, c := range rtCodes {
		for _, s := range rtSmall {
			kinds = append(kinds, rtMsg{c, s, 0})
		}
	}
	var seqs [][]rtMsg
	for _, a := range kinds {
		seqs = append(seqs, []rtMsg{a})
		for _, b := range kinds {
			seqs = append(seqs, []rtMsg{a, b})
		}
	}
	third := kinds
	if !thorough { // quick: length-3 sequences over a sub-lattice (codes of each encoded length, sizes around the padding boundary)
		third = nil
		for _, c := range []uint64{0, 0x80, 0xffff} {
			for _, s := range []int{0, 16, 17, 1024} {
				third = append(third, rtMsg{c, s, 0})
			}
		}
	}
	for _, a := range third {
		for _, b := range third {
			for _, c := range third {
				seqs = append(seqs, []rtMsg{a, b, c})
			}
		}
	}
	// sizes at the 24-bit limit: alone and between two small messages (the stream must stay in step
	// after a maximal or a refused message)
	codes := rtCodes
	if !thorough {
		codes = []uint64{0, 0xffff} // shortest and longest code encoding
	}
	for _, c := range codes {
		for _, s := range []int{maxU24 - codeLen(c), maxU24 - codeLen(c) + 1, 1 << 24} {
			for pat := 0; pat < 2; pat++ {
				if thorough {
					seqs = append(seqs, []rtMsg{{c, s, pat}})
				}
				seqs = append(seqs, []rtMsg{syncMark, {c, s, pat}, syncMark})
			}
		}
	}
	return seqs
}

// ---- tampering with an established stream ----------------------------------------------------------------

var tamperMsgs = []rtMsg{{0x10, 17, 0}, {0x80, 56, 1}, {1, 0, 0}}

type tamperBase struct {
	wire []byte
	ends []int // end offset of each frame
}

var (
	tamperOnce [2]sync.Once
	tamperVal  [2]*tamperBase
)

func tamperStream(useSnappy bool) *tamperBase {
	i := 0
	if useSnappy {
		i = 1
	}
	tamperOnce[i].Do(func() {
		t := sessionTemplate()
		conn := new(bytes.Buffer)
		w := p2p.VerifNewFrameRW(conn, t.initiator(), useSnappy)
		b := &tamperBase{}
		for _, m := range tamperMsgs {
			if err := w.WriteMsg(p2p.Msg{Code: m.Code, Size: uint32(m.Size), Payload: bytes.NewReader(pattern(m.Size, m.Pat))}); err != nil {
				ev.Broken("cannot write the base stream: %v", err)
			}
			b.ends = append(b.ends, conn.Len())
		}
		b.wire = append([]byte{}, conn.Bytes()...)
		tamperVal[i] = b
	})
	return tamperVal[i]
}

type tamperCase struct {
	Snappy bool   `json:"snappy"`
	Kind   string `json:"kind"` // alt, drop, dup, trunc, intact
	Pos    int    `json:"pos"`
	Mask   int    `json:"mask"`
}

func (c tamperCase) apply(w []byte) []byte {
	switch c.Kind {
	case "alt":
		o := append([]byte{}, w...)
		o[c.Pos] ^= byte(c.Mask)
		return o
	case "drop":
		return append(append([]byte{}, w[:c.Pos]...), w[c.Pos+1:]...)
	case "dup":
		o := append([]byte{}, w[:c.Pos+1]...)
		o = append(o, w[c.Pos])
		return append(o, w[c.Pos+1:]...)
	case "trunc":
		return append([]byte{}, w[:c.Pos]...)
	}
	return append([]byte{}, w...)
}

func evalTamper(c tamperCase) (fs []finding, class string) {
	base := tamperStream(c.Snappy)
	w2 := c.apply(base.wire)
	common := 0
	for common < len(w2) && common < len(base.wire) && w2[common] == base.wire[common] {
		common++
	}
	affected := len(base.ends) // index of the first frame that is not received byte for byte
	for k, e := range base.ends {
		if e > common {
			affected = k
			break
		}
	}
	id := fmt.Sprintf("snappy=%v/%s", c.Snappy, c.Kind)
	detail := func() map[string]interface{} {
		return map[string]interface{}{"kind": "tamper", "case": c, "stream_hex": hx(w2), "affected_frame": affected}
	}
	defer func() {
		if x := recover(); x != nil {
			fs = append(fs, rlpxFinding("rlpx-tamper", "no-panic", id+"/"+panicSite()+"/"+normPanic(x), detail()))
		}
	}()
	r := p2p.VerifNewFrameRW(bytes.NewBuffer(w2), sessionTemplate().receiver(), c.Snappy)
	delivered := 0
	var rerr error
	for k := 0; k < len(tamperMsgs)+1; k++ {
		m, err := r.ReadMsg()
		if err != nil {
			rerr = err
			break
		}
		if k >= len(tamperMsgs) {
			fs = append(fs, rlpxFinding("rlpx-tamper", "only-written-messages-delivered", id+"/extra-message", detail()))
			return fs, "rlpx/tamper/" + id + "/extra"
		}
		body, _ := io.ReadAll(m.Payload)
		want := tamperMsgs[k]
		if m.Code != want.Code || int(m.Size) != want.Size || !bytes.Equal(body, pattern(want.Size, want.Pat)) {
			fs = append(fs, rlpxFinding("rlpx-tamper", "only-written-messages-delivered", fmt.Sprintf("%s/frame-%d-delivered-altered", id, k), detail()))
			return fs, "rlpx/tamper/" + id + "/altered"
		}
		delivered++
	}
	if delivered > affected {
		fs = append(fs, rlpxFinding("rlpx-tamper", "alteration-detected-at-the-affected-frame", fmt.Sprintf("%s/frame-%d-accepted", id, affected), detail()))
	}
	if delivered < affected {
		fs = append(fs, rlpxFinding("rlpx-tamper", "frames-before-the-alteration-delivered", fmt.Sprintf("%s/frame-%d-lost", id, delivered), detail()))
	}
	region := "none"
	if affected < len(base.ends) {
		start := 0
		if affected > 0 {
			start = base.ends[affected-1]
		}
		switch off := common - start; {
		case off < 16:
			region = "header"
		case off < 32:
			region = "header-mac"
		case common >= base.ends[affected]-16:
			region = "frame-mac"
		default:
			region = "frame-body"
		}
	}
	return fs, fmt.Sprintf("rlpx/tamper/%s/frame%d/%s/%s", id, affected, region, errClass(rerr))
}

func tamperCases(thorough bool) []tamperCase {
	var cs []tamperCase
	masks := []int{0x01, 0x80, 0xff}
	if thorough {
		masks = discMasks(true)
	}
	for _, sn := range []bool{false, true} {
		n := len(tamperStream(sn).wire)
		cs = append(cs, tamperCase{sn, "intact", 0, 0})
		for p := 0; p < n; p++ {
			for _, m := range masks {
				cs = append(cs, tamperCase{sn, "alt", p, m})
			}
			cs = append(cs, tamperCase{sn, "drop", p, 0}, tamperCase{sn, "dup", p, 0}, tamperCase{sn, "trunc", p, 0})
		}
	}
	return cs
}

// ---- correctly authenticated but malformed frames --------------------------------------------------------

type craftCase struct {
	Snappy  bool   `json:"snappy"`
	Name    string `json:"name"`
	Content []byte `json:"-"`
	Hex     string `json:"content_hex"`
	Size    int    `json:"size"` // size announced in the header
	Want    int    `json:"want"` // 1 must be delivered, 0 must be refused, -1 either
}

func uvarint(v uint64) []byte {
	var b []byte
	for v >= 0x80 {
		b = append(b, byte(v)|0x80)
		v >>= 7
	}
	return append(b, byte(v))
}

func realSnappy(n int) []byte {
	return append([]byte{0x01}, snappy.Encode(nil, pattern(n, 1))...)
}

func shortHex(b []byte) string {
	if len(b) > 4096 {
		return ""
	}
	return hx(b)
}

func craftCases(thorough bool) []craftCase {
	var cs []craftCase
	add := func(sn bool, name string, content []byte, want int) {
		cs = append(cs, craftCase{sn, name, content, shortHex(content), len(content), want})
	}
	for _, sn := range []bool{false, true} {
		okPayload := []byte{}
		if sn {
			okPayload = snappy.Encode(nil, nil)
		}
		add(sn, "empty-frame", nil, 0)
		add(sn, "code-only", append([]byte{0x80}, okPayload...), 1)
		add(sn, "code-leading-zero", append([]byte{0x00}, okPayload...), 0)
		add(sn, "code-noncanonical-81", append([]byte{0x81, 0x05}, okPayload...), 0)
		add(sn, "code-is-list", append([]byte{0xc0}, okPayload...), 0)
		add(sn, "code-uint64-max", append([]byte{0x88, 0xff, 0xff, 0xff, 0xff, 0xff, 0xff, 0xff, 0xff}, okPayload...), 1)
		add(sn, "code-9-bytes", append([]byte{0x89, 1, 0, 0, 0, 0, 0, 0, 0, 0}, okPayload...), 0)
		add(sn, "code-truncated", []byte{0x82, 0x01}, 0)
		add(sn, "code-long-form", []byte{0xb8, 0x01, 0x05}, 0)
		// a header that announces fewer bytes than the padded body carries is still one frame
		cs = append(cs, craftCase{sn, "size-smaller-than-body", append([]byte{0x80}, make([]byte, 15)...), hx(append([]byte{0x80}, make([]byte, 15)...)), 1, map[bool]int{false: 1, true: 0}[sn]})
	}
	// snappy payloads
	for _, declared := range []uint64{0, 1, 100, maxU24, maxU24 + 1, 1 << 31, 1<<32 - 1, 1 << 40} {
		want := 0
		if declared == 0 {
			want = 1
		}
		add(true, fmt.Sprintf("snappy-declares-%d-without-body", declared), append([]byte{0x01}, uvarint(declared)...), want)
	}
	// bodies that really decompress to the limit and to one byte more (compressible pattern, ~0.8 MiB on the wire)
	add(true, "snappy-real-16777215", realSnappy(maxU24), 1)
	add(true, "snappy-real-16777216", realSnappy(maxU24+1), 0)
	add(true, "snappy-empty", []byte{0x01}, 0)
	add(true, "snappy-truncated-body", append([]byte{0x01}, snappy.Encode(nil, pattern(200, 0))[:50]...), 0)
	add(true, "snappy-copy-before-start", []byte{0x01, 0x04, 0x0d, 0x01}, -1) // copy element with nothing produced yet
	// every byte string of length <= 2 (thorough) / <= 1 (quick) as a compressed payload
	for a := 0; a < 256; a++ {
		add(true, "snappy-short-1", []byte{0x01, byte(a)}, -1)
		if thorough {
			for b := 0; b < 256; b++ {
				add(true, "snappy-short-2", []byte{0x01, byte(a), byte(b)}, -1)
			}
		}
	}
	return cs
}

func evalCraft(c craftCase) (fs []finding, class string, msgSize int) {
	t := sessionTemplate()
	is := t.initiator()
	wire := newRefFramer(is.AES, is.MAC, is.EgressMAC).frame(c.Content, c.Size)
	id := fmt.Sprintf("snappy=%v/%s", c.Snappy, c.Name)
	detail := func() map[string]interface{} {
		return map[string]interface{}{"kind": "craft", "case": c, "content_hex": shortHex(c.Content), "wire_hex": shortHex(wire)}
	}
	defer func() {
		if x := recover(); x != nil {
			fs = append(fs, rlpxFinding("rlpx-frame", "no-panic", id+"/"+panicSite()+"/"+normPanic(x), detail()))
			class = "rlpx/craft/" + id + "/panic"
		}
	}()
	r := p2p.VerifNewFrameRW(bytes.NewBuffer(wire), t.receiver(), c.Snappy)
	m, err := r.ReadMsg()
	if err == nil {
		body, rerr := io.ReadAll(m.Payload)
		if rerr != nil || len(body) != int(m.Size) || m.Size > maxU24 {
			fs = append(fs, rlpxFinding("rlpx-frame", "delivered-size-is-true-and-bounded", id, detail()))
		}
		msgSize = int(m.Size)
	}
	if (c.Want == 1 && err != nil) || (c.Want == 0 && err == nil) {
		fs = append(fs, rlpxFinding("rlpx-frame", "malformed-frame-refused-wellformed-delivered", fmt.Sprintf("%s/delivered=%v", id, err == nil), detail()))
	}
	return fs, "rlpx/craft/" + id + "/" + errClass(err), msgSize
}

// ---- allocation pass (sequential) -----------------------------------------------------------------------

// Reading one frame may allocate a constant, a multiple of the frame on the wire, and - with snappy - the
// declared decompressed size, which the protocol caps at 2^24-1.
const rlpxAllocConst = 1 << 20

func rlpxAllocBound(wireLen int, useSnappy bool) uint64 {
	b := uint64(rlpxAllocConst + 8*wireLen)
	if useSnappy {
		b += 2 << 24
	}
	return b
}

func rlpxAllocPass(run *ev.Run) {
	t := sessionTemplate()
	var maxSeen uint64
	n := 0
	check := func(c craftCase) {
		is := t.initiator()
		wire := newRefFramer(is.AES, is.MAC, is.EgressMAC).frame(c.Content, c.Size)
		measure := func() uint64 {
			r := p2p.VerifNewFrameRW(bytes.NewBuffer(wire), t.receiver(), c.Snappy)
			b, _ := allocDelta(func() {
				defer func() { recover() }()
				r.ReadMsg()
			})
			return b
		}
		b := measure()
		n++
		if b > maxSeen {
			maxSeen = b
		}
		if b > rlpxAllocBound(len(wire), c.Snappy) {
			again := 0
			for i := 0; i < 3; i++ {
				if measure() > rlpxAllocBound(len(wire), c.Snappy) {
					again++
				}
			}
			if again == 3 {
				f := rlpxFinding("rlpx-frame", "allocation-bounded", fmt.Sprintf("snappy=%v/%s", c.Snappy, c.Name), map[string]interface{}{"kind": "craft-alloc", "case": c, "content_hex": shortHex(c.Content), "bytes": b})
				run.Violate(ev.Violation{Scenario: f.Scenario, Oracle: f.Oracle, CaseID: f.CaseID, Detail: f.Detail})
			}
		}
	}
	for _, c := range craftCases(false) {
		check(c)
	}
	run.Set("rlpx_alloc_cases", n)
	run.Set("rlpx_alloc_max_bytes_per_read", maxSeen)
	run.Set("rlpx_alloc_bound", "1MiB + 8*len(wire) [+ 2*2^24 with snappy]")
}

// ---- driver ------------------------------------------------------------------------------------------------

type findingSink struct {
	mu    sync.Mutex
	first map[string]finding
	re    map[string]func() []finding // re-evaluation of the case that produced the finding
}

func newSink() *findingSink {
	return &findingSink{first: map[string]finding{}, re: map[string]func() []finding{}}
}

func (s *findingSink) add(fs []finding, re func() []finding) {
	if len(fs) == 0 {
		return
	}
	s.mu.Lock()
	for _, f := range fs {
		if _, ok := s.first[f.sig()]; !ok {
			s.first[f.sig()] = f
			s.re[f.sig()] = re
		}
	}
	s.mu.Unlock()
}

// flush re-evaluates each candidate three times and reports it when the verdict is stable.
func (s *findingSink) flush(run *ev.Run) {
	for sig, f := range s.first {
		hits := 0
		for i := 0; i < 3; i++ {
			for _, g := range s.re[sig]() {
				if g.sig() == sig {
					hits++
					break
				}
			}
		}
		if hits != 3 {
			ev.Broken("verdict not deterministic (%d/3): %s", hits, sig)
		}
		run.Violate(ev.Violation{Scenario: f.Scenario, Oracle: f.Oracle, CaseID: f.CaseID, Detail: f.Detail})
	}
}

func runRLPx(run *ev.Run, deadline time.Time) {
	thorough := run.Thorough()
	sink := newSink()
	cs := newClassSet()
	var cut bool
	var cutMu sync.Mutex
	late := func() bool {
		if time.Now().After(deadline) {
			cutMu.Lock()
			cut = true
			cutMu.Unlock()
			return true
		}
		return false
	}

	seqs := rtSequences(thorough)
	type job struct {
		seq []rtMsg
		sn  bool
	}
	var small, big []job
	for _, s := range seqs {
		isBig := false
		for _, m := range s {
			if m.Size > 1<<20 {
				isBig = true
			}
		}
		for _, sn := range []bool{false, true} {
			if isBig {
				big = append(big, job{s, sn})
			} else {
				small = append(small, job{s, sn})
			}
		}
	}
	const batch = 256
	ev.ParallelFor((len(small)+batch-1)/batch, func(i int) {
		if late() {
			return
		}
		hi := (i + 1) * batch
		if hi > len(small) {
			hi = len(small)
		}
		for _, j := range small[i*batch : hi] {
			j := j
			fs, classes := evalRoundTrip(j.seq, j.sn)
			for _, c := range classes {
				cs.add(c)
			}
			sink.add(fs, func() []finding { f, _ := evalRoundTrip(j.seq, j.sn); return f })
		}
		run.Eval(hi - i*batch)
		run.Add("rlpx_roundtrip_sequences", int64(hi-i*batch))
	})
	// 16 MiB messages: a few at a time (memory), not one per core
	bigJobs := 6
	sem := make(chan struct{}, bigJobs)
	ev.ParallelFor(len(big), func(i int) {
		if late() {
			return
		}
		sem <- struct{}{}
		defer func() { <-sem }()
		j := big[i]
		fs, classes := evalRoundTrip(j.seq, j.sn)
		for _, c := range classes {
			cs.add(c)
		}
		sink.add(fs, func() []finding { f, _ := evalRoundTrip(j.seq, j.sn); return f })
		run.Eval(1)
		run.Add("rlpx_roundtrip_sequences_16MiB", 1)
	})

	tcs := tamperCases(thorough)
	ev.ParallelFor((len(tcs)+batch-1)/batch, func(i int) {
		if late() {
			return
		}
		hi := (i + 1) * batch
		if hi > len(tcs) {
			hi = len(tcs)
		}
		for _, c := range tcs[i*batch : hi] {
			c := c
			fs, class := evalTamper(c)
			cs.add(class)
			if i == 1 && c == tcs[i*batch] {
				run.Sample(map[string]interface{}{"part": "rlpx", "case": c, "class": class})
			}
			sink.add(fs, func() []finding { f, _ := evalTamper(c); return f })
		}
		run.Eval(hi - i*batch)
		run.Add("rlpx_tampered_streams", int64(hi-i*batch))
	})

	ccs := craftCases(thorough)
	ev.ParallelFor((len(ccs)+batch-1)/batch, func(i int) {
		if late() {
			return
		}
		hi := (i + 1) * batch
		if hi > len(ccs) {
			hi = len(ccs)
		}
		for _, c := range ccs[i*batch : hi] {
			c := c
			fs, class, _ := evalCraft(c)
			cs.add(class)
			sink.add(fs, func() []finding { f, _, _ := evalCraft(c); return f })
		}
		run.Eval(hi - i*batch)
		run.Add("rlpx_crafted_frames", int64(hi-i*batch))
	})
	if cut {
		run.Cap("RLPx frame enumeration cut by the deadline")
	}
	run.Classes(cs.keys())
	sink.flush(run)
}

func replayRLPx(t interface{}, run *ev.Run, d *ev.ReplayDoc) {
	run.Eval(1)
	run.Class("replay")
	run.Class("replay/rlpx/" + dStr(d.Detail, "kind"))
	sig := d.Scenario + "/" + d.Oracle + "/" + d.CaseID
	var fs []finding
	switch dStr(d.Detail, "kind") {
	case "roundtrip":
		var seq []rtMsg
		for _, x := range d.Detail["seq"].([]interface{}) {
			m := x.(map[string]interface{})
			seq = append(seq, rtMsg{uint64(dInt(m, "code")), dInt(m, "size"), dInt(m, "pat")})
		}
		fs, _ = evalRoundTrip(seq, dBool(d.Detail, "snappy"))
	case "tamper":
		m := d.Detail["case"].(map[string]interface{})
		fs, _ = evalTamper(tamperCase{dBool(m, "snappy"), dStr(m, "kind"), dInt(m, "pos"), dInt(m, "mask")})
	case "craft", "craft-alloc":
		m := d.Detail["case"].(map[string]interface{})
		c := craftCase{Snappy: dBool(m, "snappy"), Name: dStr(m, "name"), Content: unhex(dStr(d.Detail, "content_hex")), Size: dInt(m, "size"), Want: dInt(m, "want")}
		switch c.Name { // contents too long for the replay file are regenerated
		case "snappy-real-16777215":
			c.Content = realSnappy(maxU24)
		case "snappy-real-16777216":
			c.Content = realSnappy(maxU24 + 1)
		}
		if dStr(d.Detail, "kind") == "craft-alloc" {
			t := sessionTemplate()
			is := t.initiator()
			wire := newRefFramer(is.AES, is.MAC, is.EgressMAC).frame(c.Content, c.Size)
			r := p2p.VerifNewFrameRW(bytes.NewBuffer(wire), t.receiver(), c.Snappy)
			b, _ := allocDelta(func() {
				defer func() { recover() }()
				r.ReadMsg()
			})
			if b > rlpxAllocBound(len(wire), c.Snappy) {
				run.Violate(ev.Violation{Scenario: d.Scenario, Oracle: d.Oracle, CaseID: d.CaseID, Detail: d.Detail})
			}
			return
		}
		fs, _, _ = evalCraft(c)
	default:
		ev.Broken("unknown rlpx replay kind")
	}
	for _, f := range fs {
		if f.sig() == sig {
			run.Violate(ev.Violation{Scenario: d.Scenario, Oracle: d.Oracle, CaseID: d.CaseID, Detail: d.Detail})
			return
		}
	}
}
