package c17

// Part (f): "no input wedges the connection handler" for the peer's run loop. The remote side stops
// reading while a sub-protocol handler of ours is in the middle of a write, and then sends a valid
// disconnect message (or simply closes). Peer.run must return and every handler must be released;
// a handler that stays blocked keeps the peer slot occupied for ever. The run is free (real
// goroutines over the in-memory message pipe); the only wall-clock quantity is the safety bound after
// which a run that has not returned is called wedged (30 s; it returns within milliseconds).

import (
	"fmt"
	"time"

	"gitlab.com/aquachain/aquachain/p2p"
	"gitlab.com/aquachain/aquachain/zzverif/ev"
)

func peerWedgeOnce(how string) (wedged bool, detail string) {
	started := make(chan struct{})
	handlerDone := make(chan error, 1)
	proto := p2p.Protocol{Name: "vrf", Version: 1, Length: 4, Run: func(peer *p2p.Peer, rw p2p.MsgReadWriter) error {
		close(started)
		err := p2p.Send(rw, 1, make([]byte, 64*1024)) // nobody reads on the other side: the write stays in flight
		handlerDone <- err
		return err
	}}
	remote, done := p2p.VerifRunPeer([]p2p.Protocol{proto})
	select {
	case <-started:
	case <-time.After(30 * time.Second):
		remote.Close()
		return false, "handler never started" // not the scenario; nothing can be said
	}
	time.Sleep(50 * time.Millisecond) // let the handler reach the pipe write (not an oracle: too early only degenerates the scenario)
	switch how {
	case "disconnect-message":
		go p2p.SendItems(remote, p2p.VerifDiscMsg, uint(8)) // DiscQuitting
	case "close":
		remote.Close()
	}
	select {
	case <-done:
	case <-time.After(30 * time.Second):
		remote.Close()
		return true, "Peer.run has not returned 30 s after the remote side's " + how
	}
	select {
	case <-handlerDone:
	case <-time.After(30 * time.Second):
		return true, "the protocol handler is still blocked in its write 30 s after Peer.run returned"
	}
	remote.Close()
	return false, ""
}

func runPeerWedge(run *ev.Run) {
	n := 0
	for _, how := range []string{"disconnect-message", "close"} {
		for rep := 0; rep < 3; rep++ {
			n++
			wedged, detail := peerWedgeOnce(how)
			if !wedged {
				run.Class("peer/" + how + "/returned")
				continue
			}
			if again, _ := peerWedgeOnce(how); !again {
				ev.Broken("peer part: wedge not reproduced on a second run (%s)", detail)
			}
			run.Violate(ev.Violation{Scenario: "peer-run", Oracle: "disconnect-during-write-does-not-wedge", CaseID: how,
				Detail: map[string]interface{}{"part": "peer", "how": how, "msg": fmt.Sprintf("remote stopped reading during a 64 KiB sub-protocol write, then %s: %s", how, detail)}})
			break
		}
	}
	run.Eval(n)
	run.Set("peer_disconnect_during_write_runs", n)
}
