package c17

// Part (b2): the RLPx encryption handshake. The real receiverEncHandshake / initiatorEncHandshake talk
// to a reference peer written from the RLPx specification (both packet formats), which also derives the
// session secrets independently; "the session works" means frames pass the real frame MACs both ways.

import (
	"bytes"
	"crypto/rand"
	"errors"
	"fmt"
	"sync"
	"time"

	"github.com/btcsuite/btcd/btcec/v2"
	becdsa "github.com/btcsuite/btcd/btcec/v2/ecdsa"
	"golang.org/x/crypto/sha3"

	"gitlab.com/aquachain/aquachain/crypto/ecies"
	"gitlab.com/aquachain/aquachain/p2p"
	"gitlab.com/aquachain/aquachain/p2p/discover"
	"gitlab.com/aquachain/aquachain/zzverif/ev"
	"gitlab.com/aquachain/aquachain/zzverif/ref/refrlp"
)

const eciesOverhead = 65 + 16 + 32

var (
	hsInitEph  = mustKey("869d6ecf5211f1cc60418a13b9d870b22959d0c16f02bec714c960dd2298a32d")
	hsRecvEph  = mustKey("e238eb8e04fee6511ab04c6dd3c89ce097b11f25d584863ac2b6d5b35b1847e4")
	hsInitNonc = keccak([]byte("c17-initiator-nonce"))
	hsRecvNonc = keccak([]byte("c17-receiver-nonce"))
)

func eciesPub(p *btcec.PublicKey) *ecies.PublicKey { return ecies.ImportECDSAPublic(p.ToECDSA()) }
func eciesPrv(k *btcec.PrivateKey) *ecies.PrivateKey {
	return ecies.ImportECDSA(k.ToECDSA())
}

func ecdh(k *btcec.PrivateKey, p *btcec.PublicKey) []byte { return btcec.GenerateSharedSecret(k, p) }

func xorb(a, b []byte) []byte {
	o := make([]byte, len(a))
	for i := range a {
		o[i] = a[i] ^ b[i]
	}
	return o
}

func pub64(p *btcec.PublicKey) []byte { return p.SerializeUncompressed()[1:] }

// refSecrets derives the session secrets as the specification prescribes.
func refSecrets(initiator bool, eph *btcec.PrivateKey, remoteEph *btcec.PublicKey, initNonce, respNonce, auth, ack []byte, remote discover.NodeID) p2p.VerifSecrets {
	e := ecdh(eph, remoteEph)
	shared := keccak(e, keccak(respNonce, initNonce))
	aesS := keccak(e, shared)
	macS := keccak(e, aesS)
	m1 := sha3.NewLegacyKeccak256()
	m1.Write(xorb(macS, respNonce))
	m1.Write(auth)
	m2 := sha3.NewLegacyKeccak256()
	m2.Write(xorb(macS, initNonce))
	m2.Write(ack)
	s := p2p.VerifSecrets{RemoteID: remote, AES: aesS, MAC: macS}
	if initiator {
		s.EgressMAC, s.IngressMAC = m1, m2
	} else {
		s.EgressMAC, s.IngressMAC = m2, m1
	}
	return s
}

// sealPlain / sealEIP8 wrap a body for the holder of pub.
func sealPlain(pub *btcec.PublicKey, body []byte) []byte {
	ct, err := ecies.Encrypt(rand.Reader, eciesPub(pub), body, nil, nil)
	if err != nil {
		ev.Broken("ecies encrypt: %v", err)
	}
	return ct
}

func sealEIP8(pub *btcec.PublicKey, body []byte) []byte {
	n := len(body) + eciesOverhead
	prefix := []byte{byte(n >> 8), byte(n)}
	ct, err := ecies.Encrypt(rand.Reader, eciesPub(pub), body, nil, prefix)
	if err != nil {
		ev.Broken("ecies encrypt: %v", err)
	}
	return append(prefix, ct...)
}

// ---- message bodies -----------------------------------------------------------------------------------

type authFields struct {
	sig, pub, nonce []byte
}

// genuineAuth: what the holder of static (with ephemeral key eph) sends to the holder of remote.
func genuineAuth(static, eph *btcec.PrivateKey, remote *btcec.PublicKey, nonce []byte) authFields {
	token := ecdh(static, remote)
	return authFields{sig: signCompact(eph, xorb(token, nonce)), pub: pub64(static.PubKey()), nonce: nonce}
}

func (a authFields) body(format string, eph *btcec.PrivateKey, pad int, extra bool) []byte {
	if format == "plain" {
		b := append([]byte{}, a.sig...)
		b = append(b, keccak(pub64(eph.PubKey()))...)
		b = append(b, a.pub...)
		b = append(b, a.nonce...)
		return append(b, 0)
	}
	items := []*refrlp.Item{refrlp.Str(a.sig), refrlp.Str(a.pub), refrlp.Str(a.nonce), refrlp.Uint(4)}
	if extra {
		items[3] = refrlp.Uint(5)
		items = append(items, refrlp.Str([]byte("future")), refrlp.List(refrlp.Uint(1)))
	}
	return append(refrlp.Encode(refrlp.List(items...)), make([]byte, pad)...)
}

type ackFields struct {
	eph, nonce []byte
}

func (a ackFields) body(format string, pad int, extra bool) []byte {
	if format == "plain" {
		b := append([]byte{}, a.eph...)
		b = append(b, a.nonce...)
		return append(b, 0)
	}
	items := []*refrlp.Item{refrlp.Str(a.eph), refrlp.Str(a.nonce), refrlp.Uint(4)}
	if extra {
		items[2] = refrlp.Uint(5)
		items = append(items, refrlp.Str([]byte("future")), refrlp.List(refrlp.Uint(1)))
	}
	return append(refrlp.Encode(refrlp.List(items...)), make([]byte, pad)...)
}

// ---- the scripted connection ----------------------------------------------------------------------------

type hsConn struct {
	in      *bytes.Reader
	respond func(written []byte) []byte // produces the input on the first Read (initiator tests)
	out     bytes.Buffer
	asked   int // total bytes the code under test asked for
	maxAsk  int
}

func (c *hsConn) Read(p []byte) (int, error) {
	if c.in == nil {
		if c.respond == nil {
			return 0, errors.New("nothing to read")
		}
		c.in = bytes.NewReader(c.respond(c.out.Bytes()))
	}
	c.asked += len(p)
	if len(p) > c.maxAsk {
		c.maxAsk = len(p)
	}
	return c.in.Read(p)
}
func (c *hsConn) Write(p []byte) (int, error) { return c.out.Write(p) }

// ---- cases ------------------------------------------------------------------------------------------------

type hsCase struct {
	Side   string `json:"side"`   // "recv": the real receiver reads a reference auth; "init": the real initiator reads a reference ack
	Format string `json:"format"` // plain | eip8
	Kind   string `json:"kind"`   // valid, trunc, alt-wire, alt-body, sem:<name>
	Pos    int    `json:"pos"`
	Mask   int    `json:"mask"`
}

func (c hsCase) label() string { return fmt.Sprintf("%s/%s/%s", c.Side, c.Format, c.Kind) }

func hsFinding(c hsCase, oracle, id string, extra map[string]interface{}) finding {
	d := map[string]interface{}{"part": "hs", "side": c.Side, "format": c.Format, "kind": c.Kind, "pos": c.Pos, "mask": c.Mask}
	for k, v := range extra {
		d[k] = v
	}
	return finding{"rlpx-handshake", oracle, c.Side + "/" + c.Format + "/" + id, d}
}

// sessionWorks: a message written with a passes the frame MACs of b and vice versa.
func sessionWorks(a, b p2p.VerifSecrets) (ok bool) {
	defer func() {
		if recover() != nil {
			ok = false
		}
	}()
	if len(a.AES) != 32 || len(a.MAC) != 32 || a.EgressMAC == nil || a.IngressMAC == nil {
		return false
	}
	buf := new(bytes.Buffer)
	ra := p2p.VerifNewFrameRW(buf, a, false)
	rb := p2p.VerifNewFrameRW(buf, b, false)
	payload := pattern(20, 0)
	if err := ra.WriteMsg(p2p.Msg{Code: 0x11, Size: 20, Payload: bytes.NewReader(payload)}); err != nil {
		return false
	}
	m, err := rb.ReadMsg()
	if err != nil || m.Code != 0x11 || m.Size != 20 {
		return false
	}
	if err := rb.WriteMsg(p2p.Msg{Code: 0x12, Size: 20, Payload: bytes.NewReader(payload)}); err != nil {
		return false
	}
	m, err = ra.ReadMsg()
	return err == nil && m.Code == 0x12 && m.Size == 20
}

// critical reports whether position pos of body lies inside one of the given field contents.
func critical(body []byte, pos int, fields ...[]byte) bool {
	for _, f := range fields {
		if i := bytes.Index(body, f); i >= 0 && pos >= i && pos < i+len(f) {
			return true
		}
	}
	return false
}

type hsOut struct {
	sec      p2p.VerifSecrets
	err      error
	panicked bool
	pmsg     string
	site     string
}

func callRecv(conn *hsConn, key *btcec.PrivateKey) (o hsOut) {
	defer func() {
		if x := recover(); x != nil {
			o.panicked, o.pmsg, o.site = true, normPanic(x), panicSite()
		}
	}()
	o.sec, o.err = p2p.VerifReceiverEncHandshake(conn, key.ToECDSA())
	return o
}

func callInit(conn *hsConn, key *btcec.PrivateKey, remote discover.NodeID) (o hsOut) {
	defer func() {
		if x := recover(); x != nil {
			o.panicked, o.pmsg, o.site = true, normPanic(x), panicSite()
		}
	}()
	o.sec, o.err = p2p.VerifInitiatorEncHandshake(conn, key.ToECDSA(), remote)
	return o
}

const hsPad = 100

// evalHS evaluates one handshake case. want: 1 must succeed with a working session, 0 must not yield a
// working session, -1 no expectation beyond "no panic, bounded, consistent identity".
func evalHS(c hsCase) (fs []finding, class string) {
	bad := func(oracle, id string, extra map[string]interface{}) {
		fs = append(fs, hsFinding(c, oracle, id, extra))
	}
	var (
		out       hsOut
		conn      *hsConn
		want      = -1
		works     bool
		claimedID discover.NodeID
		claimed   bool
		refSec    func() (p2p.VerifSecrets, error) // reference-side secrets once the exchange is over
	)
	switch c.Side {
	case "recv":
		// reference initiator (static keyAttacker) -> real receiver (static keyLocal)
		af := genuineAuth(keyAttacker, hsInitEph, keyLocal.PubKey(), hsInitNonc)
		pad, extra := hsPad, false
		switch c.Kind {
		case "valid":
			want = 1
		case "trunc", "alt-wire":
			want = 0
		case "sem:impersonate": // claims keyThird's identity without holding its key
			af.pub = pub64(keyThird.PubKey())
			want = 0
		case "sem:zero-pubkey":
			af.pub = make([]byte, 64)
			want = 0
		case "sem:offcurve-pubkey":
			af.pub = append([]byte{}, af.pub...)
			af.pub[63] ^= 1
			want = 0
		case "sem:zero-sig":
			af.sig = make([]byte, 65)
			want = 0
		case "sem:v^4": // recovery byte with the "compressed key" flag: another encoding of the same signature
			af.sig = append([]byte{}, af.sig...)
			af.sig[64] ^= 4
		case "sem:v=8", "sem:v=27", "sem:v=255":
			af.sig = append([]byte{}, af.sig...)
			af.sig[64] = map[string]byte{"sem:v=8": 8, "sem:v=27": 27, "sem:v=255": 255}[c.Kind]
			want = 0
		case "sem:extra-fields":
			extra, want = true, 1
		case "sem:no-padding":
			pad = 0
		case "sem:max-size":
			pad, want = -1, 1
		}
		body := af.body(c.Format, hsInitEph, 0, extra)
		if c.Format == "eip8" {
			switch {
			case pad < 0:
				body = append(body, make([]byte, 65535-eciesOverhead-len(body))...)
			default:
				body = append(body, make([]byte, pad)...)
			}
		}
		switch c.Kind {
		case "sem:garbage-body":
			for i := range body {
				body[i] = 0xff
			}
			want = 0
		case "sem:short-list":
			body = append(refrlp.Encode(refrlp.List(refrlp.Str(af.sig), refrlp.Str(af.pub))), make([]byte, 200)...)
			want = 0
		case "alt-body":
			if c.Pos >= len(body) {
				ev.Broken("alt-body position out of range")
			}
			// r, s, the static key and the nonce are authenticated content; the recovery byte is too, except
			// for its "compressed" flag (bit 2), which does not change the recovered key
			if critical(body, c.Pos, af.sig[:64], af.pub, af.nonce) {
				want = 0
			}
			if i := bytes.Index(body, af.sig); i >= 0 && c.Pos == i+64 && c.Mask != 4 {
				want = 0
			}
			body[c.Pos] ^= byte(c.Mask)
		}
		// the identity the packet claims (bytes of the pubkey field as finally sent)
		if c.Format == "plain" {
			copy(claimedID[:], body[97:161])
			claimed = true
		} else if it, _, err := refrlp.DecodeFirst(body); err == nil && it.IsList && len(it.Elems) >= 2 && len(it.Elems[1].Str) == 64 {
			copy(claimedID[:], it.Elems[1].Str)
			claimed = true
		}
		var pkt []byte
		if c.Format == "plain" {
			pkt = sealPlain(keyLocal.PubKey(), body)
		} else {
			pkt = sealEIP8(keyLocal.PubKey(), body)
		}
		switch c.Kind {
		case "trunc":
			pkt = pkt[:c.Pos]
		case "alt-wire":
			pkt[c.Pos] ^= byte(c.Mask)
		}
		conn = &hsConn{in: bytes.NewReader(pkt)}
		out = callRecv(conn, keyLocal)
		auth := pkt
		refSec = func() (p2p.VerifSecrets, error) {
			ack := conn.out.Bytes()
			var dec []byte
			var err error
			if c.Format == "plain" {
				dec, err = eciesPrv(keyAttacker).Decrypt(ack, nil, nil)
			} else {
				if len(ack) < 2 || int(ack[0])<<8|int(ack[1]) != len(ack)-2 {
					return p2p.VerifSecrets{}, errors.New("ack does not have the EIP-8 size prefix")
				}
				dec, err = eciesPrv(keyAttacker).Decrypt(ack[2:], nil, ack[:2])
			}
			if err != nil {
				return p2p.VerifSecrets{}, fmt.Errorf("ack not decryptable by the initiator in the format of its auth: %v", err)
			}
			var ephB, nonce []byte
			if c.Format == "plain" {
				if len(dec) != 97 {
					return p2p.VerifSecrets{}, errors.New("plain ack has the wrong size")
				}
				ephB, nonce = dec[:64], dec[64:96]
			} else {
				it, _, err := refrlp.DecodeFirst(dec)
				if err != nil || !it.IsList || len(it.Elems) < 3 || len(it.Elems[0].Str) != 64 || len(it.Elems[1].Str) != 32 {
					return p2p.VerifSecrets{}, errors.New("EIP-8 ack body malformed")
				}
				ephB, nonce = it.Elems[0].Str, it.Elems[1].Str
			}
			rp, err := btcec.ParsePubKey(append([]byte{4}, ephB...))
			if err != nil {
				return p2p.VerifSecrets{}, errors.New("ack carries an invalid ephemeral key")
			}
			return refSecrets(true, hsInitEph, rp, hsInitNonc, nonce, auth, ack, locID), nil
		}
	case "init":
		// real initiator (static keyAttacker) -> reference receiver (static keyLocal)
		want = -1
		var (
			afGot  authFields
			ackPkt []byte
			rerr   error
			initEp *btcec.PublicKey
			authB  []byte
		)
		respond := func(auth []byte) []byte {
			authB = append([]byte{}, auth...)
			if len(auth) < 2 || int(auth[0])<<8|int(auth[1]) != len(auth)-2 {
				rerr = errors.New("auth written by the initiator is not an EIP-8 packet")
				return nil
			}
			dec, err := eciesPrv(keyLocal).Decrypt(auth[2:], nil, auth[:2])
			if err != nil {
				rerr = fmt.Errorf("auth not decryptable: %v", err)
				return nil
			}
			it, _, err := refrlp.DecodeFirst(dec)
			if err != nil || !it.IsList || len(it.Elems) < 4 || len(it.Elems[0].Str) != 65 || len(it.Elems[1].Str) != 64 || len(it.Elems[2].Str) != 32 {
				rerr = errors.New("auth body malformed")
				return nil
			}
			afGot = authFields{it.Elems[0].Str, it.Elems[1].Str, it.Elems[2].Str}
			if !bytes.Equal(afGot.pub, pub64(keyAttacker.PubKey())) {
				rerr = errors.New("auth does not carry the initiator's static key")
				return nil
			}
			token := ecdh(keyLocal, keyAttacker.PubKey())
			cs := make([]byte, 65)
			cs[0] = afGot.sig[64] + 27
			copy(cs[1:], afGot.sig[:64])
			ep, _, err := becdsa.RecoverCompact(cs, xorb(token, afGot.nonce))
			if err != nil {
				rerr = errors.New("auth signature does not recover")
				return nil
			}
			initEp = ep
			ak := ackFields{eph: pub64(hsRecvEph.PubKey()), nonce: hsRecvNonc}
			pad, extra := hsPad, false
			switch c.Kind {
			case "valid":
				want = 1
			case "trunc", "alt-wire":
				want = 0
			case "sem:zero-ephemeral":
				ak.eph = make([]byte, 64)
				want = 0
			case "sem:offcurve-ephemeral":
				ak.eph = append([]byte{}, ak.eph...)
				ak.eph[63] ^= 1
				want = 0
			case "sem:extra-fields":
				extra, want = true, 1
			case "sem:no-padding":
				pad = 0
			case "sem:max-size":
				pad, want = -1, 1
			}
			body := ak.body(c.Format, 0, extra)
			if c.Format == "eip8" {
				if pad < 0 {
					body = append(body, make([]byte, 65535-eciesOverhead-len(body))...)
				} else {
					body = append(body, make([]byte, pad)...)
				}
			}
			switch c.Kind {
			case "sem:garbage-body":
				for i := range body {
					body[i] = 0xff
				}
				want = 0
			case "sem:short-list":
				body = append(refrlp.Encode(refrlp.List(refrlp.Str(ak.eph))), make([]byte, 200)...)
				want = 0
			case "alt-body":
				if c.Pos >= len(body) {
					ev.Broken("alt-body position out of range")
				}
				if critical(body, c.Pos, ak.eph, ak.nonce) {
					want = 0
				}
				body[c.Pos] ^= byte(c.Mask)
			}
			if c.Format == "plain" {
				ackPkt = sealPlain(keyAttacker.PubKey(), body)
			} else {
				ackPkt = sealEIP8(keyAttacker.PubKey(), body)
			}
			switch c.Kind {
			case "trunc":
				ackPkt = ackPkt[:c.Pos]
			case "alt-wire":
				ackPkt[c.Pos] ^= byte(c.Mask)
			}
			return ackPkt
		}
		conn = &hsConn{respond: respond}
		out = callInit(conn, keyAttacker, locID)
		claimedID, claimed = locID, true
		if rerr != nil {
			bad("genuine-packets-understood-by-the-reference-peer", "auth/"+rerr.Error(), nil)
			return fs, "hs/" + c.label() + "/reference-cannot-read-auth"
		}
		refSec = func() (p2p.VerifSecrets, error) {
			if initEp == nil {
				return p2p.VerifSecrets{}, errors.New("no auth seen")
			}
			return refSecrets(false, hsRecvEph, initEp, afGot.nonce, hsRecvNonc, authB, ackPkt, attID), nil
		}
	default:
		ev.Broken("unknown handshake side")
	}

	id := c.Kind
	switch {
	case out.panicked:
		bad("no-panic", id+"/"+out.site+"/"+out.pmsg, map[string]interface{}{"panic": out.pmsg})
		return fs, "hs/" + c.label() + "/panic"
	}
	if conn.asked > 2*(65535+2) || conn.maxAsk > 65535+2 {
		bad("read-size-bounded-by-the-16-bit-prefix", id, map[string]interface{}{"asked": conn.asked, "largest": conn.maxAsk})
	}
	if out.err == nil {
		if claimed && out.sec.RemoteID != claimedID {
			bad("session-identity-is-the-authenticated-one", id+"/remote-id-differs-from-the-packet", nil)
		}
		rs, err := refSec()
		if err == nil {
			works = sessionWorks(out.sec, rs)
		} else if want == 1 {
			bad("genuine-packets-understood-by-the-reference-peer", id+"/"+err.Error(), nil)
		}
	}
	if want == 1 && !(out.err == nil && works) {
		bad("genuine-handshake-yields-a-working-session", id, map[string]interface{}{"err": fmt.Sprint(out.err)})
	}
	if want == 0 && works {
		bad("tampered-or-unauthenticated-handshake-yields-no-session", id, nil)
	}
	if (c.Kind == "trunc" || c.Kind == "alt-wire") && out.err == nil {
		bad("tampered-or-unauthenticated-handshake-yields-no-session", id+"/no-error", nil)
	}
	return fs, fmt.Sprintf("hs/%s/%s/works=%v", c.label(), errClass(out.err), works)
}

// packet sizes of the reference peer (fixed by construction)
func hsSizes() (authPlain, authEIP8, ackPlain, ackEIP8, authBodyPlain, authBodyEIP8, ackBodyPlain, ackBodyEIP8 int) {
	af := genuineAuth(keyAttacker, hsInitEph, keyLocal.PubKey(), hsInitNonc)
	ak := ackFields{eph: pub64(hsRecvEph.PubKey()), nonce: hsRecvNonc}
	authBodyPlain = len(af.body("plain", hsInitEph, 0, false))
	authBodyEIP8 = len(af.body("eip8", hsInitEph, hsPad, false))
	ackBodyPlain = len(ak.body("plain", 0, false))
	ackBodyEIP8 = len(ak.body("eip8", hsPad, false))
	return authBodyPlain + eciesOverhead, authBodyEIP8 + eciesOverhead + 2, ackBodyPlain + eciesOverhead, ackBodyEIP8 + eciesOverhead + 2,
		authBodyPlain, authBodyEIP8, ackBodyPlain, ackBodyEIP8
}

func hsCases(thorough bool) []hsCase {
	var cs []hsCase
	masks := discMasks(thorough)
	aP, aE, kP, kE, abP, abE, kbP, kbE := hsSizes()
	wire := map[string]int{"recv/plain": aP, "recv/eip8": aE, "init/plain": kP, "init/eip8": kE}
	body := map[string]int{"recv/plain": abP, "recv/eip8": abE, "init/plain": kbP, "init/eip8": kbE}
	for _, side := range []string{"recv", "init"} {
		for _, f := range []string{"plain", "eip8"} {
			cs = append(cs, hsCase{side, f, "valid", 0, 0})
			n := wire[side+"/"+f]
			for l := 0; l < n; l++ {
				cs = append(cs, hsCase{side, f, "trunc", l, 0})
			}
			wireMasks := masks[:2] // quick: two masks on the wire (every byte is under the ECIES MAC), three on the plaintext
			if thorough {
				wireMasks = macMasks // thorough: every bit on the wire, all 255 values on the plaintext
			}
			for p := 0; p < n; p++ {
				for _, m := range wireMasks {
					cs = append(cs, hsCase{side, f, "alt-wire", p, m})
				}
			}
			for p := 0; p < body[side+"/"+f]; p++ {
				for _, m := range masks {
					cs = append(cs, hsCase{side, f, "alt-body", p, m})
				}
			}
			sem := []string{"sem:garbage-body"}
			if side == "recv" {
				sem = append(sem, "sem:impersonate", "sem:zero-pubkey", "sem:offcurve-pubkey", "sem:zero-sig", "sem:v^4", "sem:v=8", "sem:v=27", "sem:v=255")
			} else {
				sem = append(sem, "sem:zero-ephemeral", "sem:offcurve-ephemeral")
			}
			if f == "eip8" {
				sem = append(sem, "sem:extra-fields", "sem:no-padding", "sem:max-size", "sem:short-list")
			}
			for _, s := range sem {
				cs = append(cs, hsCase{side, f, s, 0, 0})
			}
		}
	}
	return cs
}

// hsAllocPass: one handshake may allocate a constant plus a small multiple of the largest packet (64 KiB).
const hsAllocBound = 4 << 20

func hsAllocPass(run *ev.Run) {
	var maxSeen uint64
	n := 0
	for _, c := range hsCases(false) {
		if c.Kind == "alt-wire" || c.Kind == "alt-body" {
			if c.Mask != 0x80 || c.Pos%8 != 0 {
				continue
			}
		}
		if c.Kind == "trunc" && c.Pos%8 != 0 {
			continue
		}
		b, _ := allocDelta(func() { evalHS(c) })
		n++
		if b > maxSeen {
			maxSeen = b
		}
		if b > hsAllocBound {
			again := 0
			for i := 0; i < 3; i++ {
				if b2, _ := allocDelta(func() { evalHS(c) }); b2 > hsAllocBound {
					again++
				}
			}
			if again == 3 {
				f := hsFinding(c, "allocation-bounded", c.Kind, map[string]interface{}{"bytes": b, "alloc": true})
				run.Violate(ev.Violation{Scenario: f.Scenario, Oracle: f.Oracle, CaseID: f.CaseID, Detail: f.Detail})
			}
		}
	}
	run.Set("hs_alloc_cases", n)
	run.Set("hs_alloc_max_bytes_per_handshake_incl_reference_peer", maxSeen)
	run.Set("hs_alloc_bound", hsAllocBound)
}

func runHS(run *ev.Run, deadline time.Time) {
	cases := hsCases(run.Thorough())
	sink := newSink()
	cs := newClassSet()
	var cut bool
	var mu sync.Mutex
	const batch = 64
	ev.ParallelFor((len(cases)+batch-1)/batch, func(i int) {
		if time.Now().After(deadline) {
			mu.Lock()
			cut = true
			mu.Unlock()
			return
		}
		hi := (i + 1) * batch
		if hi > len(cases) {
			hi = len(cases)
		}
		for _, c := range cases[i*batch : hi] {
			c := c
			fs, class := evalHS(c)
			cs.add(class)
			if i == 2 && c == cases[i*batch] {
				run.Sample(map[string]interface{}{"part": "hs", "case": c, "class": class})
			}
			sink.add(fs, func() []finding { f, _ := evalHS(c); return f })
		}
		run.Eval(hi - i*batch)
		run.Add("handshake_cases", int64(hi-i*batch))
	})
	if cut {
		run.Cap("handshake enumeration cut by the deadline")
	}
	run.Classes(cs.keys())
	sink.flush(run)
}

func replayHS(t interface{}, run *ev.Run, d *ev.ReplayDoc) {
	c := hsCase{dStr(d.Detail, "side"), dStr(d.Detail, "format"), dStr(d.Detail, "kind"), dInt(d.Detail, "pos"), dInt(d.Detail, "mask")}
	run.Eval(1)
	run.Class("replay")
	run.Class("replay/hs/" + c.label())
	if dBool(d.Detail, "alloc") {
		if b, _ := allocDelta(func() { evalHS(c) }); b > hsAllocBound {
			run.Violate(ev.Violation{Scenario: d.Scenario, Oracle: d.Oracle, CaseID: d.CaseID, Detail: d.Detail})
		}
		return
	}
	sig := d.Scenario + "/" + d.Oracle + "/" + d.CaseID
	hits := 0
	for i := 0; i < 3; i++ {
		fs, _ := evalHS(c)
		for _, f := range fs {
			if f.sig() == sig {
				hits++
				break
			}
		}
	}
	if hits == 3 {
		run.Violate(ev.Violation{Scenario: d.Scenario, Oracle: d.Oracle, CaseID: d.CaseID, Detail: d.Detail})
	} else if hits != 0 {
		ev.Broken("handshake verdict not deterministic on replay (%d/3)", hits)
	}
}
