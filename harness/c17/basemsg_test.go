package c17

// Part (g): the base-protocol messages that follow the key exchange (hello, disconnect, ping, pong) and a
// first sub-protocol code, with every payload of up to three bytes over a boundary alphabet of RLP tags.
// They arrive in correctly MACed frames from any party that completed the encryption handshake, so
// Peer.handle and readProtocolHandshake must answer every one of them with a result or an error - a
// panic there is on a goroutine nobody recovers and ends the node.

import (
	"fmt"

	"gitlab.com/aquachain/aquachain/p2p"
	"gitlab.com/aquachain/aquachain/zzverif/ev"
)

func runBaseMsgs(run *ev.Run) {
	alpha := []byte{0x00, 0x01, 0x05, 0x7f, 0x80, 0x81, 0xb8, 0xc0, 0xc1, 0xc2, 0xf8, 0xff}
	var payloads [][]byte
	var rec func(cur []byte)
	rec = func(cur []byte) {
		payloads = append(payloads, append([]byte{}, cur...))
		if len(cur) == 3 {
			return
		}
		for _, b := range alpha {
			rec(append(cur, b))
		}
	}
	rec(nil)
	n := 0
	reported := map[string]bool{}
	for _, code := range []uint64{0, 1, 2, 3, 16} {
		for _, pl := range payloads {
			for _, api := range []string{"Peer.handle", "readProtocolHandshake"} {
				n++
				pan := ""
				func() {
					defer func() {
						if r := recover(); r != nil {
							pan = fmt.Sprint(r)
						}
					}()
					if api == "Peer.handle" {
						p2p.VerifPeerHandle(code, pl)
					} else {
						p2p.VerifReadProtocolHandshakeMsg(code, pl)
					}
				}()
				if pan == "" {
					continue
				}
				id := fmt.Sprintf("%s/code=%d", api, code)
				if reported[id] {
					continue
				}
				reported[id] = true
				run.Violate(ev.Violation{Scenario: "base-protocol-message", Oracle: "no-panic", CaseID: id,
					Detail: map[string]interface{}{"part": "basemsg", "api": api, "code": code, "payload_hex": hx(pl), "msg": fmt.Sprintf("%s panics on message code %d with payload %x: %s", api, code, pl, pan)}})
			}
		}
	}
	run.Eval(n)
	run.Set("base_protocol_messages", n)
	run.Class("basemsg/enumerated")
}
