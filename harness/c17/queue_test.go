package c17

// Part (d): block bodies and receipts delivered by a peer are matched against the headers that commit
// to them (aqua/downloader/queue.go DeliverBodies / DeliverReceipts). A body reply carries no signature
// of its own: what authenticates it is the header's transaction root and uncle hash (receipt root for
// receipts). For a five-block chain with every kind of body (transactions only, uncle only, both,
// empty, one transaction) every combination of per-block reply variants (exact, list stripped, list of
// another block, extra element, reordered, element replaced) x every reply length is delivered to a
// fresh queue. Oracle: the reply is accepted exactly up to the first body that is not the block's own,
// an error is returned iff such a body was delivered, and whatever the importer is then handed hashes to
// the commitments of its header.

import (
	"fmt"
	"math/big"
	"sync"

	"gitlab.com/aquachain/aquachain/aqua/downloader"
	"gitlab.com/aquachain/aquachain/core"
	"gitlab.com/aquachain/aquachain/core/types"
	"gitlab.com/aquachain/aquachain/params"
	"gitlab.com/aquachain/aquachain/zzverif/chainkit"
	"gitlab.com/aquachain/aquachain/zzverif/ev"
)

type qWorld struct {
	env      *chainkit.Env
	blocks   []*types.Block
	receipts []types.Receipts
	spareTx  *types.Transaction
	spareUnc *types.Header
}

func buildQWorld() *qWorld {
	env := chainkit.NewEnv(params.TestChainConfig, nil)
	w := &qWorld{env: env}
	eng := chainkit.Faker()
	gen := func(parent *types.Block, f func(g *core.BlockGen)) (*types.Block, types.Receipts) {
		bs, rs := env.Gen(parent, eng, 1, func(_ int, g *core.BlockGen) { f(g) })
		return bs[0], rs[0]
	}
	A := env.Addrs
	u1, _ := gen(env.Genesis, func(g *core.BlockGen) { g.SetExtra([]byte("u1")) })
	b1, r1 := gen(env.Genesis, func(g *core.BlockGen) {
		g.AddTx(env.Transfer0(g, 0, A[2], 10))
		g.AddTx(env.Transfer0(g, 1, A[2], 11))
	})
	u2, _ := gen(b1, func(g *core.BlockGen) { g.SetExtra([]byte("u2")) })
	b2, r2 := gen(b1, func(g *core.BlockGen) { g.AddUncle(u1.Header()) })
	b3, r3 := gen(b2, func(g *core.BlockGen) {
		g.AddTx(env.Transfer0(g, 0, A[1], 12))
		g.AddUncle(u2.Header())
	})
	b4, r4 := gen(b3, func(g *core.BlockGen) {})
	b5, r5 := gen(b4, func(g *core.BlockGen) { g.AddTx(env.Transfer0(g, 2, A[0], 13)) })
	w.blocks = []*types.Block{b1, b2, b3, b4, b5}
	w.receipts = []types.Receipts{r1, r2, r3, r4, r5}
	w.spareTx = env.Transfer(2, 7, A[0], 99)
	sp, _ := gen(b2, func(g *core.BlockGen) { g.SetExtra([]byte("spare")) })
	w.spareUnc = sp.Header()
	return w
}

type bodyVariant struct {
	name   string
	exact  bool
	txs    []*types.Transaction
	uncles []*types.Header
}

func (w *qWorld) bodyVariants(i int) []bodyVariant {
	b := w.blocks[i]
	txs, unc := []*types.Transaction(b.Transactions()), b.Uncles()
	other := w.blocks[(i+2)%len(w.blocks)]
	if i == 2 {
		other = w.blocks[0]
	}
	vs := []bodyVariant{{"exact", true, txs, unc}}
	if len(unc) > 0 {
		vs = append(vs, bodyVariant{"uncles-stripped", false, txs, nil})
		vs = append(vs, bodyVariant{"uncle-replaced", false, txs, []*types.Header{w.spareUnc}})
	}
	if len(txs) > 0 {
		vs = append(vs, bodyVariant{"txs-stripped", false, nil, unc})
		vs = append(vs, bodyVariant{"txs-of-another-block", false, other.Transactions(), unc})
	}
	if len(txs) > 1 {
		vs = append(vs, bodyVariant{"txs-reordered", false, []*types.Transaction{txs[1], txs[0]}, unc})
	}
	vs = append(vs, bodyVariant{"extra-tx", false, append(append([]*types.Transaction{}, txs...), w.spareTx), unc})
	vs = append(vs, bodyVariant{"extra-uncle", false, txs, append(append([]*types.Header{}, unc...), w.spareUnc)})
	return vs
}

type rcptVariant struct {
	name  string
	exact bool
	rs    []*types.Receipt
}

func (w *qWorld) rcptVariants(i int) []rcptVariant {
	rs := []*types.Receipt(w.receipts[i])
	vs := []rcptVariant{{"exact", true, rs}}
	vs = append(vs, rcptVariant{"stripped", false, nil})
	// a list of a different length: plain transfers have identical receipts, so a same-length list of
	// another block would not be foreign
	oi := 0
	if i == 0 {
		oi = 2
	}
	if len(w.receipts[oi]) == len(rs) {
		ev.Broken("queue part: receipt lists of blocks %d and %d have the same length", i, oi)
	}
	vs = append(vs, rcptVariant{"of-another-block", false, w.receipts[oi]})
	alt := *rs[0]
	alt.CumulativeGasUsed++
	vs = append(vs, rcptVariant{"gas-altered", false, append([]*types.Receipt{&alt}, rs[1:]...)})
	st := *rs[0]
	st.Status = 1 - st.Status
	if len(st.PostState) > 0 {
		st.PostState = append([]byte{st.PostState[0] ^ 1}, st.PostState[1:]...)
	}
	vs = append(vs, rcptVariant{"status-altered", false, append([]*types.Receipt{&st}, rs[1:]...)})
	vs = append(vs, rcptVariant{"duplicated", false, append(append([]*types.Receipt{}, rs...), rs[0])})
	return vs
}

func (w *qWorld) newQueue(fast bool) *downloader.VerifQueue {
	q := downloader.VerifNewQueue(func(n *big.Int) params.HeaderVersion { return w.env.Config.GetBlockVersion(n) }, fast, 1)
	hs := make([]*types.Header, len(w.blocks))
	for i, b := range w.blocks {
		hs[i] = types.CopyHeader(b.Header())
	}
	if n := q.Schedule(hs, 1); n != len(hs) {
		ev.Broken("queue part: %d of %d headers scheduled", n, len(hs))
	}
	return q
}

func (w *qWorld) index(h *types.Header) int {
	for i, b := range w.blocks {
		if b.Hash() == h.Hash() {
			return i
		}
	}
	return -1
}

func checkResults(w *qWorld, rs []downloader.VerifResult, withReceipts bool) string {
	for k, r := range rs {
		if int(r.Header.Number.Uint64()) != k+1 {
			return fmt.Sprintf("result %d is block #%d (results are not the contiguous prefix)", k, r.Header.Number)
		}
		if types.DeriveSha(r.Transactions) != r.Header.TxHash {
			return fmt.Sprintf("block #%d handed to the importer with %d transactions that do not hash to the header's transaction root", r.Header.Number, len(r.Transactions))
		}
		if types.CalcUncleHash(r.Uncles) != r.Header.UncleHash {
			return fmt.Sprintf("block #%d handed to the importer with %d uncles that do not hash to the header's uncle hash", r.Header.Number, len(r.Uncles))
		}
		if withReceipts && types.DeriveSha(r.Receipts) != r.Header.ReceiptHash {
			return fmt.Sprintf("block #%d handed to the importer with %d receipts that do not hash to the header's receipt root", r.Header.Number, len(r.Receipts))
		}
	}
	return ""
}

// evalBodies delivers one combination; choice[k] indexes the variants of the k-th requested header.
func evalBodies(w *qWorld, fast bool, choice []int, n int) (fs []finding, class string) {
	q := w.newQueue(fast)
	req, err := q.ReserveBodies(16)
	if err != nil || len(req) == 0 {
		ev.Broken("queue part: ReserveBodies: %v (%d)", err, len(req))
	}
	var txs [][]*types.Transaction
	var uncles [][]*types.Header
	firstBad := -1
	label := ""
	for k := 0; k < n; k++ {
		v := w.bodyVariants(w.index(req[k]))[choice[k]]
		txs, uncles = append(txs, v.txs), append(uncles, v.uncles)
		if !v.exact && firstBad < 0 {
			firstBad = k
		}
		label += fmt.Sprintf("#%d:%s ", req[k].Number, v.name)
	}
	accepted, derr := q.DeliverBodies(txs, uncles)
	want := n
	if firstBad >= 0 {
		want = firstBad
	}
	id := fmt.Sprintf("fast=%v/%s", fast, label)
	mk := func(oracle, msg string) finding {
		return finding{"queue-bodies", oracle, id, map[string]interface{}{"part": "queue", "kind": "bodies", "fast": fast, "choice": choice, "n": n, "msg": msg}}
	}
	if accepted != want {
		fs = append(fs, mk("accepted-up-to-first-foreign-body", fmt.Sprintf("DeliverBodies accepted %d bodies, %d of the delivered ones are the blocks' own before the first that is not", accepted, want)))
	}
	if (derr != nil) != (firstBad >= 0) {
		fs = append(fs, mk("error-iff-foreign-body", fmt.Sprintf("DeliverBodies returned error %v, first body that is not the block's own: %d", derr, firstBad)))
	}
	if !fast {
		if msg := checkResults(w, q.Results(), false); msg != "" {
			fs = append(fs, mk("importer-gets-committed-content", msg))
		}
	}
	return fs, fmt.Sprintf("bodies/fast=%v/n=%d/accepted=%d/err=%v", fast, n, accepted, derr != nil)
}

func evalReceipts(w *qWorld, choice []int, n int) (fs []finding, class string) {
	q := w.newQueue(true)
	// bodies first, all exact, so that results can complete
	breq, _ := q.ReserveBodies(16)
	var txs [][]*types.Transaction
	var uncles [][]*types.Header
	for _, h := range breq {
		b := w.blocks[w.index(h)]
		txs, uncles = append(txs, b.Transactions()), append(uncles, b.Uncles())
	}
	if a, err := q.DeliverBodies(txs, uncles); err != nil || a != len(breq) {
		ev.Broken("queue part: exact bodies refused: %d %v", a, err)
	}
	req, err := q.ReserveReceipts(16)
	if err != nil || len(req) == 0 {
		ev.Broken("queue part: ReserveReceipts: %v (%d)", err, len(req))
	}
	var lists [][]*types.Receipt
	firstBad := -1
	label := ""
	for k := 0; k < n; k++ {
		v := w.rcptVariants(w.index(req[k]))[choice[k]]
		lists = append(lists, v.rs)
		if !v.exact && firstBad < 0 {
			firstBad = k
		}
		label += fmt.Sprintf("#%d:%s ", req[k].Number, v.name)
	}
	accepted, derr := q.DeliverReceipts(lists)
	want := n
	if firstBad >= 0 {
		want = firstBad
	}
	id := "receipts/" + label
	mk := func(oracle, msg string) finding {
		return finding{"queue-receipts", oracle, id, map[string]interface{}{"part": "queue", "kind": "receipts", "choice": choice, "n": n, "msg": msg}}
	}
	if accepted != want {
		fs = append(fs, mk("accepted-up-to-first-foreign-list", fmt.Sprintf("DeliverReceipts accepted %d lists, %d of the delivered ones are the blocks' own before the first that is not", accepted, want)))
	}
	if (derr != nil) != (firstBad >= 0) {
		fs = append(fs, mk("error-iff-foreign-list", fmt.Sprintf("DeliverReceipts returned error %v, first foreign list: %d", derr, firstBad)))
	}
	if msg := checkResults(w, q.Results(), true); msg != "" {
		fs = append(fs, mk("importer-gets-committed-content", msg))
	}
	return fs, fmt.Sprintf("receipts/n=%d/accepted=%d/err=%v", n, accepted, derr != nil)
}

// combos enumerates every choice vector for the first n requested headers.
func combos(sizes []int, n int, f func(choice []int)) {
	choice := make([]int, n)
	var rec func(k int)
	rec = func(k int) {
		if k == n {
			f(append([]int(nil), choice...))
			return
		}
		for c := 0; c < sizes[k]; c++ {
			choice[k] = c
			rec(k + 1)
		}
	}
	rec(0)
}

func runQueue(run *ev.Run) {
	w := buildQWorld()
	sink := newSink()
	cs := newClassSet()
	var mu sync.Mutex
	total := 0
	type job struct {
		kind   string
		fast   bool
		choice []int
		n      int
	}
	var jobs []job
	// request order: the queue hands out headers by ascending number, skipping the empty block #4
	probe := w.newQueue(false)
	req, _ := probe.ReserveBodies(16)
	var bsizes []int
	for _, h := range req {
		bsizes = append(bsizes, len(w.bodyVariants(w.index(h))))
	}
	for _, fast := range []bool{false, true} {
		for n := 0; n <= len(req); n++ {
			combos(bsizes, n, func(c []int) { jobs = append(jobs, job{"bodies", fast, c, n}) })
		}
	}
	probe = w.newQueue(true)
	breq, _ := probe.ReserveBodies(16)
	var txs [][]*types.Transaction
	var uncles [][]*types.Header
	for _, h := range breq {
		b := w.blocks[w.index(h)]
		txs, uncles = append(txs, b.Transactions()), append(uncles, b.Uncles())
	}
	probe.DeliverBodies(txs, uncles)
	rreq, _ := probe.ReserveReceipts(16)
	var rsizes []int
	for _, h := range rreq {
		rsizes = append(rsizes, len(w.rcptVariants(w.index(h))))
	}
	for n := 0; n <= len(rreq); n++ {
		combos(rsizes, n, func(c []int) { jobs = append(jobs, job{"receipts", true, c, n}) })
	}
	ev.ParallelFor(len(jobs), func(i int) {
		j := jobs[i]
		var fs []finding
		var class string
		if j.kind == "bodies" {
			fs, class = evalBodies(w, j.fast, j.choice, j.n)
			sink.add(fs, func() []finding { f, _ := evalBodies(w, j.fast, j.choice, j.n); return f })
		} else {
			fs, class = evalReceipts(w, j.choice, j.n)
			sink.add(fs, func() []finding { f, _ := evalReceipts(w, j.choice, j.n); return f })
		}
		cs.add("queue/" + class)
		mu.Lock()
		total++
		mu.Unlock()
	})
	run.Eval(total)
	run.Set("queue_deliveries", total)
	run.Set("queue_body_requests", len(req))
	run.Set("queue_receipt_requests", len(rreq))
	run.Classes(cs.keys())
	sink.flush(run)
}

func replayQueue(run *ev.Run, d *ev.ReplayDoc) {
	w := buildQWorld()
	var choice []int
	if xs, ok := d.Detail["choice"].([]interface{}); ok {
		for _, x := range xs {
			if f, ok := x.(float64); ok {
				choice = append(choice, int(f))
			}
		}
	}
	n := dInt(d.Detail, "n")
	var fs []finding
	if dStr(d.Detail, "kind") == "bodies" {
		fs, _ = evalBodies(w, dBool(d.Detail, "fast"), choice, n)
	} else {
		fs, _ = evalReceipts(w, choice, n)
	}
	run.Eval(1)
	run.Class("replay/queue")
	for _, f := range fs {
		if f.Oracle == d.Oracle {
			fmt.Println("REPRODUCED", f.Detail["msg"])
			run.Violate(ev.Violation{Scenario: d.Scenario, Oracle: d.Oracle, CaseID: d.CaseID, Detail: d.Detail})
			return
		}
	}
}
