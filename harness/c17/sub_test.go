package c17

// Part (c): the aqua sub-protocol handler. ProtocolManager.handleMsg on a real protocol manager
// (small chain, fake engine, recording transaction pool) with a peer that completed the real status
// handshake. Everything runs in worker subprocesses: each worker logs the case id before it hands the
// message over (write-ahead log), so a panic in one of the manager's background loops - which kills the
// process instead of returning an error - is attributed to the case that caused it. Inside a worker the
// cases run in one synctest bubble that is never left (the worker exits from inside), which gives exact
// quiescence after every message and virtual time for the fetcher / downloader time-outs.

import (
	"bytes"
	"context"
	"encoding/json"
	"fmt"
	"io"
	"math/big"
	"os"
	"path/filepath"
	"runtime/pprof"
	"strconv"
	"strings"
	"sync"
	"sync/atomic"
	"testing"
	"testing/synctest"
	"time"

	"gitlab.com/aquachain/aquachain/aqua"
	"gitlab.com/aquachain/aquachain/aqua/downloader"
	"gitlab.com/aquachain/aquachain/aqua/event"
	"gitlab.com/aquachain/aquachain/aquadb"
	"gitlab.com/aquachain/aquachain/common"
	"gitlab.com/aquachain/aquachain/consensus/aquahash"
	"gitlab.com/aquachain/aquachain/core"
	"gitlab.com/aquachain/aquachain/core/types"
	"gitlab.com/aquachain/aquachain/core/vm"
	"gitlab.com/aquachain/aquachain/crypto"
	"gitlab.com/aquachain/aquachain/p2p"
	"gitlab.com/aquachain/aquachain/p2p/discover"
	"gitlab.com/aquachain/aquachain/params"
	"gitlab.com/aquachain/aquachain/rlp"
	"gitlab.com/aquachain/aquachain/zzverif/ev"
	"gitlab.com/aquachain/aquachain/zzverif/ref/refrlp"
)

const (
	subChainLen   = 8
	subProtoVer   = 64
	subMaxMsgSize = 10 * 1024 * 1024
)

// ---- recording transaction pool -------------------------------------------------------------------------

type recPool struct {
	mu    sync.Mutex
	feed  event.Feed
	added []*types.Transaction
}

func (p *recPool) AddRemotes(txs []*types.Transaction) []error {
	p.mu.Lock()
	p.added = append(p.added, txs...)
	p.mu.Unlock()
	return make([]error, len(txs))
}
func (p *recPool) Pending() (map[common.Address]types.Transactions, error) {
	return map[common.Address]types.Transactions{}, nil
}
func (p *recPool) SubscribeTxPreEvent(ch chan<- core.TxPreEvent) event.Subscription {
	return p.feed.Subscribe(ch)
}
func (p *recPool) take() []*types.Transaction {
	p.mu.Lock()
	defer p.mu.Unlock()
	t := p.added
	p.added = nil
	return t
}

// ---- scripted message channel ---------------------------------------------------------------------------

type outMsg struct {
	code uint64
	size int
}

type scriptRW struct {
	mu  sync.Mutex
	in  []p2p.Msg
	out []outMsg
}

func (s *scriptRW) push(code uint64, payload []byte, declared int) {
	s.mu.Lock()
	s.in = append(s.in, p2p.Msg{Code: code, Size: uint32(declared), Payload: bytes.NewReader(payload)})
	s.mu.Unlock()
}
func (s *scriptRW) ReadMsg() (p2p.Msg, error) {
	s.mu.Lock()
	defer s.mu.Unlock()
	if len(s.in) == 0 {
		return p2p.Msg{}, io.EOF
	}
	m := s.in[0]
	s.in = s.in[1:]
	return m, nil
}
func (s *scriptRW) WriteMsg(m p2p.Msg) error {
	n, _ := io.Copy(io.Discard, m.Payload)
	s.mu.Lock()
	s.out = append(s.out, outMsg{m.Code, int(n)})
	s.mu.Unlock()
	return nil
}
func (s *scriptRW) takeOut() []outMsg {
	s.mu.Lock()
	defer s.mu.Unlock()
	o := s.out
	s.out = nil
	return o
}

// ---- environment ----------------------------------------------------------------------------------------------

type subEnv struct {
	pm       *aqua.ProtocolManager
	bc       *core.BlockChain
	pool     *recPool
	genesis  *types.Block
	chain    []*types.Block // blocks 1..subChainLen+2; the last two are valid but not imported
	rcpts    []types.Receipts
	td       *big.Int
	peerSeq  int
	maxAlloc uint64
	origHead *types.Block
	curPeer  *aqua.VerifPeer // reusable while no message has been accepted from it
	curRW    *scriptRW
}

var (
	subBankKey  = keyLocal
	subBankAddr = crypto.PubkeyToAddress(keyLocal.PubKey())
)

func newSubEnv() *subEnv {
	var (
		ctx    = context.Background()
		cfg    = params.TestChainConfig
		db     = aquadb.NewMemDatabase()
		engine = aquahash.NewFaker()
		gspec  = &core.Genesis{Config: cfg, Alloc: core.GenesisAlloc{subBankAddr: {Balance: big.NewInt(1000000000000)}}}
	)
	e := &subEnv{pool: &recPool{}}
	e.genesis = gspec.MustCommit(db)
	bc, err := core.NewBlockChain(ctx, db, nil, cfg, engine, vm.Config{})
	if err != nil {
		ev.Broken("NewBlockChain: %v", err)
	}
	e.bc = bc
	nonce := uint64(0)
	e.chain, e.rcpts = core.GenerateChain(ctx, cfg, e.genesis, aquahash.NewFaker(), db, subChainLen+2, func(i int, g *core.BlockGen) {
		if i == 0 || i == 2 || i == 5 || i == subChainLen { // blocks 1, 3, 6 and the first unimported block carry a transaction
			tx, err := types.SignTx(types.NewTransaction(nonce, common.Address{0xaa}, big.NewInt(1), params.TxGas, big.NewInt(1), nil), types.NewEIP155Signer(cfg.ChainId), subBankKey)
			if err != nil {
				ev.Broken("sign: %v", err)
			}
			nonce++
			g.AddTx(tx)
		}
	})
	if _, err := bc.InsertChain(e.chain[:subChainLen]); err != nil {
		ev.Broken("InsertChain: %v", err)
	}
	pm, err := aqua.NewProtocolManager(cfg, downloader.FullSync, aqua.DefaultConfig.ChainId, new(event.TypeMux), e.pool, engine, bc, db)
	if err != nil {
		ev.Broken("NewProtocolManager: %v", err)
	}
	pm.Start(1000)
	pm.VerifSetAcceptTxs(true)
	e.pm = pm
	head := bc.CurrentBlock()
	e.origHead = head
	e.td = bc.GetTd(head.Hash(), head.NumberU64())
	return e
}

func (e *subEnv) statusPayload() []byte {
	head := e.origHead
	return refrlp.Encode(refrlp.List(refrlp.Uint(subProtoVer), refrlp.Uint(aqua.DefaultConfig.ChainId),
		refrlp.BigBytes(e.td.Bytes()), refrlp.Str(head.Hash().Bytes()), refrlp.Str(e.genesis.Hash().Bytes())))
}

// newPeer creates a peer, runs the real status handshake and registers it like handle() does.
func (e *subEnv) newPeer() (*aqua.VerifPeer, *scriptRW, error) {
	e.peerSeq++
	var id discover.NodeID
	copy(id[:], keccak([]byte(fmt.Sprintf("c17-peer-%d", e.peerSeq))))
	rw := &scriptRW{}
	vp := e.pm.VerifNewPeer(subProtoVer, p2p.NewPeer(id, "c17", nil), rw)
	rw.push(aqua.StatusMsg, e.statusPayload(), len(e.statusPayload()))
	if err := e.pm.VerifHandshake(vp); err != nil {
		return nil, nil, err
	}
	if err := e.pm.VerifRegister(vp); err != nil {
		return nil, nil, err
	}
	synctest.Wait()
	rw.takeOut()
	return vp, rw, nil
}

// ---- cases --------------------------------------------------------------------------------------------------------

type subMsg struct {
	code    uint64
	name    string
	payload []byte
	must    bool // a well-formed message of the protocol: handleMsg must not return an error
}

func enc(v interface{}) []byte {
	b, err := rlp.EncodeToBytes(v)
	if err != nil {
		ev.Broken("rlp encode: %v", err)
	}
	return b
}

func hashList(hs ...common.Hash) []byte {
	var it []*refrlp.Item
	for _, h := range hs {
		it = append(it, refrlp.Str(h.Bytes()))
	}
	return refrlp.Encode(refrlp.List(it...))
}

type annc struct {
	Hash   common.Hash
	Number uint64
}

type nbData struct {
	Block *types.Block
	TD    *big.Int
}

type bodyData struct {
	Transactions []*types.Transaction
	Uncles       []*types.Header
}

// validMsgs: well-formed messages of every code, built from the environment's chain.
func (e *subEnv) validMsgs() []subMsg {
	b := func(n int) *types.Block { return e.chain[n-1] }
	unknown := common.BytesToHash(keccak([]byte("c17-unknown")))
	next, next2 := b(subChainLen+1), b(subChainLen+2)
	tdNext := new(big.Int).Add(e.td, next.Difficulty())
	tx1 := b(1).Transactions()[0]
	tx2 := next.Transactions()[0]
	huge := new(big.Int).Lsh(big.NewInt(1), 200)
	return []subMsg{
		{aqua.StatusMsg, "status", e.statusPayload(), false},
		{aqua.NewBlockHashesMsg, "announce-known", enc([]annc{{b(2).Hash(), 2}}), true},
		{aqua.NewBlockHashesMsg, "announce-unknown", enc([]annc{{next.Hash(), next.NumberU64()}, {unknown, 1 << 40}}), true},
		{aqua.NewBlockHashesMsg, "announce-none", enc([]annc{}), true},
		{aqua.TxMsg, "txs-2", enc([]*types.Transaction{tx1, tx2}), true},
		{aqua.TxMsg, "txs-0", enc([]*types.Transaction{}), true},
		{aqua.GetBlockHeadersMsg, "headers-by-number", refrlp.Encode(refrlp.List(refrlp.Uint(2), refrlp.Uint(3), refrlp.Uint(1), refrlp.Uint(0))), true},
		{aqua.GetBlockHeadersMsg, "headers-by-hash-reverse", refrlp.Encode(refrlp.List(refrlp.Str(b(6).Hash().Bytes()), refrlp.Uint(4), refrlp.Uint(0), refrlp.Uint(1))), true},
		{aqua.BlockHeadersMsg, "headers-1-unknown", enc([]*types.Header{next.Header()}), true},
		{aqua.BlockHeadersMsg, "headers-2-known", enc([]*types.Header{b(5).Header(), b(6).Header()}), true},
		{aqua.BlockHeadersMsg, "headers-0", enc([]*types.Header{}), true},
		{aqua.GetBlockBodiesMsg, "bodies-of-3", hashList(b(1).Hash(), b(6).Hash(), unknown), true},
		{aqua.GetBlockBodiesMsg, "bodies-of-0", hashList(), true},
		{aqua.BlockBodiesMsg, "bodies-1", enc([]*bodyData{{next.Transactions(), next.Uncles()}}), true},
		{aqua.BlockBodiesMsg, "bodies-0", enc([]*bodyData{}), true},
		{aqua.NewBlockMsg, "block-next", enc(&nbData{next, tdNext}), true},
		{aqua.NewBlockMsg, "block-orphan-high-td", enc(&nbData{next2, huge}), true},
		{aqua.NewBlockMsg, "block-known", enc(&nbData{b(subChainLen), e.td}), true},
		{aqua.GetNodeDataMsg, "nodedata-of-2", hashList(b(subChainLen).Root(), unknown), true},
		{aqua.NodeDataMsg, "nodedata-2", enc([][]byte{{1, 2, 3}, {}}), true},
		{aqua.GetReceiptsMsg, "receipts-of-3", hashList(b(1).Hash(), b(2).Hash(), unknown), true},
		{aqua.ReceiptsMsg, "receipts-1", enc([][]*types.Receipt{e.rcpts[0]}), true},
		{aqua.ReceiptsMsg, "receipts-0", enc([][]*types.Receipt{}), true},
		{aqua.StatusMsg, "status-for-handshake", e.statusPayload(), false},
	}
}

var subAlphabet = []byte{0x00, 0x01, 0x7f, 0x80, 0x81, 0x82, 0xb7, 0xb8, 0xb9, 0xba, 0xbf, 0xc0, 0xc1, 0xc2, 0xf7, 0xf8, 0xf9, 0xff}

type subCase struct {
	Idx     int
	Code    uint64
	Kind    string
	Label   string
	Base    int    // index into validMsgs (or -1)
	A, B    int    // truncation length / position and mask / index of a short string
	Lit     []byte // literal payload for the small enumerations (short strings, queries)
	Must    bool   // must be handled without error
	MustErr bool   // must be refused
	Status  bool   // payload is fed to the status handshake of a fresh peer instead of handleMsg
}

var subBig = make([]byte, subMaxMsgSize+1)

var (
	bigValidMu    sync.Mutex
	bigValidCache = map[string][]byte{}
)

// bigValid returns a well-formed message of the given code that is just over (or just under) the size
// limit: a node-data reply with one large blob, or a body request for very many (unknown) hashes.
func bigValid(code uint64, over bool) []byte {
	key := fmt.Sprintf("%d/%v", code, over)
	bigValidMu.Lock()
	defer bigValidMu.Unlock()
	if b, ok := bigValidCache[key]; ok {
		return b
	}
	var b []byte
	switch code {
	case aqua.NodeDataMsg:
		n := subMaxMsgSize - 16
		if over {
			n = subMaxMsgSize
		}
		b = refrlp.Encode(refrlp.List(refrlp.Str(make([]byte, n))))
	default: // hash list
		n := subMaxMsgSize/33 - 1
		if over {
			n = subMaxMsgSize/33 + 1
		}
		body := make([]byte, 0, n*33)
		h := keccak([]byte("c17-unknown-2"))
		for i := 0; i < n; i++ {
			body = append(body, 0xa0)
			body = append(body, h...)
		}
		hdr := []byte{0xf9 + 1, byte(len(body) >> 16), byte(len(body) >> 8), byte(len(body))}
		b = append(hdr, body...)
	}
	if over != (len(b) > subMaxMsgSize) {
		ev.Broken("bigValid: size %d does not match over=%v", len(b), over)
	}
	bigValidCache[key] = b
	return b
}

// payload materialises the message body of a case (kept out of the case list: the thorough list has
// more than a million entries).
func (c subCase) payload(valid []subMsg) []byte {
	var base []byte
	if c.Base >= 0 {
		base = valid[c.Base].payload
	}
	switch c.Kind {
	case "valid", "crosscode":
		return base
	case "trunc":
		return base[:c.A]
	case "alt":
		alt := append([]byte{}, base...)
		alt[c.A] ^= byte(c.B)
		return alt
	case "oversize-valid", "nearmax-valid":
		return bigValid(c.Code, c.Kind == "oversize-valid")
	case "oversize":
		return subBig
	case "maxsize":
		return subBig[:subMaxMsgSize]
	case "handshake":
		switch {
		case strings.HasSuffix(c.Label, "/trunc"):
			return base[:c.A]
		case strings.HasSuffix(c.Label, "/alt"):
			alt := append([]byte{}, base...)
			alt[c.A] ^= byte(c.B)
			return alt
		}
		return base
	}
	return c.Lit
}

// subCases enumerates the cases in a fixed order and hands each to visit (which returns false to stop).
// Nothing is kept: the thorough enumeration has more than a million entries.
func subCases(e *subEnv, valid []subMsg, thorough bool, visit func(subCase) bool) (total int) {
	stop := false
	must := func(c *subCase) { c.Must = true }
	mustErr := func(c *subCase) { c.MustErr = true }
	status := func(c *subCase) { c.Status = true }
	add := func(code uint64, kind, label string, base, a, b int, lit []byte, mods ...func(*subCase)) {
		c := subCase{Idx: total, Code: code, Kind: kind, Label: fmt.Sprintf("code=%02x/%s", code, label), Base: base, A: a, B: b, Lit: lit}
		for _, m := range mods {
			m(&c)
		}
		total++
		if !stop && !visit(c) {
			stop = true
		}
	}
	masks := []int{0x01, 0x80, 0xff}
	if thorough {
		masks = discMasks(true)
	}
	maxLen := 2
	if thorough {
		maxLen = 3
	}
	// 1. every string over the boundary alphabet, for every code 0x00..0x12
	var strs [][]byte
	var gen func(prefix []byte, left int)
	gen = func(prefix []byte, left int) {
		strs = append(strs, append([]byte{}, prefix...))
		if left == 0 {
			return
		}
		for _, a := range subAlphabet {
			gen(append(prefix, a), left-1)
		}
	}
	gen(nil, maxLen)
	for code := uint64(0); code <= 0x12; code++ {
		for _, s := range strs {
			add(code, "short", fmt.Sprintf("short/len=%d", len(s)), -1, 0, 0, s)
		}
	}
	// 2. valid messages, their truncations and single-byte alterations
	for bi, m := range valid {
		if m.name == "status-for-handshake" {
			continue
		}
		if m.must {
			add(m.code, "valid", "valid/"+m.name, bi, 0, 0, nil, must)
		} else {
			add(m.code, "valid", "valid/"+m.name, bi, 0, 0, nil)
		}
		for l := 0; l < len(m.payload); l++ {
			add(m.code, "trunc", "trunc/"+m.name, bi, l, 0, nil)
		}
		ms := masks
		if thorough && len(m.payload) > 160 {
			ms = valueMasks32 // all 255 values for the short messages, 32 masks for blocks / headers / receipts
		}
		for p := 0; p < len(m.payload); p++ {
			for _, mk := range ms {
				add(m.code, "alt", "alt/"+m.name, bi, p, mk, nil)
			}
		}
		// the same valid payload under every other code (type confusion)
		for code := uint64(0); code <= 0x12; code++ {
			if code != m.code {
				add(code, "crosscode", "crosscode/"+m.name, bi, 0, 0, nil)
			}
		}
	}
	// 3. the header query lattice
	head := e.origHead
	origins := []*refrlp.Item{
		refrlp.Str(e.genesis.Hash().Bytes()), refrlp.Str(head.Hash().Bytes()), refrlp.Str(e.chain[3].Hash().Bytes()), refrlp.Str(keccak([]byte("nope"))),
		refrlp.Uint(0), refrlp.Uint(3), refrlp.Uint(head.NumberU64()), refrlp.Uint(head.NumberU64() + 1), refrlp.Uint(1<<64 - 1),
	}
	for oi, o := range origins {
		for _, amount := range []uint64{0, 1, 3, 192, 193, 1<<63 - 1, 1 << 63, 1<<64 - 1} {
			for _, skip := range []uint64{0, 1, 2, 1 << 63, 1<<64 - 2, 1<<64 - 1} {
				for rev := uint64(0); rev < 2; rev++ {
					add(aqua.GetBlockHeadersMsg, "query", fmt.Sprintf("query/origin%d", oi), -1, 0, 0,
						refrlp.Encode(refrlp.List(o, refrlp.Uint(amount), refrlp.Uint(skip), refrlp.Uint(rev))), must)
				}
			}
		}
	}
	// 4. size limit: one byte over the maximum (must be refused), exactly the maximum, and a long list of
	// repeated requests (bounded answers)
	for code := uint64(0); code <= 0x12; code++ {
		add(code, "oversize", "oversize", -1, 0, 0, nil, mustErr)
		add(code, "maxsize", "maxsize-zeros", -1, 0, 0, nil)
	}
	// well-formed messages on both sides of the limit: refusal must come from the limit, not from the decoder
	for _, code := range []uint64{aqua.NodeDataMsg, aqua.GetBlockBodiesMsg, aqua.GetReceiptsMsg, aqua.GetNodeDataMsg} {
		add(code, "oversize-valid", "oversize-wellformed", -1, 0, 0, nil, mustErr)
		add(code, "nearmax-valid", "nearmax-wellformed", -1, 0, 0, nil, must)
	}
	var many []*refrlp.Item
	for i := 0; i < 4096; i++ {
		many = append(many, refrlp.Str(e.chain[5].Hash().Bytes()))
	}
	rep := refrlp.Encode(refrlp.List(many...))
	for _, code := range []uint64{aqua.GetBlockBodiesMsg, aqua.GetReceiptsMsg, aqua.GetNodeDataMsg} {
		add(code, "repeat", "repeat-4096-hashes", -1, 0, 0, rep, must)
	}
	// 5. the status handshake itself: valid, truncated, altered, and another message first
	si := -1
	for i, m := range valid {
		if m.name == "status-for-handshake" {
			si = i
		}
	}
	st := valid[si].payload
	add(aqua.StatusMsg, "handshake", "handshake/valid", si, 0, 0, nil, status, must)
	for l := 0; l < len(st); l++ {
		add(aqua.StatusMsg, "handshake", "handshake/trunc", si, l, 0, nil, status)
	}
	for p := 0; p < len(st); p++ {
		for _, mk := range masks {
			add(aqua.StatusMsg, "handshake", "handshake/alt", si, p, mk, nil, status)
		}
	}
	for code := uint64(1); code <= 0x12; code++ {
		add(code, "handshake", "handshake/other-code-first", si, 0, 0, nil, status, mustErr)
	}
	return total
}

// ---- evaluation of one case inside the bubble --------------------------------------------------------------------

// Allocation by handling one message (handler plus everything it triggers until quiescence, including 7 s
// of virtual time of the manager's own tickers): constant plus a multiple of the payload.
const (
	subAllocConst  = 24 << 20
	subAllocPerLen = 64
)

type subOut struct {
	err      error
	panicked bool
	pmsg     string
	site     string
	wedged   bool
}

func subFinding(c subCase, payload []byte, oracle, id string, extra map[string]interface{}) finding {
	d := map[string]interface{}{"part": "sub", "idx": c.Idx, "label": c.Label, "code": c.Code, "len": len(payload), "kind": c.Kind, "a": c.A, "b": c.B}
	if len(payload) <= 4096 {
		d["payload_hex"] = hx(payload)
	}
	for k, v := range extra {
		d[k] = v
	}
	return finding{"sub-handler", oracle, fmt.Sprintf("code=%02x/%s", c.Code, id), d}
}

func (e *subEnv) eval(c subCase, payload []byte) (fs []finding, class string) {
	bad := func(oracle, id string, extra map[string]interface{}) {
		fs = append(fs, subFinding(c, payload, oracle, id, extra))
	}
	baseHead := e.origHead
	var (
		out    subOut
		allocB uint64
		resp   []outMsg
	)
	run := func(f func() error) {
		ch := make(chan subOut, 1)
		go func() {
			var r subOut
			defer func() {
				if x := recover(); x != nil {
					r.panicked, r.pmsg, r.site = true, normPanic(x), panicSite()
				}
				ch <- r
			}()
			r.err = f()
		}()
		tm := time.NewTimer(time.Hour)
		defer tm.Stop()
		select {
		case out = <-ch:
		case <-tm.C:
			out = subOut{wedged: true}
		}
	}
	if c.Status {
		e.peerSeq++
		var id discover.NodeID
		copy(id[:], keccak([]byte(fmt.Sprintf("c17-hs-peer-%d", e.peerSeq))))
		rw := &scriptRW{}
		vp := e.pm.VerifNewPeer(subProtoVer, p2p.NewPeer(id, "c17", nil), rw)
		rw.push(c.Code, payload, len(payload))
		allocB, _ = allocDelta(func() {
			run(func() error { return e.pm.VerifHandshake(vp) })
			synctest.Wait()
		})
		if out.err == nil && !out.panicked && !out.wedged {
			// a peer whose status was accepted must be usable: its head and difficulty are what it sent
			func() {
				defer func() {
					if x := recover(); x != nil {
						bad("no-panic", "peer-state-after-accepted-status/"+normPanic(x), nil)
					}
				}()
				vp.Head()
			}()
		}
		resp = rw.takeOut()
	} else {
		if e.curPeer == nil || !e.pm.VerifRegistered(e.curPeer) {
			vp, rw, err := e.newPeer()
			if err != nil {
				ev.Broken("genuine status handshake failed: %v", err)
			}
			e.curPeer, e.curRW = vp, rw
		}
		vp, rw := e.curPeer, e.curRW
		rw.push(c.Code, payload, len(payload))
		allocB, _ = allocDelta(func() {
			run(func() error { return e.pm.VerifHandleMsg(vp) })
			if out.wedged {
				return
			}
			synctest.Wait()
			if out.err != nil && !out.panicked {
				return // refused before anything was handed to a background loop
			}
			time.Sleep(7 * time.Second) // fetcher arrival / fetch time-outs
			synctest.Wait()
			for i := 0; e.pm.VerifSynchronising() && i < 40; i++ {
				time.Sleep(30 * time.Second) // a sync started by the message runs into its time-outs
				synctest.Wait()
			}
		})
		if e.pm.VerifSynchronising() {
			bad("returns", "downloader-still-synchronising-after-20-virtual-minutes", nil)
		}
		resp = rw.takeOut()
		if out.err == nil || out.panicked || out.wedged {
			// the peer's state may have changed: the next case gets a fresh peer
			e.pm.VerifUnregister(vp)
			e.curPeer, e.curRW = nil, nil
		}
	}
	switch {
	case out.wedged:
		bad("returns", "handler-did-not-return-in-1h-virtual", nil)
		return fs, fmt.Sprintf("sub/%s/wedged", c.Label)
	case out.panicked:
		bad("no-panic", out.site+"/"+out.pmsg, map[string]interface{}{"panic": out.pmsg, "site": out.site})
		return fs, fmt.Sprintf("sub/%s/panic", c.Label)
	}
	if c.Must && out.err != nil {
		bad("wellformed-message-handled", c.Kind, map[string]interface{}{"err": out.err.Error()})
	}
	if c.MustErr && out.err == nil {
		bad("oversize-or-misplaced-message-refused", c.Kind, nil)
	}
	if allocB > subAllocConst+subAllocPerLen*uint64(len(payload)) {
		bad("allocation-bounded", c.Kind, map[string]interface{}{"bytes": allocB})
	}
	if allocB > e.maxAlloc {
		e.maxAlloc = allocB
	}
	// answers are bounded by the protocol's limits
	total := 0
	for _, m := range resp {
		total += m.size
	}
	// (header answers: at most MaxHeaderFetch = 192 headers of < 700 bytes each on this chain; everything
	// else: the 2 MiB soft response limit plus one item)
	limit := 2*1024*1024 + 256*1024
	if c.Code == aqua.GetBlockHeadersMsg {
		limit = 192 * 700
	}
	if len(resp) > 8 || total > limit {
		bad("answers-bounded", c.Kind, map[string]interface{}{"messages": len(resp), "bytes": total, "limit": limit})
	}
	// what reached the pool / the chain is what was sent
	for _, tx := range e.pool.take() {
		if tx == nil || !bytesContains(payload, enc(tx)) {
			bad("delivered-equals-sent", "transaction-not-in-the-message", nil)
		}
	}
	if h := e.bc.CurrentBlock(); h.Hash() != baseHead.Hash() {
		if !bytesContains(payload, enc(h)) {
			bad("delivered-equals-sent", "imported-block-not-in-the-message", map[string]interface{}{"number": h.NumberU64()})
		}
		// restore the original canonical chain (the imported block may be a sibling of the head)
		if err := e.bc.SetHead(baseHead.NumberU64() - 1); err != nil {
			ev.Broken("cannot rewind the chain: %v", err)
		}
		if _, err := e.bc.InsertChain(types.Blocks{baseHead}); err != nil || e.bc.CurrentBlock().Hash() != baseHead.Hash() {
			ev.Broken("cannot restore the original head: %v", err)
		}
		synctest.Wait()
		if c.Kind == "valid" && valid_next(c) && h.Hash() != e.chain[subChainLen].Hash() {
			bad("wellformed-message-handled", "valid-next-block-not-imported", nil)
		}
		return fs, fmt.Sprintf("sub/%s/%s/imported", c.Label, errClass(out.err))
	}
	if c.Kind == "valid" && valid_next(c) {
		bad("wellformed-message-handled", "valid-next-block-not-imported", nil)
	}
	return fs, fmt.Sprintf("sub/%s/%s/answers=%d", c.Label, errClass(out.err), len(resp))
}

func bytesContains(hay, needle []byte) bool { return bytes.Contains(hay, needle) }

func valid_next(c subCase) bool { return strings.HasSuffix(c.Label, "valid/block-next") }

// ---- worker --------------------------------------------------------------------------------------------------------

var (
	subProgress atomic.Int64 // index of the case being evaluated
	subBeat     atomic.Int64 // incremented at every case start
	subLate     atomic.Bool  // set by the watchdog when the real-time deadline has passed
)

func walPath(tag string, shard int) string {
	return filepath.Join(os.Getenv("VERIF_SCRATCH"), fmt.Sprintf("c17-sub-%s-%d.wal", tag, shard))
}

func subWorker(t *testing.T, shard, n int) {
	tag := os.Getenv("C17_SUB_TAG")
	if s := os.Getenv("C17_SUB_SHARD"); s != "" {
		fmt.Sscanf(s, "%d/%d", &shard, &n)
	}
	from, _ := strconv.Atoi(os.Getenv("C17_SUB_FROM"))
	only := -1
	if s := os.Getenv("C17_SUB_ONLY"); s != "" {
		only, _ = strconv.Atoi(s)
	}
	deadline, _ := strconv.ParseInt(os.Getenv("C17_SUB_DEADLINE"), 10, 64)
	thorough := os.Getenv("VERIF_TIER") == "thorough"
	wal, err := os.Create(walPath(tag, shard))
	if err != nil {
		ev.Broken("wal: %v", err)
	}
	res := &ev.WorkerResult{Counters: map[string]int64{}}
	var resMu sync.Mutex
	classes := map[string]bool{}
	snapshot := func(path string) {
		resMu.Lock()
		defer resMu.Unlock()
		res.Classes = res.Classes[:0]
		for c := range classes {
			res.Classes = append(res.Classes, c)
		}
		b, _ := json.Marshal(res)
		os.WriteFile(path, b, 0o644)
	}
	// watchdog on the real clock (outside the bubble): deadline flag and the 30 s "did not return" guard
	go func() {
		last, since := int64(-1), time.Now()
		for {
			time.Sleep(500 * time.Millisecond)
			if deadline > 0 && time.Now().Unix() > deadline {
				subLate.Store(true)
			}
			if b := subBeat.Load(); b != last {
				last, since = b, time.Now()
			} else if b > 0 && time.Since(since) > 30*time.Second {
				fmt.Fprintf(os.Stderr, "C17-STUCK case=%d\n", subProgress.Load())
				snapshot(walPath(tag, shard) + ".partial")
				os.Exit(7)
			}
		}
	}()
	if p := os.Getenv("C17_SUB_PROF"); p != "" && shard == 0 { // development aid
		f, _ := os.Create(p)
		pprof.StartCPUProfile(f)
	}
	synctest.Test(t, func(t *testing.T) {
		e := newSubEnv()
		valid := e.validMsgs()
		seen := map[string]bool{}
		done := 0
		wantLabel := os.Getenv("C17_SUB_LABEL")
		total := subCases(e, valid, thorough, func(c subCase) bool {
			if only >= 0 {
				if c.Idx != only {
					return true
				}
				if wantLabel != "" && c.Label != wantLabel {
					ev.Broken("replay: case %d is %q, not %q, in the current enumeration", only, c.Label, wantLabel)
				}
			} else if c.Idx%n != shard || c.Idx < from {
				return true
			}
			if subLate.Load() {
				res.Caps = append(res.Caps, "sub-protocol enumeration cut by the deadline")
				return false
			}
			fmt.Fprintf(wal, "%d %s\n", c.Idx, c.Label)
			subProgress.Store(int64(c.Idx))
			subBeat.Add(1)
			payload := c.payload(valid)
			fs, class := e.eval(c, payload)
			resMu.Lock()
			res.Evals++
			classes[class] = true
			for _, f := range fs {
				if !seen[f.sig()] {
					seen[f.sig()] = true
					// determinism: the same case on the same (restored) environment must give the same verdict
					again := 0
					for i := 0; i < 2; i++ {
						resMu.Unlock()
						fs2, _ := e.eval(c, payload)
						resMu.Lock()
						for _, g := range fs2 {
							if g.sig() == f.sig() {
								again++
								break
							}
						}
					}
					if again != 2 {
						ev.Broken("sub-protocol verdict not deterministic (%d/2 repeats): %s case %d", again, f.sig(), c.Idx)
					}
					res.Violations = append(res.Violations, ev.Violation{Scenario: f.Scenario, Oracle: f.Oracle, CaseID: f.CaseID, Detail: f.Detail})
				}
			}
			resMu.Unlock()
			done++
			if done%250 == 0 {
				snapshot(walPath(tag, shard) + ".partial")
			}
			return true
		})
		if len(res.Samples) == 0 && done > 0 {
			res.Samples = append(res.Samples, map[string]interface{}{"part": "sub", "cases_in_shard": done, "total_cases": total})
		}
		res.Counters["sub_cases"] = int64(done)
		res.Counters["max_sub_alloc_bytes_per_message"] = int64(e.maxAlloc)
		resMu.Lock()
		for c := range classes {
			res.Classes = append(res.Classes, c)
		}
		resMu.Unlock()
		fmt.Fprintf(wal, "done\n")
		wal.Close()
		pprof.StopCPUProfile()
		ev.WorkerDone(res) // exits from inside the bubble: the manager's loops are never asked to terminate
	})
}

// ---- parent ----------------------------------------------------------------------------------------------------------

type subCrash struct {
	shard  int
	output string
	wal    string
}

func lastWAL(path string) (idx int, label string, finished bool) {
	b, err := os.ReadFile(path)
	if err != nil {
		return -1, "", false
	}
	lines := strings.Split(strings.TrimSpace(string(b)), "\n")
	idx = -1
	for _, l := range lines {
		if l == "done" {
			finished = true
			continue
		}
		var i int
		var lab string
		if n, _ := fmt.Sscanf(l, "%d %s", &i, &lab); n == 2 {
			idx, label = i, lab
		}
	}
	return idx, label, finished
}

// crashSite extracts a stable description of a Go panic from the output of a dead worker.
func crashSite(output string) (msg, site string, stuck bool) {
	if strings.Contains(output, "C17-STUCK") {
		return "", "", true
	}
	lines := strings.Split(output, "\n")
	for i, l := range lines {
		if strings.HasPrefix(l, "panic: ") || strings.HasPrefix(l, "fatal error: ") {
			msg = normPanic(strings.TrimSpace(l))
			for _, m := range lines[i+1:] {
				m = strings.TrimSpace(m)
				if strings.HasPrefix(m, "gitlab.com/aquachain/aquachain/") && !strings.Contains(m, "zzverif/") {
					site = m
					if k := strings.LastIndex(site, "("); k > 0 && strings.HasSuffix(site, ")") {
						site = site[:k] // drop the argument list
					}
					site = strings.TrimPrefix(site, "gitlab.com/aquachain/aquachain/")
					break
				}
			}
			return msg, site, false
		}
	}
	return "worker died without a Go panic message", "", false
}

func runSub(run *ev.Run, deadline time.Time) {
	n := ev.Jobs()
	if n < 2 {
		n = 2
	}
	// few threads per worker: the work is sequential, and runtime.ReadMemStats stops the world per case
	envBase := []string{"C17_SUB_DEADLINE=" + strconv.FormatInt(deadline.Unix(), 10), "GOMAXPROCS=2"}
	var mu sync.Mutex
	var crashes []subCrash
	results := run.RunWorkers(n, append(envBase, "C17_SUB_TAG=main"), func(shard int, output string) {
		mu.Lock()
		crashes = append(crashes, subCrash{shard, output, walPath("main", shard)})
		mu.Unlock()
	})
	if p := os.Getenv("C17_DUMP_CLASSES"); p != "" { // development aid
		var all []string
		for _, wr := range results {
			if wr != nil {
				all = append(all, wr.Classes...)
			}
		}
		os.WriteFile(p, []byte(strings.Join(all, "\n")), 0o644)
	}
	merge := func(path string) {
		b, err := os.ReadFile(path)
		if err != nil {
			return
		}
		var wr ev.WorkerResult
		if json.Unmarshal(b, &wr) != nil {
			return
		}
		run.Eval(int(wr.Evals))
		run.Classes(wr.Classes)
		for _, v := range wr.Violations {
			run.Violate(v)
		}
	}
	restarts := 0
	for len(crashes) > 0 {
		cr := crashes[0]
		crashes = crashes[1:]
		wal := cr.wal
		if strings.Contains(cr.output, "HARNESS-ERROR:") {
			ev.Broken("sub-protocol worker %d reported a harness error:\n%s", cr.shard, tailStr(cr.output, 2000))
		}
		idx, label, _ := lastWAL(wal)
		merge(wal + ".partial")
		if idx < 0 {
			ev.Broken("sub-protocol worker %d died before its first case:\n%s", cr.shard, tailStr(cr.output, 2000))
		}
		msg, site, stuck := crashSite(cr.output)
		// confirm in fresh processes: 3 runs for a crash, 5 for "did not return"
		reps, died := 3, 0
		if stuck {
			reps = 5
		}
		var confirmLog []string
		for i := 0; i < reps; i++ {
			dead := false
			// no deadline here: a confirmation run evaluates exactly one case
			run.RunWorkers(1, []string{"GOMAXPROCS=2", fmt.Sprintf("C17_SUB_TAG=confirm%d", i), fmt.Sprintf("C17_SUB_ONLY=%d", idx)}, func(_ int, out string) {
				m2, s2, st2 := crashSite(out)
				if st2 == stuck && m2 == msg && s2 == site {
					dead = true
				} else {
					confirmLog = append(confirmLog, fmt.Sprintf("run %d: stuck=%v msg=%q site=%q (want %q %q)\n%s", i, st2, m2, s2, msg, site, tailStr(out, 600)))
				}
			})
			if dead {
				died++
			} else if len(confirmLog) <= i {
				confirmLog = append(confirmLog, fmt.Sprintf("run %d: worker finished normally", i))
			}
		}
		code, _ := strconv.ParseUint(strings.TrimPrefix(strings.SplitN(label, "/", 2)[0], "code="), 16, 64)
		d := map[string]interface{}{"part": "sub", "idx": idx, "label": label, "code": code, "worker_output_tail": tailStr(cr.output, 1500), "crash": true}
		switch {
		case died == reps && stuck:
			run.Violate(ev.Violation{Scenario: "sub-handler", Oracle: "returns", CaseID: fmt.Sprintf("code=%02x/no-progress-for-30s-in-5-fresh-processes", code), Detail: d})
		case died == reps:
			run.Violate(ev.Violation{Scenario: "sub-handler", Oracle: "no-panic", CaseID: fmt.Sprintf("code=%02x/process-killed/%s/%s", code, site, msg), Detail: d})
		case stuck:
			run.Add("sub_stuck_not_reproduced", 1) // the documented guard: reported only if it never returns
		default:
			ev.Broken("sub-protocol worker died at case %d (%s) but the case alone does not reproduce it (%d/%d):\n%s\n--- confirmation runs:\n%s", idx, label, died, reps, tailStr(cr.output, 1200), strings.Join(confirmLog, "\n"))
		}
		// continue the shard after the fatal case
		restarts++
		if restarts > 40 {
			run.Cap("sub-protocol: more than 40 worker deaths, remaining cases of the affected shards not evaluated")
			break
		}
		shardSpec := fmt.Sprintf("C17_SUB_SHARD=%d/%d", cr.shard, n)
		tag := fmt.Sprintf("resume%d", restarts)
		run.RunWorkers(1, append(envBase, "C17_SUB_TAG="+tag, shardSpec, fmt.Sprintf("C17_SUB_FROM=%d", idx+1)), func(_ int, output string) {
			mu.Lock()
			crashes = append(crashes, subCrash{cr.shard, output, walPath(tag, cr.shard)})
			mu.Unlock()
		})
	}
}

func tailStr(s string, n int) string {
	if len(s) > n {
		return s[len(s)-n:]
	}
	return s
}

func replaySub(t *testing.T, run *ev.Run, d *ev.ReplayDoc) {
	idx := dInt(d.Detail, "idx")
	run.Eval(1)
	run.Class("replay")
	run.Class("replay/sub/" + dStr(d.Detail, "label"))
	sig := d.Scenario + "/" + d.Oracle + "/" + d.CaseID
	crashed := false
	var out string
	res := run.RunWorkers(1, []string{"C17_SUB_TAG=replay", fmt.Sprintf("C17_SUB_ONLY=%d", idx), "C17_SUB_LABEL=" + dStr(d.Detail, "label")}, func(_ int, o string) { crashed, out = true, o })
	if crashed {
		if strings.Contains(out, "HARNESS-ERROR:") {
			ev.Broken("replay worker: %s", tailStr(out, 1500))
		}
		if dBool(d.Detail, "crash") {
			msg, site, stuck := crashSite(out)
			code := uint64(dInt(d.Detail, "code"))
			id := fmt.Sprintf("code=%02x/process-killed/%s/%s", code, site, msg)
			if stuck {
				id = fmt.Sprintf("code=%02x/no-progress-for-30s-in-5-fresh-processes", code)
			}
			if id == d.CaseID {
				run.Violate(ev.Violation{Scenario: d.Scenario, Oracle: d.Oracle, CaseID: d.CaseID, Detail: d.Detail})
			}
		}
		return
	}
	// RunWorkers has already merged (and reported) the worker's violations; nothing else to do here
	_ = res
	_ = sig
}
