package c17

// Part (a): discovery datagrams. p2p/discover decodePacket and udp.handlePacket on the real code,
// inside a synctest bubble (virtual clock: expiry and reply time-outs are exact, no wall clock).

import (
	"bytes"
	"errors"
	"fmt"
	"io"
	"net"
	"reflect"
	"sync"
	"testing"
	"testing/synctest"
	"time"

	"github.com/btcsuite/btcd/btcec/v2"

	"gitlab.com/aquachain/aquachain/p2p/discover"
	"gitlab.com/aquachain/aquachain/rlp"
	"gitlab.com/aquachain/aquachain/zzverif/ev"
	"gitlab.com/aquachain/aquachain/zzverif/ref/refrlp"
)

const (
	dAqua   = 0
	dCompat = 1

	stPlain    = 0 // nothing pending, attacker not bonded
	stBonded   = 1 // attacker key has a recorded bond (findnode is answered)
	stSolPong  = 2 // the node has a ping to the attacker in flight (a pong is solicited)
	stSolNeigh = 3 // the node has a findnode to the attacker in flight

	exp2100 = 4102444800 // 2100-01-01, in the future of both the real and the bubble clock
)

var (
	dialectName = []string{"aqua", "compat"}
	stateName   = []string{"plain", "bonded", "pong-solicited", "neighbors-solicited"}
	fromAddr    = &net.UDPAddr{IP: net.IP{10, 0, 1, 99}, Port: 30303}
	localAddr   = &net.UDPAddr{IP: net.IP{3, 3, 3, 3}, Port: 30399}
	attID       = discover.NodeID(pubID(keyAttacker))
	locID       = discover.NodeID(pubID(keyLocal))
	fnTarget    = discover.NodeID(thirdID)
)

// ---- payload construction with the reference encoder (not the repository's) -----------------------

func epItem(ip []byte, udp, tcp uint64) *refrlp.Item {
	return refrlp.List(refrlp.Str(ip), refrlp.Uint(udp), refrlp.Uint(tcp))
}

func nodeItem(ip []byte, udp, tcp uint64, id [64]byte) *refrlp.Item {
	return refrlp.List(refrlp.Str(ip), refrlp.Uint(udp), refrlp.Uint(tcp), refrlp.Str(id[:]))
}

var (
	ip4a  = []byte{10, 0, 1, 99}
	ip4b  = []byte{3, 3, 3, 3}
	ip4c  = []byte{10, 0, 1, 50}
	ip6a  = []byte{0x26, 0x06, 0x47, 0, 0, 0, 0, 0, 0, 0, 0, 0, 0, 0, 0x11, 0x11}
	ip6b  = []byte{0x26, 0x06, 0x47, 0, 0, 0, 0, 0, 0, 0, 0, 0, 0, 0, 0x10, 0x01}
	zeroT = make([]byte, 32)
)

var (
	derivedMu  sync.Mutex
	derivedIDs = map[int][64]byte{}
)

// derivedID is the node id of the i-th derived key (fixed, cached: deriving costs a scalar multiplication).
func derivedID(i int) [64]byte {
	derivedMu.Lock()
	defer derivedMu.Unlock()
	if id, ok := derivedIDs[i]; ok {
		return id
	}
	k, _ := btcec.PrivKeyFromBytes(keccak([]byte(fmt.Sprintf("c17-node-%d", i))))
	id := pubID(k)
	derivedIDs[i] = id
	return id
}

var thirdID = pubID(keyThird)

const pongBase = 3 // index of the pong base packet in discBases

type discBase struct {
	name    string
	ptype   int // 0 ping, 1 pong, 2 findnode, 3 neighbors
	payload func(tok []byte) []byte
	kinds   []string // mutation kinds applied to this base
	states  []int    // additional states (besides plain) in which the base is exercised
	nodes   int      // neighbors: number of relayable nodes in the unmodified packet
}

var allKinds = []string{"valid", "trunc", "alt-raw", "alt-rehash", "alt-resign"}

var discBases = []discBase{
	{name: "ping4", ptype: 0, kinds: allKinds, payload: func([]byte) []byte {
		return refrlp.Encode(refrlp.List(refrlp.Uint(4), epItem(ip4a, 30303, 30303), epItem(ip4b, 30399, 0), refrlp.Uint(exp2100)))
	}},
	{name: "ping6+tail", ptype: 0, kinds: allKinds, payload: func([]byte) []byte {
		return refrlp.Encode(refrlp.List(refrlp.Uint(4), epItem(ip6a, 30303, 30304), epItem(ip6b, 30399, 0), refrlp.Uint(exp2100),
			refrlp.Uint(7), refrlp.List(refrlp.Str([]byte("x")))))
	}},
	{name: "ping-expired", ptype: 0, kinds: []string{"valid", "alt-resign"}, payload: func([]byte) []byte {
		return refrlp.Encode(refrlp.List(refrlp.Uint(4), epItem(ip4a, 30303, 30303), epItem(ip4b, 30399, 0), refrlp.Uint(1)))
	}},
	{name: "pong", ptype: 1, kinds: allKinds, states: []int{stSolPong}, payload: func(tok []byte) []byte {
		if tok == nil {
			tok = zeroT
		}
		return refrlp.Encode(refrlp.List(epItem(ip4a, 30303, 0), refrlp.Str(tok), refrlp.Uint(exp2100)))
	}},
	// correctly signed pongs whose reply token is a proper prefix of the ping's hash (empty, 2 bytes, 31
	// bytes) or the hash plus a byte: only the full token answers the ping
	{name: "pong-tok0", ptype: 1, kinds: []string{"valid"}, states: []int{stSolPong}, payload: func(tok []byte) []byte {
		return refrlp.Encode(refrlp.List(epItem(ip4a, 30303, 0), refrlp.Str(nil), refrlp.Uint(exp2100)))
	}},
	{name: "pong-tok2", ptype: 1, kinds: []string{"valid"}, states: []int{stSolPong}, payload: func(tok []byte) []byte {
		if tok == nil {
			tok = zeroT
		}
		return refrlp.Encode(refrlp.List(epItem(ip4a, 30303, 0), refrlp.Str(tok[:2]), refrlp.Uint(exp2100)))
	}},
	{name: "pong-tok31", ptype: 1, kinds: []string{"valid"}, states: []int{stSolPong}, payload: func(tok []byte) []byte {
		if tok == nil {
			tok = zeroT
		}
		return refrlp.Encode(refrlp.List(epItem(ip4a, 30303, 0), refrlp.Str(tok[:31]), refrlp.Uint(exp2100)))
	}},
	{name: "pong-tok33", ptype: 1, kinds: []string{"valid"}, states: []int{stSolPong}, payload: func(tok []byte) []byte {
		if tok == nil {
			tok = zeroT
		}
		return refrlp.Encode(refrlp.List(epItem(ip4a, 30303, 0), refrlp.Str(append(append([]byte{}, tok...), 0)), refrlp.Uint(exp2100)))
	}},
	{name: "findnode", ptype: 2, kinds: allKinds, states: []int{stBonded}, payload: func([]byte) []byte {
		return refrlp.Encode(refrlp.List(refrlp.Str(thirdID[:]), refrlp.Uint(exp2100)))
	}},
	{name: "neighbors0", ptype: 3, kinds: allKinds, states: []int{stSolNeigh}, payload: func([]byte) []byte {
		return refrlp.Encode(refrlp.List(refrlp.List(), refrlp.Uint(exp2100)))
	}},
	// three nodes of which two are relayable: this fork's NewNode accepts IPv4 addresses only, so the
	// IPv6 entry is dropped by nodeFromRPC (rejecting is allowed by the property)
	{name: "neighbors3", ptype: 3, kinds: allKinds, states: []int{stSolNeigh}, nodes: 2, payload: func([]byte) []byte {
		return refrlp.Encode(refrlp.List(refrlp.List(
			nodeItem(ip4c, 30303, 30303, thirdID),
			nodeItem(ip6a, 30305, 30306, derivedID(0)),
			nodeItem([]byte{10, 0, 1, 51}, 30307, 30308, derivedID(20))), refrlp.Uint(exp2100)))
	}},
	{name: "neighbors12", ptype: 3, kinds: []string{"valid", "trunc"}, states: []int{stSolNeigh}, nodes: 12, payload: func([]byte) []byte {
		var ns []*refrlp.Item
		for i := 0; i < 12; i++ {
			ns = append(ns, nodeItem([]byte{10, 0, 2, byte(1 + i)}, uint64(30400+i), uint64(30400+i), derivedID(i+1)))
		}
		return refrlp.Encode(refrlp.List(refrlp.List(ns...), refrlp.Uint(exp2100)))
	}},
}

func typeByte(dialect, ptype int) byte {
	if dialect == dCompat {
		return byte(1 + ptype)
	}
	return byte(134 + ptype)
}

// sigdataOf returns type || ["aqua"] || payload.
func sigdataOf(dialect int, t byte, payload []byte) []byte {
	b := []byte{t}
	if dialect == dAqua {
		b = append(b, "aqua"...)
	}
	return append(b, payload...)
}

// seal produces hash || signature || sigdata, signed with key.
func seal(key *btcec.PrivateKey, sigdata []byte) []byte {
	sig := signCompact(key, keccak(sigdata))
	buf := make([]byte, 0, 97+len(sigdata))
	buf = append(buf, make([]byte, 32)...)
	buf = append(buf, sig...)
	buf = append(buf, sigdata...)
	copy(buf, keccak(buf[32:]))
	return buf
}

// ---- cases -------------------------------------------------------------------------------------

type discCase struct {
	Dialect int    `json:"dialect"`
	Base    int    `json:"base"` // -1: no base packet
	Kind    string `json:"kind"`
	A       int    `json:"a"` // trunc length / position / zero length / type byte
	B       int    `json:"b"` // mask / sigdata length
	State   int    `json:"state"`
}

func (c discCase) label() string {
	b := "-"
	if c.Base >= 0 {
		b = discBases[c.Base].name
	}
	return fmt.Sprintf("%s/%s/%s/%s", dialectName[c.Dialect], b, c.Kind, stateName[c.State])
}

// build returns the datagram of a case, the key that signed it when the harness knows it, and
// whether the packet is an unmodified well-formed one (must be accepted by decodePacket).
func (c discCase) build(tok []byte) (buf []byte, signer *btcec.PrivateKey, must bool) {
	var sigdata []byte
	if c.Base >= 0 {
		b := discBases[c.Base]
		sigdata = sigdataOf(c.Dialect, typeByte(c.Dialect, b.ptype), b.payload(tok))
	}
	switch c.Kind {
	case "valid":
		return seal(keyAttacker, sigdata), keyAttacker, true
	case "trunc":
		return seal(keyAttacker, sigdata[:c.A]), keyAttacker, false
	case "alt-raw":
		buf = seal(keyAttacker, sigdata)
		buf[c.A] ^= byte(c.B)
		return buf, nil, false
	case "alt-rehash":
		buf = seal(keyAttacker, sigdata)
		buf[c.A] ^= byte(c.B)
		copy(buf, keccak(buf[32:]))
		return buf, nil, false
	case "alt-resign":
		sigdata[c.A-97] ^= byte(c.B)
		return seal(keyAttacker, sigdata), keyAttacker, false
	case "zeros":
		return make([]byte, c.A), nil, false
	case "zeros-hashed":
		buf = make([]byte, c.A)
		copy(buf, keccak(buf[32:]))
		return buf, nil, false
	case "short": // type byte A followed by zeros, B bytes of signed data in total
		sd := make([]byte, c.B)
		sd[0] = byte(c.A)
		return seal(keyAttacker, sd), keyAttacker, false
	case "typesweep": // every type byte in front of a well-formed ping payload
		sd := sigdataOf(c.Dialect, byte(c.A), discBases[0].payload(nil))
		return seal(keyAttacker, sd), keyAttacker, false
	case "tag": // aqua dialect: the 4-byte tag replaced by something else (A selects), re-signed
		sd := sigdataOf(dAqua, typeByte(dAqua, 0), discBases[0].payload(nil))
		copy(sd[1:5], [][]byte{[]byte("AQUA"), {0, 0, 0, 0}, []byte("aqub")}[c.A])
		return seal(keyAttacker, sd), keyAttacker, false
	}
	ev.Broken("unknown discovery case kind %q", c.Kind)
	return nil, nil, false
}

// macMasks: alterations of bytes that are covered by a hash or MAC (the value written does not matter to
// the comparison): every single bit and all bits. valueMasks32: a fixed set of 32 masks for long messages.
var (
	macMasks     = []int{0x01, 0x02, 0x04, 0x08, 0x10, 0x20, 0x40, 0x80, 0xff}
	valueMasks32 = []int{0x01, 0x02, 0x04, 0x08, 0x10, 0x20, 0x40, 0x80, 0x03, 0x06, 0x0c, 0x18, 0x30, 0x60, 0xc0,
		0xff, 0x7f, 0xfe, 0x0f, 0xf0, 0x55, 0xaa, 0x81, 0x11, 0x22, 0x44, 0x88, 0x33, 0xcc, 0x3c, 0xc3, 0x99}
)

func discMasks(thorough bool) []int {
	if !thorough {
		return []int{0x01, 0x80, 0xff}
	}
	m := make([]int, 0, 255)
	for i := 1; i < 256; i++ {
		m = append(m, i)
	}
	return m
}

// discGroups enumerates all cases, grouped into units that share one bubble.
func discGroups(thorough bool) [][]discCase {
	var groups [][]discCase
	chunk := 256
	if thorough {
		chunk = 1024
	}
	add := func(cs []discCase) {
		for len(cs) > chunk {
			groups = append(groups, cs[:chunk])
			cs = cs[chunk:]
		}
		if len(cs) > 0 {
			groups = append(groups, cs)
		}
	}
	masks := discMasks(thorough)
	for d := 0; d < 2; d++ {
		for bi, b := range discBases {
			sdLen := len(sigdataOf(d, 0, b.payload(nil)))
			total := 97 + sdLen
			states := append([]int{stPlain}, b.states...)
			for _, st := range states {
				for _, k := range b.kinds {
					var cs []discCase
					switch k {
					case "valid":
						cs = append(cs, discCase{d, bi, k, 0, 0, st})
					case "trunc":
						for l := 0; l < sdLen; l++ {
							cs = append(cs, discCase{d, bi, k, l, 0, st})
						}
					case "alt-raw", "alt-rehash":
						if st != stPlain { // these never get past hash / identity: the plain state covers them
							continue
						}
						// quick tier: without a recomputed hash every alteration dies at the hash comparison, so one
						// base packet is enough; with a recomputed hash the long packets are left to the thorough tier
						if !thorough && ((k == "alt-raw" && bi != 0) || (k == "alt-rehash" && (b.name == "ping6+tail" || b.name == "neighbors3"))) {
							continue
						}
						lo := 0
						if k == "alt-rehash" {
							lo = 32
						}
						ms := masks
						if thorough {
							ms = macMasks // without a new signature the packet dies at the hash or changes identity
						}
						for p := lo; p < total; p++ {
							for _, m := range ms {
								cs = append(cs, discCase{d, bi, k, p, m, st})
							}
						}
					case "alt-resign":
						ms := masks
						if thorough && st != stPlain {
							ms = valueMasks32 // all 255 values in the plain state, 32 masks in the stateful repetitions
						}
						for p := 97; p < total; p++ {
							for _, m := range ms {
								cs = append(cs, discCase{d, bi, k, p, m, st})
							}
						}
					}
					add(cs)
				}
			}
		}
		var cs []discCase
		for l := 0; l <= 110; l++ {
			cs = append(cs, discCase{d, -1, "zeros", l, 0, stPlain})
		}
		for l := 98; l <= 110; l++ {
			cs = append(cs, discCase{d, -1, "zeros-hashed", l, 0, stPlain})
		}
		add(cs)
		cs = nil
		for t := 0; t < 256; t++ {
			for l := 1; l <= 6; l++ {
				cs = append(cs, discCase{d, -1, "short", t, l, stPlain})
			}
		}
		add(cs)
		cs = nil
		for t := 0; t < 256; t++ {
			cs = append(cs, discCase{d, -1, "typesweep", t, 0, stPlain})
		}
		if d == dAqua {
			for i := 0; i < 3; i++ {
				cs = append(cs, discCase{d, -1, "tag", i, 0, stPlain})
			}
		}
		add(cs)
	}
	return groups
}

// ---- findings -----------------------------------------------------------------------------------

type finding struct {
	Scenario, Oracle, CaseID string
	Detail                   map[string]interface{}
}

func (f finding) sig() string { return f.Scenario + "/" + f.Oracle + "/" + f.CaseID }

func discFinding(c discCase, scenario, oracle, id string, buf []byte, extra map[string]interface{}) finding {
	d := map[string]interface{}{
		"part": "disc", "dialect": c.Dialect, "base": c.Base, "kind": c.Kind, "a": c.A, "b": c.B, "state": c.State,
		"netcompat": c.Dialect == dCompat, "datagram_hex": hx(buf), "len": len(buf), "label": c.label(),
	}
	for k, v := range extra {
		d[k] = v
	}
	return finding{scenario, oracle, id, d}
}

// ---- decodePacket oracle --------------------------------------------------------------------------

type decOut struct {
	pkt      interface{}
	id       discover.NodeID
	hash     []byte
	err      error
	panicked bool
	pmsg     string
	site     string
}

func callDecode(netcompat bool, buf []byte) (o decOut) {
	b := append([]byte(nil), buf...)
	defer func() {
		if r := recover(); r != nil {
			o.panicked, o.pmsg, o.site = true, normPanic(r), panicSite()
		}
	}()
	o.pkt, o.id, o.hash, o.err = discover.VerifDecodePacket(netcompat, b)
	return o
}

func pktKind(p interface{}) int {
	switch p.(type) {
	case *discover.VerifPing:
		return 0
	case *discover.VerifPong:
		return 1
	case *discover.VerifFindnode:
		return 2
	case *discover.VerifNeighbors:
		return 3
	}
	return -1
}

// checkDecode applies the authentication oracle to one decodePacket result.
func checkDecode(c discCase, buf []byte, signer *btcec.PrivateKey, must bool, o decOut) (fs []finding, outcome string) {
	netcompat := c.Dialect == dCompat
	dn := dialectName[c.Dialect]
	if o.panicked {
		return []finding{discFinding(c, "disc-decode", "no-panic", dn+"/"+o.site+"/"+o.pmsg, buf, map[string]interface{}{"panic": o.pmsg, "site": o.site})}, "panic"
	}
	if o.err != nil {
		if must {
			fs = append(fs, discFinding(c, "disc-decode", "valid-packet-accepted", dn+"/"+discBases[c.Base].name, buf, map[string]interface{}{"err": o.err.Error()}))
		}
		if o.pkt != nil && !isNilPtr(o.pkt) {
			// a packet object together with an error is only a decoding remainder; handlePacket never uses it
		}
		return fs, errClass(o.err)
	}
	bad := func(oracle, why string) {
		fs = append(fs, discFinding(c, "disc-decode", oracle, dn+"/"+why, buf, nil))
	}
	if len(buf) < 98 {
		bad("accepted-implies-authenticated", "shorter-than-head")
		return fs, "ok"
	}
	if !bytes.Equal(buf[:32], keccak(buf[32:])) {
		bad("accepted-implies-authenticated", "hash-mismatch-accepted")
	}
	if !bytes.Equal(o.hash, buf[:32]) {
		bad("accepted-implies-authenticated", "returned-hash-differs")
	}
	if !verifySig(o.id[:], keccak(buf[97:]), buf[32:96]) {
		bad("accepted-implies-authenticated", "returned-id-did-not-sign")
	}
	if signer != nil && o.id != discover.NodeID(pubID(signer)) {
		bad("accepted-implies-authenticated", "returned-id-is-not-the-signer")
	}
	// type and content: what is delivered is what was signed
	tb := buf[97]
	want := -1
	switch {
	case tb >= 134 && tb <= 137:
		want = int(tb - 134)
	case netcompat && tb >= 1 && tb <= 4:
		want = int(tb - 1)
	}
	got := pktKind(o.pkt)
	if got < 0 || isNilPtr(o.pkt) {
		bad("delivered-equals-signed", "nil-or-unknown-packet-without-error")
		return fs, "ok"
	}
	if got != want {
		bad("delivered-equals-signed", fmt.Sprintf("type-byte-maps-to-%d-delivered-%d", want, got))
	}
	off := 98
	if !netcompat {
		off += 4
	}
	if len(buf) < off {
		bad("delivered-equals-signed", "accepted-without-payload")
		return fs, "ok"
	}
	payload := buf[off:]
	h, err := refrlp.ParseHead(payload)
	if err != nil {
		bad("delivered-equals-signed", "payload-not-an-rlp-item:"+err.Error())
		return fs, "ok"
	}
	re, err := rlp.EncodeToBytes(o.pkt)
	if err != nil || !bytes.Equal(re, payload[:h.Total()]) {
		bad("delivered-equals-signed", "re-encoding-differs-from-signed-payload")
	}
	return fs, "ok:" + []string{"ping", "pong", "findnode", "neighbors"}[got]
}

func isNilPtr(v interface{}) bool {
	rv := reflect.ValueOf(v)
	return rv.Kind() == reflect.Ptr && rv.IsNil()
}

// ---- fake socket ---------------------------------------------------------------------------------

type dgram struct {
	to *net.UDPAddr
	b  []byte
}

type pipeConn struct {
	mu      sync.Mutex
	queue   []dgram
	closing chan struct{}
	closed  bool
}

func newPipeConn() *pipeConn { return &pipeConn{closing: make(chan struct{})} }

func (c *pipeConn) WriteToUDP(b []byte, to *net.UDPAddr) (int, error) {
	c.mu.Lock()
	defer c.mu.Unlock()
	if c.closed {
		return 0, errors.New("closed")
	}
	c.queue = append(c.queue, dgram{to, append([]byte(nil), b...)})
	return len(b), nil
}
func (c *pipeConn) ReadFromUDP(b []byte) (int, *net.UDPAddr, error) {
	<-c.closing
	return 0, nil, io.EOF
}
func (c *pipeConn) Close() error {
	c.mu.Lock()
	defer c.mu.Unlock()
	if !c.closed {
		c.closed = true
		close(c.closing)
	}
	return nil
}
func (c *pipeConn) LocalAddr() net.Addr { return localAddr }
func (c *pipeConn) drain() []dgram {
	c.mu.Lock()
	defer c.mu.Unlock()
	q := c.queue
	c.queue = nil
	return q
}

// ---- environment inside a bubble -------------------------------------------------------------------

type discEnv struct {
	netcompat bool
	pipe      *pipeConn
	u         *discover.VerifUDP
	timeouts  int // pending requests that may have timed out on this instance (kept below the NTP threshold)
}

func newDiscEnv(netcompat bool) *discEnv {
	chain := uint64(61717561)
	if netcompat {
		chain = 1
	}
	e := &discEnv{netcompat: netcompat, pipe: newPipeConn()}
	u, err := discover.VerifNewUDP(e.pipe, discover.Config{PrivateKey: keyLocal, ChainId: chain})
	if err != nil {
		ev.Broken("newUDP: %v", err)
	}
	e.u = u
	<-u.InitDone()
	synctest.Wait()
	e.pipe.drain()
	if u.Netcompat() != netcompat {
		ev.Broken("dialect selection changed")
	}
	return e
}

func (e *discEnv) close() {
	e.u.Close()
	time.Sleep(2 * time.Second) // goleveldb's pool drainer takes one (virtual) second to leave after Close
	synctest.Wait()
}

// keepalive completes one genuine ping/pong exchange, which resets the transport's counter of
// consecutive time-outs (at 32 it would start an NTP query over the real network).
func (e *discEnv) keepalive() bool {
	res := make(chan error, 1)
	go func() { res <- e.u.Ping(attID, fromAddr) }()
	synctest.Wait()
	out := e.pipe.drain()
	if len(out) != 1 {
		ev.Broken("keepalive: expected the node's ping, got %d datagrams", len(out))
	}
	c := discCase{Dialect: map[bool]int{false: dAqua, true: dCompat}[e.netcompat], Base: pongBase, Kind: "valid"}
	buf, _, _ := c.build(out[0].b[:32])
	herr := func() (err error) {
		defer func() {
			if recover() != nil {
				err = errors.New("panic")
			}
		}()
		return e.u.HandlePacket(fromAddr, buf)
	}()
	if herr != nil {
		// the code under test does not complete a genuine exchange (the cases report that); the caller
		// falls back to a fresh node instead
		time.Sleep(2 * discover.VerifRespTimeout)
		synctest.Wait()
		<-res
		return false
	}
	perr := <-res
	synctest.Wait()
	e.pipe.drain()
	e.timeouts = 0
	return perr == nil
}

type handleOut struct {
	err      error
	panicked bool
	pmsg     string
	site     string
	wedged   bool
}

func (e *discEnv) callHandle(buf []byte) handleOut {
	ch := make(chan handleOut, 1)
	go func() {
		var r handleOut
		defer func() {
			if x := recover(); x != nil {
				r.panicked, r.pmsg, r.site = true, normPanic(x), panicSite()
			}
			ch <- r
		}()
		r.err = e.u.HandlePacket(fromAddr, append([]byte(nil), buf...))
	}()
	tm := time.NewTimer(time.Hour) // virtual time: fires only if the handler never returns
	defer tm.Stop()
	select {
	case r := <-ch:
		return r
	case <-tm.C:
		return handleOut{wedged: true}
	}
}

// outPkt is an independently parsed datagram sent by the node.
type outPkt struct {
	to    *net.UDPAddr
	ptype int
	item  *refrlp.Item
	hash  []byte
}

func parseOut(netcompat bool, d dgram) (outPkt, error) {
	b := d.b
	if len(b) < 98 {
		return outPkt{}, errors.New("short")
	}
	if !bytes.Equal(b[:32], keccak(b[32:])) {
		return outPkt{}, errors.New("bad hash")
	}
	if !verifySig(locID[:], keccak(b[97:]), b[32:96]) {
		return outPkt{}, errors.New("not signed by the local key")
	}
	t := b[97]
	off := 98
	var pt int
	if netcompat {
		if t < 1 || t > 4 {
			return outPkt{}, fmt.Errorf("type %d in compat dialect", t)
		}
		pt = int(t - 1)
	} else {
		if t < 134 || t > 137 || len(b) < 102 || string(b[98:102]) != "aqua" {
			return outPkt{}, fmt.Errorf("type %d / tag in aqua dialect", t)
		}
		pt = int(t - 134)
		off = 102
	}
	it, err := refrlp.Decode(b[off:])
	if err != nil || !it.IsList {
		return outPkt{}, fmt.Errorf("payload: %v", err)
	}
	return outPkt{to: d.to, ptype: pt, item: it, hash: b[:32]}, nil
}

func beUint(b []byte) uint64 {
	var v uint64
	for _, x := range b {
		v = v<<8 | uint64(x)
	}
	return v
}

// notExpired: 0 expired, 1 live, -1 outside the range where the comparison is well defined
func notExpired(exp uint64, now time.Time) int {
	if exp > 1<<40 {
		return -1
	}
	if int64(exp) > now.Unix() {
		return 1
	}
	return 0
}

type fnResult struct {
	nodes []*discover.Node
	err   error
}

// eval runs one case on the environment and returns the findings and the case class.
func (e *discEnv) eval(c discCase) (fs []finding, class string) {
	var (
		tok     []byte
		pingRes chan error
		fnRes   chan fnResult
		dn      = dialectName[c.Dialect]
	)
	switch c.State {
	case stBonded:
		e.u.SetBond(attID, time.Now())
	case stSolPong:
		pingRes = make(chan error, 1)
		go func() { pingRes <- e.u.Ping(attID, fromAddr) }()
		synctest.Wait()
		out := e.pipe.drain()
		if len(out) != 1 {
			ev.Broken("expected exactly the node's ping on the wire, got %d datagrams", len(out))
		}
		tok = out[0].b[:32]
		e.timeouts++
	case stSolNeigh:
		fnRes = make(chan fnResult, 1)
		go func() {
			n, err := e.u.Findnode(attID, fromAddr, fnTarget)
			fnRes <- fnResult{n, err}
		}()
		synctest.Wait()
		e.pipe.drain()
		e.timeouts++
	}
	buf, signer, must := c.build(tok)
	dec := callDecode(e.netcompat, buf)
	dfs, dclass := checkDecode(c, buf, signer, must, dec)
	fs = append(fs, dfs...)
	hclass := "-"
	accepted := !dec.panicked && dec.err == nil && pktKind(dec.pkt) >= 0 && !isNilPtr(dec.pkt)
	var live = 0
	settle := c.State != stPlain
	if !dec.panicked {
		now := time.Now()
		h := e.callHandle(buf)
		synctest.Wait()
		out := e.pipe.drain()
		bad := func(oracle, why string, extra map[string]interface{}) {
			fs = append(fs, discFinding(c, "disc-handle", oracle, dn+"/"+why, buf, extra))
		}
		switch {
		case h.wedged:
			bad("returns", "handlePacket-did-not-return-in-1h-virtual", nil)
			hclass, settle = "wedged", true
		case h.panicked:
			bad("no-panic", h.site+"/"+h.pmsg, map[string]interface{}{"panic": h.pmsg, "site": h.site})
			hclass, settle = "panic", true
		default:
			hclass = errClass(h.err)
			if h.err == nil {
				settle = true
			}
			wantErr := 0 // 0 must succeed, 1 must fail, -1 either
			kind := -1
			if !accepted {
				wantErr = 1
			} else {
				kind = pktKind(dec.pkt)
				var exp uint64
				switch p := dec.pkt.(type) {
				case *discover.VerifPing:
					exp = p.Expiration
				case *discover.VerifPong:
					exp = p.Expiration
					if !(c.State == stSolPong && dec.id == attID) {
						wantErr = 1
					}
				case *discover.VerifFindnode:
					exp = p.Expiration
					if !(c.State == stBonded && dec.id == attID) {
						wantErr = 1
					}
				case *discover.VerifNeighbors:
					exp = p.Expiration
					if !(c.State == stSolNeigh && dec.id == attID) {
						wantErr = 1
					}
				}
				live = notExpired(exp, now)
				if live == 0 {
					wantErr = 1
				} else if live < 0 && wantErr == 0 {
					wantErr = -1
				}
			}
			if wantErr == 1 && h.err == nil {
				bad("rejected-when-unauthenticated-expired-or-unsolicited", fmt.Sprintf("kind%d-accepted", kind), map[string]interface{}{"decode_err": fmt.Sprint(dec.err)})
			}
			if wantErr == 0 && h.err != nil {
				bad("authenticated-live-packet-handled", fmt.Sprintf("kind%d-rejected", kind), map[string]interface{}{"err": h.err.Error()})
			}
			// what the node sends in response
			if h.err != nil {
				if len(out) != 0 {
					bad("rejected-packet-triggers-no-traffic", fmt.Sprintf("%d-datagrams-after-error", len(out)), nil)
				}
			} else if accepted {
				var ps []outPkt
				for _, d := range out {
					p, err := parseOut(e.netcompat, d)
					if err != nil {
						bad("responses-well-formed", "unparseable-response", map[string]interface{}{"why": err.Error(), "out_hex": hx(d.b)})
						continue
					}
					if !p.to.IP.Equal(fromAddr.IP) || p.to.Port != fromAddr.Port {
						bad("responses-go-to-the-sender", "response-to-other-address", map[string]interface{}{"to": p.to.String()})
					}
					ps = append(ps, p)
				}
				switch kind {
				case 0:
					if len(ps) == 0 || ps[0].ptype != 1 {
						bad("ping-answered-with-its-pong", "no-pong", nil)
					} else {
						it := ps[0].item
						if len(it.Elems) < 3 || it.Elems[1].IsList || !bytes.Equal(it.Elems[1].Str, buf[:32]) {
							bad("ping-answered-with-its-pong", "pong-token-is-not-the-ping-hash", nil)
						}
						if len(it.Elems) >= 3 && beUint(it.Elems[2].Str) != uint64(now.Add(4*time.Second).Unix()) {
							bad("ping-answered-with-its-pong", "pong-expiration", nil)
						}
					}
					e.timeouts++ // the node now tries to bond with the sender and gets no pong
				case 2:
					n := 0
					for _, p := range ps {
						if p.ptype == 3 {
							n++
						} else {
							bad("findnode-answered-with-neighbors", "other-packet-type-sent", nil)
						}
					}
					if n == 0 {
						bad("findnode-answered-with-neighbors", "no-neighbors-packet", nil)
					}
				case 1, 3:
					if len(ps) != 0 {
						bad("replies-trigger-no-traffic", "datagram-after-reply", nil)
					}
				}
			}
		}
	}
	// let every pending request run into its (virtual) time-out; nothing is pending when the packet was
	// refused in the plain state
	if settle {
		time.Sleep(2*discover.VerifRespTimeout + time.Second)
		synctest.Wait()
		e.pipe.drain()
	}
	if pingRes != nil {
		err := <-pingRes
		p, isPong := dec.pkt.(*discover.VerifPong)
		want := accepted && isPong && live == 1 && dec.id == attID && bytes.Equal(p.ReplyTok, tok)
		if live < 0 {
			want = err == nil
		}
		if want != (err == nil) {
			why := "ping-completed-by-a-pong-that-does-not-answer-it"
			if want {
				why = "matching-pong-did-not-complete-the-ping"
			}
			fs = append(fs, discFinding(c, "disc-handle", "request-completed-only-by-its-authenticated-reply", dn+"/"+why, buf, map[string]interface{}{"ping_err": fmt.Sprint(err)}))
		}
		hclass += fmt.Sprintf("/ping-done=%v", err == nil)
	}
	if fnRes != nil {
		r := <-fnRes
		p, isN := dec.pkt.(*discover.VerifNeighbors)
		delivered := accepted && isN && live == 1 && dec.id == attID
		if live < 0 {
			delivered = len(r.nodes) > 0
		}
		if !delivered && len(r.nodes) != 0 {
			fs = append(fs, discFinding(c, "disc-handle", "request-completed-only-by-its-authenticated-reply", dn+"/nodes-taken-from-a-rejected-neighbors-packet", buf, nil))
		}
		if delivered {
			for _, n := range r.nodes {
				found := false
				for _, rn := range p.Nodes {
					if rn.ID == n.ID && rn.IP.Equal(n.IP) && rn.UDP == n.UDP && rn.TCP == n.TCP {
						found = true
					}
				}
				if !found {
					fs = append(fs, discFinding(c, "disc-handle", "delivered-equals-signed", dn+"/findnode-returned-a-node-that-was-not-in-the-packet", buf, nil))
				}
			}
			if must && len(r.nodes) != discBases[c.Base].nodes {
				fs = append(fs, discFinding(c, "disc-handle", "delivered-equals-signed", dn+"/relayable-nodes-of-a-valid-packet-lost", buf, map[string]interface{}{"got": len(r.nodes), "want": discBases[c.Base].nodes}))
			}
			if (r.err == nil) != (len(p.Nodes) >= discover.VerifBucketSize) {
				fs = append(fs, discFinding(c, "disc-handle", "request-completed-only-by-its-authenticated-reply", dn+"/findnode-completion", buf, map[string]interface{}{"err": fmt.Sprint(r.err), "nodes": len(p.Nodes)}))
			}
		}
		hclass += fmt.Sprintf("/nodes=%d", len(r.nodes))
	}
	if c.State == stBonded {
		e.u.SetBond(attID, time.Unix(0, 0))
	}
	return fs, "disc/" + c.label() + "/" + dclass + "/" + hclass
}

// runDiscGroup evaluates the cases of a group in one bubble (fresh node per <= 24 possible time-outs).
func runDiscGroup(t *testing.T, cases []discCase, each func(c discCase, fs []finding, class string)) {
	synctest.Test(t, func(t *testing.T) {
		var e *discEnv
		for _, c := range cases {
			if e != nil && e.netcompat != (c.Dialect == dCompat) {
				e.close()
				e = nil
			}
			if e != nil && e.timeouts >= 24 && !e.keepalive() {
				e.close()
				e = nil
			}
			if e == nil {
				e = newDiscEnv(c.Dialect == dCompat)
			}
			fs, class := e.eval(c)
			each(c, fs, class)
		}
		if e != nil {
			e.close()
		}
	})
}

// confirm re-evaluates a case in fresh bubbles and reports whether the same finding signature shows every time.
func confirmDisc(t *testing.T, c discCase, sig string) bool {
	hits := 0
	for i := 0; i < 3; i++ {
		runDiscGroup(t, []discCase{c}, func(_ discCase, fs []finding, _ string) {
			for _, f := range fs {
				if f.sig() == sig {
					hits++
					break
				}
			}
		})
	}
	if hits != 0 && hits != 3 {
		ev.Broken("discovery verdict is not deterministic for %s (%d/3): %s", c.label(), hits, sig)
	}
	return hits == 3
}

// discAllocPass: sequential, before anything else runs in this process. Bytes allocated by one
// decodePacket call are bounded by a constant plus a multiple of the datagram size.
const (
	discAllocConst  = 256 << 10
	discAllocPerLen = 256
)

func discAllocPass(run *ev.Run, groups [][]discCase) {
	var maxB, maxPer uint64
	n := 0
	for _, g := range groups {
		for _, c := range g {
			switch {
			case c.State != stPlain, c.Kind == "alt-raw", c.Kind == "alt-rehash": // die at the hash / cost like alt-resign
				continue
			case c.Kind == "alt-resign" && c.B != 0x80 && c.B != 0x01:
				continue
			case c.Kind == "short" && !(c.A <= 4 || (c.A >= 133 && c.A <= 138)):
				continue
			}
			buf, _, _ := c.build(nil)
			netcompat := c.Dialect == dCompat
			b, _ := allocDelta(func() { callDecode(netcompat, buf) })
			n++
			if b > maxB {
				maxB = b
			}
			if len(buf) > 0 && b/uint64(len(buf)) > maxPer {
				maxPer = b / uint64(len(buf))
			}
			if b > discAllocConst+discAllocPerLen*uint64(len(buf)) {
				// re-measure: a garbage-collection cycle or another goroutine must not produce a verdict
				again := 0
				for i := 0; i < 3; i++ {
					b2, _ := allocDelta(func() { callDecode(netcompat, buf) })
					if b2 > discAllocConst+discAllocPerLen*uint64(len(buf)) {
						again++
					}
				}
				if again == 3 {
					f := discFinding(c, "disc-decode", "allocation-bounded", dialectName[c.Dialect]+"/"+c.Kind, buf, map[string]interface{}{"bytes": b})
					run.Violate(ev.Violation{Scenario: f.Scenario, Oracle: f.Oracle, CaseID: f.CaseID, Detail: f.Detail})
				}
			}
		}
	}
	run.Set("disc_alloc_cases", n)
	run.Set("disc_alloc_max_bytes_per_decode", maxB)
	run.Set("disc_alloc_bound", fmt.Sprintf("%d + %d*len", discAllocConst, discAllocPerLen))
}

func runDisc(t *testing.T, run *ev.Run, groups [][]discCase, deadline time.Time) {
	type cand struct {
		c discCase
		f finding
	}
	var (
		mu    sync.Mutex
		cands = map[string]cand{}
		cs    = newClassSet()
		cut   bool
	)
	ev.ParallelFor(len(groups), func(i int) {
		if time.Now().After(deadline) {
			mu.Lock()
			cut = true
			mu.Unlock()
			return
		}
		n := 0
		runDiscGroup(t, groups[i], func(c discCase, fs []finding, class string) {
			n++
			cs.add(class)
			if n == 1 && (i == 3 || i == len(groups)/2) {
				buf, _, _ := c.build(nil)
				run.Sample(map[string]interface{}{"part": "disc", "case": c, "datagram_hex": hx(buf), "class": class})
			}
			for _, f := range fs {
				mu.Lock()
				if _, ok := cands[f.sig()]; !ok {
					cands[f.sig()] = cand{c, f}
				}
				mu.Unlock()
			}
		})
		run.Eval(n)
		run.Add("disc_cases", int64(n))
	})
	if cut {
		run.Cap("discovery enumeration cut by the deadline")
	}
	run.Classes(cs.keys())
	for sig, cd := range cands {
		if confirmDisc(t, cd.c, sig) {
			run.Violate(ev.Violation{Scenario: cd.f.Scenario, Oracle: cd.f.Oracle, CaseID: cd.f.CaseID, Detail: cd.f.Detail})
		} else {
			ev.Broken("finding %s did not reproduce in a fresh bubble", sig)
		}
	}
}

func replayDisc(t *testing.T, run *ev.Run, d *ev.ReplayDoc) {
	c := discCase{Dialect: dInt(d.Detail, "dialect"), Base: dInt(d.Detail, "base"), Kind: dStr(d.Detail, "kind"),
		A: dInt(d.Detail, "a"), B: dInt(d.Detail, "b"), State: dInt(d.Detail, "state")}
	sig := d.Scenario + "/" + d.Oracle + "/" + d.CaseID
	if d.Oracle == "allocation-bounded" {
		buf, _, _ := c.build(nil)
		b, _ := allocDelta(func() { callDecode(c.Dialect == dCompat, buf) })
		if b > discAllocConst+discAllocPerLen*uint64(len(buf)) {
			run.Violate(ev.Violation{Scenario: d.Scenario, Oracle: d.Oracle, CaseID: d.CaseID, Detail: d.Detail})
		}
		return
	}
	run.Eval(1)
	run.Class("replay")
	run.Class("replay/" + c.label())
	if confirmDisc(t, c, sig) {
		run.Violate(ev.Violation{Scenario: d.Scenario, Oracle: d.Oracle, CaseID: d.CaseID, Detail: d.Detail})
	}
}
