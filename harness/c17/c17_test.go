// Package c17 checks property C17: network input is authenticated or rejected, and never fatal.
//
// Three parts on the real code: (a) discovery datagrams (p2p/discover decodePacket / handlePacket),
// (b) RLPx frames and the encryption handshake (p2p), (c) the aqua sub-protocol handler
// (aqua.ProtocolManager.handleMsg, in worker subprocesses with a write-ahead case log), (d) block bodies
// and receipts delivered by a peer against the headers that commit to them (aqua/downloader queue).
package c17

import (
	"os"
	"runtime/pprof"
	"strings"
	"sync"
	"testing"
	"time"

	"gitlab.com/aquachain/aquachain/common/log"
	"gitlab.com/aquachain/aquachain/zzverif/ev"
)

func partEnabled(p string) bool {
	only := os.Getenv("C17_ONLY") // development aid: comma separated subset of disc,rlpx,hs,sub
	if only == "" {
		return true
	}
	for _, x := range strings.Split(only, ",") {
		if x == p {
			return true
		}
	}
	return false
}

func TestCheck(t *testing.T) {
	log.Root().SetHandler(log.DiscardHandler())
	if shard, n, ok := ev.Shard(); ok {
		subWorker(t, shard, n)
		return
	}
	run := ev.Start("exploration")
	run.Rule = "one evaluation = one concrete network input (datagram, byte stream, handshake packet or sub-protocol message) built by a stated rule " +
		"(valid artefact, truncation at a length, single-byte alteration at a position with a mask, with or without recomputed hash/signature, zero buffer, short RLP string) " +
		"and handed to the real decoder/handler; distinct_nontrivial = distinct (part, dialect/format, base artefact, mutation kind, state, outcome class) tuples actually observed"
	run.Assume("fixed key pairs (three static keys, derived node keys); the property is checked over inputs, not over keys")
	run.Assume("single-byte alterations: masks {01,80,ff} (quick); thorough: all 255 values where the decoder sees the altered value (re-signed discovery payloads, handshake plaintext, sub-protocol messages <= 160 bytes, RLPx stream), every bit + ff where a hash/MAC covers the byte, 32 fixed masks for long sub-protocol messages and the stateful discovery repetitions; truncation at every length; zero buffers of every length 0..110")
	run.Assume("discovery runs in a synctest bubble: virtual clock, expiry and reply time-outs exact; node table empty, one remote address")
	run.Assume("allocation bounds are measured by runtime.MemStats deltas in sequential passes, with generous constants (at least twice the observed maximum; the dominant terms are the protocol's own limits: 2^24 for a decompressed frame, 64 KiB for a handshake packet, 10 MiB for a sub-protocol message)")

	if d := ev.Replay(); d != nil {
		switch dStr(d.Detail, "part") {
		case "disc":
			replayDisc(t, run, d)
		case "rlpx":
			replayRLPx(t, run, d)
		case "hs":
			replayHS(t, run, d)
		case "sub":
			replaySub(t, run, d)
		case "queue":
			replayQueue(run, d)
		case "ecies":
			runECIES(run)
		case "peer":
			runPeerWedge(run)
		case "basemsg":
			runBaseMsgs(run)
		default:
			ev.Broken("replay file without a known part")
		}
		run.Finish()
	}

	var stopProf func()
	if p := os.Getenv("C17_PROF"); p != "" { // development aid
		f, _ := os.Create(p)
		pprof.StartCPUProfile(f)
		stopProf = func() { pprof.StopCPUProfile(); f.Close() }
	}
	thorough := run.Thorough()
	deadline := run.Deadline(100*time.Second, 9*time.Minute)

	phase := time.Now()
	lap := func(name string) {
		run.Set("wall_s_"+name, time.Since(phase).Seconds())
		phase = time.Now()
	}
	// sequential allocation passes first (nothing else is running in this process yet)
	var groups [][]discCase
	if partEnabled("disc") {
		groups = discGroups(thorough)
		discAllocPass(run, groups)
	}
	if partEnabled("rlpx") {
		rlpxAllocPass(run)
	}
	if partEnabled("hs") {
		hsAllocPass(run)
	}
	lap("alloc_passes")

	// part (c) runs in worker subprocesses, concurrently with the in-process parts
	var wg sync.WaitGroup
	if partEnabled("sub") {
		wg.Add(1)
		go func() {
			defer wg.Done()
			t0 := time.Now()
			runSub(run, deadline)
			run.Set("wall_s_sub_workers", time.Since(t0).Seconds())
		}()
	}
	// the in-process parts run side by side (each is internally parallel over its own cases)
	part := func(name string, f func()) {
		if !partEnabled(name) {
			return
		}
		wg.Add(1)
		go func() {
			defer wg.Done()
			t0 := time.Now()
			f()
			run.Set("wall_s_"+name, time.Since(t0).Seconds())
		}()
	}
	part("disc", func() { runDisc(t, run, groups, deadline) })
	part("rlpx", func() { runRLPx(run, deadline) })
	part("hs", func() { runHS(run, deadline) })
	part("queue", func() { runQueue(run) })
	part("ecies", func() { runECIES(run) })
	part("peer", func() { runPeerWedge(run) })
	part("basemsg", func() { runBaseMsgs(run) })
	wg.Wait()
	if stopProf != nil {
		stopProf()
	}
	run.Finish()
}
