package c17

// Part (e): every RLPx handshake packet is an ECIES ciphertext, and the ephemeral public key at its
// front is attacker-chosen. A key that is not a point of secp256k1 must be refused before any
// Diffie-Hellman computation: for points of small order on a curve with another constant term the
// "shared secret" is predictable (for (0, +-1), of order 3 on y^2 = x^3 + 1, it is x = 0 whatever the
// node's private key), so a ciphertext with a correct MAC can be built without knowing anything about
// the recipient. Crafted here from the specification of ECIES (concatenation KDF with SHA-256,
// AES-128-CTR, HMAC-SHA-256), independent of crypto/ecies.

import (
	"crypto/aes"
	"crypto/cipher"
	"crypto/hmac"
	"crypto/sha256"
	"fmt"
	"math/big"

	"gitlab.com/aquachain/aquachain/zzverif/ev"
)

func eciesCraft(ephemeral []byte, z []byte, plain, s2 []byte) []byte {
	h := sha256.New()
	h.Write([]byte{0, 0, 0, 1})
	h.Write(z)
	k := h.Sum(nil) // 32 bytes: Ke || Km seed
	ke := k[:16]
	kmh := sha256.Sum256(k[16:32])
	iv := make([]byte, 16)
	for i := range iv {
		iv[i] = byte(0xa0 + i)
	}
	blk, _ := aes.NewCipher(ke)
	ct := make([]byte, len(plain))
	cipher.NewCTR(blk, iv).XORKeyStream(ct, plain)
	mac := hmac.New(sha256.New, kmh[:])
	mac.Write(iv)
	mac.Write(ct)
	mac.Write(s2)
	out := append([]byte{}, ephemeral...)
	out = append(out, iv...)
	out = append(out, ct...)
	return mac.Sum(out)
}

func point65(x, y *big.Int) []byte {
	b := make([]byte, 65)
	b[0] = 4
	x.FillBytes(b[1:33])
	y.FillBytes(b[33:65])
	return b
}

func runECIES(run *ev.Run) {
	p, _ := new(big.Int).SetString("fffffffffffffffffffffffffffffffffffffffffffffffffffffffefffffc2f", 16)
	one := big.NewInt(1)
	pts := []struct {
		name string
		x, y *big.Int
	}{
		{"(0,1)", big.NewInt(0), one},
		{"(0,p-1)", big.NewInt(0), new(big.Int).Sub(p, one)},
	}
	zero := make([]byte, 32)
	keys := []string{
		"49a7b37aa6f6645917e7b807e9d1c00d4fa71f18343b0d4122a4d2df64dd6fee",
		"b71c71a67e1177ad4e901695e1b4b9ee17ae16c6668d313eac2f96dbcda3f291",
		"0000000000000000000000000000000000000000000000000000000000000001",
		"fffffffffffffffffffffffffffffffebaaedce6af48a03bbfd25e8cd0364140",
	}
	n := 0
	for _, pt := range pts {
		for ki, kh := range keys {
			for _, s2 := range [][]byte{nil, {0x01, 0x94}} {
				ct := eciesCraft(point65(pt.x, pt.y), zero, []byte("attacker chosen plaintext, no knowledge of the recipient"), s2)
				prv := eciesPrv(mustKey(kh))
				var plain []byte
				var err error
				pan := ""
				func() {
					defer func() {
						if r := recover(); r != nil {
							pan = fmt.Sprint(r)
						}
					}()
					plain, err = prv.Decrypt(ct, nil, s2)
				}()
				n++
				if pan == "" && err != nil {
					run.Class("ecies/off-curve-ephemeral-key/refused")
					continue
				}
				run.Violate(ev.Violation{Scenario: "ecies-ephemeral-key", Oracle: "off-curve-key-refused", CaseID: fmt.Sprintf("%s/key%d/s2=%d", pt.name, ki, len(s2)),
					Detail: map[string]interface{}{"part": "ecies", "point": pt.name, "key": ki, "ciphertext_hex": hx(ct),
						"msg": fmt.Sprintf("a ciphertext whose ephemeral key %s is not on secp256k1 was accepted (plaintext %q, panic %q): the MAC was computed for the all-zero shared secret without any knowledge of the recipient's key", pt.name, plain, pan)}})
			}
		}
	}
	run.Eval(n)
	run.Set("ecies_off_curve_ciphertexts", n)
}
