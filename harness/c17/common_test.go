package c17

import (
	"encoding/hex"
	"fmt"
	"regexp"
	"runtime"
	"strings"
	"sync"

	"github.com/btcsuite/btcd/btcec/v2"
	becdsa "github.com/btcsuite/btcd/btcec/v2/ecdsa"
	"golang.org/x/crypto/sha3"

	"gitlab.com/aquachain/aquachain/zzverif/ev"
)

// keccak is computed with x/crypto directly, not through the repository's wrapper.
func keccak(parts ...[]byte) []byte {
	h := sha3.NewLegacyKeccak256()
	for _, p := range parts {
		h.Write(p)
	}
	return h.Sum(nil)
}

func mustKey(hexkey string) *btcec.PrivateKey {
	b, err := hex.DecodeString(hexkey)
	if err != nil || len(b) != 32 {
		ev.Broken("bad fixed key")
	}
	k, _ := btcec.PrivKeyFromBytes(b)
	return k
}

// fixed key pairs (small-scope assumption: the checks quantify over inputs, not over keys)
var (
	keyLocal    = mustKey("b71c71a67e1177ad4e901695e1b4b9ee17ae16c6668d313eac2f96dbcda3f291")
	keyAttacker = mustKey("49a7b37aa6f6645917e7b807e9d1c00d4fa71f18343b0d4122a4d2df64dd6fee")
	keyThird    = mustKey("36a7edad64d51a568b00e51d3fa8cd340aa704153010edf7f55ab3066ca4ef21")
)

// signCompact returns r||s||v (v = 0/1), produced with btcec directly.
func signCompact(key *btcec.PrivateKey, hash []byte) []byte {
	sig := becdsa.SignCompact(key, hash, false)
	out := make([]byte, 65)
	copy(out, sig[1:])
	out[64] = sig[0] - 27
	return out
}

// verifySig checks r||s against an uncompressed public key given as 64 bytes X||Y.
func verifySig(id64 []byte, hash []byte, rs []byte) bool {
	pub, err := btcec.ParsePubKey(append([]byte{4}, id64...))
	if err != nil {
		return false
	}
	var r, s btcec.ModNScalar
	if r.SetByteSlice(rs[:32]) || s.SetByteSlice(rs[32:64]) {
		return false
	}
	return becdsa.NewSignature(&r, &s).Verify(hash, pub)
}

func pubID(key *btcec.PrivateKey) (id [64]byte) {
	copy(id[:], key.PubKey().SerializeUncompressed()[1:])
	return id
}

var digits = regexp.MustCompile(`[0-9]+`)
var hexptr = regexp.MustCompile(`0x[0-9a-f]+`)

// normPanic turns a recovered panic value into a stable, number-free string (the panic *site* class).
func normPanic(r interface{}) string {
	s := fmt.Sprint(r)
	s = hexptr.ReplaceAllString(s, "0x#")
	s = digits.ReplaceAllString(s, "#")
	if len(s) > 120 {
		s = s[:120]
	}
	return s
}

// panicSite returns the first frame below runtime.* of the current (panicking) stack, as pkg.func.
func panicSite() string {
	pc := make([]uintptr, 40)
	n := runtime.Callers(3, pc)
	fr := runtime.CallersFrames(pc[:n])
	for {
		f, more := fr.Next()
		if f.Function != "" && !strings.HasPrefix(f.Function, "runtime.") && !strings.Contains(f.Function, "zzverif/") {
			fn := f.Function
			if i := strings.LastIndex(fn, "/"); i >= 0 {
				fn = fn[i+1:]
			}
			return fn
		}
		if !more {
			return "?"
		}
	}
}

// errClass maps an error to a coarse, stable outcome class.
func errClass(err error) string {
	if err == nil {
		return "ok"
	}
	s := digits.ReplaceAllString(err.Error(), "#")
	s = hexptr.ReplaceAllString(s, "0x#")
	if len(s) > 60 {
		s = s[:60]
	}
	return "err:" + s
}

// allocMeter measures bytes allocated by f on the calling goroutine's process. Only meaningful while
// nothing else in the process is running (the allocation passes are sequential and run first).
func allocDelta(f func()) (bytes uint64, mallocs uint64) {
	var a, b runtime.MemStats
	runtime.ReadMemStats(&a)
	f()
	runtime.ReadMemStats(&b)
	return b.TotalAlloc - a.TotalAlloc, b.Mallocs - a.Mallocs
}

// classSet is a concurrency-safe set of class keys with counts.
type classSet struct {
	mu sync.Mutex
	m  map[string]int64
}

func newClassSet() *classSet { return &classSet{m: map[string]int64{}} }
func (c *classSet) add(k string) {
	c.mu.Lock()
	c.m[k]++
	c.mu.Unlock()
}
func (c *classSet) keys() []string {
	c.mu.Lock()
	defer c.mu.Unlock()
	out := make([]string, 0, len(c.m))
	for k := range c.m {
		out = append(out, k)
	}
	return out
}

func hx(b []byte) string { return hex.EncodeToString(b) }

func unhex(s string) []byte {
	b, err := hex.DecodeString(s)
	if err != nil {
		ev.Broken("bad hex in replay detail")
	}
	return b
}

// detail accessors for replay documents (JSON numbers arrive as float64)
func dInt(d map[string]interface{}, k string) int {
	switch v := d[k].(type) {
	case float64:
		return int(v)
	case int:
		return v
	}
	return 0
}
func dStr(d map[string]interface{}, k string) string { s, _ := d[k].(string); return s }
func dBool(d map[string]interface{}, k string) bool  { b, _ := d[k].(bool); return b }
