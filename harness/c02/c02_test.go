// C02 - the head is always a heaviest fully validated block.
// Engine E2: every unordered weighted block tree up to a size bound x every parent-closed arrival
// order x every batching x both answers of the fork-choice coin, on the real core.BlockChain.
package c02

import (
	"encoding/json"
	"fmt"
	"math/big"
	"os"
	"testing"
	"time"

	"gitlab.com/aquachain/aquachain/core"
	"gitlab.com/aquachain/aquachain/core/types"
	"gitlab.com/aquachain/aquachain/params"
	"gitlab.com/aquachain/aquachain/zzverif/chainkit"
	"gitlab.com/aquachain/aquachain/zzverif/chaintree"
	"gitlab.com/aquachain/aquachain/zzverif/ev"
	"gitlab.com/aquachain/aquachain/zzverif/vrand"
)

type history struct {
	Parent   []int     `json:"parent"`
	Diff     []int64   `json:"diff"`
	Segments [][]int   `json:"segments"`
	Coins    []float64 `json:"coins"`
	Pruning  bool      `json:"pruning"`
	// HdrFirst: headers delivered (one InsertHeaderChain call each, in this order) before any block, as a
	// header-first sync does; the header chain is then ahead of, and possibly on another branch than, the blocks
	HdrFirst []int `json:"hdr_first,omitempty"`
	// BigTD: the genesis total difficulty is 2^64-2, so the total difficulties of the first blocks straddle 2^64
	BigTD bool `json:"big_td,omitempty"`
	// Restart: after the InsertChain call with this (1-based) index the node is stopped and reopened on the
	// same database (all in-memory caches start empty); 0 = never
	Restart int `json:"restart,omitempty"`
}

func envFor(big64 bool) *chainkit.Env {
	if big64 {
		return chainkit.NewEnvDifficulty(params.TestChainConfig, nil, new(big.Int).Sub(new(big.Int).Lsh(big.NewInt(1), 64), big.NewInt(2)))
	}
	return chainkit.NewEnv(params.TestChainConfig, nil)
}

type outcome struct {
	fails     []string
	coinsUsed int
	headSeq   string
	imports   int
}

// runHistory executes one arrival history on a fresh chain and checks the C02 invariant after every
// InsertChain call.
func runHistory(env *chainkit.Env, t *chaintree.Tree, h history) outcome {
	var o outcome
	db := env.NewChainDB()
	cc := chainkit.Archive()
	if h.Pruning {
		cc = chainkit.Pruning()
	}
	vrand.SetScript(h.Coins)
	bc, err := env.Open(db, cc, chainkit.FullFaker())
	if err != nil {
		o.fails = append(o.fails, "open: "+err.Error())
		return o
	}
	defer func() { bc.Stop() }()
	n := len(t.Blocks)
	imported := make([]bool, n)
	prevHeadTD := new(big.Int).Set(t.GenTD)
	gen := env.Genesis.Hash()
	for _, i := range h.HdrFirst {
		if _, err := bc.InsertHeaderChain([]*types.Header{t.Blocks[i].Header()}, 1); err != nil {
			o.fails = append(o.fails, fmt.Sprintf("InsertHeaderChain rejected the valid header of node %d: %v", i, err))
			return o
		}
	}
	for si, seg := range h.Segments {
		var blocks types.Blocks
		for _, i := range seg {
			blocks = append(blocks, t.Blocks[i])
		}
		idx, err := bc.InsertChain(blocks)
		o.imports += len(seg)
		if err != nil {
			o.fails = append(o.fails, fmt.Sprintf("call %d: InsertChain rejected valid block (index %d): %v", si, idx, err))
			return o
		}
		for _, i := range seg {
			imported[i] = true
		}
		// every stored block: TD = parent TD + own difficulty (reference arithmetic)
		maxTD := new(big.Int).Set(t.GenTD)
		for i := 0; i < n; i++ {
			if !imported[i] {
				continue
			}
			got := bc.GetTd(t.Blocks[i].Hash(), t.Blocks[i].NumberU64())
			if got == nil || got.Cmp(t.TD[i]) != 0 {
				o.fails = append(o.fails, fmt.Sprintf("call %d: stored TD of node %d is %v, parent TD + difficulty is %v", si, i, got, t.TD[i]))
			}
			if t.TD[i].Cmp(maxTD) > 0 {
				maxTD = t.TD[i]
			}
		}
		head := bc.CurrentBlock()
		hi := t.Index(head.Hash(), gen)
		var headTD *big.Int
		switch {
		case hi == -2:
			o.fails = append(o.fails, fmt.Sprintf("call %d: head %x is not a block that was imported", si, head.Hash()))
			return o
		case hi == -1:
			headTD = t.GenTD
		default:
			if !imported[hi] {
				o.fails = append(o.fails, fmt.Sprintf("call %d: head is node %d which was never imported", si, hi))
			}
			headTD = t.TD[hi]
		}
		if headTD.Cmp(maxTD) != 0 {
			o.fails = append(o.fails, fmt.Sprintf("call %d: head is node %d with TD %v but a fully imported block has TD %v (head is not a heaviest block)", si, hi, headTD, maxTD))
		}
		if headTD.Cmp(prevHeadTD) < 0 {
			o.fails = append(o.fails, fmt.Sprintf("call %d: head TD decreased from %v to %v", si, prevHeadTD, headTD))
		}
		prevHeadTD = headTD
		if ph := core.GetHeadBlockHash(db); ph != head.Hash() {
			o.fails = append(o.fails, fmt.Sprintf("call %d: persisted head pointer %x differs from in-memory head %x", si, ph, head.Hash()))
		}
		o.headSeq += fmt.Sprintf("%d,", hi)
		if len(o.fails) > 0 {
			return o
		}
		if h.Restart == si+1 {
			bc.Stop()
			if bc, err = env.Open(db, cc, chainkit.FullFaker()); err != nil {
				o.fails = append(o.fails, fmt.Sprintf("call %d: reopening the node failed: %v", si, err))
				return o
			}
			if nh := bc.CurrentBlock().Hash(); nh != head.Hash() {
				o.fails = append(o.fails, fmt.Sprintf("call %d: head after a clean restart is %x, it was %x", si, nh, head.Hash()))
				return o
			}
			o.headSeq += "R,"
		}
	}
	o.coinsUsed = vrand.Used()
	return o
}

// restartMax: trees up to this size are also run with a clean restart between any two calls
func restartMax(tier string) int {
	if tier == "thorough" {
		return 4
	}
	return 3
}

// hdrMax: trees up to this size are also run with all headers delivered first
func hdrMax(tier string) int {
	if tier == "thorough" {
		return 4
	}
	return 3
}

func sizes(tier string) (maxN int, diffs []int64, maxSeg int) {
	if tier == "thorough" {
		return 5, []int64{1, 2, 3}, 3
	}
	return 4, []int64{1, 2, 3}, 3
}

func TestCheck(t *testing.T) {
	chainkit.Quiet()
	if os.Getenv("C02_CONC_REPLAY") != "" {
		concReplayChild(t)
		return
	}
	if d := ev.Replay(); d != nil {
		run := ev.Start("model_checking")
		if dc, ok := d.Detail["deep"]; ok {
			var c deepCase
			b, _ := json.Marshal(dc)
			json.Unmarshal(b, &c)
			if fails, _ := newDeepWorld().run(c); len(fails) > 0 {
				fmt.Println("REPRODUCED", fails)
				run.Violate(ev.Violation{Scenario: d.Scenario, Oracle: d.Oracle, CaseID: d.CaseID, Detail: d.Detail})
			}
			run.Finish()
		}
		if rc, ok := d.Detail["redeliver"]; ok {
			var c redeliverCase
			b, _ := json.Marshal(rc)
			json.Unmarshal(b, &c)
			if fails, _ := newDeepWorld().runRedeliver(c.From, c.Split); len(fails) > 0 {
				fmt.Println("REPRODUCED", fails)
				run.Violate(ev.Violation{Scenario: d.Scenario, Oracle: d.Oracle, CaseID: d.CaseID, Detail: d.Detail})
			}
			run.Finish()
		}
		if name, ok := d.Detail["conc"].(string); ok {
			var choices []int
			if a, ok := d.Detail["choices"].([]interface{}); ok {
				for _, x := range a {
					choices = append(choices, int(x.(float64)))
				}
			}
			if concConfirm(name, choices, 1) {
				run.Violate(ev.Violation{Scenario: d.Scenario, Oracle: d.Oracle, CaseID: d.CaseID, Detail: d.Detail})
			}
			run.Finish()
		}
		var h history
		b, _ := json.Marshal(d.Detail["history"])
		if json.Unmarshal(b, &h) != nil {
			ev.Broken("bad replay detail")
		}
		env := envFor(h.BigTD)
		tr := chaintree.NewBuilder(env).Build(chaintree.Shape{Parent: h.Parent, Diff: h.Diff})
		o := runHistory(env, tr, h)
		if len(o.fails) > 0 {
			fmt.Println("REPRODUCED", o.fails)
			run.Violate(ev.Violation{Scenario: d.Scenario, Oracle: d.Oracle, CaseID: d.CaseID, Detail: d.Detail})
		}
		run.Finish()
	}
	if shard, n, ok := ev.Shard(); ok {
		if os.Getenv("C02_PART") == "extra" {
			extraWorker(t, shard, n)
			return
		}
		worker(shard, n)
		return
	}
	run := ev.Start("model_checking")
	run.Rule = "state = arrival history (tree, order, batching, coin answers) replayed on a fresh real BlockChain; transition = one InsertChain call; distinct_nontrivial = distinct (tree class, sequence of heads) pairs"
	run.Assume("full-fake engine (header rules skipped so that arbitrary per-block difficulties are importable); body/state validation and fork choice are the real code")
	run.Assume("small scope: trees with <= N non-genesis blocks (bounds.max_blocks), difficulties from {1,2,3}, batches of <= 3 linked blocks")
	run.Assume("fork-choice coin (math/rand) replaced by an enumerated answer through an overlay rewrite of core/blockchain.go and core/headerchain.go")
	res := run.RunWorkers(ev.Jobs(), nil, nil)
	res2 := run.RunWorkers(ev.Jobs(), []string{"C02_PART=extra"}, nil)
	extra := map[string]int64{}
	for _, w := range res2 {
		if w != nil {
			for k, v := range w.Counters {
				extra[k] += v
			}
		}
	}
	run.Set("pruned_fork_and_concurrent_families", extra)
	var states, trans int64
	for _, w := range res {
		if w != nil {
			states += w.Counters["histories"]
			trans += w.Counters["insert_calls"]
		}
	}
	maxN, diffs, maxSeg := sizes(run.Tier)
	states += extra["deep_histories"] + extra["conc_schedules"] + extra["redeliver_histories"]
	trans += extra["deep_histories"]*8 + extra["conc_schedules"]*2 + extra["redeliver_histories"]*6
	run.Set("states", states)
	run.Set("transitions", trans)
	run.Set("traces_validated_against_impl", trans)
	run.Set("bounds", map[string]interface{}{"max_blocks": maxN, "difficulties": diffs, "max_batch": maxSeg, "coin_answers": "both, every tie"})
	run.Finish()
}

func worker(shard, nsh int) {
	tier := os.Getenv("VERIF_TIER")
	maxN, diffs, maxSeg := sizes(tier)
	res := &ev.WorkerResult{Counters: map[string]int64{}}
	classes := map[string]bool{}
	envs := []*chainkit.Env{envFor(false), envFor(true)}
	blds := []*chaintree.Builder{chaintree.NewBuilder(envs[0]), chaintree.NewBuilder(envs[1])}
	deadline := time.Now().Add(8 * time.Minute)
	if tier == "thorough" {
		deadline = time.Now().Add(50 * time.Minute)
	}
	idx := 0
	capped := false
outer:
	for n := 1; n <= maxN; n++ {
		for _, s := range chaintree.Shapes(n, diffs) {
			idx++
			if idx%nsh != shard {
				continue
			}
			for ei, env := range envs {
				if ei == 1 && n > 3 {
					continue // total difficulties around 2^64: trees of up to 3 blocks
				}
				tr := blds[ei].Build(s)
				res.Counters["trees"]++
				for _, pruning := range []bool{false, true} {
					if pruning && (ei == 1 || (tier != "thorough" && n > 3)) {
						continue
					}
					for _, order := range chaintree.Orders(s) {
						for hm := 0; hm < 2; hm++ {
							var hdrFirst []int
							if hm == 1 {
								if pruning || n > hdrMax(tier) {
									continue
								}
								hdrFirst = order
							}
							for _, segs := range chaintree.Segmentations(s, order, maxSeg) {
								// a clean restart after each call but the last (trees of <= restartMax blocks, blocks only)
								restarts := []int{0}
								if hm == 0 && ei == 0 && n <= restartMax(tier) && (!pruning || tier == "thorough") {
									for r := 1; r < len(segs); r++ {
										restarts = append(restarts, r)
									}
								}
								for _, restart := range restarts {
									// depth-first over coin scripts
									stack := [][]float64{nil}
									for len(stack) > 0 {
										coins := stack[len(stack)-1]
										stack = stack[:len(stack)-1]
										h := history{Parent: s.Parent, Diff: s.Diff, Segments: segs, Coins: coins, Pruning: pruning, HdrFirst: hdrFirst, BigTD: ei == 1, Restart: restart}
										o := runHistory(env, tr, h)
										res.Evals++
										res.Counters["histories"]++
										res.Counters["insert_calls"] += int64(len(segs))
										res.Counters["block_imports"] += int64(o.imports)
										if len(o.fails) > 0 {
											// deterministic? run twice more
											for k := 0; k < 2; k++ {
												if o2 := runHistory(env, tr, h); len(o2.fails) == 0 {
													ev.Broken("C02 verdict flipped on re-run: %v", o.fails)
												}
											}
											res.Violations = append(res.Violations, ev.Violation{
												Scenario: "tree-import", Oracle: oracleOf(o.fails[0]), CaseID: fmt.Sprintf("n=%d", n),
												Detail: map[string]interface{}{"history": h, "fails": o.fails, "tree": s.String()},
											})
											if len(res.Violations) >= 5 {
												break outer
											}
										}
										classes[hash64(fmt.Sprintf("%s|%s", s.String(), o.headSeq))] = true
										if len(res.Samples) < 2 && n == maxN && len(coins) > 0 {
											res.Samples = append(res.Samples, map[string]interface{}{"tree": s.String(), "segments": segs, "coins": coins, "heads": o.headSeq})
										}
										for i := len(coins); i < o.coinsUsed; i++ {
											alt := make([]float64, i+1)
											copy(alt, coins)
											for j := len(coins); j < i; j++ {
												alt[j] = 0.25
											}
											alt[i] = 0.75
											stack = append(stack, alt)
										}
									}
								}
							}
						}
					}
					if time.Now().After(deadline) {
						capped = true
						break outer
					}
				}
			}
		}
	}
	if capped {
		res.Caps = append(res.Caps, "internal deadline reached; enumeration of tree classes incomplete")
	}
	for c := range classes {
		res.Classes = append(res.Classes, c)
	}
	ev.WorkerDone(res)
}

func oracleOf(msg string) string {
	switch {
	case contains(msg, "rejected valid block"):
		return "valid-block-rejected"
	case contains(msg, "stored TD"), contains(msg, "TD on disk"):
		return "td-arithmetic"
	case contains(msg, "valid block"):
		return "valid-block-rejected"
	case contains(msg, "not a heaviest"):
		return "head-not-heaviest"
	case contains(msg, "decreased"):
		return "head-td-decreased"
	case contains(msg, "persisted head"):
		return "persisted-head-mismatch"
	}
	return "other"
}

func contains(s, sub string) bool {
	return len(s) >= len(sub) && (func() bool {
		for i := 0; i+len(sub) <= len(s); i++ {
			if s[i:i+len(sub)] == sub {
				return true
			}
		}
		return false
	})()
}

func hash64(x string) string {
	var h uint64 = 14695981039346656037
	for i := 0; i < len(x); i++ {
		h = (h ^ uint64(x[i])) * 1099511628211
	}
	return fmt.Sprintf("%016x", h)
}
