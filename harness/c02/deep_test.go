package c02

// C02, second and third family.
//
// deep: a pruning node with a 140-block chain receives competing branches that fork below the state
// pruning horizon (their blocks are stored WITHOUT execution until the branch is at least as heavy as
// the head) and inside it; competitor lighter / equal / heavier by one; delivered block by block or in
// two batches. After every call: stored TD of every delivered block = parent TD + own difficulty (also
// for blocks stored without state), the head is a heaviest block among those that have been executed,
// head TD never decreases.
//
// conc: a locally sealed block written through WriteBlockWithState (the miner's path, which does not
// take the chain insertion lock) races a network import of a sibling through InsertChain; every
// schedule up to a preemption bound (engine E1); at quiescence the head must be the heavier sibling.

import (
	"encoding/json"
	"fmt"
	"math/big"
	"os"
	"os/exec"
	"strings"
	"testing"
	"time"

	"gitlab.com/aquachain/aquachain/core"
	"gitlab.com/aquachain/aquachain/core/types"
	"gitlab.com/aquachain/aquachain/core/vm"
	"gitlab.com/aquachain/aquachain/params"
	"gitlab.com/aquachain/aquachain/zzverif/chainkit"
	"gitlab.com/aquachain/aquachain/zzverif/ev"
	"gitlab.com/aquachain/aquachain/zzverif/vrand"
	"gitlab.com/aquachain/aquachain/zzverif/vrt"
)

// ---- deep family ---------------------------------------------------------------------------------

type deepCase struct {
	Fork   int   `json:"fork"`   // height of the fork point on the main chain
	Len    int   `json:"len"`    // length of the competing branch
	Delta  int64 `json:"delta"`  // TD(branch tip) - TD(main head)
	Split  int   `json:"split"`  // 0: one block per call; k>0: two calls, first with k blocks
	Second bool  `json:"second"` // a second, lighter branch from the same fork point is delivered afterwards
	Coin   float64 `json:"coin"`
}

const mainLen = 140

// extLen more blocks of the same chain exist but are not imported at first (re-delivery family)
const extLen = 6

type deepWorld struct {
	env  *chainkit.Env
	main []*types.Block
	td   []*big.Int // td[i] = TD of main[i]
}

func newDeepWorld() *deepWorld {
	env := chainkit.NewEnv(params.TestChainConfig, nil)
	w := &deepWorld{env: env}
	blocks, _ := env.Gen(env.Genesis, chainkit.FullFaker(), mainLen+extLen, func(i int, g *core.BlockGen) {})
	w.main = blocks
	td := new(big.Int).Set(env.Genesis.Difficulty())
	for _, b := range blocks {
		td = new(big.Int).Add(td, b.Difficulty())
		w.td = append(w.td, td)
	}
	return w
}

// branch builds a competing branch of n blocks on main[fork-1] (fork>=1) whose tip has total
// difficulty target; all blocks but the last get difficulty 1000.
func (w *deepWorld) branch(fork, n int, target *big.Int, tag byte) ([]*types.Block, []*big.Int) {
	parent := w.env.Genesis
	ptd := new(big.Int).Set(w.env.Genesis.Difficulty())
	if fork >= 1 {
		parent = w.main[fork-1]
		ptd = new(big.Int).Set(w.td[fork-1])
	}
	var out []*types.Block
	var tds []*big.Int
	for i := 0; i < n; i++ {
		gen, _ := w.env.Gen(parent, chainkit.FullFaker(), 1, func(_ int, g *core.BlockGen) { g.SetExtra([]byte{tag, byte(i)}) })
		d := int64(1000)
		if i == n-1 {
			rest := new(big.Int).Sub(target, ptd)
			if !rest.IsInt64() || rest.Int64() < 1 {
				return nil, nil
			}
			d = rest.Int64()
		}
		b := chainkit.Reseal(gen[0], d, nil)
		ptd = new(big.Int).Add(ptd, big.NewInt(d))
		out = append(out, b)
		tds = append(tds, ptd)
		parent = b
	}
	return out, tds
}

func (w *deepWorld) run(c deepCase) (fails []string, trace string) {
	core.VerifResetLastWrite()
	vrand.SetScript([]float64{c.Coin, c.Coin, c.Coin, c.Coin})
	db := w.env.NewChainDB()
	bc, err := w.env.Open(db, chainkit.Pruning(), chainkit.FullFaker())
	if err != nil {
		return []string{"open: " + err.Error()}, ""
	}
	defer bc.Stop()
	for i := 0; i < mainLen; i += 35 {
		if _, err := bc.InsertChain(w.main[i : i+35]); err != nil {
			return []string{"harness: main chain rejected: " + err.Error()}, ""
		}
	}
	headTD := w.td[mainLen-1]
	target := new(big.Int).Add(headTD, big.NewInt(c.Delta))
	br, brTD := w.branch(c.Fork, c.Len, target, 'b')
	if br == nil {
		return nil, "n/a"
	}
	type stored struct {
		b  *types.Block
		td *big.Int
	}
	var delivered []stored
	prevHead := new(big.Int).Set(headTD)
	check := func(step string) bool {
		for _, s := range delivered {
			got := bc.GetTd(s.b.Hash(), s.b.NumberU64())
			if got == nil || got.Cmp(s.td) != 0 {
				fails = append(fails, fmt.Sprintf("%s: stored TD of delivered block #%d (%x) is %v, parent TD + difficulty is %v", step, s.b.NumberU64(), s.b.Hash().Bytes()[:4], got, s.td))
			}
			if raw := core.GetTd(db, s.b.Hash(), s.b.NumberU64()); raw == nil || raw.Cmp(s.td) != 0 {
				fails = append(fails, fmt.Sprintf("%s: TD on disk of delivered block #%d is %v, parent TD + difficulty is %v", step, s.b.NumberU64(), raw, s.td))
			}
		}
		// main chain TDs must be untouched too (the fork point's TD is what an in-place update corrupts)
		for _, i := range []int{c.Fork - 1, c.Fork, mainLen - 1} {
			if i >= 0 && i < mainLen {
				if got := bc.GetTd(w.main[i].Hash(), w.main[i].NumberU64()); got == nil || got.Cmp(w.td[i]) != 0 {
					fails = append(fails, fmt.Sprintf("%s: stored TD of main block #%d changed to %v, it is %v", step, i+1, got, w.td[i]))
				}
			}
		}
		head := bc.CurrentBlock()
		htd := bc.GetTd(head.Hash(), head.NumberU64())
		if htd == nil {
			fails = append(fails, step+": head has no TD")
			return false
		}
		// the head must be at least as heavy as every delivered block that has been executed
		for _, s := range delivered {
			if bc.HasBlockAndState(s.b.Hash(), s.b.NumberU64()) && s.td.Cmp(htd) > 0 {
				fails = append(fails, fmt.Sprintf("%s: head TD %v but executed block #%d has TD %v (head is not a heaviest block)", step, htd, s.b.NumberU64(), s.td))
			}
		}
		if htd.Cmp(w.td[mainLen-1]) < 0 || htd.Cmp(prevHead) < 0 {
			fails = append(fails, fmt.Sprintf("%s: head TD decreased to %v", step, htd))
		}
		prevHead = htd
		trace += fmt.Sprintf("%s@%d ", step, head.NumberU64())
		return len(fails) == 0
	}
	deliver := func(bs []*types.Block, tds []*big.Int, name string) bool {
		calls := [][2]int{}
		if c.Split > 0 && c.Split < len(bs) {
			calls = append(calls, [2]int{0, c.Split}, [2]int{c.Split, len(bs)})
		} else {
			for i := range bs {
				calls = append(calls, [2]int{i, i + 1})
			}
		}
		for ci, rg := range calls {
			if _, err := bc.InsertChain(bs[rg[0]:rg[1]]); err != nil {
				fails = append(fails, fmt.Sprintf("%s call %d: valid blocks rejected: %v", name, ci, err))
				return false
			}
			for i := rg[0]; i < rg[1]; i++ {
				delivered = append(delivered, stored{bs[i], tds[i]})
			}
			if !check(fmt.Sprintf("%s%d", name, ci)) {
				return false
			}
		}
		return true
	}
	if !deliver(br, brTD, "B") {
		return fails, trace
	}
	if c.Second {
		// a third, lighter branch from the same fork point, and the first branch's first block again
		t2 := new(big.Int).Sub(headTD, big.NewInt(5))
		br2, td2 := w.branch(c.Fork, 2, t2, 'c')
		if br2 != nil {
			if !deliver(br2, td2, "C") {
				return fails, trace
			}
		}
		if _, err := bc.InsertChain(br[:1]); err != nil {
			fails = append(fails, "re-delivery of a known side block rejected: "+err.Error())
			return fails, trace
		}
		check("R")
	}
	return fails, trace
}

// redeliver: the node has main[0:mainLen]; one batch (or two) then re-delivers its own chain from block
// `from` - below or inside the state pruning horizon - and continues past the head to the end of the
// extension. Blocks whose state was pruned are executed again, the recent ones are skipped as known, the
// new ones are appended. Afterwards every block's stored TD is its prefix sum and the head is the tip.
func (w *deepWorld) runRedeliver(from, split int) (fails []string, trace string) {
	core.VerifResetLastWrite()
	vrand.SetScript(nil)
	db := w.env.NewChainDB()
	bc, err := w.env.Open(db, chainkit.Pruning(), chainkit.FullFaker())
	if err != nil {
		return []string{"open: " + err.Error()}, ""
	}
	defer bc.Stop()
	for i := 0; i < mainLen; i += 35 {
		if _, err := bc.InsertChain(w.main[i : i+35]); err != nil {
			return []string{"harness: main chain rejected: " + err.Error()}, ""
		}
	}
	batch := w.main[from-1:]
	calls := [][]*types.Block{batch}
	if split > 0 && split < len(batch) {
		calls = [][]*types.Block{batch[:split], batch[split:]}
	}
	for ci, bs := range calls {
		if _, err := bc.InsertChain(bs); err != nil {
			fails = append(fails, fmt.Sprintf("re-delivery call %d (blocks #%d..#%d): valid blocks rejected: %v", ci, bs[0].NumberU64(), bs[len(bs)-1].NumberU64(), err))
			return fails, trace
		}
		trace += fmt.Sprintf("R%d@%d ", ci, bc.CurrentBlock().NumberU64())
	}
	for i, b := range w.main {
		if got := bc.GetTd(b.Hash(), b.NumberU64()); got == nil || got.Cmp(w.td[i]) != 0 {
			fails = append(fails, fmt.Sprintf("after re-delivery from #%d: stored TD of block #%d is %v, parent TD + difficulty is %v", from, i+1, got, w.td[i]))
			break
		}
	}
	if head := bc.CurrentBlock(); head.Hash() != w.main[len(w.main)-1].Hash() {
		fails = append(fails, fmt.Sprintf("after re-delivery from #%d: head is #%d (TD %v) but the fully validated block #%d has TD %v (head is not a heaviest block)",
			from, head.NumberU64(), bc.GetTd(head.Hash(), head.NumberU64()), len(w.main), w.td[len(w.td)-1]))
	}
	return fails, trace
}

type redeliverCase struct {
	From  int `json:"from"`
	Split int `json:"split"`
}

func redeliverCases(tier string) []redeliverCase {
	froms := []int{1, 10, 13, 139, 141}
	if tier == "thorough" {
		froms = []int{1, 2, 5, 10, 11, 12, 13, 14, 70, 138, 139, 140, 141}
	}
	var out []redeliverCase
	for _, f := range froms {
		out = append(out, redeliverCase{f, 0})
		if mainLen-f+1 > 2 {
			out = append(out, redeliverCase{f, mainLen - f + 1 - 2}, redeliverCase{f, mainLen - f + 1 + 2})
		}
	}
	return out
}

func deepCases(tier string) []deepCase {
	var out []deepCase
	forks := []int{1, 5, 138}
	if tier == "thorough" {
		forks = []int{0, 1, 5, 11, 12, 13, 137, 138, 139}
	}
	for _, f := range forks {
		for _, l := range []int{1, 3} {
			for _, d := range []int64{-1, 0, 1} {
				for _, sp := range []int{0, 1} {
					for _, sec := range []bool{false, true} {
						coins := []float64{0.25}
						if d == 0 {
							coins = []float64{0.25, 0.75}
						}
						for _, co := range coins {
							out = append(out, deepCase{Fork: f, Len: l, Delta: d, Split: sp, Second: sec, Coin: co})
						}
					}
				}
			}
		}
	}
	return out
}

// ---- conc family ---------------------------------------------------------------------------------

type concCase struct {
	DA, DB    int64 // difficulties of the imported block A and of the locally sealed block B
	MinerIsA bool
}

func concCases() []concCase {
	return []concCase{{DA: 5, DB: 3}, {DA: 3, DB: 5}, {DA: 4, DB: 4}}
}

func (c concCase) name() string { return fmt.Sprintf("import-d%d-vs-local-d%d", c.DA, c.DB) }

func concScenario(env *chainkit.Env, c concCase) vrt.Scenario {
	gen := func(tag byte, d int64) *types.Block {
		b, _ := env.Gen(env.Genesis, chainkit.FullFaker(), 1, func(_ int, g *core.BlockGen) { g.SetExtra([]byte{tag}) })
		return chainkit.Reseal(b[0], d, nil)
	}
	A, B := gen('a', c.DA), gen('b', c.DB)
	return vrt.Scenario{Name: c.name(), Horizon: 6000, Adopt: true, Quiesce: true, Build: func(s *vrt.Sched) (func() ([]string, string), func()) {
		vrand.SetScript(nil)
		db := env.NewChainDB()
		bc, err := env.Open(db, chainkit.Archive(), chainkit.FullFaker())
		if err != nil {
			panic(err)
		}
		// the locally sealed block was executed by the miner beforehand
		st, err := bc.StateAt(env.Genesis.Root())
		if err != nil {
			panic(err)
		}
		receipts, _, _, err := bc.Processor().Process(B, st, vm.Config{})
		if err != nil {
			panic(err)
		}
		s.Settle()
		var errA, errB error
		s.Spawn("import-A", false, func() { _, errA = bc.InsertChain(types.Blocks{A}) })
		s.Spawn("local-B", false, func() { _, errB = bc.WriteBlockWithState(B, receipts, st) })
		verify := func() ([]string, string) {
			var fails []string
			if errA != nil || errB != nil {
				fails = append(fails, fmt.Sprintf("valid block rejected: import %v, local %v", errA, errB))
			}
			gtd := env.Genesis.Difficulty()
			tdA := new(big.Int).Add(gtd, big.NewInt(c.DA))
			tdB := new(big.Int).Add(gtd, big.NewInt(c.DB))
			if got := bc.GetTd(A.Hash(), 1); got == nil || got.Cmp(tdA) != 0 {
				fails = append(fails, fmt.Sprintf("stored TD of the imported block is %v, want %v", got, tdA))
			}
			if got := bc.GetTd(B.Hash(), 1); got == nil || got.Cmp(tdB) != 0 {
				fails = append(fails, fmt.Sprintf("stored TD of the local block is %v, want %v", got, tdB))
			}
			head := bc.CurrentBlock()
			htd := bc.GetTd(head.Hash(), head.NumberU64())
			max := tdA
			if tdB.Cmp(max) > 0 {
				max = tdB
			}
			if htd == nil || htd.Cmp(max) != 0 {
				fails = append(fails, fmt.Sprintf("head has TD %v but a fully validated block has TD %v (head is not a heaviest block)", htd, max))
			}
			if ph := core.GetHeadBlockHash(db); ph != head.Hash() {
				fails = append(fails, "persisted head pointer differs from the in-memory head")
			}
			who := "A"
			if head.Hash() == B.Hash() {
				who = "B"
			}
			return fails, "head=" + who
		}
		return verify, func() { bc.Stop() }
	}}
}

func concConfirm(name string, choices []int, times int) bool {
	cb, _ := json.Marshal(choices)
	for i := 0; i < times; i++ {
		cmd := exec.Command(os.Args[0], "-test.run", "^TestCheck$", "-test.timeout", "0")
		cmd.Env = append(os.Environ(), "C02_CONC_REPLAY="+name, "C02_CONC_CHOICES="+string(cb), "VERIF_SHARD=", "VERIF_REPLAY=")
		out, err := cmd.CombinedOutput()
		ee, ok := err.(*exec.ExitError)
		if !(ok && ee.ExitCode() == 1 && strings.Contains(string(out), "REPRODUCED")) {
			return false
		}
	}
	return true
}

func concReplayChild(t *testing.T) {
	name := os.Getenv("C02_CONC_REPLAY")
	var choices []int
	json.Unmarshal([]byte(os.Getenv("C02_CONC_CHOICES")), &choices)
	env := chainkit.NewEnv(params.TestChainConfig, nil)
	for _, c := range concCases() {
		if c.name() != name {
			continue
		}
		rec := vrt.RunOnce(t, concScenario(env, c), choices, true, func(r *vrt.ExecRec) {
			fmt.Println("REPRODUCED", r.Kind, r.Fails)
			os.Exit(1)
		})
		if len(rec.Fails) > 0 {
			fmt.Println("REPRODUCED", rec.Fails)
			os.Exit(1)
		}
		fmt.Println("NOT-REPRODUCED")
		os.Exit(0)
	}
	ev.Broken("unknown scenario %q", name)
}

func concBound(tier string) int {
	if tier == "thorough" {
		return 3
	}
	return 2
}

// extraWorker runs the deep and conc families (shard-partitioned).
func extraWorker(t *testing.T, shard, n int) {
	tier := os.Getenv("VERIF_TIER")
	res := &ev.WorkerResult{Counters: map[string]int64{}}
	classes := map[string]bool{}
	finish := func() {
		for c := range classes {
			res.Classes = append(res.Classes, c)
		}
		ev.WorkerDone(res)
	}
	dw := newDeepWorld()
	for i, c := range deepCases(tier) {
		if i%n != shard {
			continue
		}
		fails, tr := dw.run(c)
		if tr == "n/a" {
			continue
		}
		res.Evals++
		res.Counters["deep_histories"]++
		if len(fails) > 0 {
			if f2, _ := dw.run(c); len(f2) == 0 {
				ev.Broken("C02 deep verdict flipped: %v", fails)
			}
			res.Violations = append(res.Violations, ev.Violation{Scenario: "pruned-fork", Oracle: oracleOf(fails[0]), CaseID: fmt.Sprintf("fork=%d/len=%d/delta=%d", c.Fork, c.Len, c.Delta),
				Detail: map[string]interface{}{"deep": c, "fails": fails}})
			continue
		}
		classes[hash64(fmt.Sprintf("deep|%+v|%s", c, tr))] = true
		if len(res.Samples) < 1 && c.Second {
			res.Samples = append(res.Samples, map[string]interface{}{"deep": c, "trace": tr})
		}
	}
	for i, c := range redeliverCases(tier) {
		if i%n != shard {
			continue
		}
		fails, tr := dw.runRedeliver(c.From, c.Split)
		res.Evals++
		res.Counters["redeliver_histories"]++
		if len(fails) > 0 {
			if f2, _ := dw.runRedeliver(c.From, c.Split); len(f2) == 0 {
				ev.Broken("C02 redeliver verdict flipped: %v", fails)
			}
			res.Violations = append(res.Violations, ev.Violation{Scenario: "own-chain-redelivered", Oracle: oracleOf(fails[0]), CaseID: fmt.Sprintf("from=%d/split=%d", c.From, c.Split),
				Detail: map[string]interface{}{"redeliver": c, "fails": fails}})
			continue
		}
		classes[hash64(fmt.Sprintf("redeliver|%+v|%s", c, tr))] = true
	}
	env := chainkit.NewEnv(params.TestChainConfig, nil)
	deadline := time.Now().Add(5 * time.Minute)
	for ci, c := range concCases() {
		if ci%n != shard%len(concCases()) || shard >= len(concCases()) {
			continue
		}
		c := c
		sc := concScenario(env, c)
		ex := &vrt.Explorer{T: t, Sc: sc, Bound: concBound(tier), Deadline: deadline}
		ex.OnFail = func(f *vrt.Failure) {
			if !concConfirm(c.name(), f.Choices, 3) {
				ev.Broken("C02 conc %s: failing schedule does not reproduce: %v", c.name(), f.Msgs)
			}
			res.Violations = append(res.Violations, ev.Violation{Scenario: "local-block-races-import", Oracle: f.Kind + ":" + oracleOf(f.Msgs[0]), CaseID: c.name(),
				Detail: map[string]interface{}{"conc": c.name(), "choices": f.Choices, "msgs": f.Msgs}})
			finish()
		}
		r := ex.Run()
		res.Evals += r.Execs
		res.Counters["conc_schedules"] += r.Execs
		for o := range r.Outcomes {
			classes["conc|"+c.name()+"|"+o] = true
		}
		if r.TimedOut || r.CapHit {
			res.Caps = append(res.Caps, "conc "+c.name()+": deadline/horizon")
		}
	}
	finish()
}
