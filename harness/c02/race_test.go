package c02

// Free-running pass under the Go race detector (complement of the exploration, DESIGN.md 9.6): block
// import, the miner's WriteBlockWithState, header import and readers of every public accessor run on
// real goroutines against the UNINSTRUMENTED core package. The functional oracle is the quiescent
// one of the conc family: the head is a heaviest fully validated block.

import (
	"encoding/json"
	"fmt"
	"math/big"
	"os"
	"sync"
	"testing"
	"time"

	"gitlab.com/aquachain/aquachain/core"
	"gitlab.com/aquachain/aquachain/core/types"
	"gitlab.com/aquachain/aquachain/core/vm"
	"gitlab.com/aquachain/aquachain/params"
	"gitlab.com/aquachain/aquachain/zzverif/chainkit"
)

func TestRaceFree(t *testing.T) {
	t0 := time.Now()
	n := 40
	if os.Getenv("VERIF_TIER") == "thorough" {
		n = 600
	}
	env := chainkit.NewEnv(params.TestChainConfig, nil)
	// chain A: three imported blocks (difficulties 3,3,3); block B: locally sealed sibling of A1
	genChain := func(tag byte, k int, d int64) types.Blocks {
		var out types.Blocks
		parent := env.Genesis
		for i := 0; i < k; i++ {
			bs, _ := env.Gen(parent, chainkit.FullFaker(), 1, func(_ int, g *core.BlockGen) { g.SetExtra([]byte{tag}) })
			parent = chainkit.Reseal(bs[0], d, nil)
			out = append(out, parent)
		}
		return out
	}
	var mu sync.Mutex
	var fails []string
	failf := func(f string, a ...interface{}) {
		mu.Lock()
		if len(fails) < 20 {
			fails = append(fails, fmt.Sprintf(f, a...))
		}
		mu.Unlock()
	}
	for it := 0; it < n; it++ {
		dB := int64(2 + it%9) // B lighter than, equal to or heavier than the whole of A (TD 3,6,9)
		A := genChain('a', 3, 3)
		B := genChain('b', 1, dB)[0]
		db := env.NewChainDB()
		bc, err := env.Open(db, chainkit.Archive(), chainkit.FullFaker())
		if err != nil {
			t.Fatal(err)
		}
		st, err := bc.StateAt(env.Genesis.Root())
		if err != nil {
			t.Fatal(err)
		}
		receipts, _, _, err := bc.Processor().Process(B, st, vm.Config{})
		if err != nil {
			t.Fatal(err)
		}
		heads := make(chan core.ChainHeadEvent, 16)
		sub := bc.SubscribeChainHeadEvent(heads)
		var wg sync.WaitGroup
		var errA, errB error
		wg.Add(4)
		go func() { defer wg.Done(); _, errA = bc.InsertChain(A) }()
		go func() { defer wg.Done(); _, errB = bc.WriteBlockWithState(B, receipts, st) }()
		go func() {
			defer wg.Done()
			hs := []*types.Header{A[0].Header(), A[1].Header()}
			bc.InsertHeaderChain(hs, 1)
		}()
		go func() {
			defer wg.Done()
			for k := 0; k < 20; k++ {
				h := bc.CurrentBlock()
				bc.GetTd(h.Hash(), h.NumberU64())
				bc.CurrentHeader()
				bc.CurrentFastBlock()
				bc.GetBlockByNumber(1)
				bc.GetHeaderByNumber(2)
				bc.HasBlock(B.Hash(), 1)
				bc.GetBlockByHash(A[2].Hash())
				bc.State()
				bc.GasLimit()
			}
		}()
		wg.Wait()
		sub.Unsubscribe()
		if errA != nil || errB != nil {
			failf("iteration %d: valid block rejected: import %v, local %v", it, errA, errB)
		}
		gtd := env.Genesis.Difficulty()
		max := new(big.Int).Add(gtd, big.NewInt(9))
		if tdB := new(big.Int).Add(gtd, big.NewInt(dB)); tdB.Cmp(max) > 0 {
			max = tdB
		}
		head := bc.CurrentBlock()
		if htd := bc.GetTd(head.Hash(), head.NumberU64()); htd == nil || htd.Cmp(max) != 0 {
			failf("iteration %d (local difficulty %d): head has TD %v but a fully validated block has TD %v", it, dB, htd, max)
		}
		if ph := core.GetHeadBlockHash(db); ph != head.Hash() {
			failf("iteration %d: persisted head pointer differs from the in-memory head", it)
		}
		bc.Stop()
	}
	if p := os.Getenv("VERIF_RACE_OUT"); p != "" {
		b, _ := json.Marshal(map[string]interface{}{"shapes": 1, "iterations": map[string]int{"import-vs-local-vs-headers-vs-readers": n}, "functional_failures": fails, "wall_s": time.Since(t0).Seconds()})
		os.WriteFile(p, b, 0o644)
	}
	for _, f := range fails {
		fmt.Println("RACEPASS-FAIL " + f)
	}
	if len(fails) > 0 {
		t.Fail()
	}
}
