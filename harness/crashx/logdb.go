// Package crashx is engine E3 (DESIGN.md 2.4): a logging / fault-injecting aquadb.Database and a
// raw-image trie walker.
package crashx

import (
	"errors"
	"runtime"
	"strings"
	"sync"

	"gitlab.com/aquachain/aquachain/aquadb"
	"gitlab.com/aquachain/aquachain/common"
)

// KV is one write inside a unit.
type KV struct {
	K, V []byte
	Del  bool
}

// Unit is one atomic write unit: a Put, a Delete or one Batch.Write().
type Unit struct {
	Kind string // put | del | batch
	Ops  []KV
	Head common.Hash // in-memory head block when the unit was issued
	Op   int         // index of the history operation that issued it
	Site string      // call site inside the repository that issued the unit (innermost 3 repo frames)
}

// ErrInjected is returned by the unit selected for failure.
var ErrInjected = errors.New("verif: injected write failure")

// LogDB wraps a MemDatabase, records every unit and can make one unit fail.
type LogDB struct {
	mu     sync.Mutex
	mem    *aquadb.MemDatabase
	Log    []Unit
	HeadFn func() common.Hash
	CurOp  int
	FailAt int // index of the unit that fails (-1: none)
	Failed *Unit
	Scale  int // Batch.ValueSize multiplier
	issued int
}

func NewLogDB(initial *aquadb.MemDatabase, scale int) *LogDB {
	if scale < 1 {
		scale = 1
	}
	return &LogDB{mem: initial, FailAt: -1, Scale: scale}
}

func (d *LogDB) Mem() *aquadb.MemDatabase { return d.mem }

// Issued returns the number of units issued so far (including a failed one).
func (d *LogDB) Issued() int { d.mu.Lock(); defer d.mu.Unlock(); return d.issued }

func (d *LogDB) apply(u Unit) error {
	d.mu.Lock()
	defer d.mu.Unlock()
	if d.HeadFn != nil {
		u.Head = d.HeadFn()
	}
	u.Op = d.CurOp
	u.Site = callSite()
	idx := d.issued
	d.issued++
	if idx == d.FailAt {
		cp := u
		d.Failed = &cp
		return ErrInjected
	}
	for _, op := range u.Ops {
		if op.Del {
			d.mem.Delete(op.K)
		} else {
			d.mem.Put(op.K, op.V)
		}
	}
	d.Log = append(d.Log, u)
	return nil
}

func cp(b []byte) []byte { return append([]byte(nil), b...) }

func (d *LogDB) Put(k, v []byte) error {
	return d.apply(Unit{Kind: "put", Ops: []KV{{K: cp(k), V: cp(v)}}})
}
func (d *LogDB) Delete(k []byte) error {
	return d.apply(Unit{Kind: "del", Ops: []KV{{K: cp(k), Del: true}}})
}
func (d *LogDB) Get(k []byte) ([]byte, error) { return d.mem.Get(k) }
func (d *LogDB) Has(k []byte) (bool, error)   { return d.mem.Has(k) }
func (d *LogDB) Close()                       {}
func (d *LogDB) NewBatch() aquadb.Batch       { return &logBatch{db: d} }

type logBatch struct {
	db   *LogDB
	ops  []KV
	size int
}

func (b *logBatch) Put(k, v []byte) error {
	b.ops = append(b.ops, KV{K: cp(k), V: cp(v)})
	b.size += len(v)
	return nil
}
func (b *logBatch) Delete(k []byte) error {
	b.ops = append(b.ops, KV{K: cp(k), Del: true})
	b.size++
	return nil
}
func (b *logBatch) ValueSize() int { return b.size * b.db.Scale }
func (b *logBatch) Write() error {
	return b.db.apply(Unit{Kind: "batch", Ops: append([]KV(nil), b.ops...)})
}
func (b *logBatch) Reset() { b.ops, b.size = nil, 0 }

// Image is a raw key/value image of a database.
type Image map[string][]byte

// ImageOf copies a memory database.
func ImageOf(db *aquadb.MemDatabase) Image {
	im := Image{}
	for _, k := range db.Keys() {
		v, _ := db.Get(k)
		im[string(k)] = v
	}
	return im
}

// Apply applies a unit to the image.
func (im Image) Apply(u Unit) {
	for _, op := range u.Ops {
		if op.Del {
			delete(im, string(op.K))
		} else {
			im[string(op.K)] = op.V
		}
	}
}

// DB materialises the image as a fresh memory database.
func (im Image) DB() *aquadb.MemDatabase {
	db := aquadb.NewMemDatabase()
	for k, v := range im {
		db.Put([]byte(k), v)
	}
	return db
}

// Clone copies the image.
func (im Image) Clone() Image {
	n := make(Image, len(im))
	for k, v := range im {
		n[k] = v
	}
	return n
}

// callSite names the innermost repository functions (outside aquadb and the harness) on the stack.
func callSite() string {
	pcs := make([]uintptr, 40)
	n := runtime.Callers(3, pcs)
	frames := runtime.CallersFrames(pcs[:n])
	var out []string
	for {
		f, more := frames.Next()
		fn := f.Function
		const mod = "gitlab.com/aquachain/aquachain/"
		if strings.HasPrefix(fn, mod) && !strings.Contains(fn, "/zzverif/") && !strings.HasPrefix(fn, mod+"aquadb.") {
			fn = strings.TrimPrefix(fn, mod)
			// closures: core.(*BlockChain).SetHead.func1 -> keep as is
			out = append(out, fn)
			if len(out) == 3 {
				break
			}
		}
		if !more {
			break
		}
	}
	if len(out) == 0 {
		return "harness"
	}
	return strings.Join(out, "<")
}
