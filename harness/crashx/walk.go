package crashx

import (
	"bytes"
	"fmt"
	"math/big"

	"gitlab.com/aquachain/aquachain/common"
	"gitlab.com/aquachain/aquachain/rlp"
	"golang.org/x/crypto/sha3"
)

var (
	// EmptyRoot is the root of the empty trie, EmptyCode the hash of empty code.
	EmptyRoot = common.HexToHash("56e81f171bcc55a6ff8345e692c0f86e5b48e01b996cadc001622fb5e363b421")
	EmptyCode = common.HexToHash("c5d2460186f7233c927e7db2dcc703c0e500b653ca82273b7bfad8045d85a470")
)

func keccak(b []byte) common.Hash {
	h := sha3.NewLegacyKeccak256()
	h.Write(b)
	var out common.Hash
	h.Sum(out[:0])
	return out
}

type account struct {
	Nonce    uint64
	Balance  *big.Int
	Root     common.Hash
	CodeHash []byte
}

// Walker checks completeness of tries in a raw image with its own node decoder.
type Walker struct {
	Im     Image
	okRoot map[common.Hash]bool
	Nodes  int
}

func NewWalker(im Image) *Walker { return &Walker{Im: im, okRoot: map[common.Hash]bool{}} }

// StateComplete reports whether the whole state under root (account trie, every storage trie, every
// code blob) is present in the image. The returned string says what is missing.
func (w *Walker) StateComplete(root common.Hash) (bool, string) {
	if root == EmptyRoot {
		return true, ""
	}
	if w.okRoot[root] {
		return true, ""
	}
	missing := ""
	ok := w.walkHash(root, func(leaf []byte) bool {
		var acc account
		if err := rlp.DecodeBytes(leaf, &acc); err != nil {
			missing = fmt.Sprintf("account leaf does not decode: %v", err)
			return false
		}
		if acc.Root != EmptyRoot {
			if !w.walkHash(acc.Root, func([]byte) bool { return true }, &missing) {
				missing = "storage trie " + acc.Root.Hex()[:10] + ": " + missing
				return false
			}
		}
		ch := common.BytesToHash(acc.CodeHash)
		if ch != EmptyCode {
			code, ok := w.Im[string(ch[:])]
			if !ok {
				missing = "code " + ch.Hex()[:10] + " missing"
				return false
			}
			if keccak(code) != ch {
				missing = "code blob does not hash to its key"
				return false
			}
		}
		return true
	}, &missing)
	if ok {
		w.okRoot[root] = true
	}
	return ok, missing
}

func (w *Walker) walkHash(h common.Hash, leaf func([]byte) bool, missing *string) bool {
	blob, ok := w.Im[string(h[:])]
	if !ok {
		*missing = "node " + h.Hex()[:10] + " missing"
		return false
	}
	if keccak(blob) != h {
		*missing = "node " + h.Hex()[:10] + " does not hash to its key"
		return false
	}
	w.Nodes++
	return w.walkNode(blob, leaf, missing)
}

func (w *Walker) walkRef(ref []byte, leaf func([]byte) bool, missing *string) bool {
	// ref is the raw RLP of a child reference: empty string, 32-byte string (hash) or an embedded list
	kind, content, _, err := rlp.Split(ref)
	if err != nil {
		*missing = "bad child reference"
		return false
	}
	switch {
	case kind == rlp.List:
		return w.walkNode(ref, leaf, missing)
	case len(content) == 0:
		return true
	case len(content) == 32:
		return w.walkHash(common.BytesToHash(content), leaf, missing)
	}
	*missing = fmt.Sprintf("child reference of length %d", len(content))
	return false
}

func (w *Walker) walkNode(blob []byte, leaf func([]byte) bool, missing *string) bool {
	elems, _, err := rlp.SplitList(blob)
	if err != nil {
		*missing = "node is not a list"
		return false
	}
	n, err := rlp.CountValues(elems)
	if err != nil {
		*missing = "node elements malformed"
		return false
	}
	switch n {
	case 2:
		kbuf, rest, err := rlp.SplitString(elems)
		if err != nil || len(kbuf) == 0 {
			*missing = "short node key malformed"
			return false
		}
		isLeaf := kbuf[0]&0x20 != 0
		if isLeaf {
			val, _, err := rlp.SplitString(rest)
			if err != nil {
				*missing = "leaf value malformed"
				return false
			}
			return leaf(val)
		}
		return w.walkRef(rest, leaf, missing)
	case 17:
		rest := elems
		for i := 0; i < 16; i++ {
			_, _, r2, err := rlp.Split(rest)
			if err != nil {
				*missing = "branch child malformed"
				return false
			}
			child := rest[:len(rest)-len(r2)]
			if !w.walkRef(child, leaf, missing) {
				return false
			}
			rest = r2
		}
		val, _, err := rlp.SplitString(rest)
		if err == nil && len(val) > 0 {
			return leaf(val)
		}
		return true
	}
	*missing = fmt.Sprintf("node with %d elements", n)
	return false
}

var _ = bytes.Equal
