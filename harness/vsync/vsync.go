// Package vsync is the drop-in replacement for "sync" in instrumented copies of repository
// packages (DESIGN.md 2.2). A goroutine blocked in a real mutex is not "durably blocked" for
// testing/synctest, so under the scheduler every blocking primitive is modelled: the caller parks
// at a scheduling point that is enabled only when the primitive can be acquired. The real
// primitive is kept in step, so unmanaged callers (free-running -race pass, clean-up phase) get
// exactly sync's behaviour.
package vsync

import (
	"sync"
	"sync/atomic"

	"gitlab.com/aquachain/aquachain/zzverif/vrt"
)

type (
	Pool   = sync.Pool
	Map    = sync.Map
	Locker = sync.Locker
)

// Mutex mirrors sync.Mutex.
type Mutex struct {
	real sync.Mutex
	held atomic.Int32
}

func (m *Mutex) Lock() {
	if vrt.WaitPoint("Mutex.Lock", func() bool { return m.held.Load() == 0 }) {
		m.real.Lock()
		m.held.Store(1)
		return
	}
	m.real.Lock()
	m.held.Store(1)
}

func (m *Mutex) TryLock() bool {
	vrt.Point("Mutex.TryLock")
	if m.real.TryLock() {
		m.held.Store(1)
		return true
	}
	return false
}

func (m *Mutex) Unlock() {
	m.held.Store(0)
	m.real.Unlock()
}

// RWMutex mirrors sync.RWMutex including writer preference: once a writer has announced itself,
// new readers wait.
type RWMutex struct {
	real    sync.RWMutex
	w       atomic.Int32 // writer holds
	pending atomic.Int32 // writers announced, waiting for readers to drain
	readers atomic.Int32
}

func (m *RWMutex) Lock() {
	if vrt.WaitPoint("RWMutex.Lock", func() bool { return m.w.Load() == 0 && m.pending.Load() == 0 }) {
		if m.readers.Load() > 0 {
			m.pending.Add(1)
			vrt.WaitPoint("RWMutex.Lock(drain)", func() bool { return m.readers.Load() == 0 })
			m.pending.Add(-1)
		}
		m.real.Lock()
		m.w.Store(1)
		return
	}
	m.real.Lock()
	m.w.Store(1)
}

func (m *RWMutex) TryLock() bool {
	vrt.Point("RWMutex.TryLock")
	if m.real.TryLock() {
		m.w.Store(1)
		return true
	}
	return false
}

func (m *RWMutex) Unlock() {
	m.w.Store(0)
	m.real.Unlock()
}

func (m *RWMutex) RLock() {
	if vrt.WaitPoint("RWMutex.RLock", func() bool { return m.w.Load() == 0 && m.pending.Load() == 0 }) {
		m.real.RLock()
		m.readers.Add(1)
		return
	}
	m.real.RLock()
	m.readers.Add(1)
}

func (m *RWMutex) TryRLock() bool {
	vrt.Point("RWMutex.TryRLock")
	if m.real.TryRLock() {
		m.readers.Add(1)
		return true
	}
	return false
}

func (m *RWMutex) RUnlock() {
	m.readers.Add(-1)
	m.real.RUnlock()
}

func (m *RWMutex) RLocker() sync.Locker { return (*rlocker)(m) }

type rlocker RWMutex

func (r *rlocker) Lock()   { (*RWMutex)(r).RLock() }
func (r *rlocker) Unlock() { (*RWMutex)(r).RUnlock() }

// Once mirrors sync.Once.
type Once struct {
	m    Mutex
	done atomic.Uint32
}

func (o *Once) Do(f func()) {
	if !vrt.Managed() {
		if o.done.Load() == 1 {
			return
		}
	} else {
		vrt.Point("Once.Do")
		if o.done.Load() == 1 {
			return
		}
	}
	o.m.Lock()
	defer o.m.Unlock()
	if o.done.Load() == 0 {
		defer o.done.Store(1)
		f()
	}
}

// WaitGroup mirrors sync.WaitGroup.
type WaitGroup struct {
	real sync.WaitGroup
	n    atomic.Int64
}

func (wg *WaitGroup) Add(d int) {
	wg.n.Add(int64(d))
	wg.real.Add(d)
}
func (wg *WaitGroup) Done() { wg.Add(-1) }
func (wg *WaitGroup) Go(f func()) {
	wg.Add(1)
	vrt.Go("WaitGroup.Go", func() { defer wg.Done(); f() })
}
func (wg *WaitGroup) Wait() {
	if vrt.WaitPoint("WaitGroup.Wait", func() bool { return wg.n.Load() <= 0 }) {
		return
	}
	wg.real.Wait()
}

// Cond mirrors sync.Cond.
type Cond struct {
	L       sync.Locker
	real    *sync.Cond
	init    sync.Once
	waiters atomic.Int64
	tickets atomic.Int64
}

func NewCond(l sync.Locker) *Cond { return &Cond{L: l} }

func (c *Cond) r() *sync.Cond {
	c.init.Do(func() { c.real = sync.NewCond(c.L) })
	return c.real
}

func (c *Cond) Wait() {
	if vrt.Managed() {
		c.waiters.Add(1)
		c.L.Unlock()
		vrt.WaitPoint("Cond.Wait", func() bool { return c.tickets.Load() > 0 })
		c.tickets.Add(-1)
		c.L.Lock()
		return
	}
	c.r().Wait()
}

func (c *Cond) Signal() {
	if c.waiters.Load() > 0 {
		c.waiters.Add(-1)
		c.tickets.Add(1)
	}
	c.r().Signal()
}

func (c *Cond) Broadcast() {
	n := c.waiters.Swap(0)
	c.tickets.Add(n)
	c.r().Broadcast()
}

// OnceFunc etc. are passed through.
func OnceFunc(f func()) func() { return sync.OnceFunc(f) }
