// C04 - the chain database survives a crash at any write boundary.
// Engine E3: for short import / reorg / rewind / shutdown histories on the real core.BlockChain over
// a logging database, EVERY prefix of the atomic write-unit log is materialised and reopened, and
// EVERY single unit is made to fail. DESIGN.md 2.4 and 4/C04.
package c04

import (
	"encoding/hex"
	"encoding/json"
	"fmt"
	"math/big"
	"os"
	"runtime"
	"sort"
	"strings"
	"testing"
	"time"

	"gitlab.com/aquachain/aquachain/common"
	"gitlab.com/aquachain/aquachain/common/log"
	"gitlab.com/aquachain/aquachain/core"
	"gitlab.com/aquachain/aquachain/core/state"
	"gitlab.com/aquachain/aquachain/core/types"
	"gitlab.com/aquachain/aquachain/crypto"
	"gitlab.com/aquachain/aquachain/params"
	"gitlab.com/aquachain/aquachain/zzverif/chainkit"
	"gitlab.com/aquachain/aquachain/zzverif/chaintree"
	"gitlab.com/aquachain/aquachain/zzverif/crashx"
	"gitlab.com/aquachain/aquachain/zzverif/ev"
)

// ---- histories ----------------------------------------------------------------------------------

type Op struct {
	Ins     []int `json:"ins,omitempty"`
	SetHead *int  `json:"sethead,omitempty"`
	Stop    bool  `json:"stop,omitempty"`
}

type History struct {
	Name   string  `json:"name"`
	Parent []int   `json:"parent"`
	Diff   []int64 `json:"diff"`
	Ops    []Op    `json:"ops"`
	Heavy  bool    `json:"heavy"` // blocks carry many storage writes (pre-image flush path)
	From   int     `json:"from"`  // crash / fault points are enumerated for units of operations >= From only
	Only   string  `json:"only"`  // "pruning": run under the pruning configuration only
}

func ip(i int) *int { return &i }

func histories(tier string) []History {
	hs := []History{
		{Name: "H1-linear", Parent: []int{-1, 0, 1, 2}, Diff: []int64{2, 2, 2, 2},
			Ops: []Op{{Ins: []int{0}}, {Ins: []int{1, 2}}, {Ins: []int{3}}, {Stop: true}}},
		{Name: "H2-reorg-to-longer", Parent: []int{-1, 0, -1, 2, 3}, Diff: []int64{2, 2, 3, 3, 3},
			Ops: []Op{{Ins: []int{0, 1}}, {Ins: []int{2}}, {Ins: []int{3}}, {Ins: []int{4}}, {Stop: true}}},
		{Name: "H3-reorg-to-shorter-heavier", Parent: []int{-1, 0, 1, -1, 3}, Diff: []int64{2, 2, 2, 5, 6},
			Ops: []Op{{Ins: []int{0, 1, 2}}, {Ins: []int{3}}, {Ins: []int{4}}, {Stop: true}}},
		{Name: "H4-side-chain-in-two-batches-wins", Parent: []int{-1, 0, 1, -1, 3, 4, 5}, Diff: []int64{3, 4, 4, 2, 2, 2, 9},
			Ops: []Op{{Ins: []int{0, 1, 2}}, {Ins: []int{3, 4}}, {Ins: []int{5, 6}}, {Stop: true}}},
		{Name: "H6-sethead-then-reimport", Parent: []int{-1, 0, 1, 2}, Diff: []int64{2, 2, 2, 2},
			Ops: []Op{{Ins: []int{0, 1, 2, 3}}, {SetHead: ip(1)}, {Ins: []int{1, 2, 3}}, {Stop: true}}},
		{Name: "H7-many-preimages", Parent: []int{-1, 0, 1}, Diff: []int64{2, 2, 2}, Heavy: true,
			Ops: []Op{{Ins: []int{0}}, {Ins: []int{1}}, {Ins: []int{2}}, {Stop: true}}},
	}
	if tier == "thorough" {
		long := History{Name: "H5-stop-of-pruning-node-135-blocks", Only: "pruning", From: 3}
		for i := 0; i < 135; i++ {
			long.Parent = append(long.Parent, i-1)
			long.Diff = append(long.Diff, 2)
		}
		seq := func(a, b int) []int {
			var o []int
			for i := a; i < b; i++ {
				o = append(o, i)
			}
			return o
		}
		long.Ops = []Op{{Ins: seq(0, 45)}, {Ins: seq(45, 90)}, {Ins: seq(90, 133)}, {Ins: seq(133, 135)}, {Stop: true}}
		hs = append(hs, long)
		hs = append(hs,
			History{Name: "H8-three-way-fork", Parent: []int{-1, 0, -1, 2, -1, 4, 5}, Diff: []int64{2, 2, 3, 4, 1, 4, 9},
				Ops: []Op{{Ins: []int{0}}, {Ins: []int{2}}, {Ins: []int{4}}, {Ins: []int{1}}, {Ins: []int{3}}, {Ins: []int{5, 6}}, {Stop: true}}},
			History{Name: "H9-sethead-zero-and-regrow", Parent: []int{-1, 0, 1, -1, 3}, Diff: []int64{2, 2, 2, 3, 9},
				Ops: []Op{{Ins: []int{0, 1, 2}}, {SetHead: ip(0)}, {Ins: []int{3, 4}}, {Ins: []int{0, 1, 2}}, {Stop: true}}},
		)
	}
	maxGen := 3
	if tier == "thorough" {
		maxGen = 4
	}
	// generated: every block tree of up to 3 (quick) / 4 (thorough) blocks (difficulties {1,2,3}) whose total difficulties are
	// pairwise distinct (no fork-choice coin), every arrival order, one block per call, then Stop
	for n := 1; n <= maxGen; n++ {
		for si, sh := range chaintree.Shapes(n, []int64{1, 2, 3}) {
			td := make([]int64, n)
			distinct := true
			seen := map[int64]bool{}
			for i := 0; i < n; i++ {
				td[i] = sh.Diff[i]
				if sh.Parent[i] >= 0 {
					td[i] += td[sh.Parent[i]]
				}
				if seen[td[i]] {
					distinct = false
				}
				seen[td[i]] = true
			}
			if !distinct {
				continue
			}
			for oi, order := range chaintree.Orders(sh) {
				h := History{Name: fmt.Sprintf("G%d-%d-%d", n, si, oi), Parent: sh.Parent, Diff: sh.Diff}
				for _, i := range order {
					h.Ops = append(h.Ops, Op{Ins: []int{i}})
				}
				h.Ops = append(h.Ops, Op{Stop: true})
				hs = append(hs, h)
			}
		}
	}
	return hs
}

// contract: constructor stores two slots and returns a runtime that increments slot 0 and writes a
// fresh slot keyed by the call value's low byte (so pre-images accumulate).
var creation = common.FromHex("6001600055" + "6002600155" + "600d6016600039" + "600d6000f3" + "60016000540160005534805500")

// codeless: SSTORE(1, 42); STOP
var codeless = common.FromHex("602a60015500")

func txFor(env *chainkit.Env, heavy bool) func(s chaintree.Shape, i int, g *core.BlockGen, sib int) {
	return func(s chaintree.Shape, i int, g *core.BlockGen, sib int) {
		a0 := env.Addrs[0]
		g.AddTx(env.Transfer(1, g.TxNonce(env.Addrs[1]), env.Addrs[2], int64(1000+i)))
		depth := g.Number().Uint64()
		if depth == 1 {
			tx, _ := types.SignTx(types.NewContractCreation(g.TxNonce(a0), big.NewInt(0), 300000, big.NewInt(1), creation), env.Signer, env.Keys[0])
			g.AddTx(tx)
			// a second creation whose constructor stores a slot and returns no runtime code: an account with
			// storage and without code (its storage trie hangs off a leaf that names the empty code hash)
			tx2, _ := types.SignTx(types.NewContractCreation(g.TxNonce(a0), big.NewInt(0), 100000, big.NewInt(1), codeless), env.Signer, env.Keys[0])
			g.AddTx(tx2)
			return
		}
		if len(s.Parent) > 50 && depth%20 != 0 && depth < 130 {
			return
		}
		// call a contract created at depth 1 by this branch's ancestor (address = f(sender, nonce 0))
		caddr := crypto.CreateAddress(a0, 0)
		calls := 1
		if heavy {
			calls = 12
		}
		for c := 0; c < calls; c++ {
			tx, _ := types.SignTx(types.NewTransaction(g.TxNonce(a0), caddr, big.NewInt(int64(7+c+16*i)), 200000, big.NewInt(1), nil), env.Signer, env.Keys[0])
			g.AddTx(tx)
		}
	}
}

// ---- execution ----------------------------------------------------------------------------------

type world struct {
	env    *chainkit.Env
	tree   *chaintree.Tree
	byHash map[common.Hash]int
	target int // heaviest node (crash-free refeed target)
}

func build(h History) *world {
	env := chainkit.NewEnv(params.TestChainConfig, nil)
	b := chaintree.NewBuilder(env)
	b.TxFor = txFor(env, h.Heavy)
	tr := b.Build(chaintree.Shape{Parent: h.Parent, Diff: h.Diff})
	w := &world{env: env, tree: tr, byHash: map[common.Hash]int{}}
	best := -1
	for i, blk := range tr.Blocks {
		w.byHash[blk.Hash()] = i
		if best < 0 || tr.TD[i].Cmp(tr.TD[best]) > 0 {
			best = i
		} else if tr.TD[i].Cmp(tr.TD[best]) == 0 {
			panic("C04 histories must not contain total-difficulty ties: " + h.Name)
		}
	}
	w.target = best
	return w
}

func (w *world) nodeOf(h common.Hash) int {
	if h == w.env.Genesis.Hash() || h == (common.Hash{}) {
		return -1
	}
	if i, ok := w.byHash[h]; ok {
		return i
	}
	return -2
}

func (w *world) rootOf(n int) common.Hash {
	if n < 0 {
		return w.env.Genesis.Root()
	}
	return w.tree.Blocks[n].Root()
}

func (w *world) numOf(n int) uint64 {
	if n < 0 {
		return 0
	}
	return w.tree.Blocks[n].NumberU64()
}

type runResult struct {
	db       *crashx.LogDB
	initial  crashx.Image
	opErr    []string
	died     bool // log.Crit sentinel: process considered dead at diedOp
	diedMsg  string
	leaked   []string
	leakedOp int
	memHead  common.Hash
	panicked string
	deadlock string
}

func cacheCfg(pruning bool) *core.CacheConfig {
	if pruning {
		return chainkit.Pruning()
	}
	return chainkit.Archive()
}

// execute runs the history on a logging database; failAt >= 0 makes that unit fail.
func (w *world) execute(h History, pruning bool, scale, failAt int) *runResult {
	core.VerifResetLastWrite()
	base := w.env.NewChainDB()
	r := &runResult{initial: crashx.ImageOf(base)}
	r.db = crashx.NewLogDB(base, scale)
	r.db.FailAt = failAt
	r.memHead = w.env.Genesis.Hash()
	var bc *core.BlockChain
	var err error
	func() {
		defer func() {
			if x := recover(); x != nil {
				if ce, ok := x.(log.VerifCritExit); ok {
					r.died, r.diedMsg = true, ce.Msg
				} else {
					r.panicked = fmt.Sprintf("open panicked: %v", x)
				}
			}
		}()
		bc, err = w.env.Open(r.db, cacheCfg(pruning), chainkit.FullFaker())
	}()
	if r.died || r.panicked != "" {
		return r
	}
	if err != nil {
		r.panicked = "open: " + err.Error()
		return r
	}
	r.db.HeadFn = func() common.Hash { return bc.CurrentBlock().Hash() }
	stopped := false
	step := func(oi int, op Op) (cont bool) {
		defer func() {
			if x := recover(); x != nil {
				if ce, ok := x.(log.VerifCritExit); ok {
					r.died, r.diedMsg = true, ce.Msg
				} else {
					r.panicked = fmt.Sprintf("op %d panicked: %v", oi, x)
				}
				cont = false
			}
		}()
		r.db.CurOp = oi
		var err error
		switch {
		case op.Stop:
			bc.Stop()
			stopped = true
		case op.SetHead != nil:
			err = bc.SetHead(uint64(*op.SetHead))
		default:
			var bs types.Blocks
			for _, i := range op.Ins {
				bs = append(bs, w.tree.Blocks[i])
			}
			_, err = bc.InsertChain(bs)
		}
		if err != nil {
			r.opErr = append(r.opErr, fmt.Sprintf("op %d: %v", oi, err))
		}
		if !stopped {
			if busy := bc.VerifLocksIdle(); len(busy) > 0 {
				r.leaked, r.leakedOp = busy, oi
				return false
			}
		}
		return true
	}
	for oi, op := range h.Ops {
		cont, hung := watchdog(func() bool { return step(oi, op) })
		if hung != "" {
			r.deadlock = fmt.Sprintf("op %d never returned; its goroutine is blocked on a lock: %s", oi, hung)
			return r
		}
		if !cont {
			break
		}
	}
	r.memHead = bc.CurrentBlock().Hash()
	if !stopped && !r.died && r.leaked == nil && r.panicked == "" {
		_, hung := watchdog(func() bool {
			defer func() {
				if x := recover(); x != nil {
					if ce, ok := x.(log.VerifCritExit); ok {
						r.died, r.diedMsg = true, ce.Msg
					} else {
						r.panicked = fmt.Sprintf("Stop panicked: %v", x)
					}
				}
			}()
			bc.Stop()
			return true
		})
		if hung != "" {
			r.deadlock = "Stop never returned; its goroutine is blocked on a lock: " + hung
		}
	}
	return r
}

// watchdog runs f in its own goroutine. A case normally takes milliseconds; if f has not returned
// after 20 s the goroutine's state is inspected: only when it is parked on a sync primitive (mutex,
// rwmutex, waitgroup), and still in exactly the same place 2 s later, is it reported as deadlocked
// (the goroutine is abandoned). A goroutine that is still running is given 10 minutes and then is a
// harness error, never a violation.
func watchdog(f func() bool) (ret bool, hung string) {
	done := make(chan bool, 1)
	idc := make(chan string, 1)
	go func() {
		idc <- goid()
		done <- f()
	}()
	id := <-idc
	select {
	case ret = <-done:
		return ret, ""
	case <-time.After(20 * time.Second):
	}
	start := time.Now()
	for {
		a := stackOf(id)
		select {
		case ret = <-done:
			return ret, ""
		case <-time.After(2 * time.Second):
		}
		b := stackOf(id)
		if a != "" && a == b && (strings.Contains(a, "[sync.") || strings.Contains(a, "[semacquire")) {
			lines := strings.Split(a, "\n")
			var short []string
			for _, l := range lines {
				if strings.Contains(l, "gitlab.com/aquachain/aquachain/") && !strings.Contains(l, "zzverif") {
					short = append(short, strings.TrimSpace(strings.SplitN(l, "(", 2)[0]))
				}
			}
			if len(short) > 4 {
				short = short[:4]
			}
			return false, strings.Split(lines[0], "[")[1] + " <- " + strings.Join(short, " <- ")
		}
		if time.Since(start) > 10*time.Minute {
			ev.Broken("a case neither returned nor blocked on a lock within 10 minutes")
		}
	}
}

func goid() string {
	buf := make([]byte, 64)
	buf = buf[:runtime.Stack(buf, false)]
	return strings.Fields(string(buf))[1]
}

// stackOf returns the stack of goroutine id with addresses and argument values stripped.
func stackOf(id string) string {
	buf := make([]byte, 1<<20)
	buf = buf[:runtime.Stack(buf, true)]
	for _, g := range strings.Split(string(buf), "\n\n") {
		if strings.HasPrefix(g, "goroutine "+id+" ") {
			var out []string
			for i, l := range strings.Split(g, "\n") {
				if i == 0 {
					// "goroutine 19 [sync.RWMutex.Lock, 2 minutes]:" -> drop the duration
					l = strings.SplitN(l, ",", 2)[0]
				}
				if strings.HasPrefix(l, "\t") {
					continue
				}
				out = append(out, strings.SplitN(l, "(0x", 2)[0])
			}
			return strings.Join(out, "\n")
		}
	}
	return ""
}

// ancestorAt returns the ancestor-or-self of node n at block number num (-1 = genesis).
func (w *world) ancestorAt(n int, num uint64) int {
	for n >= 0 && w.numOf(n) > num {
		n = w.tree.Shape.Parent[n]
	}
	return n
}

// rewindTargets: if crash point k lies inside a SetHead operation, the rewind target of the head.
func (w *world) rewindTargets(h History, units []crashx.Unit, k, head int) []int {
	for _, idx := range []int{k - 1, k} {
		if idx >= 0 && idx < len(units) && units[idx].Op < len(h.Ops) && h.Ops[units[idx].Op].SetHead != nil {
			return []int{w.ancestorAt(head, uint64(*h.Ops[units[idx].Op].SetHead))}
		}
	}
	return nil
}

// ---- recovery oracle ----------------------------------------------------------------------------

type verdict struct {
	oracle string
	msg    string
}

// recover reopens an image and applies the recovery oracle. admissible = node indices (-1 genesis).
func (w *world) recoverCheck(h History, pruning bool, im crashx.Image, admissible []int) (v []verdict) {
	core.VerifResetLastWrite()
	pre := crashx.NewWalker(im)
	// expected heads
	exp := map[int]bool{}
	for _, a := range admissible {
		x := a
		if pruning {
			for x >= 0 {
				if ok, _ := pre.StateComplete(w.rootOf(x)); ok {
					break
				}
				x = w.tree.Shape.Parent[x]
			}
		}
		exp[x] = true
	}
	// every state root present on disk has its whole trie on disk
	for n := -1; n < len(w.tree.Blocks); n++ {
		root := w.rootOf(n)
		if _, present := im[string(root[:])]; present {
			if ok, why := pre.StateComplete(root); !ok {
				v = append(v, verdict{"root-without-trie", fmt.Sprintf("state root of node %d is on disk but its trie is not complete: %s", n, why)})
			}
		}
	}
	db := im.DB()
	var bc *core.BlockChain
	func() {
		defer func() {
			if x := recover(); x != nil {
				v = append(v, verdict{"reopen-panic", fmt.Sprintf("NewBlockChain panicked: %v", x)})
			}
		}()
		var err error
		bc, err = w.env.Open(db, cacheCfg(pruning), chainkit.FullFaker())
		if err != nil {
			v = append(v, verdict{"reopen-error", "NewBlockChain: " + err.Error()})
			bc = nil
		}
	}()
	if bc == nil {
		return v
	}
	defer bc.Stop()
	head := bc.CurrentBlock()
	hn := w.nodeOf(head.Hash())
	if hn == -2 {
		return append(v, verdict{"head-unknown", fmt.Sprintf("exposed head %x is not a block of the history", head.Hash().Bytes()[:4])})
	}
	if !exp[hn] {
		var adm, ex []string
		for _, a := range admissible {
			adm = append(adm, fmt.Sprintf("node %d (#%d)", a, w.numOf(a)))
		}
		for e := range exp {
			ex = append(ex, fmt.Sprintf("node %d (#%d)", e, w.numOf(e)))
		}
		sort.Strings(ex)
		v = append(v, verdict{"head-not-admissible", fmt.Sprintf("reopened head is node %d (#%d); node's head around the crash: %v; admissible after state availability: %v", hn, head.NumberU64(), adm, ex)})
	}
	// complete state of the exposed head (own walker on the image as it is now, and the real iterator)
	post := crashx.NewWalker(crashx.ImageOf(db))
	if ok, why := post.StateComplete(head.Root()); !ok {
		v = append(v, verdict{"head-state-incomplete", "state of the exposed head is not completely on disk: " + why})
	} else {
		func() {
			defer func() {
				if x := recover(); x != nil {
					v = append(v, verdict{"head-state-unreadable", fmt.Sprintf("iterating the head state panicked: %v", x)})
				}
			}()
			st, err := state.New(head.Root(), state.NewDatabase(db))
			if err != nil {
				v = append(v, verdict{"head-state-unreadable", "state.New: " + err.Error()})
				return
			}
			_ = st.RawDump()
		}()
	}
	// number index agrees with ancestry down to genesis
	for x := hn; ; {
		num := w.numOf(x)
		want := w.env.Genesis.Hash()
		if x >= 0 {
			want = w.tree.Blocks[x].Hash()
		}
		if got := core.GetCanonicalHash(db, num); got != want {
			v = append(v, verdict{"index-disagrees-with-ancestry", fmt.Sprintf("height %d maps to %x but the head's ancestor there is %x", num, got.Bytes()[:4], want.Bytes()[:4])})
			break
		}
		if x < 0 {
			break
		}
		x = w.tree.Shape.Parent[x]
	}
	// feeding the original blocks again converges to the crash-free head
	func() {
		defer func() {
			if x := recover(); x != nil {
				v = append(v, verdict{"refeed-panic", fmt.Sprintf("re-import panicked: %v", x)})
			}
		}()
		for oi, op := range h.Ops {
			if op.Ins == nil {
				continue
			}
			var bs types.Blocks
			for _, i := range op.Ins {
				bs = append(bs, w.tree.Blocks[i])
			}
			if _, err := bc.InsertChain(bs); err != nil {
				v = append(v, verdict{"refeed-error", fmt.Sprintf("re-import of op %d failed: %v", oi, err)})
				return
			}
		}
		if got := w.nodeOf(bc.CurrentBlock().Hash()); got != w.target {
			v = append(v, verdict{"refeed-diverges", fmt.Sprintf("after re-importing every block the head is node %d, a crash-free run ends at node %d", got, w.target)})
		} else if len(v) == 0 {
			// "converges to the same head as a crash-free run": the canonical chain that ends there is as
			// retrievable as after a crash-free run (number index, receipts, total difficulty of every block)
			for b := bc.CurrentBlock(); b != nil && b.NumberU64() > 0 && len(v) == 0; b = bc.GetBlock(b.ParentHash(), b.NumberU64()-1) {
				bh, n := b.Hash(), b.NumberU64()
				switch {
				case core.GetCanonicalHash(db, n) != bh:
					v = append(v, verdict{"refeed-incomplete", fmt.Sprintf("after re-importing every block, height %d does not map to the head's ancestor", n)})
				case core.GetBlockReceipts(db, bh, n) == nil:
					v = append(v, verdict{"refeed-incomplete", fmt.Sprintf("after re-importing every block, the receipts of canonical block #%d (node %d) are not retrievable", n, w.nodeOf(bh))})
				case bc.GetTd(bh, n) == nil:
					v = append(v, verdict{"refeed-incomplete", fmt.Sprintf("after re-importing every block, canonical block #%d has no total difficulty", n)})
				}
			}
		}
	}()
	return v
}

// ---- driver -------------------------------------------------------------------------------------

type caseDoc struct {
	History    History           `json:"history"`
	Pruning    bool              `json:"pruning"`
	Scale      int               `json:"scale"`
	Mode       string            `json:"mode"` // crash | fault
	Index      int               `json:"index"`
	Image      map[string]string `json:"image_hex,omitempty"`
	Admissible []int             `json:"admissible,omitempty"`
}

func imageHex(im crashx.Image) map[string]string {
	m := map[string]string{}
	for k, v := range im {
		m[hex.EncodeToString([]byte(k))] = hex.EncodeToString(v)
	}
	return m
}

func imageFromHex(m map[string]string) crashx.Image {
	im := crashx.Image{}
	for k, v := range m {
		kb, _ := hex.DecodeString(k)
		vb, _ := hex.DecodeString(v)
		im[string(kb)] = vb
	}
	return im
}

func TestCheck(t *testing.T) {
	chainkit.Quiet()
	log.VerifCritPanics = true
	if d := ev.Replay(); d != nil {
		run := ev.Start("fault_enumeration")
		var c caseDoc
		b, _ := json.Marshal(d.Detail["case"])
		if json.Unmarshal(b, &c) != nil {
			ev.Broken("bad replay detail")
		}
		w := build(c.History)
		var vs []verdict
		if c.Image != nil {
			vs = w.recoverCheck(c.History, c.Pruning, imageFromHex(c.Image), c.Admissible)
		} else {
			vs, _ = w.faultCase(c.History, c.Pruning, c.Scale, c.Index)
		}
		for _, v := range vs {
			if v.oracle == d.Oracle {
				fmt.Println("REPRODUCED", v.oracle, v.msg)
				run.Violate(ev.Violation{Scenario: d.Scenario, Oracle: d.Oracle, CaseID: d.CaseID, Detail: d.Detail})
				break
			}
		}
		run.Finish()
	}
	if shard, n, ok := ev.Shard(); ok {
		worker(shard, n)
		return
	}
	run := ev.Start("fault_enumeration")
	run.MaxReplays = 120
	run.Rule = "one evaluation = one crash point (a prefix of the atomic write-unit log, reopened and checked) or one fault point (one unit made to fail, run continued, reopened and checked); distinct_nontrivial = distinct (history, config, kind of unit at the crash/fault point, operation index, verdict-relevant outcome) tuples"
	run.Assume("atomic units: a Put, a Delete, or one Batch.Write(); torn batches are not modelled (both back-ends apply a batch atomically; leveldb's WAL is sequential, so a crash leaves a prefix of the unit sequence)")
	run.Assume("full-fake engine, no exact total-difficulty ties in the histories")
	run.Assume("log.Crit's os.Exit is a recoverable sentinel (overlay rewrite) that the harness treats as process death at that unit")
	run.RunWorkers(ev.Jobs(), nil, nil)
	var names []string
	for _, h := range histories(run.Tier) {
		names = append(names, h.Name)
	}
	run.Set("histories", names)
	run.Set("configs", []string{"archive", "pruning"})
	run.Set("valuesize_scales", scales(run.Tier))
	run.Finish()
}

func scales(tier string) []int {
	if tier == "thorough" {
		return []int{1, 64, 1024}
	}
	return []int{1, 1024}
}

// faultCase runs the history with unit j failing and applies the fault oracle.
func (w *world) faultCase(h History, pruning bool, scale, j int) (v []verdict, failed *crashx.Unit) {
	r := w.execute(h, pruning, scale, j)
	failed = r.db.Failed
	if r.panicked != "" {
		return append(v, verdict{"panic-after-failed-write", r.panicked}), failed
	}
	if r.deadlock != "" {
		return append(v, verdict{"deadlock-after-failed-write", r.deadlock}), failed
	}
	if r.leaked != nil {
		return append(v, verdict{"lock-leaked-after-failed-write", fmt.Sprintf("after op %d returned, still locked: %v (any later writer deadlocks)", r.leakedOp, r.leaked)}), failed
	}
	im := crashx.ImageOf(r.db.Mem())
	var adm []int
	if r.died {
		// process death at unit j: the view around the crash
		if r.db.Failed != nil {
			adm = append(adm, w.nodeOf(r.db.Failed.Head))
		}
		if n := len(r.db.Log); n > 0 {
			adm = append(adm, w.nodeOf(r.db.Log[n-1].Head))
		} else {
			adm = append(adm, -1)
		}
	} else {
		adm = append(adm, w.nodeOf(r.memHead))
	}
	for _, a := range adm {
		if a == -2 {
			return append(v, verdict{"head-unknown", "in-memory head is not a block of the history"}), failed
		}
	}
	if r.db.Failed != nil && r.db.Failed.Op < len(h.Ops) && h.Ops[r.db.Failed.Op].SetHead != nil {
		for _, a := range append([]int(nil), adm...) {
			adm = append(adm, w.ancestorAt(a, uint64(*h.Ops[r.db.Failed.Op].SetHead)))
		}
	}
	return append(v, w.recoverCheck(h, pruning, im, adm)...), failed
}

func worker(shard, nsh int) {
	tier := os.Getenv("VERIF_TIER")
	res := &ev.WorkerResult{Counters: map[string]int64{}}
	classes := map[string]bool{}
	seenSig := map[string]bool{}
	deadline := time.Now().Add(10 * time.Minute)
	if tier == "thorough" {
		deadline = time.Now().Add(60 * time.Minute)
	}
	report := func(scn, oracle, caseID string, c caseDoc, msg string) {
		sig := scn + "/" + oracle + "/" + caseID
		if seenSig[sig] {
			return
		}
		seenSig[sig] = true
		res.Violations = append(res.Violations, ev.Violation{Scenario: scn, Oracle: oracle, CaseID: caseID,
			Detail: map[string]interface{}{"case": c, "msg": msg}})
	}
	task := 0
	for _, h := range histories(tier) {
		w := build(h)
		for _, pruning := range []bool{false, true} {
			if h.Only == "pruning" && !pruning {
				continue
			}
			cfgName := "archive"
			if pruning {
				cfgName = "pruning"
			}
			for _, scale := range scales(tier) {
				if h.Heavy != true && scale != 1 && tier != "thorough" && h.Name != "H3-reorg-to-shorter-heavier" {
					continue
				}
				base := w.execute(h, pruning, scale, -1)
				if base.deadlock != "" || base.panicked != "" || base.died || base.leaked != nil || len(base.opErr) > 0 {
					ev.Broken("crash-free run of %s/%s failed: %v %v %v %v", h.Name, cfgName, base.panicked, base.diedMsg, base.leaked, base.opErr)
				}
				if w.nodeOf(base.memHead) != w.target && h.Name != "H6-sethead-then-reimport" {
					ev.Broken("crash-free run of %s ends at node %d, expected heaviest node %d", h.Name, w.nodeOf(base.memHead), w.target)
				}
				units := base.db.Log
				if shard == 0 {
					res.Counters[fmt.Sprintf("units|%s|%s|x%d", h.Name, cfgName, scale)] = int64(len(units))
					if len(res.Samples) < 3 {
						var kinds []string
						for _, u := range units {
							kinds = append(kinds, fmt.Sprintf("%s(%d)@op%d %s", u.Kind, len(u.Ops), u.Op, u.Site))
						}
						res.Samples = append(res.Samples, map[string]interface{}{"history": h.Name, "config": cfgName, "scale": scale, "unit_log": kinds})
					}
				}
				// ---- crash points: every prefix
				im := base.initial.Clone()
				for k := 0; k <= len(units); k++ {
					if k > 0 {
						im.Apply(units[k-1])
					}
					if k < len(units) && units[k].Op < h.From {
						continue
					}
					task++
					if task%nsh != shard {
						continue
					}
					prev, next := -1, w.nodeOf(base.memHead)
					if k > 0 {
						prev = w.nodeOf(units[k-1].Head)
					}
					if k < len(units) {
						next = w.nodeOf(units[k].Head)
					}
					adm := []int{prev}
					if next != prev {
						adm = append(adm, next)
					}
					// inside a SetHead(n) the block the operation rewinds to is a head the node is making
					// its head, although the in-memory pointer only follows at the end of the operation
					adm = append(adm, w.rewindTargets(h, units, k, prev)...)
					vs := w.recoverCheck(h, pruning, im.Clone(), adm)
					res.Evals++
					res.Counters["crash_points"]++
					kind, opi := "end", len(h.Ops)
					if k < len(units) {
						kind, opi = units[k].Kind+" "+units[k].Site, units[k].Op
					}
					outcome := "ok"
					for _, v := range vs {
						outcome = v.oracle
						caseID := fmt.Sprintf("%s/%s/op%d before %s", h.Name, cfgName, opi, kind)
						report("crash", v.oracle, caseID, caseDoc{History: h, Pruning: pruning, Scale: scale, Mode: "crash", Index: k, Image: imageHex(im), Admissible: adm}, v.msg)
					}
					classes[fmt.Sprintf("crash|%s|%s|%s|op%d|%s", h.Name, cfgName, kind, opi, outcome)] = true
				}
				// ---- fault points: every unit fails once
				for j := 0; j < len(units); j++ {
					if units[j].Op < h.From {
						continue
					}
					task++
					if task%nsh != shard {
						continue
					}
					vs, failed := w.faultCase(h, pruning, scale, j)
					if failed == nil {
						// the re-execution issued fewer units than the recorded run (flush points of scaled
						// runs follow map iteration order): nothing was made to fail
						res.Counters["fault_points_not_reached"]++
						continue
					}
					res.Evals++
					res.Counters["fault_points"]++
					outcome := "ok"
					for _, v := range vs {
						outcome = v.oracle
						caseID := fmt.Sprintf("%s/%s/op%d failed %s %s", h.Name, cfgName, failed.Op, failed.Kind, failed.Site)
						report("fault", v.oracle, caseID, caseDoc{History: h, Pruning: pruning, Scale: scale, Mode: "fault", Index: j}, v.msg)
					}
					classes[fmt.Sprintf("fault|%s|%s|%s %s|op%d|%s", h.Name, cfgName, failed.Kind, failed.Site, failed.Op, outcome)] = true
				}
				if time.Now().After(deadline) {
					res.Caps = append(res.Caps, "internal deadline reached")
					goto done
				}
			}
		}
	}
done:
	for c := range classes {
		res.Classes = append(res.Classes, c)
	}
	ev.WorkerDone(res)
}

var _ = strings.Contains
