// C01 - block import is deterministic and accepts only self-consistent blocks.
// Engine E2/E4: a block tree with every kind of transaction and uncles across the fork heights is
// imported in every parent-closed arrival order, with batching / restart deviations and under every
// cache configuration, and must always yield the builder's receipts, logs, gas and state; every
// single-field corruption of every block must be rejected with the database untouched.
package c01

import (
	"bytes"
	"encoding/json"
	"fmt"
	"math/big"
	"os"
	"runtime/pprof"
	"sort"
	"strings"
	"sync"
	"testing"
	"time"

	"gitlab.com/aquachain/aquachain/aquadb"
	"gitlab.com/aquachain/aquachain/common"
	"gitlab.com/aquachain/aquachain/core"
	"gitlab.com/aquachain/aquachain/core/state"
	"gitlab.com/aquachain/aquachain/core/types"
	"gitlab.com/aquachain/aquachain/crypto"
	"gitlab.com/aquachain/aquachain/params"
	"gitlab.com/aquachain/aquachain/rlp"
	"gitlab.com/aquachain/aquachain/zzverif/chainkit"
	"gitlab.com/aquachain/aquachain/zzverif/ev"
	"gitlab.com/aquachain/aquachain/zzverif/ref/refmpt"
)

// ---- contracts (pre-deployed in genesis) --------------------------------------------------------

var (
	cStore   = common.HexToAddress("0x00000000000000000000000000000000000c0001") // SSTORE(0, calldata[0]); LOG1
	cRevert  = common.HexToAddress("0x00000000000000000000000000000000000c0002") // SSTORE; LOG0; REVERT
	cLoop    = common.HexToAddress("0x00000000000000000000000000000000000c0003") // infinite loop (out of gas)
	cSuicide = common.HexToAddress("0x00000000000000000000000000000000000c0004") // SELFDESTRUCT to heir
	cLogs    = common.HexToAddress("0x00000000000000000000000000000000000c0005") // LOG0..LOG4
	cCtx     = common.HexToAddress("0x00000000000000000000000000000000000c0006") // stores BLOCKHASH(n-1..n-3), COINBASE, TIMESTAMP, DIFFICULTY, GASLIMIT; LOG1(BLOCKHASH(n-1))
	heir     = common.HexToAddress("0x00000000000000000000000000000000000d0001")
	miner1   = common.HexToAddress("0x00000000000000000000000000000000000e0001")
	miner2   = common.HexToAddress("0x00000000000000000000000000000000000e0002")
)

func topic(b byte) string { return strings.Repeat(fmt.Sprintf("%02x", b), 32) }

func alloc() core.GenesisAlloc {
	hx := common.FromHex
	logs := "60016000526020600060"[:0] // built below
	_ = logs
	// LOG0..LOG4 over memory word 0 = 1
	l := "6001600052" + "60206000a0"
	l += "7f" + topic(0x11) + "60206000a1"
	l += "7f" + topic(0x22) + "7f" + topic(0x11) + "60206000a2"
	l += "7f" + topic(0x33) + "7f" + topic(0x22) + "7f" + topic(0x11) + "60206000a3"
	l += "7f" + topic(0x44) + "7f" + topic(0x33) + "7f" + topic(0x22) + "7f" + topic(0x11) + "60206000a4" + "00"
	return core.GenesisAlloc{
		cStore:   {Balance: big.NewInt(0), Code: hx("600035600055" + "7f" + topic(0xaa) + "60006000a1" + "00"), Storage: map[common.Hash]common.Hash{{}: common.BigToHash(big.NewInt(7))}},
		cRevert:  {Balance: big.NewInt(0), Code: hx("6001600055" + "60006000a0" + "60006000fd")},
		cLoop:    {Balance: big.NewInt(0), Code: hx("5b600056")},
		cSuicide: {Balance: big.NewInt(12345), Code: hx("73" + heir.Hex()[2:] + "ff")},
		cLogs:    {Balance: big.NewInt(0), Code: hx(l)},
		cCtx: {Balance: big.NewInt(0), Code: hx("6001430340600055" + "6002430340600155" + "6003430340600255" +
			"41600355" + "42600455" + "44600555" + "45600655" + "6001430340" + "60006000a1" + "00")},
	}
}

// creation code: constructor stores two slots and returns a 13-byte runtime (slot0++, slot[v]=v)
var creation = common.FromHex("6001600055" + "6002600155" + "600d6016600039" + "600d6000f3" + "60016000540160005534805500")

// ---- the block tree -------------------------------------------------------------------------------

type node struct {
	extra    bool // not part of the permuted tree (imported in one fixed history, corrupted like the others)
	name     string
	parent   int // -1 genesis
	block    *types.Block
	receipts types.Receipts
}

type world struct {
	env   *chainkit.Env
	nodes []*node
	addrs []common.Address // account universe for the independent state root
	slots map[common.Address][]common.Hash
	refOK []string // spec-root failures found at build time
}

func call(env *chainkit.Env, g *core.BlockGen, from int, to common.Address, value int64, gas uint64, data []byte) *types.Transaction {
	tx, err := types.SignTx(types.NewTransaction(g.TxNonce(env.Addrs[from]), to, big.NewInt(value), gas, big.NewInt(1), data), env.Signer, env.Keys[from])
	if err != nil {
		panic(err)
	}
	return tx
}

func word(b byte) []byte { w := make([]byte, 32); w[31] = b; return w }

func configs() map[string]*params.ChainConfig {
	// the repository's test schedule (forks 1..7 at heights 1..7, Byzantium from 0) and a
	// "mainnet-shaped" one in which EIP155/158/Byzantium only switch on at HF7, after HF5
	t := params.TestChainConfig
	m := *params.TestChainConfig
	m.ChainId = big.NewInt(3)
	m.EIP155Block = big.NewInt(7)
	m.EIP158Block = big.NewInt(7)
	m.ByzantiumBlock = big.NewInt(7)
	return map[string]*params.ChainConfig{"test": t, "mainnet-shaped": &m}
}

func build(cfgName string) *world {
	cfg := configs()[cfgName]
	env := chainkit.NewEnv(cfg, alloc())
	if cfgName == "mainnet-shaped" {
		env.Signer = types.HomesteadSigner{}
	}
	w := &world{env: env, slots: map[common.Address][]common.Hash{}}
	eng := chainkit.Faker()
	add := func(name string, parent int, gen func(g *core.BlockGen)) int {
		p := env.Genesis
		if parent >= 0 {
			p = w.nodes[parent].block
		}
		bs, rs := env.Gen(p, eng, 1, func(_ int, g *core.BlockGen) { gen(g) })
		w.nodes = append(w.nodes, &node{name: name, parent: parent, block: bs[0], receipts: rs[0]})
		return len(w.nodes) - 1
	}
	A := env.Addrs
	// ctx: a call that reads the ancestor hashes and the header fields of the block it is mined in. The
	// builder executes it on a scratch node on which the block's own branch is the canonical chain.
	ctx := func(g *core.BlockGen, from int, parent int) {
		var path types.Blocks
		for v := parent; v >= 0; v = w.nodes[v].parent {
			path = append(types.Blocks{w.nodes[v].block}, path...)
		}
		sbc, err := env.Open(env.NewChainDB(), chainkit.Archive(), eng)
		if err != nil {
			panic(err)
		}
		defer sbc.Stop()
		if _, err := sbc.InsertChain(path); err != nil {
			panic(fmt.Sprintf("builder: scratch node rejects the branch: %v", err))
		}
		g.VerifAddTxWithChain(sbc, call(env, g, from, cCtx, 0, 300000, nil))
	}
	m1 := add("M1", -1, func(g *core.BlockGen) {
		g.SetCoinbase(miner1)
		g.AddTx(env.Transfer0(g, 0, A[2], 1000))
		tx, _ := types.SignTx(types.NewContractCreation(g.TxNonce(A[1]), big.NewInt(5), 300000, big.NewInt(1), creation), env.Signer, env.Keys[1])
		g.AddTx(tx)
	})
	m2 := add("M2", m1, func(g *core.BlockGen) {
		g.SetCoinbase(miner1)
		g.AddTx(call(env, g, 0, cStore, 0, 100000, word(9))) // set
		g.AddTx(call(env, g, 0, cStore, 0, 100000, word(0))) // clear: refund
		g.AddTx(call(env, g, 1, cLogs, 0, 200000, nil))
	})
	// sibling of M3 that later becomes an uncle
	u3 := add("U3", m2, func(g *core.BlockGen) { g.SetCoinbase(miner2); g.SetExtra([]byte("uncle")) })
	m3 := add("M3", m2, func(g *core.BlockGen) {
		g.SetCoinbase(miner1)
		g.AddTx(call(env, g, 0, cRevert, 0, 100000, nil)) // fails: status 0 / revert
		g.AddTx(call(env, g, 1, cLoop, 0, 60000, nil))    // out of gas
	})
	m4 := add("M4", m3, func(g *core.BlockGen) {
		g.SetCoinbase(miner2)
		g.AddUncle(w.nodes[u3].block.Header())
		g.AddTx(env.Transfer0(g, 2, A[0], 77))
	})
	m5 := add("M5", m4, func(g *core.BlockGen) {
		g.SetCoinbase(miner1)
		g.AddTx(call(env, g, 0, cSuicide, 3, 100000, nil)) // self-destruct with value
		g.AddTx(call(env, g, 1, crypto.CreateAddress(A[1], 0), 4, 100000, nil))
		ctx(g, 2, m4)
	})
	m6 := add("M6", m5, func(g *core.BlockGen) { g.SetCoinbase(miner2) }) // empty
	m7 := add("M7", m6, func(g *core.BlockGen) {
		g.SetCoinbase(miner1)
		g.AddTx(env.Transfer0(g, 0, A[1], 1))
		g.AddTx(env.Transfer0(g, 0, A[1], 2))
		g.AddTx(call(env, g, 2, cStore, 0, 100000, word(5)))
	})
	add("M8", m7, func(g *core.BlockGen) {
		g.SetCoinbase(miner2)
		tx, _ := types.SignTx(types.NewContractCreation(g.TxNonce(A[2]), big.NewInt(0), 300000, big.NewInt(1), creation), env.Signer, env.Keys[2])
		g.AddTx(tx)
	})
	// side branch A from M2 (shares U3's parent): A3, A4
	a3 := add("A3", m2, func(g *core.BlockGen) {
		g.SetCoinbase(miner2)
		g.SetExtra([]byte("a"))
		g.AddTx(env.Transfer0(g, 1, A[0], 31))
		g.AddTx(call(env, g, 0, cStore, 0, 100000, word(3)))
	})
	add("A4", a3, func(g *core.BlockGen) {
		g.SetCoinbase(miner2)
		g.AddTx(call(env, g, 0, cSuicide, 0, 100000, nil))
		ctx(g, 2, a3) // BLOCKHASH(3) is A3 here while M3 may be canonical at that height
	})
	// a block whose transaction / receipt lists cross the 0x7f/0x80 index-encoding boundary
	l3 := add("L3", m2, func(g *core.BlockGen) {
		g.SetCoinbase(miner2)
		g.SetExtra([]byte("l"))
		for k := 0; k < 130; k++ {
			g.AddTx(env.Transfer0(g, 2, A[0], int64(1+k)))
		}
	})
	w.nodes[l3].extra = true
	// side branch B from M4: B5, B6 with earlier timestamps
	b5 := add("B5", m4, func(g *core.BlockGen) {
		g.SetCoinbase(miner1)
		g.OffsetTime(-100)
		g.AddTx(call(env, g, 1, cLogs, 0, 200000, nil))
	})
	add("B6", b5, func(g *core.BlockGen) { g.SetCoinbase(miner1); g.OffsetTime(-100); ctx(g, 2, b5) })

	w.addrs = append(w.addrs, A...)
	w.addrs = append(w.addrs, cStore, cRevert, cLoop, cSuicide, cLogs, cCtx, heir, miner1, miner2, common.Address{},
		crypto.CreateAddress(A[1], 0))
	for n := uint64(0); n < 6; n++ {
		w.addrs = append(w.addrs, crypto.CreateAddress(A[2], n))
	}
	for _, a := range w.addrs {
		for i := 0; i < 16; i++ {
			w.slots[a] = append(w.slots[a], common.BigToHash(big.NewInt(int64(i))))
		}
	}
	return w
}

// ---- independent commitments (refmpt) -----------------------------------------------------------

func trim(b []byte) []byte {
	for len(b) > 0 && b[0] == 0 {
		b = b[1:]
	}
	return b
}

// specStateRoot recomputes the state root from the observable accounts of the universe.
func (w *world) specStateRoot(st *state.StateDB) common.Hash {
	accounts := map[string][]byte{}
	for _, a := range w.addrs {
		if !st.Exist(a) {
			continue
		}
		stor := map[string][]byte{}
		for _, s := range w.slots[a] {
			v := st.GetState(a, s)
			if v != (common.Hash{}) {
				stor[string(s[:])] = refmpt.RlpString(trim(v[:]))
			}
		}
		sr := refmpt.SecureRoot(stor)
		code := st.GetCode(a)
		ch := refmpt.Keccak256(code)
		leaf := refmpt.RlpList(refmpt.RlpUint(st.GetNonce(a)), refmpt.RlpBig(st.GetBalance(a).Bytes()), refmpt.RlpString(sr[:]), refmpt.RlpString(ch[:]))
		accounts[string(a[:])] = leaf
	}
	return common.Hash(refmpt.SecureRoot(accounts))
}

func specTxRoot(b *types.Block) common.Hash {
	var items [][]byte
	for _, tx := range b.Transactions() {
		e, _ := rlp.EncodeToBytes(tx)
		items = append(items, e)
	}
	return common.Hash(refmpt.ListRoot(items))
}

func specReceiptRoot(rs types.Receipts) common.Hash {
	var items [][]byte
	for _, r := range rs {
		e, _ := rlp.EncodeToBytes(r)
		items = append(items, e)
	}
	return common.Hash(refmpt.ListRoot(items))
}

func receiptsEqual(a, b types.Receipts) string {
	if len(a) != len(b) {
		return fmt.Sprintf("%d receipts vs %d", len(a), len(b))
	}
	for i := range a {
		// consensus encoding (status/root, cumulative gas, bloom, logs) plus the derived fields a user reads
		x, _ := rlp.EncodeToBytes(a[i])
		y, _ := rlp.EncodeToBytes(b[i])
		if !bytes.Equal(x, y) || a[i].GasUsed != b[i].GasUsed || a[i].ContractAddress != b[i].ContractAddress || a[i].TxHash != b[i].TxHash {
			return fmt.Sprintf("receipt %d differs (status %d/%d, gas %d/%d, logs %d/%d)", i, a[i].Status, b[i].Status, a[i].GasUsed, b[i].GasUsed, len(a[i].Logs), len(b[i].Logs))
		}
	}
	return ""
}

// checkImported verifies that an imported block reads back with exactly the builder's results.
func (w *world) checkImported(bc *core.BlockChain, n *node, pruningOff, justImported bool) []string {
	var f []string
	b := n.block
	got := bc.GetBlockByHash(b.Hash())
	if got == nil {
		return []string{n.name + ": block not retrievable after import"}
	}
	rs := bc.GetReceiptsByHash(b.Hash())
	canonical := false
	if cb := bc.GetBlockByNumber(b.NumberU64()); cb != nil && cb.Hash() == b.Hash() {
		canonical = true
	}
	if !canonical && !pruningOff && len(rs) == 0 && len(n.receipts) > 0 && !bc.HasState(b.Root()) {
		// a side-chain block on a pruned ancestor is stored unexecuted until its branch wins: there is no
		// result yet, which is not a different result
		return nil
	}
	if d := receiptsEqual(rs, n.receipts); d != "" {
		f = append(f, n.name+": stored receipts differ from the builder's: "+d)
	}
	var gas uint64
	for _, r := range rs {
		gas += r.GasUsed
	}
	if len(rs) > 0 && (gas != b.GasUsed() || rs[len(rs)-1].CumulativeGasUsed != b.GasUsed()) {
		f = append(f, fmt.Sprintf("%s: receipts sum to %d gas, header says %d", n.name, gas, b.GasUsed()))
	}
	if specTxRoot(b) != b.TxHash() {
		f = append(f, n.name+": transaction root recomputed from the body differs from the header")
	}
	if specReceiptRoot(rs) != b.ReceiptHash() {
		f = append(f, n.name+": receipt root recomputed from the stored receipts differs from the header")
	}
	if types.CreateBloom(rs) != b.Bloom() {
		f = append(f, n.name+": bloom recomputed from the stored receipts differs from the header")
	}
	st, err := bc.StateAt(b.Root())
	if err != nil {
		if pruningOff || canonical && justImported {
			f = append(f, n.name+": post-state not available after import: "+err.Error())
		}
	} else if r := w.specStateRoot(st); r != b.Root() {
		f = append(f, fmt.Sprintf("%s: state root recomputed from the readable accounts is %x, header commits to %x", n.name, r[:4], b.Root().Bytes()[:4]))
	}
	return f
}

// ---- histories -----------------------------------------------------------------------------------

type Step struct {
	Ins     []int `json:"ins,omitempty"`
	Restart bool  `json:"restart,omitempty"`
}

type History struct {
	Config string `json:"config"`
	Cache  string `json:"cache"`
	Steps  []Step `json:"steps"`
}

func cache(name string) *core.CacheConfig {
	switch name {
	case "archive":
		return chainkit.Archive()
	case "pruning-eager":
		return &core.CacheConfig{TrieNodeLimit: 0, TrieTimeLimit: 0}
	}
	return chainkit.Pruning()
}

func (w *world) runHistory(h History) (fails []string, trace string) {
	db := w.env.NewChainDB()
	bc, err := w.env.Open(db, cache(h.Cache), chainkit.Faker())
	if err != nil {
		return []string{"open: " + err.Error()}, ""
	}
	defer func() { bc.Stop() }()
	imported := map[int]bool{}
	for si, st := range h.Steps {
		if st.Restart {
			bc.Stop()
			bc, err = w.env.Open(db, cache(h.Cache), chainkit.Faker())
			if err != nil {
				return []string{fmt.Sprintf("step %d: reopen: %v", si, err)}, trace
			}
			trace += "R "
			// everything imported so far whose state the node still has must read back identically
			for i := range imported {
				if bc.HasState(w.nodes[i].block.Root()) {
					fails = append(fails, w.checkImported(bc, w.nodes[i], h.Cache == "archive", false)...)
				}
			}
			if len(fails) > 0 {
				return fails, trace
			}
			continue
		}
		var bs types.Blocks
		for _, i := range st.Ins {
			bs = append(bs, w.nodes[i].block)
		}
		evs := make(chan core.ChainEvent, 64)
		evSub := bc.SubscribeChainEvent(evs)
		heads := make(chan core.ChainHeadEvent, 64)
		headSub := bc.SubscribeChainHeadEvent(heads)
		headBefore := bc.CurrentBlock().Hash()
		idx, err := bc.InsertChain(bs)
		evSub.Unsubscribe()
		headSub.Unsubscribe()
		// a call that moved the head announces it, the last announcement being the block that is now the head;
		// a call that did not move it announces none; nothing is announced twice in a row or twice as canonical
		close(heads)
		var headEvents []common.Hash
		for he := range heads {
			headEvents = append(headEvents, he.Block.Hash())
		}
		if err == nil {
			now := bc.CurrentBlock().Hash()
			switch {
			case now != headBefore && (len(headEvents) == 0 || headEvents[len(headEvents)-1] != now):
				// (one call may move the head several times, e.g. when a stored side chain is executed first)
				return []string{fmt.Sprintf("step %d: the head moved to %s but the last of the %d head events announced is not that block (%x)", si, w.nameOf(now), len(headEvents), headEvents)}, trace
			case now == headBefore && len(headEvents) != 0:
				return []string{fmt.Sprintf("step %d: the head did not move but %d head events were announced", si, len(headEvents))}, trace
			}
		}
		if err != nil {
			return []string{fmt.Sprintf("step %d: valid block %s rejected: %v", si, w.nodes[st.Ins[idx]].name, err)}, trace
			for k := 1; k < len(headEvents); k++ {
				if headEvents[k] == headEvents[k-1] {
					return []string{fmt.Sprintf("step %d: head %s announced twice in a row", si, w.nameOf(headEvents[k]))}, trace
				}
			}
		}
		// the logs announced with a block that became canonical are the logs of its receipts, in order
		close(evs)
		announced := map[common.Hash]bool{}
		for e := range evs {
			if announced[e.Hash] {
				return []string{fmt.Sprintf("step %d: block %s announced as canonical twice in one call", si, w.nameOf(e.Hash))}, trace
			}
			announced[e.Hash] = true
			for _, n := range w.nodes {
				if n.block.Hash() != e.Hash {
					continue
				}
				var want []*types.Log
				for _, r := range n.receipts {
					want = append(want, r.Logs...)
				}
				same := len(want) == len(e.Logs)
				for k := 0; same && k < len(want); k++ {
					a, b := want[k], e.Logs[k]
					same = a.Address == b.Address && fmt.Sprint(a.Topics) == fmt.Sprint(b.Topics) && bytes.Equal(a.Data, b.Data) && a.TxIndex == b.TxIndex && a.Index == b.Index
				}
				if !same {
					var got []string
					for _, l := range e.Logs {
						got = append(got, fmt.Sprintf("tx%d/log%d", l.TxIndex, l.Index))
					}
					return []string{fmt.Sprintf("step %d: logs announced for block %s are not the logs of its receipts in order: %v (%d expected)", si, n.name, got, len(want))}, trace
				}
			}
		}
		for _, i := range st.Ins {
			imported[i] = true
			if f := w.checkImported(bc, w.nodes[i], h.Cache == "archive", true); len(f) > 0 {
				return f, trace
			}
		}
		trace += fmt.Sprintf("%v@%s ", st.Ins, w.nameOf(bc.CurrentBlock().Hash()))
	}
	return nil, trace
}

func (w *world) nameOf(h common.Hash) string {
	for _, n := range w.nodes {
		if n.block.Hash() == h {
			return n.name
		}
	}
	return "G"
}

// orders: every linear extension of the tree order, every stride-th kept.
func (w *world) orders() [][]int {
	n := len(w.nodes)
	nExtra := 0
	for _, x := range w.nodes {
		if x.extra {
			nExtra++
		}
	}
	var out [][]int
	used := make([]bool, n)
	cur := make([]int, 0, n)
	var rec func()
	rec = func() {
		if len(cur) == n-nExtra {
			out = append(out, append([]int(nil), cur...))
			return
		}
		for i := 0; i < n; i++ {
			if used[i] || w.nodes[i].extra || (w.nodes[i].parent >= 0 && !used[w.nodes[i].parent]) {
				continue
			}
			// an uncle-including block needs its uncle's header only, not its import: no extra constraint
			used[i] = true
			cur = append(cur, i)
			rec()
			cur = cur[:len(cur)-1]
			used[i] = false
		}
	}
	rec()
	return out
}

func single(order []int) []Step {
	var s []Step
	for _, i := range order {
		s = append(s, Step{Ins: []int{i}})
	}
	return s
}

// deviations: every way to merge one run of 2..3 consecutive linked blocks into one call, and a
// restart after every position.
func (w *world) deviations(order []int) [][]Step {
	var out [][]Step
	base := single(order)
	for pos := 0; pos < len(order); pos++ {
		for l := 2; l <= 3 && pos+l <= len(order); l++ {
			ok := true
			for k := 1; k < l; k++ {
				if w.nodes[order[pos+k]].parent != order[pos+k-1] {
					ok = false
				}
			}
			if !ok {
				break
			}
			var s []Step
			s = append(s, base[:pos]...)
			s = append(s, Step{Ins: order[pos : pos+l]})
			s = append(s, base[pos+l:]...)
			out = append(out, s)
		}
	}
	for pos := 1; pos < len(order); pos++ {
		var s []Step
		s = append(s, base[:pos]...)
		s = append(s, Step{Restart: true})
		s = append(s, base[pos:]...)
		out = append(out, s)
	}
	return out
}

// ---- corruptions ---------------------------------------------------------------------------------

type corruption struct {
	name string
	make func(w *world, n *node) *types.Block // nil = not applicable
}

func withHeader(b *types.Block, f func(h *types.Header)) *types.Block {
	h := types.CopyHeader(b.Header())
	f(h)
	return b.WithSeal(h)
}

func withBody(b *types.Block, txs []*types.Transaction, uncles []*types.Header) *types.Block {
	nb := types.NewBlockWithHeader(b.Header()).WithBody(txs, uncles)
	return nb
}

// twinAt replaces transaction i by one with the same sender, nonce, recipient, value and data but a
// larger gas limit: same state effect, different hash, so the header's transaction root no longer
// commits to the body.
func twinAt(w *world, n *node, i int) *types.Block {
	txs := n.block.Transactions()
	if i < 0 || i >= len(txs) {
		return nil
	}
	old := txs[i]
	from, err := types.Sender(w.env.Signer, old)
	if err != nil {
		return nil
	}
	ki := -1
	for k, a := range w.env.Addrs {
		if a == from {
			ki = k
		}
	}
	if ki < 0 {
		return nil
	}
	var nt *types.Transaction
	if old.To() == nil {
		nt = types.NewContractCreation(old.Nonce(), old.Value(), old.Gas()+1, old.GasPrice(), old.Data())
	} else {
		nt = types.NewTransaction(old.Nonce(), *old.To(), old.Value(), old.Gas()+1, old.GasPrice(), old.Data())
	}
	st, err := types.SignTx(nt, w.env.Signer, w.env.Keys[ki])
	if err != nil {
		return nil
	}
	s := append([]*types.Transaction{}, txs...)
	s[i] = st
	return withBody(n.block, s, n.block.Uncles())
}

func corruptions() []corruption {
	flip := func(h common.Hash) common.Hash { h[7] ^= 0x40; return h }
	return []corruption{
		{"txhash", func(w *world, n *node) *types.Block {
			return withHeader(n.block, func(h *types.Header) { h.TxHash = flip(h.TxHash) })
		}},
		{"unclehash", func(w *world, n *node) *types.Block {
			return withHeader(n.block, func(h *types.Header) { h.UncleHash = flip(h.UncleHash) })
		}},
		{"stateroot", func(w *world, n *node) *types.Block {
			return withHeader(n.block, func(h *types.Header) { h.Root = flip(h.Root) })
		}},
		{"receipthash", func(w *world, n *node) *types.Block {
			return withHeader(n.block, func(h *types.Header) { h.ReceiptHash = flip(h.ReceiptHash) })
		}},
		{"bloom-bit", func(w *world, n *node) *types.Block {
			return withHeader(n.block, func(h *types.Header) { h.Bloom[100] ^= 0x08 })
		}},
		{"gasused+1", func(w *world, n *node) *types.Block {
			return withHeader(n.block, func(h *types.Header) { h.GasUsed++ })
		}},
		{"gasused-1", func(w *world, n *node) *types.Block {
			if n.block.GasUsed() == 0 {
				return nil
			}
			return withHeader(n.block, func(h *types.Header) { h.GasUsed-- })
		}},
		{"tx-dropped", func(w *world, n *node) *types.Block {
			txs := n.block.Transactions()
			if len(txs) == 0 {
				return nil
			}
			return withBody(n.block, txs[:len(txs)-1], n.block.Uncles())
		}},
		{"tx-duplicated", func(w *world, n *node) *types.Block {
			txs := n.block.Transactions()
			if len(txs) == 0 {
				return nil
			}
			return withBody(n.block, append(append([]*types.Transaction{}, txs...), txs[len(txs)-1]), n.block.Uncles())
		}},
		{"tx-swapped", func(w *world, n *node) *types.Block {
			txs := n.block.Transactions()
			if len(txs) < 2 {
				return nil
			}
			s := append([]*types.Transaction{}, txs...)
			s[0], s[1] = s[1], s[0]
			return withBody(n.block, s, n.block.Uncles())
		}},
		{"tx-first-replaced-by-same-effect-twin", func(w *world, n *node) *types.Block { return twinAt(w, n, 0) }},
		{"tx-last-replaced-by-same-effect-twin", func(w *world, n *node) *types.Block {
			return twinAt(w, n, len(n.block.Transactions())-1)
		}},
		{"tx-dropped-txhash-recomputed", func(w *world, n *node) *types.Block {
			txs := n.block.Transactions()
			if len(txs) == 0 {
				return nil
			}
			nb := withBody(n.block, txs[:len(txs)-1], n.block.Uncles())
			return withHeader(nb, func(h *types.Header) { h.TxHash = types.DeriveSha(types.Transactions(txs[:len(txs)-1])) })
		}},
		{"uncle-added", func(w *world, n *node) *types.Block {
			if len(n.block.Uncles()) != 0 || n.parent < 0 {
				return nil
			}
			u := types.CopyHeader(w.nodes[n.parent].block.Header())
			u.Extra = []byte("x")
			return withBody(n.block, n.block.Transactions(), []*types.Header{u})
		}},
		{"uncle-removed", func(w *world, n *node) *types.Block {
			if len(n.block.Uncles()) == 0 {
				return nil
			}
			return withBody(n.block, n.block.Transactions(), nil)
		}},
		{"uncle-removed-hash-recomputed", func(w *world, n *node) *types.Block {
			if len(n.block.Uncles()) == 0 {
				return nil
			}
			nb := withBody(n.block, n.block.Transactions(), nil)
			return withHeader(nb, func(h *types.Header) { h.UncleHash = types.CalcUncleHash(nil) })
		}},
	}
}

// ancestors returns the chain from the first block after genesis to n's parent.
func (w *world) ancestors(i int) []int {
	var a []int
	for p := w.nodes[i].parent; p >= 0; p = w.nodes[p].parent {
		a = append([]int{p}, a...)
	}
	return a
}

func (w *world) runCorruption(cfgCache string, i int, c corruption, batch bool) (fails []string, applicable bool) {
	n := w.nodes[i]
	bad := c.make(w, n)
	if bad == nil {
		return nil, false
	}
	if bad.Hash() == n.block.Hash() && !strings.HasPrefix(c.name, "tx-") && !strings.HasPrefix(c.name, "uncle-") {
		return []string{"harness: corruption " + c.name + " did not change the block"}, true
	}
	db := w.env.NewChainDB()
	bc, err := w.env.Open(db, cache(cfgCache), chainkit.Faker())
	if err != nil {
		return []string{"open: " + err.Error()}, true
	}
	defer bc.Stop()
	anc := w.ancestors(i)
	var pre types.Blocks
	for _, a := range anc {
		pre = append(pre, w.nodes[a].block)
	}
	if batch && len(pre) > 0 {
		// the last ancestor travels in the same call as the bad block
		if len(pre) > 1 {
			if _, err := bc.InsertChain(pre[:len(pre)-1]); err != nil {
				return []string{"harness: ancestors rejected: " + err.Error()}, true
			}
		}
		imgBefore := chainkit.Image(db)
		_ = imgBefore
		idx, err := bc.InsertChain(types.Blocks{pre[len(pre)-1], bad})
		if err == nil {
			return []string{fmt.Sprintf("%s/%s: corrupted block accepted in a batch", n.name, c.name)}, true
		}
		if idx != 1 {
			fails = append(fails, fmt.Sprintf("%s/%s: batch import failed at index %d, the corrupted block is at index 1 (%v)", n.name, c.name, idx, err))
		}
		if bc.CurrentBlock().Hash() != pre[len(pre)-1].Hash() {
			fails = append(fails, fmt.Sprintf("%s/%s: after the rejected batch the head is %s, expected the valid predecessor", n.name, c.name, w.nameOf(bc.CurrentBlock().Hash())))
		}
		return fails, true
	}
	if len(pre) > 0 {
		if _, err := bc.InsertChain(pre); err != nil {
			return []string{"harness: ancestors rejected: " + err.Error()}, true
		}
	}
	head := bc.CurrentBlock().Hash()
	td := bc.GetTd(head, bc.CurrentBlock().NumberU64())
	before := chainkit.Image(db)
	_, err = bc.InsertChain(types.Blocks{bad})
	if err == nil {
		return []string{fmt.Sprintf("%s/%s: corrupted block accepted", n.name, c.name)}, true
	}
	if bc.CurrentBlock().Hash() != head {
		fails = append(fails, fmt.Sprintf("%s/%s: head changed although the block was rejected", n.name, c.name))
	}
	if t2 := bc.GetTd(head, bc.CurrentBlock().NumberU64()); t2 == nil || t2.Cmp(td) != 0 {
		fails = append(fails, fmt.Sprintf("%s/%s: head TD changed", n.name, c.name))
	}
	after := chainkit.Image(db)
	if strings.Join(before, "\n") != strings.Join(after, "\n") {
		fails = append(fails, fmt.Sprintf("%s/%s: the database changed although the block was rejected (%d -> %d entries)", n.name, c.name, len(before), len(after)))
	}
	// and the node still imports the genuine block with the genuine result
	if _, err := bc.InsertChain(types.Blocks{n.block}); err != nil {
		fails = append(fails, fmt.Sprintf("%s/%s: after rejecting the corrupted twin the genuine block is refused: %v", n.name, c.name, err))
	} else {
		fails = append(fails, w.checkImported(bc, n, cfgCache == "archive", true)...)
	}
	return fails, true
}

// ---- driver --------------------------------------------------------------------------------------

type task struct {
	kind   string
	cfg    string
	hist   History
	node   int
	corr   int
	batch  bool
	cacheN string
}

func TestCheck(t *testing.T) {
	chainkit.Quiet()
	if pf := os.Getenv("VERIF_CPUPROFILE"); pf != "" {
		f, _ := os.Create(pf)
		pprof.StartCPUProfile(f)
		defer pprof.StopCPUProfile()
	}
	run := ev.Start("exploration")
	run.Rule = "one evaluation = one arrival history (order x batching/restart deviation x cache configuration x chain configuration) imported on a fresh real BlockChain with read-back of every block, or one corrupted block offered to a chain that holds its ancestors; distinct_nontrivial = distinct (config, cache, sequence of calls with resulting heads) traces and (block, corruption, mode) cases"
	run.Assume("fake-seal engine: every header rule except the PoW search is enforced")
	run.Assume("blocks come from the repository's exported builder core.GenerateChain; tx/receipt/state roots are additionally recomputed with the independent refmpt reference from what the node serves after import")
	run.Assume("small scope: one 14-block tree (8 main, uncle, two side branches) per chain configuration; orders: every k-th linear extension (bounds.order_stride), deviations on every m-th of those")
	worlds := map[string]*world{}
	for name := range configs() {
		worlds[name] = build(name)
	}
	if d := ev.Replay(); d != nil {
		var tk struct {
			Kind   string  `json:"kind"`
			Cfg    string  `json:"cfg"`
			Hist   History `json:"hist"`
			Node   int     `json:"node"`
			Corr   string  `json:"corr"`
			Batch  bool    `json:"batch"`
			CacheN string  `json:"cache"`
		}
		b, _ := json.Marshal(d.Detail["task"])
		json.Unmarshal(b, &tk)
		w := worlds[tk.Cfg]
		var fails []string
		if tk.Kind == "history" {
			fails, _ = w.runHistory(tk.Hist)
		} else if tk.Kind == "miner" {
			fails, _ = w.runMiner(tk.Node)
		} else {
			for _, c := range corruptions() {
				if c.name == tk.Corr {
					fails, _ = w.runCorruption(tk.CacheN, tk.Node, c, tk.Batch)
				}
			}
		}
		if len(fails) > 0 {
			fmt.Println("REPRODUCED", fails)
			run.Violate(ev.Violation{Scenario: d.Scenario, Oracle: d.Oracle, CaseID: d.CaseID, Detail: d.Detail})
		}
		run.Finish()
	}
	strideO, nDev := 29, 4
	caches := []string{"archive", "pruning"}
	if run.Thorough() {
		strideO, nDev = 2, 40
		caches = []string{"archive", "pruning", "pruning-eager"}
	}
	var tasks []task
	for name, w := range worlds {
		ords := w.orders()
		run.Set("linear_extensions_"+name, len(ords))
		for oi, o := range ords {
			if oi%strideO != 0 {
				continue
			}
			for _, c := range caches {
				tasks = append(tasks, task{kind: "history", cfg: name, hist: History{Config: name, Cache: c, Steps: single(o)}})
			}
			if oi%(len(ords)/nDev) == 0 {
				for _, dv := range w.deviations(o) {
					for _, c := range caches {
						tasks = append(tasks, task{kind: "history", cfg: name, hist: History{Config: name, Cache: c, Steps: dv}})
					}
				}
			}
		}
		for i, x := range w.nodes {
			if x.extra {
				for _, c := range caches {
					tasks = append(tasks, task{kind: "history", cfg: name, hist: History{Config: name, Cache: c, Steps: single(append(w.ancestors(i), i))}})
				}
			}
		}
		for i := range w.nodes {
			for ci := range corruptions() {
				for _, batch := range []bool{false, true} {
					for _, c := range caches[:2] {
						tasks = append(tasks, task{kind: "corruption", cfg: name, node: i, corr: ci, batch: batch, cacheN: c})
					}
				}
			}
		}
	}
	for name := range worlds {
		for mask := 1; mask < 1<<len(recipes()); mask++ {
			tasks = append(tasks, task{kind: "miner", cfg: name, node: mask})
		}
		for k := 1; k <= 8; k++ { // uncle candidate at every depth around the builder's / verifier's age window
			tasks = append(tasks, task{kind: "miner", cfg: name, node: 1000 + k})
		}
	}
	sort.SliceStable(tasks, func(i, j int) bool { return tasks[i].kind < tasks[j].kind })
	deadline := run.Deadline(6*time.Minute, 45*time.Minute)
	var mu sync.Mutex
	sigSeen := map[string]bool{}
	capped := false
	ev.ParallelFor(len(tasks), func(ti int) {
		if time.Now().After(deadline) {
			mu.Lock()
			capped = true
			mu.Unlock()
			return
		}
		tk := tasks[ti]
		w := worlds[tk.cfg]
		var fails []string
		var cls, scen, oracle, caseID string
		detail := map[string]interface{}{}
		if tk.kind == "history" {
			var tr string
			fails, tr = w.runHistory(tk.hist)
			cls = "h|" + tk.cfg + "|" + tk.hist.Cache + "|" + tr
			scen, caseID = "history", tk.cfg+"/"+tk.hist.Cache
			detail["task"] = map[string]interface{}{"kind": "history", "cfg": tk.cfg, "hist": tk.hist}
		} else if tk.kind == "miner" {
			var tr string
			fails, tr = w.runMiner(tk.node)
			cls = "m|" + tk.cfg + "|" + tr
			scen, caseID = "miner", tk.cfg
			detail["task"] = map[string]interface{}{"kind": "miner", "cfg": tk.cfg, "node": tk.node}
		} else {
			c := corruptions()[tk.corr]
			var app bool
			fails, app = w.runCorruption(tk.cacheN, tk.node, c, tk.batch)
			if !app {
				return
			}
			cls = fmt.Sprintf("c|%s|%s|%s|%v|%s", tk.cfg, w.nodes[tk.node].name, c.name, tk.batch, tk.cacheN)
			scen, caseID = "corruption", fmt.Sprintf("%s/%s/%s", tk.cfg, c.name, map[bool]string{false: "alone", true: "batch"}[tk.batch])
			detail["task"] = map[string]interface{}{"kind": "corruption", "cfg": tk.cfg, "node": tk.node, "corr": c.name, "batch": tk.batch, "cache": tk.cacheN}
		}
		if len(fails) > 0 && strings.HasPrefix(fails[0], "timeout:") {
			// a wall-clock limit of the free-running miner is not an oracle: the task is reported as not covered
			mu.Lock()
			run.Cap(fmt.Sprintf("%s task %v: %s", tk.kind, detail["task"], fails[0]))
			mu.Unlock()
			return
		}
		run.Eval(1)
		if len(fails) == 0 {
			run.Class(hash64(cls))
			if ti%997 == 0 {
				run.Sample(detail["task"])
			}
			return
		}
		oracle = oracleOf(fails[0])
		detail["fails"] = fails
		mu.Lock()
		dup := sigSeen[scen+oracle+caseID]
		sigSeen[scen+oracle+caseID] = true
		mu.Unlock()
		if dup {
			return
		}
		// reproducible? (a failure that depends on Go's map iteration order need not show on every run: it is
		// accepted when it shows again within four more runs)
		var again []string
		for try := 0; try < 4 && len(again) == 0; try++ {
			if tk.kind == "history" {
				again, _ = w.runHistory(tk.hist)
			} else if tk.kind == "miner" {
				again, _ = w.runMiner(tk.node)
			} else {
				again, _ = w.runCorruption(tk.cacheN, tk.node, corruptions()[tk.corr], tk.batch)
			}
		}
		// An announced log list that differs from the receipts is evidence in itself (the observed list is in
		// the message); when it does not show again the import result depends on something other than the
		// block and its parent state (Go's map iteration order, typically), which is what C01 excludes.
		if len(again) == 0 && strings.Contains(fails[0], "logs announced for block") {
			fails = append(fails, "the same history did not fail in four further runs: the announced order is not a function of the input")
			detail["fails"] = fails
		} else if len(again) == 0 {
			ev.Broken("C01 verdict flipped on re-run: %v", fails)
		}
		run.Violate(ev.Violation{Scenario: scen, Oracle: oracle, CaseID: caseID, Detail: detail})
	})
	if capped {
		run.Cap("internal deadline reached before every task ran")
	}
	run.Set("bounds", map[string]interface{}{"order_stride": strideO, "orders_with_deviations": nDev, "caches": caches, "configs": []string{"test", "mainnet-shaped"}, "corruptions": len(corruptions())})
	pprof.StopCPUProfile()
	run.Finish()
}

func oracleOf(msg string) string {
	for _, k := range []string{"rejected by the import path", "transaction root recomputed", "miner produced no block", "valid block", "stored receipts differ", "receipts sum", "receipt root recomputed", "bloom recomputed", "state root recomputed", "post-state not available", "not retrievable", "corrupted block accepted", "failed at index", "head changed", "head TD changed", "database changed", "genuine block is refused", "after the rejected batch", "reopen", "harness"} {
		if strings.Contains(msg, k) {
			return strings.ReplaceAll(k, " ", "-")
		}
	}
	return "other"
}

func hash64(x string) string {
	var h uint64 = 14695981039346656037
	for i := 0; i < len(x); i++ {
		h = (h ^ uint64(x[i])) * 1099511628211
	}
	return fmt.Sprintf("%016x", h)
}

var _ = aquadb.NewMemDatabase
var _ = os.Getenv
