package c01

// C01, "a block assembled by the node's own block-building path is accepted by its own import path
// with identical results": the real opt/miner worker (real TxPool, fake-seal engine) mines on top of
// genesis with the pool holding every subset of a set of transaction recipes; every block it produced
// is imported, through InsertChain, into an independent node and must be accepted with identical
// receipts, gas and state, and with tx/receipt/state roots that the independent reference confirms.
// The miner runs free: the result of a block does not depend on the schedule.

import (
	"fmt"
	"math/big"
	"time"

	"gitlab.com/aquachain/aquachain/aqua/accounts"
	"gitlab.com/aquachain/aquachain/aqua/event"
	"gitlab.com/aquachain/aquachain/aquadb"
	"gitlab.com/aquachain/aquachain/common"
	"gitlab.com/aquachain/aquachain/core"
	"gitlab.com/aquachain/aquachain/core/types"
	"gitlab.com/aquachain/aquachain/opt/miner"
	"gitlab.com/aquachain/aquachain/params"
	"gitlab.com/aquachain/aquachain/zzverif/chainkit"
)

type minerBackend struct {
	db    aquadb.Database
	chain *core.BlockChain
	pool  *core.TxPool
}

func (b *minerBackend) AccountManager() *accounts.Manager { return nil }
func (b *minerBackend) BlockChain() *core.BlockChain      { return b.chain }
func (b *minerBackend) TxPool() *core.TxPool              { return b.pool }
func (b *minerBackend) ChainDb() aquadb.Database          { return b.db }

// poorKey: an account funded with exactly 1 AQUA in the miner world (cumulative-overdraft recipe).
var poor = common.HexToAddress("0x00000000000000000000000000000000000f0001")

type recipe struct {
	name string
	txs  func(w *world) []*types.Transaction
}

func signed(w *world, from int, nonce uint64, to *common.Address, value *big.Int, gas uint64, price int64, data []byte) *types.Transaction {
	var tx *types.Transaction
	if to == nil {
		tx = types.NewContractCreation(nonce, value, gas, big.NewInt(price), data)
	} else {
		tx = types.NewTransaction(nonce, *to, value, gas, big.NewInt(price), data)
	}
	s, err := types.SignTx(tx, w.env.Signer, w.env.Keys[from])
	if err != nil {
		panic(err)
	}
	return s
}

// recipes use disjoint senders / nonce ranges per recipe so that every subset is a consistent pool:
// key 0: R1 (nonce 0) then R3 (nonces 1,2); key 1: R2 (nonce 0) then R4 (nonces 1,2); key 2: R5 (0,1), R6 (2).
func recipes() []recipe {
	aqua := new(big.Int).Exp(big.NewInt(10), big.NewInt(18), nil)
	return []recipe{
		{"transfer", func(w *world) []*types.Transaction {
			return []*types.Transaction{signed(w, 0, 0, &w.env.Addrs[2], big.NewInt(1000), 21000, 2, nil)}
		}},
		{"creation", func(w *world) []*types.Transaction {
			return []*types.Transaction{signed(w, 1, 0, nil, big.NewInt(5), 300000, 2, creation)}
		}},
		{"sstore-set-then-clear", func(w *world) []*types.Transaction {
			return []*types.Transaction{signed(w, 0, 1, &cStore, big.NewInt(0), 100000, 2, word(9)), signed(w, 0, 2, &cStore, big.NewInt(0), 100000, 2, word(0))}
		}},
		{"revert-and-out-of-gas", func(w *world) []*types.Transaction {
			return []*types.Transaction{signed(w, 1, 1, &cRevert, big.NewInt(0), 100000, 2, nil), signed(w, 1, 2, &cLoop, big.NewInt(0), 60000, 2, nil)}
		}},
		{"each-affordable-not-both", func(w *world) []*types.Transaction {
			// key 2 is given exactly 1000 AQUA by chainkit; two transfers of 600 AQUA
			v := new(big.Int).Mul(aqua, big.NewInt(600))
			return []*types.Transaction{signed(w, 2, 0, &heir, v, 21000, 2, nil), signed(w, 2, 1, &heir, v, 21000, 2, nil)}
		}},
		{"selfdestruct-with-value", func(w *world) []*types.Transaction {
			return []*types.Transaction{signed(w, 2, 2, &cSuicide, big.NewInt(3), 100000, 2, nil)}
		}},
	}
}

// runMiner mines with the given recipe subset in the pool and checks every produced block.
func (w *world) runMiner(mask int) (fails []string, trace string) {
	if mask >= 1000 {
		return w.runMinerUncle(mask - 1000)
	}
	db := w.env.NewChainDB()
	eng := chainkit.Faker()
	bc, err := w.env.Open(db, chainkit.Pruning(), eng)
	if err != nil {
		return []string{"open: " + err.Error()}, ""
	}
	defer bc.Stop()
	pc := core.DefaultTxPoolConfig
	pc.Journal = ""
	pool := core.NewTxPool(pc, w.env.Config, bc)
	poolStopped := false
	defer func() {
		if !poolStopped {
			pool.Stop()
		}
	}()
	// The miner is started on an empty pool and the transactions are submitted while it is mining:
	// the worker's event loop applies incoming transactions to its current work only when the miner is
	// NOT mining, and does so concurrently with the goroutine that commits a sealed block's state (a
	// data race in opt/miner that is outside C01 and would crash this process).
	m := miner.New(&minerBackend{db, bc, pool}, w.env.Config, new(event.TypeMux), eng)
	m.Start(miner1)
	deadline := time.Now().Add(60 * time.Second)
	waitHead := func(n uint64) bool {
		for bc.CurrentBlock().NumberU64() < n {
			if time.Now().After(deadline) {
				return false
			}
			time.Sleep(time.Millisecond)
		}
		return true
	}
	if !waitHead(1) {
		m.Stop()
		return []string{"timeout: miner produced no block within 60 s"}, trace
	}
	rs := recipes()
	ntx := 0
	for i, r := range rs {
		if mask&(1<<i) == 0 {
			continue
		}
		for _, tx := range r.txs(w) {
			pool.AddLocal(tx) // a recipe whose predecessor nonce is absent simply queues
			ntx++
		}
		trace += r.name + "+"
	}
	if !waitHead(bc.CurrentBlock().NumberU64() + 4) {
		m.Stop()
		return []string{"timeout: miner stopped producing blocks within 60 s"}, trace
	}
	// Stop the pool first: the worker's event loop applies incoming transactions to its current work
	// whenever the miner is not mining, concurrently with the goroutine that writes a sealed block
	// (a data race in opt/miner that is outside C01); with the pool's feed closed that loop has exited.
	pool.Stop()
	poolStopped = true
	time.Sleep(10 * time.Millisecond)
	m.Stop()
	time.Sleep(20 * time.Millisecond)
	head := bc.CurrentBlock().NumberU64()
	// independent importer
	db2 := w.env.NewChainDB()
	bc2, err := w.env.Open(db2, chainkit.Archive(), chainkit.Faker())
	if err != nil {
		return []string{"open importer: " + err.Error()}, trace
	}
	defer bc2.Stop()
	included := 0
	for n := uint64(1); n <= head; n++ {
		b := bc.GetBlockByNumber(n)
		if b == nil {
			fails = append(fails, fmt.Sprintf("mined block %d not retrievable", n))
			return
		}
		included += len(b.Transactions())
		if _, err := bc2.InsertChain(types.Blocks{b}); err != nil {
			fails = append(fails, fmt.Sprintf("block %d assembled by the miner (%d txs, pool %s) is rejected by the import path: %v", n, len(b.Transactions()), trace, err))
			return
		}
		mined := core.GetBlockReceipts(db, b.Hash(), n)
		node := &node{name: fmt.Sprintf("mined#%d", n), block: b, receipts: mined}
		fails = append(fails, w.checkImported(bc2, node, true, true)...)
		if specTxRoot(b) != b.TxHash() {
			fails = append(fails, fmt.Sprintf("mined block %d: transaction root recomputed from the body differs from the header", n))
		}
		if len(fails) > 0 {
			return
		}
	}
	trace += fmt.Sprintf("=%d/%d", included, ntx)
	return fails, trace
}

// runMinerUncle: the mining node holds the chain P1..P8 and has seen exactly one side block S_k (a
// sibling of P_k); the worker then assembles block #9 and its successors, deciding by itself whether
// S_k still qualifies as an uncle. Whatever it decides, the blocks it produced must be accepted by the
// import path of an independent node (the uncle-age window of the builder and of the verifier agree).
func (w *world) runMinerUncle(k int) (fails []string, trace string) {
	trace = fmt.Sprintf("uncle-candidate-at-height-%d", k)
	eng := chainkit.Faker()
	var main []*types.Block
	parent := w.env.Genesis
	var side *types.Block
	for i := 1; i <= 8; i++ {
		if i == k {
			s, _ := w.env.Gen(parent, eng, 1, func(_ int, g *core.BlockGen) { g.SetCoinbase(miner2); g.SetExtra([]byte("side")); g.OffsetTime(200) }) // later timestamp: lighter than its sibling
			side = s[0]
		}
		bs, _ := w.env.Gen(parent, eng, 1, func(_ int, g *core.BlockGen) { g.SetCoinbase(miner1) })
		main = append(main, bs[0])
		parent = bs[0]
	}
	db := w.env.NewChainDB()
	bc, err := w.env.Open(db, chainkit.Pruning(), eng)
	if err != nil {
		return []string{"open: " + err.Error()}, trace
	}
	defer bc.Stop()
	pc := core.DefaultTxPoolConfig
	pc.Journal = ""
	pool := core.NewTxPool(pc, w.env.Config, bc)
	poolStopped := false
	defer func() {
		if !poolStopped {
			pool.Stop()
		}
	}()
	m := miner.New(&minerBackend{db, bc, pool}, w.env.Config, new(event.TypeMux), eng) // subscribes to side-block events
	// the side block arrives first and is displaced by its sibling (on a tie the scripted fork-choice
	// coin prefers the newcomer), so it reaches the worker as a side-block event in every case
	if k > 1 {
		if _, err := bc.InsertChain(main[:k-1]); err != nil {
			return []string{"harness: main chain rejected: " + err.Error()}, trace
		}
	}
	if _, err := bc.InsertChain(types.Blocks{side}); err != nil {
		return []string{"harness: side block rejected: " + err.Error()}, trace
	}
	if _, err := bc.InsertChain(main[k-1:]); err != nil {
		return []string{"harness: main chain rejected: " + err.Error()}, trace
	}
	if bc.CurrentBlock().Hash() != main[7].Hash() {
		return []string{"harness: side block became the head"}, trace
	}
	time.Sleep(50 * time.Millisecond) // let the worker's event loop take the side-block event (not an oracle)
	m.Start(miner1)
	deadline := time.Now().Add(60 * time.Second)
	for bc.CurrentBlock().NumberU64() < 12 {
		if time.Now().After(deadline) {
			m.Stop()
			return []string{"timeout: miner stopped producing blocks within 60 s"}, trace
		}
		time.Sleep(time.Millisecond)
	}
	pool.Stop()
	poolStopped = true
	time.Sleep(10 * time.Millisecond)
	m.Stop()
	time.Sleep(20 * time.Millisecond)
	head := bc.CurrentBlock().NumberU64()
	bc2, err := w.env.Open(w.env.NewChainDB(), chainkit.Archive(), chainkit.Faker())
	if err != nil {
		return []string{"open importer: " + err.Error()}, trace
	}
	defer bc2.Stop()
	uncles := 0
	for n := uint64(1); n <= head; n++ {
		b := bc.GetBlockByNumber(n)
		if b == nil {
			return []string{fmt.Sprintf("mined block %d not retrievable", n)}, trace
		}
		uncles += len(b.Uncles())
		if _, err := bc2.InsertChain(types.Blocks{b}); err != nil {
			return []string{fmt.Sprintf("block %d assembled by the miner (%d uncles; the only candidate was a sibling of block %d) is rejected by the import path: %v", n, len(b.Uncles()), k, err)}, trace
		}
		if n > 8 {
			node := &node{name: fmt.Sprintf("mined#%d", n), block: b, receipts: core.GetBlockReceipts(db, b.Hash(), n)}
			if fails = append(fails, w.checkImported(bc2, node, true, true)...); len(fails) > 0 {
				return fails, trace
			}
		}
	}
	trace += fmt.Sprintf("=uncles:%d", uncles)
	return fails, trace
}

var _ = params.TxGas
