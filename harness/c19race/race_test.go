// C19 free-running pass under the Go race detector (complement of the E1 exploration in
// harness/c19, not a deciding step): the cooperative scheduler's hand-offs are happens-before
// edges, so unsynchronised accesses - and changes that remove a lock together with the scheduling
// points it provided - are invisible to it. Here the same scenario shapes run on real goroutines
// against the UNINSTRUMENTED aqua/event package, built with -race. bin/check turns a race report
// whose stack touches aqua/event into a violation. The functional oracle applied here is the
// quiescent one only (exactly-once, common order, send counts once everything has been drained).
package c19race

import (
	"encoding/json"
	"fmt"
	"os"
	"runtime"
	"sync"
	"testing"
	"time"

	"gitlab.com/aquachain/aquachain/aqua/event"
)

type result struct {
	Shapes     int            `json:"shapes"`
	Iterations map[string]int `json:"iterations"`
	Failures   []string       `json:"functional_failures"`
	WallS      float64        `json:"wall_s"`
}

var (
	failMu sync.Mutex
	fails  []string
)

func failf(format string, a ...interface{}) {
	failMu.Lock()
	if len(fails) < 20 {
		fails = append(fails, fmt.Sprintf(format, a...))
	}
	failMu.Unlock()
}

// reader drains ch until it is told to stop; the values are owned by the goroutine until wg.Wait.
type reader struct {
	ch   chan int
	got  []int
	stop chan struct{}
	done chan struct{}
}

func newReader(buf int) *reader {
	r := &reader{ch: make(chan int, buf), stop: make(chan struct{}), done: make(chan struct{})}
	return r
}

func (r *reader) run() {
	defer close(r.done)
	for {
		select {
		case v := <-r.ch:
			r.got = append(r.got, v)
		case <-r.stop:
			for {
				select {
				case v := <-r.ch:
					r.got = append(r.got, v)
				default:
					return
				}
			}
		}
	}
}

func (r *reader) finish() []int { close(r.stop); <-r.done; return r.got }

// shape R1: concurrent senders, mixed subscribers, nobody leaves: exactly-once, common order, counts.
func shapeSteady(iter int) {
	var f event.Feed
	rs := []*reader{newReader(0), newReader(1), newReader(4)}
	var subs []event.Subscription
	for _, r := range rs {
		subs = append(subs, f.Subscribe(r.ch))
		go r.run()
	}
	var wg sync.WaitGroup
	var total [2]int
	for s := 0; s < 2; s++ {
		wg.Add(1)
		go func(s int) {
			defer wg.Done()
			for k := 0; k < 3; k++ {
				total[s] += f.Send(10*s + k + 1)
			}
		}(s)
	}
	wg.Wait()
	var first []int
	for i, r := range rs {
		got := r.finish()
		if len(got) != 6 {
			failf("steady#%d: subscriber %d received %v (want 6 values)", iter, i, got)
		}
		seen := map[int]int{}
		for _, v := range got {
			seen[v]++
		}
		for v, n := range seen {
			if n != 1 {
				failf("steady#%d: subscriber %d received %d %d times", iter, i, v, n)
			}
		}
		if i == 0 {
			first = got
		} else if fmt.Sprint(first) != fmt.Sprint(got) {
			failf("steady#%d: subscribers disagree on the order: %v vs %v", iter, first, got)
		}
	}
	if total[0]+total[1] != 18 {
		failf("steady#%d: sends reported %d deliveries in total, want 18", iter, total[0]+total[1])
	}
	for _, s := range subs {
		s.Unsubscribe()
	}
}

// shape R2: subscribe, unsubscribe and scope close racing sends; bounds on what each one may see.
func shapeChurn(iter int) {
	var f event.Feed
	var scope event.SubscriptionScope
	stay := newReader(0)
	leave := newReader(0)
	late := newReader(2)
	tracked := newReader(1)
	go stay.run()
	go leave.run()
	go late.run()
	go tracked.run()
	sStay := f.Subscribe(stay.ch)
	sLeave := f.Subscribe(leave.ch)
	sTracked := scope.Track(f.Subscribe(tracked.ch))
	var wg sync.WaitGroup
	nsent := make([]int, 4)
	wg.Add(5)
	go func() {
		defer wg.Done()
		for k := 0; k < 4; k++ {
			nsent[k] = f.Send(k + 1)
		}
	}()
	go func() { defer wg.Done(); sLeave.Unsubscribe() }()
	var sLate event.Subscription
	go func() { defer wg.Done(); sLate = f.Subscribe(late.ch) }()
	go func() { defer wg.Done(); scope.Close() }()
	go func() { defer wg.Done(); sTracked.Unsubscribe() }()
	wg.Wait()
	after := f.Send(99)
	if after != 2 {
		failf("churn#%d: send after everything settled reported %d deliveries, want 2 (stay, late)", iter, after)
	}
	gotStay, gotLeave, gotLate, gotTracked := stay.finish(), leave.finish(), late.finish(), tracked.finish()
	if fmt.Sprint(gotStay) != "[1 2 3 4 99]" {
		failf("churn#%d: permanent subscriber received %v", iter, gotStay)
	}
	sum := 0
	for _, n := range nsent {
		sum += n
	}
	if want := 4 + len(gotLeave) + (len(gotLate) - 1) + len(gotTracked); sum != want {
		failf("churn#%d: sends reported %d deliveries, %d were made", iter, sum, want)
	}
	for name, got := range map[string][]int{"leave": gotLeave, "late": gotLate, "tracked": gotTracked} {
		last := 0
		for _, v := range got {
			if v <= last {
				failf("churn#%d: %s received %v (duplicate or out of order)", iter, name, got)
			}
			last = v
		}
	}
	if len(gotLate) == 0 || gotLate[len(gotLate)-1] != 99 {
		failf("churn#%d: late subscriber missed the final value: %v", iter, gotLate)
	}
	for _, v := range append(append([]int{}, gotLeave...), gotTracked...) {
		if v == 99 {
			failf("churn#%d: delivery after unsubscription returned", iter)
		}
	}
	sStay.Unsubscribe()
	sLate.Unsubscribe()
}

// shape R3: unsubscription while a send is blocked on that very subscriber.
func shapeBlocked(iter int) {
	var f event.Feed
	blockCh := make(chan int) // never read
	other := newReader(0)
	go other.run()
	sBlock := f.Subscribe(blockCh)
	sOther := f.Subscribe(other.ch)
	done := make(chan int)
	go func() { done <- f.Send(7) }()
	runtime.Gosched()
	sBlock.Unsubscribe()
	select {
	case n := <-done:
		got := other.finish()
		if fmt.Sprint(got) != "[7]" || n != 1 {
			failf("blocked#%d: send reported %d, other subscriber received %v", iter, n, got)
		}
	case <-time.After(20 * time.Second):
		failf("blocked#%d: send still blocked 20 s after the blocking subscriber unsubscribed", iter)
	}
	sOther.Unsubscribe()
}

// shape R5: a crowd. Thresholds far outside the small scope of the exploration (here: more than 2048
// subscribers) are reached by one scripted history: a Send is blocked on two unbuffered subscribers
// while most of the 2100 already-served buffered subscribers leave; then one of the two receives and the
// other unsubscribes. The Send must return and report exactly the deliveries it made.
func shapeCrowd(iter int) {
	var f event.Feed
	const crowd = 2100
	chs := make([]chan int, crowd)
	subs := make([]event.Subscription, crowd)
	for i := range chs {
		chs[i] = make(chan int, 1)
		subs[i] = f.Subscribe(chs[i])
	}
	w1, w2 := make(chan int), make(chan int)
	s1, s2 := f.Subscribe(w1), f.Subscribe(w2)
	if iter%2 == 1 { // both role assignments: which of the two ends up first in the Send's working list is an internal matter
		w1, w2, s1, s2 = w2, w1, s2, s1
	}
	done := make(chan int, 1)
	go func() { done <- f.Send(7) }()
	for _, c := range chs { // wait until the crowd has been served (the Send is then blocked on w1, w2)
		for len(c) == 0 {
			runtime.Gosched()
		}
	}
	for i := 0; i < 1700; i++ {
		subs[i].Unsubscribe()
	}
	if v := <-w1; v != 7 {
		failf("crowd#%d: w1 received %d", iter, v)
	}
	s2.Unsubscribe()
	select {
	case n := <-done:
		if n != crowd+1 {
			failf("crowd#%d: Send reported %d deliveries, %d were made", iter, n, crowd+1)
		}
	case v := <-w2:
		failf("crowd#%d: value %d delivered on w2 after its Unsubscribe had returned", iter, v)
	case <-time.After(30 * time.Second):
		failf("crowd#%d: Send still blocked 30 s after its last waiting subscriber unsubscribed", iter)
	}
	s1.Unsubscribe()
	for i := 1700; i < crowd; i++ {
		subs[i].Unsubscribe()
	}
}

type evA int
type evB string

// shape R4: TypeMux post / subscribe / unsubscribe / stop.
func shapeMux(iter int) {
	var mux event.TypeMux
	s1 := mux.Subscribe(evA(0))
	s2 := mux.Subscribe(evA(0), evB(""))
	var wg sync.WaitGroup
	got1, got2 := 0, 0
	wg.Add(2)
	go func() {
		defer wg.Done()
		for range s1.Chan() {
			got1++
		}
	}()
	go func() {
		defer wg.Done()
		for range s2.Chan() {
			got2++
		}
	}()
	var pw sync.WaitGroup
	pw.Add(3)
	go func() { defer pw.Done(); mux.Post(evA(1)); mux.Post(evB("x")) }()
	go func() { defer pw.Done(); mux.Post(evA(2)) }()
	go func() {
		defer pw.Done()
		s3 := mux.Subscribe(evB(""))
		s3.Unsubscribe()
	}()
	pw.Wait()
	if iter%2 == 0 {
		s1.Unsubscribe()
		mux.Stop()
	} else {
		mux.Stop()
		s1.Unsubscribe()
	}
	wg.Wait()
	if got1 != 2 || got2 != 3 {
		failf("mux#%d: subscribers received %d and %d events, want 2 and 3", iter, got1, got2)
	}
	if err := mux.Post(evA(3)); err != event.ErrMuxClosed {
		failf("mux#%d: Post after Stop returned %v", iter, err)
	}
}

func TestRaceFree(t *testing.T) {
	t0 := time.Now()
	n := 1500
	if os.Getenv("VERIF_TIER") == "thorough" {
		n = 20000
	}
	shapes := map[string]func(int){"steady": shapeSteady, "churn": shapeChurn, "blocked": shapeBlocked, "mux": shapeMux}
	res := result{Shapes: len(shapes), Iterations: map[string]int{}}
	var wg sync.WaitGroup
	for name, fn := range shapes {
		res.Iterations[name] = n
		for w := 0; w < 3; w++ {
			wg.Add(1)
			go func(name string, fn func(int), w int) {
				defer wg.Done()
				for i := w; i < n; i += 3 {
					// an iteration takes microseconds; one that has not finished after 120 s is blocked for good
					// (the goroutines it left behind are abandoned)
					done := make(chan struct{})
					go func() { fn(i); close(done) }()
					select {
					case <-done:
					case <-time.After(120 * time.Second):
						failf("%s#%d: the scenario has not finished after 120 s (a Send, Subscribe or Unsubscribe is blocked for good)", name, i)
						return
					}
				}
			}(name, fn, w)
		}
	}
	wg.Wait()
	crowds := 4
	if os.Getenv("VERIF_TIER") == "thorough" {
		crowds = 40
	}
	for i := 0; i < crowds; i++ {
		shapeCrowd(i)
	}
	res.Iterations["crowd"] = crowds
	res.Shapes++
	res.Failures = fails
	res.WallS = time.Since(t0).Seconds()
	if p := os.Getenv("VERIF_RACE_OUT"); p != "" {
		b, _ := json.Marshal(res)
		os.WriteFile(p, b, 0o644)
	}
	for _, f := range fails {
		fmt.Println("RACEPASS-FAIL " + f)
	}
	if len(fails) > 0 {
		t.Fail()
	}
}
