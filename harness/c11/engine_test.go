package c11

// Execution engine of the C11 check.
//
// All enumeration runs in worker subprocesses (ev.RunWorkers). A worker checks its cases on ONE
// goroutine; a second goroutine (the watchdog) follows the heap-allocation counter of the process.
// A decoding call that does not return and keeps allocating (found on the unchanged tree: a slice of
// [1]byte whose input contains a 0x00 element) cannot be interrupted inside a Go process, so the
// worker reports the case ("runaway"), exits, and the parent starts the shard again behind that case.
// Culprits that produce runaways repeatedly are quarantined (greedy hitting set over the candidate
// keys of the runaway cases, threshold 3; a lattice value that also occurs in a case that returned is
// not eligible): later cases containing them are skipped, counted, and the run is marked not
// exhaustive. The verdict "the case is still running and has allocated more than N bytes" uses exact
// allocation counters (runtime.ReadMemStats), it is not a timing oracle. A worker that dies of a fatal
// runtime error (out of memory under the address-space cap, stack exhaustion) is started again with a
// per-case write-ahead log for the unit it died in; the case that kills it becomes a violation.

import (
	"bytes"
	"encoding/hex"
	"encoding/json"
	"fmt"
	"os"
	"path/filepath"
	"reflect"
	"runtime"
	"runtime/debug"
	"runtime/pprof"
	"sort"
	"strconv"
	"strings"
	"sync"
	"sync/atomic"
	"syscall"
	"testing"
	"time"

	"gitlab.com/aquachain/aquachain/common/log"
	"gitlab.com/aquachain/aquachain/rlp"
	"gitlab.com/aquachain/aquachain/zzverif/ev"
	"gitlab.com/aquachain/aquachain/zzverif/ref/refrlp"
)

// ---- units of work -------------------------------------------------------------------------------------

type unit struct {
	phase string
	limit uint64 // watchdog: allocation allowed for one case of this unit
	run   func(w *worker, from int)
}

const (
	limitSmall = 8 << 20   // consensus artefacts of a few kilobytes (real need: some hundred kilobytes per case)
	limitTiny  = 2 << 20   // cases over inputs of a few bytes (real need: kilobytes)
	limitLarge = 768 << 20 // long-form family, untyped check: inputs up to 64 KiB, six decodings and reference trees per case
	stuckAfter = 10 * time.Minute
)

type curCase struct {
	offset int
	keys   []string
	desc   func() (scenario, caseID string, detail map[string]interface{})
}

type runawayRec struct {
	Unit      int                    `json:"unit"`
	Offset    int                    `json:"offset"`
	Scenario  string                 `json:"scenario"`
	Case      string                 `json:"case"`
	Keys      []string               `json:"keys"`
	Detail    map[string]interface{} `json:"detail"`
	Allocated uint64                 `json:"allocated"`
}

type worker struct {
	a         *acc
	thorough  bool
	unitIx    int
	pos       int // index of the unit in the shard's own sequence
	seq       atomic.Uint64
	limit     atomic.Uint64
	cur       atomic.Pointer[curCase]
	sub       atomic.Int32 // index of the current target inside a string case
	quar      map[string]bool
	skipped   int64
	maxAlloc  uint64
	onRunaway func(unit int, c *curCase, allocated uint64)
	isWorker  bool
	cleanKeys map[string]bool // pick keys seen in cases that returned
	// write-ahead log for fatal crashes (out of memory, stack overflow): always the unit, in careful mode
	// (after a crash in that unit) every case with its description
	progress    *os.File
	careful     bool
	skipOffsets map[int]bool // cases of the current unit known to kill the process
}

// mark records the position in the progress file.
func (w *worker) mark(pos int, c *curCase) {
	if w.progress == nil {
		return
	}
	rec := map[string]interface{}{"pos": pos, "offset": -1}
	if c != nil {
		sc, id, detail := c.desc()
		rec = map[string]interface{}{"pos": pos, "offset": c.offset, "scenario": sc, "case": id, "keys": c.keys, "detail": detail}
	}
	b, _ := json.Marshal(rec)
	b = append(b, '\n')
	w.progress.Truncate(0)
	w.progress.WriteAt(b, 0)
}

// begin announces case #offset of the current unit. It returns false when the case is quarantined.
func (w *worker) begin(offset int, keys []string, desc func() (string, string, map[string]interface{})) bool {
	for _, k := range keys {
		if w.quar[k] {
			w.skipped++
			return false
		}
	}
	if w.skipOffsets[offset] {
		w.skipped++
		return false
	}
	c := &curCase{offset, keys, desc}
	w.cur.Store(c)
	w.seq.Add(1)
	if w.careful {
		w.mark(w.pos, c)
	}
	return true
}

// watchdog: exact allocation figures (runtime.ReadMemStats) every few milliseconds. base is taken the
// first time a case is observed, i.e. at or after its start, so "now-base" never overstates what the case
// allocated; a descheduled checker does not allocate. A case is reported when it is still the running
// case and has allocated more than the limit of its unit.
func (w *worker) watchdog() {
	var ms runtime.MemStats
	var lastSeq, base uint64
	since := time.Now()
	parent := os.Getppid()
	for tick := 0; ; tick++ {
		time.Sleep(3 * time.Millisecond)
		if tick%64 == 0 && w.isWorker && os.Getppid() != parent {
			os.Exit(3) // the parent is gone: never linger
		}
		seq := w.seq.Load()
		if seq == 0 {
			continue
		}
		runtime.ReadMemStats(&ms)
		now := ms.TotalAlloc
		if os.Getenv("VERIF_C11_WDEBUG") != "" && tick%100 == 0 {
			fmt.Fprintf(os.Stderr, "wd: tick=%d seq=%d last=%d now=%d base=%d limit=%d\n", tick, seq, lastSeq, now, base, w.limit.Load())
		}
		if seq != lastSeq {
			lastSeq, base, since = seq, now, time.Now()
			continue
		}
		if lim := w.limit.Load(); lim > 0 && now-base > lim && w.seq.Load() == seq {
			w.onRunaway(w.unitIx, w.cur.Load(), now-base)
			select {}
		}
		if time.Since(since) > stuckAfter {
			c := w.cur.Load()
			sc, id, _ := c.desc()
			ev.Broken("case %s %s (unit %d offset %d) did not return within %v and does not allocate", sc, id, w.unitIx, c.offset, stuckAfter)
		}
	}
}

// hardCap limits the address space of a worker so that a missed runaway kills the worker, not the machine.
func hardCap() {
	lim := syscall.Rlimit{Cur: 6 << 30, Max: 6 << 30}
	syscall.Setrlimit(syscall.RLIMIT_AS, &lim)
}

// ---- the unit list (identical in the parent and in every worker) ---------------------------------------

type plant struct {
	units      []unit
	stats      map[string]int64
	fam        []famCase
	sp         *strSpace
}

// typed cases are generated per group (one unit each) so that nothing is materialised up front:
//
//	group "top"            every value of every untagged kind
//	group (ka,kb)          every value pair as struct{A;B} and struct{A;B;Z}
//	group seq(k)           every ordered value pair of one kind as []K{a,b} and [2]K{a,b}
type typedGroup struct {
	name string
	n    int
	gen  func() []*typedCase
}

func typedGroups() (groups []typedGroup, nTop, nPairs, nSeq int) {
	top := typedGroup{name: "top", gen: func() (cases []*typedCase) {
		for _, k := range kinds {
			for i := range k.vals {
				if k.tag == "" {
					cases = append(cases, &typedCase{form: "top", picks: []pick{{k, i}}})
				}
			}
		}
		return
	}}
	for _, k := range kinds {
		if k.tag == "" {
			top.n += len(k.vals)
		}
	}
	nTop = top.n
	groups = append(groups, top)
	for _, ka := range kinds {
		if ka.lastOnly {
			continue
		}
		for _, kb := range kinds {
			g := typedGroup{name: ka.name + "," + kb.name, n: len(ka.vals) * len(kb.vals), gen: func() (cases []*typedCase) {
				for i := range ka.vals {
					for j := range kb.vals {
						cases = append(cases, &typedCase{form: "s2", picks: []pick{{ka, i}, {kb, j}}})
						if !kb.lastOnly {
							cases = append(cases, &typedCase{form: "s3", picks: []pick{{ka, i}, {kb, j}}})
						}
					}
				}
				return
			}}
			if !kb.lastOnly {
				g.n *= 2
			}
			nPairs += g.n
			groups = append(groups, g)
		}
	}
	for _, k := range kinds {
		if k.tag != "" || k.name == "u8" {
			continue // []uint8 is a byte string (kind "bytes")
		}
		g := typedGroup{name: "seq " + k.name, n: 2 * len(k.vals) * len(k.vals), gen: func() (cases []*typedCase) {
			for i := range k.vals {
				for j := range k.vals {
					cases = append(cases, &typedCase{form: "slice", picks: []pick{{k, i}, {k, j}}})
					cases = append(cases, &typedCase{form: "array", picks: []pick{{k, i}, {k, j}}})
				}
			}
			return
		}}
		nSeq += g.n
		groups = append(groups, g)
	}
	return
}

func (tc *typedCase) keys() []string {
	form := tc.form
	if form == "s2" || form == "s3" {
		form = "s"
	}
	var out []string
	for _, p := range tc.picks {
		k := fmt.Sprintf("pick:%s:%s#%d", form, p.k.name, p.i)
		if len(out) == 0 || out[len(out)-1] != k {
			out = append(out, k)
		}
	}
	return out
}

func buildPlant(thorough bool, only func(string) bool) *plant {
	p := &plant{stats: map[string]int64{}}
	t0 := time.Now()
	lapT := func(what string) {
		if os.Getenv("VERIF_C11_TIMING") != "" {
			fmt.Fprintf(os.Stderr, "c11 timing: %s %.3fs\n", what, time.Since(t0).Seconds())
		}
	}
	defer lapT("plant done")
	// units are collected per phase and put in this order (the cheap allocation phase early, so that a
	// deadline never cuts it off)
	order := []string{"typed", "consensus", "alloc", "bytes", "family", "pairs"}
	byPhase := map[string][]unit{}
	add := func(u unit) {
		if only(u.phase) {
			byPhase[u.phase] = append(byPhase[u.phase], u)
		}
	}
	defer func() {
		for _, ph := range order {
			p.units = append(p.units, byPhase[ph]...)
		}
	}()

	// typed lattices
	groups, nTop, nPairs, nSeq := typedGroups()
	p.stats["typed_kinds"] = int64(len(kinds))
	p.stats["typed_top_values"] = int64(nTop)
	p.stats["typed_pair_cases"] = int64(nPairs)
	p.stats["typed_seq_cases"] = int64(nSeq)
	for _, g := range groups {
		add(unit{phase: "typed", limit: limitTiny, run: func(w *worker, from int) {
			cases := g.gen()
			for i := from; i < len(cases); i++ {
				tc := cases[i]
				if !w.begin(i, tc.keys(), func() (string, string, map[string]interface{}) {
					return "typed", tc.caseID(), map[string]interface{}{"kind": "typed", "spec": tc.spec()}
				}) {
					continue
				}
				w.a.do(func() outcome { return checkTyped(tc) })
				for _, k := range tc.keys() {
					w.cleanKeys[k] = true // this pick took part in a case that returned
				}
			}
		}})
	}

	lapT("typed units")
	// consensus types
	cp := func() *cplan { return consensusPlan(thorough) }
	nrt, nmut := consensusCounts(thorough)
	p.stats["consensus_roundtrip_bases"] = int64(nrt)
	p.stats["consensus_mutated_bases"] = int64(nmut)
	for lo := 0; lo < nrt; lo += 64 {
		lo := lo
		add(unit{phase: "consensus", limit: limitSmall, run: func(w *worker, from int) {
			rt := cp().roundtrip
			for i := lo + from; i < lo+64 && i < len(rt); i++ {
				b := rt[i].get()
				if !w.begin(i-lo, []string{"ctype:" + b.ct.name}, func() (string, string, map[string]interface{}) {
					return "consensus-roundtrip", b.ct.name + "/" + b.label, map[string]interface{}{"kind": "consensus", "type": b.ct.name, "input": hex.EncodeToString(b.enc), "mutation": "none"}
				}) {
					continue
				}
				w.a.do(func() outcome { return checkConsensusRT(b) })
			}
		}})
	}
	for bi := 0; bi < nmut; bi++ {
		bi := bi
		add(unit{phase: "consensus", limit: limitSmall, run: func(w *worker, from int) {
			b := cp().mutate[bi].get()
			k := 0
			forEachMutation(b.enc, thorough, func(label string, mk func() []byte) {
				k++
				if k-1 < from {
					return
				}
				m := mk()
				if !w.begin(k-1, []string{"ctype:" + b.ct.name}, func() (string, string, map[string]interface{}) {
					return "consensus-mutation", b.ct.name + "/" + label, map[string]interface{}{"kind": "consensus", "type": b.ct.name, "input": hex.EncodeToString(m), "mutation": label}
				}) {
					return
				}
				w.a.do(func() outcome { return checkConsensusBytes("consensus-mutation", b.ct, m, label) })
			})
			w.a.counters["consensus_mutants"] += int64(k - from)
		}})
	}

	lapT("consensus units")
	// byte strings: untyped APIs and every typed target
	maxLen := 5
	if thorough {
		maxLen = 6
	}
	sp := newStrSpace(maxLen)
	p.sp = sp
	tgts := topTargets()
	p.stats["byte_strings"] = sp.total
	p.stats["max_len"] = int64(maxLen)
	p.stats["typed_targets"] = int64(len(tgts))
	const block = 2048
	for lo := int64(0); lo < sp.total; lo += block {
		lo := lo
		add(unit{phase: "bytes", limit: limitTiny, run: func(w *worker, from int) {
			buf := make([]byte, 0, 8)
			per := len(tgts) + 1
			for idx := lo; idx < lo+block && idx < sp.total; idx++ {
				b := append([]byte{}, sp.at(idx, buf)...)
				runStringCase(w, "bytes", "bytes-to-typed", b, tgts, int(idx-lo)*per, from, "", len(b) < maxLen)
			}
		}})
	}

	lapT("bytes units")
	// long-form family
	fam := family(thorough)
	p.fam = fam
	p.stats["family_cases"] = int64(len(fam))
	for lo := 0; lo < len(fam); lo += 4 {
		lo := lo
		add(unit{phase: "family", limit: limitLarge, run: func(w *worker, from int) {
			per := len(tgts) + 1
			for i := lo; i < lo+4 && i < len(fam); i++ {
				runStringCase(w, "family", "family-to-typed", fam[i].build(), tgts, (i-lo)*per, from, "family/", true)
			}
		}})
	}
	add(unit{phase: "family", limit: limitSmall, run: func(w *worker, from int) {
		for k, n := range []uint64{0, 1, 55, 56, 57, 255, 256, 257, 65535, 65536, 1<<24 - 1, 1 << 24, 1<<32 - 1, 1 << 32, 1 << 56} {
			if k < from {
				continue
			}
			w.begin(k, nil, func() (string, string, map[string]interface{}) { return "family", "ListSize", nil })
			w.a.do(func() outcome {
				var o outcome
				o.class = fmt.Sprintf("listsize/hdr=%d", len(refHeader(0xc0, n)))
				if got, want := rlp.ListSize(n), uint64(len(refHeader(0xc0, n)))+n; got != want {
					o.viols = append(o.viols, viol{Scenario: "family", Oracle: "decoded-tree", CaseID: fmt.Sprintf("ListSize/n=%d", n),
						Detail: map[string]interface{}{"n": n, "got": got, "want": want, "kind": "listsize"}})
				}
				return o
			})
		}
	}})

	// every 2-field struct type as the target of every list whose payload is a short string over the
	// alphabet (payload bound one less than in the byte-string phase: the list header is added)
	lapT("family units")
	maxPayload := 3
	if thorough {
		maxPayload = 4
	}
	psp := newStrSpace(maxPayload)
	type kk struct{ a, b *kind }
	var pairKinds []kk
	for _, ka := range kinds {
		if ka.lastOnly {
			continue
		}
		for _, kb := range kinds {
			pairKinds = append(pairKinds, kk{ka, kb})
		}
	}
	p.stats["pair_targets"] = int64(len(pairKinds))
	p.stats["pair_target_inputs"] = psp.total
	const pblock = 8192
	for _, pk := range pairKinds {
		for lo := int64(0); lo < psp.total; lo += pblock {
			lo := lo
			add(unit{phase: "pairs", limit: limitTiny, run: func(w *worker, from int) {
				tg := pairTarget(pk.a, pk.b)
				buf := make([]byte, 0, 8)
				if w.quarTarget(tg) {
					if n := psp.total - lo - int64(from); n > pblock {
						w.skipped += pblock
					} else {
						w.skipped += n
					}
					return
				}
				var b []byte
				var off atomic.Int64
				cc := &curCase{keys: tg.keys}
				cc.desc = func() (string, string, map[string]interface{}) {
					cc.offset = int(off.Load())
					pl := psp.at(lo+off.Load(), make([]byte, 0, 8))
					in := append([]byte{0xc0 + byte(len(pl))}, pl...)
					return "bytes-to-pair", "target=" + tg.name, map[string]interface{}{"kind": "target", "target": tg.name, "input": hex.EncodeToString(in)}
				}
				w.cur.Store(cc)
				for idx := lo + int64(from); idx < lo+pblock && idx < psp.total; idx++ {
					pl := psp.at(idx, buf)
					b = append([]byte{0xc0 + byte(len(pl))}, pl...)
					if w.skipOffsets[int(idx-lo)] {
						w.skipped++
						continue
					}
					off.Store(idx - lo)
					w.seq.Add(1)
					if w.careful {
						w.mark(w.pos, cc)
					}
					_, re := refrlp.Decode(b)
					w.targetCase("bytes-to-pair", tg, b, re, "pair", true)
				}
			}})
		}
	}

	lapT("pair units")
	// allocation bounds
	asp := sp
	if sp.maxLen > 5 {
		asp = newStrSpace(5)
	}
	p.stats["alloc_byte_strings"] = asp.total
	const ablock = 8192
	for lo := int64(0); lo < asp.total; lo += ablock {
		lo := lo
		add(unit{phase: "alloc", limit: limitSmall, run: func(w *worker, from int) {
			buf := make([]byte, 0, 8)
			var batch []allocCase
			for idx := lo + int64(from); idx < lo+ablock && idx < asp.total; idx++ {
				b := append([]byte{}, asp.at(idx, buf)...)
				if len(batch) == 0 || w.careful {
					if !w.begin(int(idx-lo), nil, func() (string, string, map[string]interface{}) {
						return "alloc", "untyped-batch", map[string]interface{}{"kind": "alloc", "input": hex.EncodeToString(b), "api": "DecodeBytes"}
					}) {
						continue
					}
				}
				batch = append(batch, untypedAllocCases(b)...)
				if len(batch) >= 128 || w.careful {
					allocBatch("alloc", batch, w.a, &w.maxAlloc)
					batch = batch[:0]
				}
			}
			allocBatch("alloc", batch, w.a, &w.maxAlloc)
		}})
	}
	for lo := 0; lo < len(fam); lo += 4 {
		lo := lo
		add(unit{phase: "alloc", limit: limitLarge, run: func(w *worker, from int) {
			k := 0
			for i := lo; i < lo+4 && i < len(fam); i++ {
				in := fam[i].build()
				w.limit.Store(uint64(limitSmall + 512*len(in))) // one decoding per case
				cases := untypedAllocCases(in)
				for _, tg := range tgts {
					tg := tg
					cases = append(cases, allocCase{"target=" + tg.name, in, func() { rlp.DecodeBytes(in, reflect.New(tg.typ).Interface()) }})
				}
				for ci, c := range cases {
					k++
					if k-1 < from {
						continue
					}
					var keys []string
					if ci >= 4 {
						keys = tgts[ci-4].keys
					}
					if !w.begin(k-1, keys, func() (string, string, map[string]interface{}) {
						return "alloc", c.api, map[string]interface{}{"kind": "alloc", "input": hex.EncodeToString(in), "api": c.api}
					}) {
						continue
					}
					allocBatch("alloc", []allocCase{c}, w.a, &w.maxAlloc)
				}
			}
		}})
	}
	// sparse lists: few items, many bytes (what decoding reserves for the elements of a list must follow
	// the number of elements, not the byte length of the list), and list / string headers that claim far
	// more than the input holds, on a stream without an input limit
	add(unit{phase: "alloc", limit: limitLarge, run: func(w *worker, from int) {
		type tgt struct {
			name string
			mk   func() interface{}
		}
		tgs := []tgt{{"interface", func() interface{} { return new(interface{}) }}, {"[][]byte", func() interface{} { return new([][]byte) }},
			{"[]string", func() interface{} { return new([]string) }}, {"[]interface{}", func() interface{} { return new([]interface{}) }},
			{"[]uint64", func() interface{} { return new([]uint64) }}}
		var inputs [][]byte
		for _, kl := range [][2]int{{1, 64 << 10}, {1, 1 << 20}, {4, 256 << 10}} {
			one := refrlp.Encode(refrlp.Str(bytes.Repeat([]byte{0x61}, kl[1])))
			var payload []byte
			for i := 0; i < kl[0]; i++ {
				payload = append(payload, one...)
			}
			hdr := []byte{0xf7 + 3, byte(len(payload) >> 16), byte(len(payload) >> 8), byte(len(payload))}
			inputs = append(inputs, append(hdr, payload...))
		}
		for _, h := range []string{"ff4000000000000000", "ff7fffffffffffffff", "fb40000000", "bf4000000000000000", "bb40000000", "fa400000"} {
			b, _ := hex.DecodeString(h)
			inputs = append(inputs, b)
		}
		k := 0
		for _, in := range inputs {
			in := in
			w.limit.Store(uint64(limitSmall + 64*len(in)))
			for _, tg := range tgs {
				tg := tg
				for _, api := range []string{"DecodeBytes", "Stream(0)", "Stream(len)"} {
					api := api
					k++
					if k-1 < from {
						continue
					}
					name := "sparse/" + api + "/" + tg.name
					if !w.begin(k-1, nil, func() (string, string, map[string]interface{}) {
						return "alloc", name, map[string]interface{}{"kind": "alloc", "input": hex.EncodeToString(in[:min(len(in), 16)]), "len": len(in), "api": name}
					}) {
						continue
					}
					f := func() {
						switch api {
						case "DecodeBytes":
							rlp.DecodeBytes(in, tg.mk())
						case "Stream(0)":
							rlp.NewStream(bytes.NewReader(in), 0).Decode(tg.mk())
						default:
							rlp.NewStream(bytes.NewReader(in), uint64(len(in))).Decode(tg.mk())
						}
					}
					var pan interface{}
					func() {
						defer func() { pan = recover() }()
						f()
					}()
					if pan != nil {
						w.a.viols = append(w.a.viols, viol{Scenario: "alloc", Oracle: "no-panic", CaseID: name,
							Detail: map[string]interface{}{"input": hex.EncodeToString(in[:min(len(in), 16)]), "len": len(in), "api": name, "kind": "alloc", "panic": fmt.Sprint(pan)}})
						continue
					}
					allocBatch("alloc", []allocCase{{name, in, f}}, w.a, &w.maxAlloc)
				}
			}
		}
	}})
	nalloc := consensusAllocCount(thorough)
	for bi := 0; bi < nalloc; bi++ {
		bi := bi
		add(unit{phase: "alloc", limit: limitSmall, run: func(w *worker, from int) {
			consensusAllocUnit(w, cp().allocSet[bi].get(), from)
		}})
	}
	return p
}

// runStringCase: the untyped check of b and the decoding of b into every target. Sub-case numbering:
// base+0 is the untyped check, base+1+j target j.
func runStringCase(w *worker, scenario, tscenario string, b []byte, tgts []*target, base, from int, classPrefix string, stream bool) {
	if base >= from {
		w.begin(base, nil, func() (string, string, map[string]interface{}) {
			return scenario, "untyped", map[string]interface{}{"kind": "untyped", "input": hex.EncodeToString(b)}
		})
		w.a.do(func() outcome {
			o := checkUntyped(scenario, b)
			o.class = classPrefix + o.class
			return o
		})
	}
	_, refErr := refrlp.Decode(b)
	unitLimit := w.limit.Load()
	defer func() {
		w.limit.Store(unitLimit)
		w.seq.Add(1) // a new limit needs a new base
	}()
	if tl := uint64(limitSmall + 512*len(b)); tl < unitLimit {
		w.seq.Add(1)      // new base first, then the lower limit
		w.limit.Store(tl) // one decoding and one encoding per target
	}
	// one announcement for all targets of this string; the watchdog reads the current target from w.sub
	cc := &curCase{}
	cc.desc = func() (string, string, map[string]interface{}) {
		tg := tgts[w.sub.Load()]
		cc.offset, cc.keys = base+1+int(w.sub.Load()), tg.keys
		return tscenario, "target=" + tg.name, map[string]interface{}{"kind": "target", "target": tg.name, "input": hex.EncodeToString(b)}
	}
	announced := false
	for j, tg := range tgts {
		if base+1+j < from {
			continue
		}
		if w.quarTarget(tg) || w.skipOffsets[base+1+j] {
			w.skipped++
			continue
		}
		w.sub.Store(int32(j))
		if !announced {
			w.cur.Store(cc)
			announced = true
		}
		w.seq.Add(1)
		if w.careful {
			w.mark(w.pos, cc)
		}
		w.targetCase(tscenario, tg, b, refErr, "", stream)
	}
}

// quarTarget caches the quarantine verdict per target.
func (w *worker) quarTarget(tg *target) bool {
	if tg.quarChecked != w {
		tg.quarChecked, tg.quarantined = w, false
		for _, k := range tg.keys {
			if w.quar[k] {
				tg.quarantined = true
			}
		}
	}
	return tg.quarantined
}

// targetCase is checkTarget with a fast path for the common outcome (the decoder rejects the input).
func (w *worker) targetCase(scenario string, tg *target, b []byte, refErr error, classPrefix string, stream bool) {
	if rejectsQuietly(tg, b, stream) {
		w.a.evals++
		if !tg.seenReject {
			tg.seenReject = true
			w.a.class(classPrefix + "target/" + tg.name + "/reject")
		}
		return
	}
	w.a.do(func() outcome {
		o := checkTarget(scenario, tg, b, refErr, stream)
		if o.class != "" {
			o.class = classPrefix + o.class
		}
		return o
	})
}

func rejectsQuietly(tg *target, b []byte, stream bool) (rejected bool) {
	defer func() {
		if recover() != nil {
			rejected = false // the slow path reports the panic
		}
	}()
	if rlp.DecodeBytes(b, reflect.New(tg.typ).Interface()) == nil {
		return false
	}
	return !stream || rlp.NewStream(bytes.NewReader(b), 0).Decode(reflect.New(tg.typ).Interface()) != nil
}

// ---- worker process ----------------------------------------------------------------------------------------

type shardState struct {
	Unit   int  `json:"unit"`   // index into the worker's own unit sequence
	Offset int  `json:"offset"` // first case of that unit still to run
	Done   bool `json:"done"`
}

func phaseFilter() (func(string) bool, string) {
	only := os.Getenv("VERIF_C11_PHASES")
	return func(name string) bool {
		if only == "" {
			return true
		}
		for _, p := range strings.Split(only, ",") {
			if p == name {
				return true
			}
		}
		return false
	}, only
}

func (w *worker) result(done bool, rec *runawayRec, resume shardState) *ev.WorkerResult {
	res := &ev.WorkerResult{Evals: int64(w.a.evals), Counters: map[string]int64{}, Extra: map[string]interface{}{}}
	for k := range w.a.classes {
		res.Classes = append(res.Classes, k)
	}
	for k, v := range w.a.counters {
		res.Counters[k] = v
	}
	res.Counters["cases_skipped_quarantined"] = w.skipped
	res.Extra["viols"] = w.a.viols
	res.Extra["done"] = done
	res.Extra["resume"] = resume
	res.Extra["alloc_max"] = w.maxAlloc
	ck := make([]string, 0, len(w.cleanKeys))
	for k := range w.cleanKeys {
		ck = append(ck, k)
	}
	res.Extra["clean_keys"] = ck
	if rec != nil {
		res.Extra["runaway"] = rec
	}
	return res
}

var stopProfile = func() {}

func workerMain(run *ev.Run, shard, n int) {
	var states []shardState
	json.Unmarshal([]byte(os.Getenv("VERIF_C11_STATE")), &states)
	st := shardState{}
	if len(states) > 0 {
		st = states[0]
	}
	hardCap()
	w := &worker{a: newAcc(), thorough: run.Thorough(), quar: map[string]bool{}, isWorker: true, cleanKeys: map[string]bool{}}
	var q []string
	json.Unmarshal([]byte(os.Getenv("VERIF_C11_QUAR")), &q)
	for _, k := range q {
		w.quar[k] = true
	}
	if st.Done {
		ev.WorkerDone(w.result(true, nil, st))
	}
	deadline, _ := strconv.ParseInt(os.Getenv("VERIF_C11_DEADLINE"), 10, 64)
	only, _ := phaseFilter()
	p := buildPlant(run.Thorough(), only)
	// own units: shard, shard+n, ...
	var own []int
	for ui := shard; ui < len(p.units); ui += n {
		own = append(own, ui)
	}
	pos := st.Unit
	w.onRunaway = func(_ int, c *curCase, allocated uint64) {
		sc, id, detail := c.desc()
		rec := &runawayRec{Unit: pos, Offset: c.offset, Scenario: sc, Case: id, Keys: c.keys, Detail: detail, Allocated: allocated}
		ev.WorkerDone(w.result(false, rec, shardState{Unit: pos, Offset: c.offset + 1}))
	}
	carefulPos := -1
	if v := os.Getenv("VERIF_C11_CAREFUL"); v != "" {
		carefulPos, _ = strconv.Atoi(v)
	}
	skipAt := map[int]map[int]bool{}
	for _, ps := range strings.Split(os.Getenv("VERIF_C11_SKIP"), ",") {
		var sp, so int
		if _, err := fmt.Sscanf(ps, "%d:%d", &sp, &so); err == nil {
			if skipAt[sp] == nil {
				skipAt[sp] = map[int]bool{}
			}
			skipAt[sp][so] = true
		}
	}
	if pf := os.Getenv("VERIF_C11_PROGRESS"); pf != "" {
		w.progress, _ = os.OpenFile(pf, os.O_CREATE|os.O_RDWR, 0o644)
	}
	if pf := os.Getenv("VERIF_C11_CPUPROFILE"); pf != "" { // debugging aid
		if f, err := os.Create(fmt.Sprintf("%s.%d", pf, shard)); err == nil {
			pprof.StartCPUProfile(f)
			stopProfile = pprof.StopCPUProfile
		}
	}
	go w.watchdog()
	capped := false
	for ; pos < len(own); pos++ {
		if deadline > 0 && time.Now().UnixNano() > deadline {
			capped = true
			break
		}
		from := 0
		if pos == st.Unit {
			from = st.Offset
		}
		u := p.units[own[pos]]
		w.unitIx, w.pos = own[pos], pos
		w.careful = pos == carefulPos
		w.skipOffsets = skipAt[pos]
		if w.careful && pos != st.Unit {
			// hand in what is done so far: a fatal error in the next unit would lose it
			w.limit.Store(0)
			ev.WorkerDone(w.result(false, nil, shardState{Unit: pos, Offset: 0}))
		}
		w.mark(pos, nil)
		w.limit.Store(u.limit)
		u.run(w, from)
	}
	w.limit.Store(0)
	stopProfile()
	res := w.result(true, nil, shardState{Done: true})
	if capped {
		res.Caps = append(res.Caps, fmt.Sprintf("deadline: shard %d stopped before unit %d of %d (%s)", shard, pos, len(own), p.units[own[pos]].phase))
	}
	ev.WorkerDone(res)
}

// ---- parent ---------------------------------------------------------------------------------------------------

// hittingSet chooses the culprits to quarantine. A pick that also took part in a case that returned
// cannot be the cause of a runaway on its own and is not eligible.
func hittingSet(recs []runawayRec, threshold int, clean map[string]bool) map[string]bool {
	chosen := map[string]bool{}
	covered := make([]bool, len(recs))
	for {
		count := map[string]int{}
		for i, r := range recs {
			if covered[i] {
				continue
			}
			for _, k := range r.Keys {
				if !clean[k] {
					count[k]++
				}
			}
		}
		best, bestN := "", 0
		keys := make([]string, 0, len(count))
		for k := range count {
			keys = append(keys, k)
		}
		sort.Strings(keys)
		for _, k := range keys {
			if count[k] > bestN {
				best, bestN = k, count[k]
			}
		}
		if bestN < threshold {
			return chosen
		}
		chosen[best] = true
		for i, r := range recs {
			for _, k := range r.Keys {
				if k == best {
					covered[i] = true
				}
			}
		}
	}
}

func TestCheck(t *testing.T) {
	log.Root().SetHandler(log.DiscardHandler())
	procs := 3
	if v, err := strconv.Atoi(os.Getenv("VERIF_C11_PROCS")); err == nil && v > 0 {
		procs = v
	}
	runtime.GOMAXPROCS(procs)
	gcPercent := 400 // workers keep a few MB live and allocate gigabytes of short-lived values
	if v, err := strconv.Atoi(os.Getenv("VERIF_C11_GOGC")); err == nil {
		gcPercent = v
	}
	debug.SetGCPercent(gcPercent)
	run := ev.Start("exploration")
	if err := refrlp.SelfTest(); err != nil {
		ev.Broken("refrlp self test: %v", err)
	}
	buildKinds()
	if _, _, ok := ev.Shard(); ok {
		var shard, n int
		if _, err := fmt.Sscanf(os.Getenv("VERIF_C11_SHARD"), "%d/%d", &shard, &n); err != nil || n <= 0 {
			ev.Broken("worker without VERIF_C11_SHARD")
		}
		workerMain(run, shard, n)
		return
	}
	run.Rule = "every byte string over an 18-byte boundary alphabet up to the length bound, every spelling of the long-form header family, " +
		"every ordered pair of typed lattice values as consecutive fields/elements, every typed target for every string, " +
		"every truncation and single-byte alteration of consensus encodings; classes = distinct (reference verdict, shape), " +
		"(target, verdict), (kind pair), (consensus type, mutation, verdict) observed"
	run.Assume("byte strings: alphabet {00,01,7f,80,81,82,b7,b8,b9,ba,bf,c0,c1,c2,f7,f8,f9,ff}, length <= 5 (quick) / 6 (thorough); other byte values behave like a neighbour in the same header class")
	run.Assume("streams are created with a known input length (bytes.Reader or explicit limit); unlimited readers are documented as unbounded")
	run.Assume("nil pointers without rlp:\"nil\" are documented to encode as the zero/empty value; they are compared after that normalisation, and nil pointers to non-empty byte arrays / structs (whose empty encoding the decoder rejects) are not in the lattice")
	run.Assume("RawValue targets are documented not to validate content; for them only 'error or byte-identical' is required")
	run.Assume("typed targets: DecodeBytes for every enumerated string; Stream.Decode additionally for strings shorter than the length bound, the long-form family and the pair targets")
	run.Assume(fmt.Sprintf("allocation bound: TotalAlloc delta <= %d + %d*len(input) per decoding call, measured on a single goroutine; a case whose allocation exceeds %d MiB (small inputs) is reported as unbounded and not waited for", allocBase, allocPerByte, limitTiny>>20))
	col := &collector{run: run, perGroup: map[string]int{}, seen: map[string]bool{}}

	if d := ev.Replay(); d != nil {
		if k, _ := d.Detail["kind"].(string); k == "stream-reuse" {
			replayStreamReuse(run, d)
			run.Finish()
		}
		replay(run, col, d)
		run.Finish()
	}
	partStreamReuse(run)

	only, onlyStr := phaseFilter()
	if onlyStr != "" {
		run.Cap("phases restricted by VERIF_C11_PHASES=" + onlyStr)
	}
	p := buildPlant(run.Thorough(), only)
	for k, v := range p.stats {
		run.Set(k, v)
	}
	run.Set("alphabet", hex.EncodeToString(alphabet))
	run.Set("units", len(p.units))
	deadline := run.Deadline(150*time.Second, 13*time.Minute)

	// One supervising goroutine per shard: it starts the shard's worker process and, when the worker stops
	// at a runaway case, starts it again behind that case with the current quarantine list (no barrier
	// between shards). The worker learns its real shard through VERIF_C11_SHARD (ev.RunWorkers(1, ..)
	// always says 0/1).
	n := ev.Jobs()
	var (
		mu        sync.Mutex
		runaways  []runawayRec
		quar      = map[string]bool{}
		clean     = map[string]bool{}
		allocMax  uint64
		launches  int
		lastStart time.Time
		crashes   []runawayRec
	)
	var wg sync.WaitGroup
	for shard := 0; shard < n; shard++ {
		wg.Add(1)
		go func(shard int) {
			defer wg.Done()
			st := shardState{}
			careful := -1
			var skips []string // "pos:offset" of cases that kill the worker
			for attempt := 0; !st.Done; attempt++ {
				if attempt > 200 {
					ev.Broken("shard %d: more than 200 worker starts", shard)
				}
				mu.Lock()
				qk := make([]string, 0, len(quar))
				for k := range quar {
					qk = append(qk, k)
				}
				sort.Strings(qk)
				launches++
				// RunWorkers names its result file after the start time: keep the starts apart
				if d := time.Since(lastStart); d < 2*time.Millisecond {
					time.Sleep(2*time.Millisecond - d)
				}
				lastStart = time.Now()
				mu.Unlock()
				sj, _ := json.Marshal([]shardState{st})
				qj, _ := json.Marshal(qk)
				progressFile := filepath.Join(scratchDir(), fmt.Sprintf("c11-progress-%d.json", shard))
				os.Remove(progressFile)
				env := []string{"VERIF_C11_STATE=" + string(sj), "VERIF_C11_QUAR=" + string(qj),
					"VERIF_C11_DEADLINE=" + strconv.FormatInt(deadline.UnixNano(), 10), fmt.Sprintf("VERIF_C11_SHARD=%d/%d", shard, n),
					"VERIF_C11_PROGRESS=" + progressFile, "VERIF_C11_CAREFUL=" + strconv.Itoa(careful), "VERIF_C11_SKIP=" + strings.Join(skips, ",")}
				crashOut := ""
				results := run.RunWorkers(1, env, func(_ int, output string) { crashOut = output })
				wr := results[0]
				if wr == nil {
					// The worker died (fatal runtime error, kill). The progress file names the unit; run that unit
					// again with a per-case log, then the case that kills the worker is known.
					var pr struct {
						Pos      int                    `json:"pos"`
						Offset   int                    `json:"offset"`
						Scenario string                 `json:"scenario"`
						Case     string                 `json:"case"`
						Keys     []string               `json:"keys"`
						Detail   map[string]interface{} `json:"detail"`
					}
					pb, err := os.ReadFile(progressFile)
					if err != nil || json.Unmarshal(bytes.TrimSpace(pb), &pr) != nil {
						ev.Broken("worker of shard %d died without a progress record:\n%s", shard, tailStr(crashOut, 3000))
					}
					if pr.Offset < 0 {
						if careful == pr.Pos {
							ev.Broken("worker of shard %d died in unit %d outside any case:\n%s", shard, pr.Pos, tailStr(crashOut, 3000))
						}
						// results of the units completed by the dead worker are lost: start the unit list of the shard
						// again from the last reported state, this time careful in the unit that died
						careful = pr.Pos
						fmt.Fprintf(os.Stderr, "c11: shard %d: worker died in unit %d, running it again with a per-case log\n", shard, pr.Pos)
						continue
					}
					reason := "worker process died"
					for _, l := range strings.Split(crashOut, "\n") {
						if strings.HasPrefix(l, "fatal error:") || strings.HasPrefix(l, "runtime:") && strings.Contains(l, "out of memory") {
							reason = strings.TrimSpace(l)
							break
						}
					}
					d := pr.Detail
					if d == nil {
						d = map[string]interface{}{}
					}
					d["what"] = "the process was killed by a fatal runtime error while this case was running: " + reason
					d["case"] = pr.Case
					mu.Lock()
					crashes = append(crashes, runawayRec{Unit: pr.Pos, Offset: pr.Offset, Scenario: pr.Scenario, Case: pr.Case, Keys: pr.Keys, Detail: d})
					runaways = append(runaways, crashes[len(crashes)-1])
					quar = hittingSet(runaways, 3, clean)
					mu.Unlock()
					fmt.Fprintf(os.Stderr, "c11: shard %d: %s kills the worker (%s)\n", shard, pr.Case, reason)
					// run the unit again from where it was started, without the fatal case
					skips = append(skips, fmt.Sprintf("%d:%d", pr.Pos, pr.Offset))
					careful = pr.Pos
					continue
				}
				raw, _ := json.Marshal(wr.Extra)
				var ex struct {
					Viols    []viol      `json:"viols"`
					Done     bool        `json:"done"`
					Resume   shardState  `json:"resume"`
					Runaway  *runawayRec `json:"runaway"`
					AllocMax uint64      `json:"alloc_max"`
					Clean    []string    `json:"clean_keys"`
				}
				if err := json.Unmarshal(raw, &ex); err != nil {
					ev.Broken("worker of shard %d: bad result: %v", shard, err)
				}
				a := newAcc()
				a.viols = ex.Viols
				col.merge(a)
				mu.Lock()
				if ex.AllocMax > allocMax {
					allocMax = ex.AllocMax
				}
				for _, k := range ex.Clean {
					clean[k] = true
				}
				if ex.Runaway != nil {
					runaways = append(runaways, *ex.Runaway)
					fmt.Fprintf(os.Stderr, "c11: shard %d start %d: runaway %s %s (%d KiB)\n", shard, attempt, ex.Runaway.Scenario, ex.Runaway.Case, ex.Runaway.Allocated>>10)
					quar = hittingSet(runaways, 3, clean)
				}
				mu.Unlock()
				st = ex.Resume
				st.Done = ex.Done
			}
		}(shard)
	}
	wg.Wait()
	// runaway cases become violations, named after the quarantined culprit when there is one
	for _, r := range runaways {
		culprit := ""
		for _, k := range r.Keys {
			if quar[k] {
				culprit = k
				break
			}
		}
		if culprit == "" {
			var cand []string
			for _, k := range r.Keys {
				if !clean[k] {
					cand = append(cand, k)
				}
			}
			if len(cand) == 1 {
				culprit = cand[0]
			}
		}
		id := r.Case
		if culprit != "" {
			id = keyLabel(culprit)
		}
		d := r.Detail
		if d == nil {
			d = map[string]interface{}{}
		}
		d["allocated_when_stopped"] = r.Allocated
		d["case"] = r.Case
		oracle := "bounded-allocation"
		if r.Allocated == 0 {
			oracle = "no-fatal-error"
		} else {
			d["what"] = "the call did not return and kept allocating; stopped by the watchdog"
		}
		a := newAcc()
		a.viols = []viol{{Scenario: r.Scenario, Oracle: oracle, CaseID: id, Detail: d}}
		col.merge(a)
	}
	run.Set("fatal_cases", len(crashes))
	if len(quar) > 0 {
		qk := make([]string, 0, len(quar))
		for k := range quar {
			qk = append(qk, k)
		}
		sort.Strings(qk)
		run.Set("quarantined", qk)
		run.Cap("cases containing a quarantined culprit were skipped after three runaway cases each: " + strings.Join(qk, " "))
	}
	run.Set("runaway_cases", len(runaways))
	run.Set("worker_starts", launches)
	run.Set("alloc_max_individually_measured", allocMax)
	run.Set("violations_not_forwarded_same_group", col.dropped)
	run.Sample(map[string]interface{}{"phase": "bytes", "input": "c3c0c1c0", "apis": "DecodeBytes, Stream.Decode loop, Stream walk, Raw, Split*, CountValues, then every typed target"})
	run.Sample(map[string]interface{}{"phase": "typed", "spec": "s3|b1#0|u64#1", "case": "A=b1:00|B=u64:1|s3 = struct{A [1]byte; B uint64; Z uint64}{{0},1,0x55}"})
	run.Sample(map[string]interface{}{"phase": "family", "id": p.fam[len(p.fam)/3].id})
	run.Finish()
}

func scratchDir() string {
	if d := os.Getenv("VERIF_SCRATCH"); d != "" {
		return d
	}
	return os.TempDir()
}

func tailStr(s string, n int) string {
	if len(s) > n {
		return s[len(s)-n:]
	}
	return s
}

// keyLabel turns a quarantine key into the case-id form used by the other oracles
// ("pick:seq:b1#0" -> "b1:00/seq", "target:b1s" -> "target=b1s").
func keyLabel(key string) string {
	parts := strings.SplitN(key, ":", 3)
	switch {
	case len(parts) == 3 && parts[0] == "pick":
		kv := strings.Split(parts[2], "#")
		if k := kindIdx[kv[0]]; k != nil && len(kv) == 2 {
			if i, err := strconv.Atoi(kv[1]); err == nil && i < len(k.vals) {
				return k.name + ":" + k.vals[i].label + "/" + parts[1]
			}
		}
	case len(parts) == 2:
		return parts[0] + "=" + parts[1]
	}
	return key
}

// ---- replay --------------------------------------------------------------------------------------------------

func replay(run *ev.Run, col *collector, d *ev.ReplayDoc) {
	w := &worker{a: newAcc(), quar: map[string]bool{}, cleanKeys: map[string]bool{}}
	w.onRunaway = func(_ int, c *curCase, allocated uint64) {
		fmt.Fprintf(os.Stderr, "replay: the call did not return; %d MiB allocated\n", allocated>>20)
		run.Violate(viol{Scenario: d.Scenario, Oracle: "bounded-allocation", CaseID: d.CaseID, Detail: d.Detail})
		run.Finish()
	}
	if k, _ := d.Detail["kind"].(string); k == "untyped" {
		w.limit.Store(limitLarge)
	} else {
		h, _ := d.Detail["input"].(string)
		w.limit.Store(uint64(limitSmall + 256*len(h)))
	}
	go w.watchdog()
	w.begin(0, nil, func() (string, string, map[string]interface{}) { return d.Scenario, d.CaseID, d.Detail })
	a := w.a
	kind, _ := d.Detail["kind"].(string)
	inHex, _ := d.Detail["input"].(string)
	in, _ := hex.DecodeString(inHex)
	switch kind {
	case "untyped":
		a.do(func() outcome { return checkUntyped(d.Scenario, in) })
	case "target":
		name, _ := d.Detail["target"].(string)
		tg := findTarget(name)
		if tg == nil {
			ev.Broken("replay: unknown target %q", name)
		}
		_, refErr := refrlp.Decode(in)
		stream, _ := d.Detail["stream"].(bool)
		a.do(func() outcome { return checkTarget(d.Scenario, tg, in, refErr, stream) })
	case "typed":
		spec, _ := d.Detail["spec"].(string)
		tc := parseTypedSpec(spec)
		if tc == nil {
			ev.Broken("replay: bad typed spec %q", spec)
		}
		a.do(func() outcome { return checkTyped(tc) })
	case "consensus":
		typ, _ := d.Detail["type"].(string)
		ct := findConsensusType(typ)
		if ct == nil {
			ev.Broken("replay: unknown consensus type %q", typ)
		}
		mut, _ := d.Detail["mutation"].(string)
		a.do(func() outcome { return checkConsensusBytes(d.Scenario, ct, in, mut) })
	case "alloc":
		api, _ := d.Detail["api"].(string)
		var c *allocCase
		for _, x := range untypedAllocCases(in) {
			if x.api == api {
				x := x
				c = &x
			}
		}
		if strings.HasPrefix(api, "target=") {
			if tg := findTarget(strings.TrimPrefix(api, "target=")); tg != nil {
				c = &allocCase{api, in, func() { rlp.DecodeBytes(in, reflect.New(tg.typ).Interface()) }}
			}
		}
		if strings.HasPrefix(api, "consensus=") {
			if ct := findConsensusType(strings.TrimPrefix(api, "consensus=")); ct != nil {
				c = &allocCase{api, in, func() { rlp.DecodeBytes(in, ct.fresh()) }}
			}
		}
		if c == nil {
			ev.Broken("replay: unknown api %q", api)
		}
		c.f() // warm caches
		var maxSeen uint64
		got := measure(c.f)
		fmt.Fprintf(os.Stderr, "replay: %s allocates %d bytes for %d input bytes (bound %d)\n", api, got, len(in), allocBound(len(in)))
		allocBatch(d.Scenario, []allocCase{*c}, a, &maxSeen)
		if got > allocBound(len(in)) && len(a.viols) == 0 {
			a.viols = append(a.viols, viol{Scenario: d.Scenario, Oracle: d.Oracle, CaseID: d.CaseID, Detail: d.Detail})
		}
	default:
		ev.Broken("replay: unknown case kind %q", kind)
	}
	w.limit.Store(0)
	fmt.Fprintf(os.Stderr, "replay: %d violation(s) reproduced\n", len(a.viols))
	col.merge(a)
}

var _ = bytes.Equal
