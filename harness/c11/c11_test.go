// C11 - RLP is a canonical, total and bounded codec.
//
// Engine E4 (DESIGN.md 2.5, section 4/C11): bounded exhaustive enumeration on the real rlp package
// and the real consensus types, compared with zzverif/ref/refrlp (a strict decoder/encoder written
// from the specification). Phases (engine_test.go builds them as units of work for worker processes):
//
//	typed      per-type value lattices (typed_test.go): every value alone, every ordered pair of
//	           (kind,value) as consecutive struct fields (struct{A;B} and struct{A;B;Z} with a sentinel)
//	           and as consecutive slice / array elements: encoding = refrlp model of the value,
//	           decode(encode(v)) = v through DecodeBytes, Stream.Decode and a buffered limited stream.
//	consensus  Header, Transaction, Block (with uncles), Body, Receipt (consensus + storage format), Log
//	           (both), state.Account (consensus_test.go): lattice round trips against a model of the wire
//	           format, every truncation, one extension, every single-byte alteration (3 XOR masks quick,
//	           all 255 values thorough): error or byte-identical re-encoding.
//	alloc      runtime.MemStats.TotalAlloc deltas of single decoding calls (a worker checks on one
//	           goroutine): every byte string up to length 5, the long-form family with every typed
//	           target, consensus encodings with length-prefix alterations; bound 64 KiB + 128*len(input).
//	bytes      every string of length <= 5 (thorough 6) over an 18-byte boundary alphabet ->
//	           DecodeBytes(interface{}), Stream (Decode loop until EOF, manual Kind/List/Bytes/ListEnd
//	           walk, Raw, explicit limit + bufio), Split/SplitString/SplitList/CountValues: accept/reject
//	           = refrlp, decoded tree = refrlp tree, re-encoding = input, no panic; then the string is
//	           decoded into every typed target (DecodeBytes; Stream.Decode too for strings shorter than
//	           the bound): error, or the re-encoding equals the (consumed) input.
//	family     the structured long-form header family (every spelling of the length prefix for payload
//	           lengths 0..65536, claimed length off by one, payload cut / extended, alone and inside a
//	           list, announced sizes up to 2^64-1) through the same checks.
//	pairs      every 2-field struct type as decoding target of every list with a short payload.
package c11

import (
	"bytes"
	"encoding/hex"
	"fmt"
	"io"
	"os"
	"runtime"
	"sort"
	"strings"
	"sync"

	"gitlab.com/aquachain/aquachain/rlp"
	"gitlab.com/aquachain/aquachain/zzverif/ev"
	"gitlab.com/aquachain/aquachain/zzverif/ref/refrlp"
)

// ---- plumbing -------------------------------------------------------------------------------------

type viol = ev.Violation

// result of checking one case
type outcome struct {
	class string
	viols []viol
}

// acc is a worker-local accumulator merged into the run under a lock.
type acc struct {
	evals    int
	classes  map[string]struct{}
	counters map[string]int64
	viols    []viol
	seen     map[string]bool // signatures already recorded by this worker
}

func newAcc() *acc {
	return &acc{classes: map[string]struct{}{}, counters: map[string]int64{}, seen: map[string]bool{}}
}

func (a *acc) class(k string) { a.classes[k] = struct{}{} }

type collector struct {
	run *ev.Run
	mu  sync.Mutex
	// per (scenario,oracle,diff-class) number of signatures forwarded, to keep one defect = few signatures
	perGroup map[string]int
	seen     map[string]bool
	dropped  int64
}

const maxPerGroup = 6

func (c *collector) merge(a *acc) {
	c.run.Eval(a.evals)
	keys := make([]string, 0, len(a.classes))
	for k := range a.classes {
		keys = append(keys, k)
	}
	c.run.Classes(keys)
	if len(a.viols) == 0 {
		return
	}
	c.mu.Lock()
	defer c.mu.Unlock()
	for _, v := range a.viols {
		if c.seen[v.Signature()] {
			continue
		}
		c.seen[v.Signature()] = true
		g := v.Scenario + "/" + v.Oracle + "/" + groupOf(v.CaseID)
		c.perGroup[g]++
		if c.perGroup[g] > maxPerGroup {
			c.dropped++
			continue
		}
		if os.Getenv("VERIF_C11_LISTSIGS") != "" {
			fmt.Fprintf(os.Stderr, "c11 sig: %s\n", v.Signature())
		}
		c.run.Violate(v)
	}
}

// groupOf is the first path element of a case id (the "defect class" part).
func groupOf(id string) string {
	if i := strings.IndexByte(id, '/'); i >= 0 {
		return id[:i]
	}
	return id
}

// confirm re-evaluates a failing case three more times: a verdict that flips is a harness error.
func confirm(check func() outcome, first outcome) {
	if len(first.viols) == 0 {
		return
	}
	for k := 0; k < 3; k++ {
		again := check()
		if !sameSigs(first.viols, again.viols) {
			ev.Broken("nondeterministic verdict: %v vs %v", sigs(first.viols), sigs(again.viols))
		}
	}
}

func sigs(vs []viol) []string {
	out := make([]string, len(vs))
	for i, v := range vs {
		out[i] = v.Signature()
	}
	sort.Strings(out)
	return out
}

func sameSigs(a, b []viol) bool {
	x, y := sigs(a), sigs(b)
	if len(x) != len(y) {
		return false
	}
	for i := range x {
		if x[i] != y[i] {
			return false
		}
	}
	return true
}

func (a *acc) do(check func() outcome) {
	o := check()
	a.evals++
	if o.class != "" {
		a.class(o.class)
	}
	if len(o.viols) > 0 {
		fresh := false
		for _, v := range o.viols {
			if !a.seen[v.Signature()] {
				fresh = true
			}
		}
		if !fresh {
			a.counters["violating_cases_with_known_signature"]++
			return
		}
		confirm(check, o)
		for _, v := range o.viols {
			if !a.seen[v.Signature()] {
				a.seen[v.Signature()] = true
				a.viols = append(a.viols, v)
			}
		}
	}
}

// guard runs f and converts a panic into a value.
func guard(f func() error) (err error, panicked interface{}) {
	defer func() {
		if r := recover(); r != nil {
			panicked = r
		}
	}()
	return f(), nil
}

func hx(b []byte) string {
	if len(b) > 96 {
		return hex.EncodeToString(b[:48]) + ".." + hex.EncodeToString(b[len(b)-16:]) + fmt.Sprintf("(len=%d)", len(b))
	}
	return hex.EncodeToString(b)
}

// diffClass describes the first difference between an accepted input and its re-encoding.
func diffClass(in, out []byte) string {
	n := len(in)
	if len(out) < n {
		n = len(out)
	}
	for i := 0; i < n; i++ {
		if in[i] != out[i] {
			return fmt.Sprintf("%02x->%02x", in[i], out[i])
		}
	}
	if len(in) != len(out) {
		if len(in) > len(out) {
			return "in-longer"
		}
		return "out-longer"
	}
	return "same"
}

func errClass(err error) string {
	if err == nil {
		return "ok"
	}
	s := err.Error()
	// strip the variable parts: types and hex
	if i := strings.Index(s, " for "); i >= 0 {
		s = s[:i]
	}
	if i := strings.Index(s, ", decoding into"); i >= 0 {
		s = s[:i]
	}
	if i := strings.Index(s, ": "); i >= 0 && strings.HasPrefix(s, "rlp: invalid boolean") {
		s = s[:i]
	}
	if strings.HasPrefix(s, "invalid receipt status") {
		s = "invalid receipt status"
	}
	return s
}

// ---- item <-> interface{} ---------------------------------------------------------------------------

func ifaceToItem(v interface{}) (*refrlp.Item, bool) {
	switch x := v.(type) {
	case []byte:
		return &refrlp.Item{Str: x}, true
	case []interface{}:
		it := &refrlp.Item{IsList: true, Elems: []*refrlp.Item{}}
		for _, e := range x {
			ei, ok := ifaceToItem(e)
			if !ok {
				return nil, false
			}
			it.Elems = append(it.Elems, ei)
		}
		return it, true
	}
	return nil, false
}

type onlyReader struct{ r io.Reader }

func (o onlyReader) Read(p []byte) (int, error) { return o.r.Read(p) }

var errWalkSize = fmt.Errorf("c11: Kind() size disagrees with the value read")

// walk decodes one value with the piecemeal Stream API.
func walk(s *rlp.Stream) (*refrlp.Item, error) {
	k, size, err := s.Kind()
	if err != nil {
		return nil, err
	}
	switch k {
	case rlp.Byte, rlp.String:
		b, err := s.Bytes()
		if err != nil {
			return nil, err
		}
		if k == rlp.String && uint64(len(b)) != size || k == rlp.Byte && (size != 0 || len(b) != 1) {
			return nil, errWalkSize
		}
		return &refrlp.Item{Str: b}, nil
	case rlp.List:
		n, err := s.List()
		if err != nil {
			return nil, err
		}
		if n != size {
			return nil, errWalkSize
		}
		it := &refrlp.Item{IsList: true, Elems: []*refrlp.Item{}}
		for {
			e, err := walk(s)
			if err == rlp.EOL {
				break
			}
			if err != nil {
				return nil, err
			}
			it.Elems = append(it.Elems, e)
		}
		if err := s.ListEnd(); err != nil {
			return nil, err
		}
		return it, nil
	}
	return nil, fmt.Errorf("c11: unknown kind %v", k)
}

// ---- the untyped check -----------------------------------------------------------------------------

func refReason(err error) string {
	switch err {
	case nil:
		return "ok"
	case refrlp.ErrEmpty:
		return "empty"
	case refrlp.ErrTruncated:
		return "truncated"
	case refrlp.ErrSingleByte:
		return "wrapped-single-byte"
	case refrlp.ErrLongForShort:
		return "long-form-for-short"
	case refrlp.ErrLeadingZero:
		return "leading-zero-length"
	case refrlp.ErrTrailing:
		return "trailing"
	}
	return "other"
}

func shape(it *refrlp.Item) string {
	if it == nil {
		return "-"
	}
	if !it.IsList {
		switch n := len(it.Str); {
		case n == 0:
			return "s0"
		case n == 1 && it.Str[0] < 0x80:
			return "byte"
		case n <= 55:
			return "sShort"
		default:
			return "sLong"
		}
	}
	n := len(it.Elems)
	if n > 3 {
		n = 3
	}
	d := refrlp.Depth(it)
	if d > 4 {
		d = 4
	}
	return fmt.Sprintf("L%d.d%d", n, d)
}

// checkUntyped applies every untyped API to b. scenario distinguishes the generator in signatures.
func checkUntyped(scenario string, b []byte) outcome {
	var o outcome
	bad := func(oracle, caseID, what string, extra ...interface{}) {
		d := map[string]interface{}{"input": hex.EncodeToString(b), "what": what, "kind": "untyped"}
		for i := 0; i+1 < len(extra); i += 2 {
			d[extra[i].(string)] = extra[i+1]
		}
		o.viols = append(o.viols, viol{Scenario: scenario, Oracle: oracle, CaseID: caseID, Detail: d})
	}
	refItem, refErr := refrlp.Decode(b)
	head, headErr := refrlp.ParseHead(b)
	first, _, firstErr := refrlp.DecodeFirst(b)
	seq, seqErr := refrlp.DecodeAll(b)
	refCount, refCountErr := refrlp.Count(b)
	o.class = "bytes/exact=" + refReason(refErr) + "/first=" + refReason(firstErr) + "/head=" + refReason(headErr) + "/" + shape(first)

	tag := "tag=none"
	if len(b) > 0 {
		tag = fmt.Sprintf("tag=%02x", b[0])
	}

	// 1. DecodeBytes into interface{}
	{
		var v interface{}
		err, p := guard(func() error { return rlp.DecodeBytes(b, &v) })
		switch {
		case p != nil:
			bad("no-panic", "DecodeBytes/"+tag, fmt.Sprint("panic: ", p))
		case (err == nil) != (refErr == nil):
			bad("accept-reject", "DecodeBytes/"+tag+"/ref="+refReason(refErr), fmt.Sprintf("rlp err=%v, refrlp err=%v", err, refErr))
		case err == nil:
			it, ok := ifaceToItem(v)
			if !ok || !refrlp.Equal(it, refItem) {
				bad("decoded-tree", "DecodeBytes/"+tag, "decoded value differs from the reference tree")
			}
			out, eerr, p2 := encodeGuard(v)
			if p2 != nil {
				bad("no-panic", "EncodeToBytes/"+tag, fmt.Sprint("panic: ", p2))
			} else if eerr != nil || !bytes.Equal(out, b) {
				bad("canonical-reencode", diffClass(b, out)+"/DecodeBytes/"+tag, fmt.Sprintf("re-encoding %s err=%v", hx(out), eerr))
			}
		}
	}

	// 2. Stream.Decode loop over a bytes.Reader (input limit discovered automatically)
	{
		s := rlp.NewStream(bytes.NewReader(b), 0)
		for i := 0; i <= len(seq); i++ {
			var v interface{}
			err, p := guard(func() error { return s.Decode(&v) })
			if p != nil {
				bad("no-panic", "Stream.Decode/"+tag, fmt.Sprint("panic: ", p))
				break
			}
			if i < len(seq) {
				if err != nil {
					bad("accept-reject", "Stream.Decode/"+tag+"/valid-value-rejected", fmt.Sprintf("value #%d: %v", i, err))
					break
				}
				it, ok := ifaceToItem(v)
				if !ok || !refrlp.Equal(it, seq[i]) {
					bad("decoded-tree", "Stream.Decode/"+tag, fmt.Sprintf("value #%d differs from the reference tree", i))
					break
				}
				continue
			}
			// past the last valid value
			if err == nil {
				bad("accept-reject", "Stream.Decode/"+tag+"/ref="+refReason(seqErr), fmt.Sprintf("value #%d accepted, refrlp: %v", i, seqErr))
			} else if seqErr == nil && err != io.EOF {
				bad("eof", "Stream.Decode/clean-end-not-EOF", fmt.Sprintf("err=%v after the last value", err))
			} else if seqErr != nil && err == io.EOF {
				bad("eof", "Stream.Decode/EOF-on-malformed-rest/ref="+refReason(seqErr), "io.EOF reported although undecodable bytes remain")
			}
		}
	}

	// 3. manual walk with Kind/List/Bytes/ListEnd; 4. Raw; 5. explicit limit + non-ByteReader
	{
		s := rlp.NewStream(bytes.NewReader(b), 0)
		var it *refrlp.Item
		err, p := guard(func() (e error) { it, e = walk(s); return })
		switch {
		case p != nil:
			bad("no-panic", "Stream.walk/"+tag, fmt.Sprint("panic: ", p))
		case err == errWalkSize:
			bad("kind-size", "Stream.walk/"+tag, "Kind()/List() size differs from the value read")
		case (err == nil) != (firstErr == nil):
			bad("accept-reject", "Stream.walk/"+tag+"/ref="+refReason(firstErr), fmt.Sprintf("rlp err=%v, refrlp err=%v", err, firstErr))
		case err == nil && !refrlp.Equal(it, first):
			bad("decoded-tree", "Stream.walk/"+tag, "walked value differs from the reference tree")
		}
	}
	{
		s := rlp.NewStream(bytes.NewReader(b), 0)
		var raw []byte
		err, p := guard(func() (e error) { raw, e = s.Raw(); return })
		switch {
		case p != nil:
			bad("no-panic", "Stream.Raw/"+tag, fmt.Sprint("panic: ", p))
		case err != nil && headErr == nil:
			bad("accept-reject", "Stream.Raw/"+tag+"/valid-rejected", fmt.Sprintf("err=%v", err))
		case err == nil && headErr != nil && headErr != refrlp.ErrSingleByte:
			// (Raw is documented not to validate content; 0x81 0x00 is returned unchanged.)
			bad("accept-reject", "Stream.Raw/"+tag+"/ref="+refReason(headErr), "accepted")
		case err == nil && (len(raw) > len(b) || !bytes.Equal(raw, b[:len(raw)])):
			bad("canonical-reencode", diffClass(b, raw)+"/Stream.Raw/"+tag, "raw value differs from the input bytes: "+hx(raw))
		case err == nil && headErr == nil && uint64(len(raw)) != head.Total():
			bad("decoded-tree", "Stream.Raw/"+tag, "raw value has the wrong extent")
		}
	}
	if len(b) > 0 {
		s := rlp.NewStream(onlyReader{bytes.NewReader(b)}, uint64(len(b)))
		var v interface{}
		err, p := guard(func() error { return s.Decode(&v) })
		switch {
		case p != nil:
			bad("no-panic", "Stream.Decode(limit,bufio)/"+tag, fmt.Sprint("panic: ", p))
		case (err == nil) != (firstErr == nil):
			bad("accept-reject", "Stream.Decode(limit,bufio)/"+tag+"/ref="+refReason(firstErr), fmt.Sprintf("rlp err=%v, refrlp err=%v", err, firstErr))
		case err == nil:
			if it, ok := ifaceToItem(v); !ok || !refrlp.Equal(it, first) {
				bad("decoded-tree", "Stream.Decode(limit,bufio)/"+tag, "differs from the reference tree")
			}
		}
	}

	// 6. Split family
	{
		var k rlp.Kind
		var content, rest []byte
		err, p := guard(func() (e error) { k, content, rest, e = rlp.Split(b); return })
		switch {
		case p != nil:
			bad("no-panic", "Split/"+tag, fmt.Sprint("panic: ", p))
		case (err == nil) != (headErr == nil):
			bad("accept-reject", "Split/"+tag+"/ref="+refReason(headErr), fmt.Sprintf("rlp err=%v, refrlp err=%v", err, headErr))
		case err == nil:
			wantK := rlp.String
			if head.Single {
				wantK = rlp.Byte
			} else if head.IsList {
				wantK = rlp.List
			}
			if k != wantK || !bytes.Equal(content, b[head.Off:head.Off+head.Len]) || !bytes.Equal(rest, b[head.Total():]) {
				bad("decoded-tree", "Split/"+tag, fmt.Sprintf("kind=%v content=%s rest=%s", k, hx(content), hx(rest)))
			}
		}
		err, p = guard(func() (e error) { content, rest, e = rlp.SplitString(b); return })
		wantOK := headErr == nil && !head.IsList
		switch {
		case p != nil:
			bad("no-panic", "SplitString/"+tag, fmt.Sprint("panic: ", p))
		case (err == nil) != wantOK:
			bad("accept-reject", "SplitString/"+tag+"/ref="+refReason(headErr), fmt.Sprintf("rlp err=%v", err))
		case err == nil && (!bytes.Equal(content, b[head.Off:head.Off+head.Len]) || !bytes.Equal(rest, b[head.Total():])):
			bad("decoded-tree", "SplitString/"+tag, "wrong content/rest")
		}
		err, p = guard(func() (e error) { content, rest, e = rlp.SplitList(b); return })
		wantOK = headErr == nil && head.IsList
		switch {
		case p != nil:
			bad("no-panic", "SplitList/"+tag, fmt.Sprint("panic: ", p))
		case (err == nil) != wantOK:
			bad("accept-reject", "SplitList/"+tag+"/ref="+refReason(headErr), fmt.Sprintf("rlp err=%v", err))
		case err == nil && (!bytes.Equal(content, b[head.Off:head.Off+head.Len]) || !bytes.Equal(rest, b[head.Total():])):
			bad("decoded-tree", "SplitList/"+tag, "wrong content/rest")
		}
		var n int
		err, p = guard(func() (e error) { n, e = rlp.CountValues(b); return })
		switch {
		case p != nil:
			bad("no-panic", "CountValues/"+tag, fmt.Sprint("panic: ", p))
		case (err == nil) != (refCountErr == nil):
			bad("accept-reject", "CountValues/"+tag+"/ref="+refReason(refCountErr), fmt.Sprintf("rlp err=%v, refrlp err=%v", err, refCountErr))
		case err == nil && n != refCount:
			bad("decoded-tree", "CountValues/"+tag, fmt.Sprintf("count %d, reference %d", n, refCount))
		}
	}
	return o
}

func encodeGuard(v interface{}) (out []byte, err error, panicked interface{}) {
	defer func() {
		if r := recover(); r != nil {
			panicked = r
		}
	}()
	out, err = rlp.EncodeToBytes(v)
	return
}

// ---- enumeration of byte strings -------------------------------------------------------------------

var alphabet = []byte{0x00, 0x01, 0x7f, 0x80, 0x81, 0x82, 0xb7, 0xb8, 0xb9, 0xba, 0xbf, 0xc0, 0xc1, 0xc2, 0xf7, 0xf8, 0xf9, 0xff}

// strSpace enumerates all strings over alphabet of length 0..maxLen by a linear index.
type strSpace struct {
	maxLen int
	starts []int64 // starts[l] = index of the first string of length l
	total  int64
}

func newStrSpace(maxLen int) *strSpace {
	sp := &strSpace{maxLen: maxLen}
	n := int64(1)
	for l := 0; l <= maxLen; l++ {
		sp.starts = append(sp.starts, sp.total)
		sp.total += n
		n *= int64(len(alphabet))
	}
	return sp
}

// at writes string #idx into buf and returns it.
func (sp *strSpace) at(idx int64, buf []byte) []byte {
	l := 0
	for l < sp.maxLen && idx >= sp.starts[l+1] {
		l++
	}
	idx -= sp.starts[l]
	buf = buf[:l]
	for i := l - 1; i >= 0; i-- {
		buf[i] = alphabet[idx%int64(len(alphabet))]
		idx /= int64(len(alphabet))
	}
	return buf
}

// ---- structured long-form header family --------------------------------------------------------------

type famCase struct {
	id    string
	build func() []byte // materialised on demand (the largest members are 64 KiB)
}

func be(n uint64, k int) []byte {
	out := make([]byte, k)
	for i := k - 1; i >= 0; i-- {
		out[i] = byte(n)
		n >>= 8
	}
	return out
}

func fits(n uint64, k int) bool { return k >= 8 || n < 1<<(8*uint(k)) }

// familyPayload builds a payload of n bytes that is a valid list body and, as a string body, does not
// trigger the single-byte rule (variant 0), or other fillings.
func familyPayload(n int, variant int) []byte {
	p := make([]byte, n)
	switch variant {
	case 0: // n single-byte items 0x01..; as a string: first byte 0x01 (matters for n==1)
		for i := range p {
			p[i] = 0x01
		}
	case 1: // bytes >= 0x80 that are valid items only by accident: 0x80 = empty string items
		for i := range p {
			p[i] = 0x80
		}
	case 2: // one string item spanning the payload (valid only when such an item exists)
		if n == 0 {
			return p
		}
		for body := n; body >= 0; body-- {
			h := refHeader(0x80, uint64(body))
			if len(h)+body == n && !(body == 1) {
				copy(p, h)
				for i := len(h); i < n; i++ {
					p[i] = 0xaa
				}
				return p
			}
		}
		for i := range p {
			p[i] = 0xc0
		}
	}
	return p
}

func refHeader(short byte, n uint64) []byte {
	if n <= 55 {
		return []byte{short + byte(n)}
	}
	k := 1
	for !fits(n, k) {
		k++
	}
	return append([]byte{short + 55 + byte(k)}, be(n, k)...)
}

func family(thorough bool) []famCase {
	var out []famCase
	lens := []int{0, 1, 55, 56, 57, 255, 256, 257, 65535, 65536}
	for _, list := range []bool{false, true} {
		short, kindName := byte(0x80), "str"
		if list {
			short, kindName = 0xc0, "list"
		}
		for _, n := range lens {
			for variant := 0; variant < 3; variant++ {
				if n > 257 && variant == 1 {
					continue
				}
				for _, delta := range []int{-1, 0, 1} {
					claimed := n + delta
					if claimed < 0 {
						continue
					}
					var headers [][]byte
					var hnames []string
					if claimed <= 55 {
						headers = append(headers, []byte{short + byte(claimed)})
						hnames = append(hnames, "short")
					}
					for k := 1; k <= 8; k++ {
						if !fits(uint64(claimed), k) {
							continue
						}
						headers = append(headers, append([]byte{short + 55 + byte(k)}, be(uint64(claimed), k)...))
						hnames = append(hnames, fmt.Sprintf("long%d", k))
					}
					for hi, h := range headers {
						for _, cut := range []int{0, 1, 2, -1} { // -1: one extra byte
							if cut > n {
								continue
							}
							mk := func() []byte {
								payload := familyPayload(n, variant)
								var body []byte
								if cut == -1 {
									body = append(append([]byte{}, payload...), 0x01)
								} else {
									body = payload[:len(payload)-cut]
								}
								return append(append([]byte{}, h...), body...)
							}
							id := fmt.Sprintf("%s/n=%d/fill=%d/claim%+d/%s/cut=%d", kindName, n, variant, delta, hnames[hi], cut)
							out = append(out, famCase{id, mk})
							// the same item as the only element and as the first of two elements of a list
							out = append(out, famCase{id + "/in-list", func() []byte { x := mk(); return append(refHeader(0xc0, uint64(len(x))), x...) }})
							out = append(out, famCase{id + "/in-list+1", func() []byte {
								x2 := append(mk(), 0x01)
								return append(refHeader(0xc0, uint64(len(x2))), x2...)
							}})
						}
					}
				}
			}
		}
		// announced sizes far beyond the input: every length-of-length, smallest and largest value
		for k := 1; k <= 8; k++ {
			var vals []uint64
			if k == 1 {
				vals = []uint64{56, 255}
			} else {
				vals = []uint64{1 << (8 * uint(k-1)), 1<<(8*uint(k-1)) + 1}
				if k == 8 {
					vals = append(vals, 1<<63, 1<<63+1, ^uint64(0)-1, ^uint64(0))
				} else {
					vals = append(vals, 1<<(8*uint(k))-1)
				}
			}
			for _, v := range vals {
				h := append([]byte{short + 55 + byte(k)}, be(v, k)...)
				for _, have := range []int{0, 1, 56, 300} {
					mk := func() []byte { return append(append([]byte{}, h...), familyPayload(have, 0)...) }
					id := fmt.Sprintf("%s/huge/k=%d/claimed=%d/have=%d", kindName, k, v, have)
					out = append(out, famCase{id, mk})
					out = append(out, famCase{id + "/in-list", func() []byte { x := mk(); return append(refHeader(0xc0, uint64(len(x))), x...) }})
				}
			}
		}
	}
	return out
}

// ---- allocation measurement (single goroutine) -------------------------------------------------------

func totalAlloc() uint64 {
	var m runtime.MemStats
	runtime.ReadMemStats(&m)
	return m.TotalAlloc
}

const (
	allocBase    = 64 << 10
	allocPerByte = 128
)

func allocBound(n int) uint64 { return allocBase + allocPerByte*uint64(n) }

// allocBoundFor is the bound of one input: what decoding may allocate is proportional to the NUMBER OF
// ITEMS it contains (headers of slices, interface words, growth of the containing slices) plus a small
// multiple of its length - not to its length times the size of a slice header. A list of one long string
// has to cost about its length.
func allocBoundFor(in []byte) uint64 {
	return allocBase + 4*uint64(len(in)) + allocPerByte*uint64(itemCount(in))
}

// itemCount walks the items of in (recursively, as far as they are well formed) and counts them.
func itemCount(in []byte) int {
	n := 0
	var walk func(b []byte)
	walk = func(b []byte) {
		for len(b) > 0 {
			n++
			t := b[0]
			var hdr, size uint64
			switch {
			case t < 0x80:
				hdr, size = 0, 1
			case t < 0xb8:
				hdr, size = 1, uint64(t-0x80)
			case t < 0xc0:
				ll := uint64(t - 0xb7)
				if uint64(len(b)) < 1+ll {
					return
				}
				for _, x := range b[1 : 1+ll] {
					size = size<<8 | uint64(x)
				}
				hdr = 1 + ll
			case t < 0xf8:
				hdr, size = 1, uint64(t-0xc0)
			default:
				ll := uint64(t - 0xf7)
				if uint64(len(b)) < 1+ll {
					return
				}
				for _, x := range b[1 : 1+ll] {
					size = size<<8 | uint64(x)
				}
				hdr = 1 + ll
			}
			if size > uint64(len(b)) || hdr+size > uint64(len(b)) {
				return
			}
			if t >= 0xc0 {
				walk(b[hdr : hdr+size])
			}
			b = b[hdr+size:]
		}
	}
	walk(in)
	return n
}

// measure returns the smallest of three allocation deltas of f (noise can only add).
func measure(f func()) uint64 {
	best := ^uint64(0)
	for k := 0; k < 3; k++ {
		a := totalAlloc()
		f()
		d := totalAlloc() - a
		if d < best {
			best = d
		}
	}
	return best
}

// allocCase is one decoding of one input whose allocation is bounded by allocBound(len(input)).
type allocCase struct {
	api   string
	input []byte
	f     func()
}

// allocBatch checks a batch: if the whole batch stays below the smallest bound of its members every
// member does (allocation is non-negative); otherwise members are measured individually.
func allocBatch(scenario string, batch []allocCase, a *acc, maxSeen *uint64) {
	defer func() { a.class("alloc/checked") }()
	if len(batch) == 0 {
		return
	}
	before := totalAlloc()
	for i := range batch {
		func() {
			defer func() { recover() }()
			batch[i].f()
		}()
	}
	d := totalAlloc() - before
	a.evals += len(batch)
	limit := ^uint64(0)
	for i := range batch {
		if b := allocBoundFor(batch[i].input); b < limit {
			limit = b
		}
	}
	if d <= limit {
		return
	}
	for i := range batch {
		c := batch[i]
		got := measure(func() {
			defer func() { recover() }()
			c.f()
		})
		if got > *maxSeen {
			*maxSeen = got
		}
		if got > allocBoundFor(c.input) {
			tag := "tag=none"
			if len(c.input) > 0 {
				tag = fmt.Sprintf("tag=%02x", c.input[0])
			}
			a.viols = append(a.viols, viol{Scenario: scenario, Oracle: "alloc-bound", CaseID: c.api + "/" + tag,
				Detail: map[string]interface{}{"input": hex.EncodeToString(c.input), "len": len(c.input), "api": c.api,
					"allocated": got, "bound": allocBoundFor(c.input), "kind": "alloc"}})
		}
	}
}

func untypedAllocCases(b []byte) []allocCase {
	in := append([]byte{}, b...)
	return []allocCase{
		{"DecodeBytes", in, func() { var v interface{}; rlp.DecodeBytes(in, &v) }},
		{"Stream.Decode", in, func() { var v interface{}; rlp.NewStream(bytes.NewReader(in), 0).Decode(&v) }},
		{"Stream.Raw", in, func() { rlp.NewStream(bytes.NewReader(in), 0).Raw() }},
		{"Split+CountValues", in, func() { rlp.Split(in); rlp.CountValues(in) }},
	}
}

