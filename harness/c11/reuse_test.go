package c11

// Part R: a Stream that is used again. Reset documents that the stream can be reused for another source; what
// the second use decodes must not depend on the first: for every pair of source kinds (bytes.Reader,
// strings.Reader, a plain io.Reader with an explicit limit, a plain io.Reader without one), every consumption
// of the first source (nothing, one value of two, everything, everything and a failed read at the end) and
// every second input of a small set, the outcome of decoding the second input on the reused stream equals the
// outcome on a fresh stream over the same kind of source.

import (
	"bytes"
	"encoding/hex"
	"fmt"
	"io"
	"strings"

	"gitlab.com/aquachain/aquachain/rlp"
	"gitlab.com/aquachain/aquachain/zzverif/ev"
)

type plainReader struct{ r io.Reader }

func (p plainReader) Read(b []byte) (int, error) { return p.r.Read(b) }

var reuseKinds = []string{"bytes.Reader", "strings.Reader", "plain+limit", "plain"}

func reuseSource(kind string, b []byte) (io.Reader, uint64) {
	switch kind {
	case "bytes.Reader":
		return bytes.NewReader(b), 0
	case "strings.Reader":
		return strings.NewReader(string(b)), 0
	case "plain+limit":
		return plainReader{bytes.NewReader(b)}, uint64(len(b))
	}
	return plainReader{bytes.NewReader(b)}, 0
}

// decodeAll decodes values until the first error and returns a rendering of what happened.
func decodeAll(s *rlp.Stream) string {
	var out []string
	for i := 0; i < 8; i++ {
		var v interface{}
		if err := s.Decode(&v); err != nil {
			out = append(out, "err:"+err.Error())
			break
		}
		out = append(out, fmt.Sprintf("%x", v))
	}
	return strings.Join(out, " ")
}

func reuseCase(firstKind string, firstIn []byte, consume int, secondKind string, secondIn []byte) string {
	r1, l1 := reuseSource(firstKind, firstIn)
	s := rlp.NewStream(r1, l1)
	for i := 0; i < consume; i++ {
		var v interface{}
		s.Decode(&v)
	}
	r2, l2 := reuseSource(secondKind, secondIn)
	s.Reset(r2, l2)
	got := decodeAll(s)
	r3, l3 := reuseSource(secondKind, secondIn)
	want := decodeAll(rlp.NewStream(r3, l3))
	if got != want {
		return fmt.Sprintf("stream first used on %s (%x, %d values decoded), then Reset onto %s (%x): decodes [%s], a fresh stream decodes [%s]", firstKind, firstIn, consume, secondKind, secondIn, got, want)
	}
	return ""
}

var reuseFirst = [][]byte{
	{0x01, 0x02},                         // two single bytes
	{0x83, 'a', 'b', 'c', 0xc2, 0x01, 2}, // a string and a list
	{0xc3, 0x01, 0x02},                   // truncated list (an error is pending after the first use)
	{},
}

var reuseSecond = [][]byte{
	{0x05},
	{0x83, 'x', 'y', 'z'},
	{0xc4, 0x83, 'x', 'y', 'z'},
	{0xb8, 0x38, 1, 2, 3, 4, 5, 6, 7, 8, 9, 10, 11, 12, 13, 14, 15, 16, 17, 18, 19, 20, 21, 22, 23, 24, 25, 26, 27, 28, 29, 30, 31, 32, 33, 34, 35, 36, 37, 38, 39, 40, 41, 42, 43, 44, 45, 46, 47, 48, 49, 50, 51, 52, 53, 54, 55, 56},
	{0x01, 0xc0, 0x80},
	{0x83, 'x'}, // truncated: same error either way
}

func partStreamReuse(run *ev.Run) {
	n := 0
	for _, fk := range reuseKinds {
		for _, fi := range reuseFirst {
			for consume := 0; consume <= 3; consume++ {
				for _, sk := range reuseKinds {
					for _, si := range reuseSecond {
						run.Eval(1)
						n++
						msg := reuseCase(fk, fi, consume, sk, si)
						if msg == "" {
							run.Class("stream-reuse/" + fk + "->" + sk)
							continue
						}
						if reuseCase(fk, fi, consume, sk, si) == "" {
							ev.Broken("stream-reuse verdict flipped on re-run")
						}
						run.Violate(viol{Scenario: "stream-reuse", Oracle: "reset-stream-equals-fresh-stream", CaseID: fk + "->" + sk,
							Detail: map[string]interface{}{"kind": "stream-reuse", "first_kind": fk, "first_input": hex.EncodeToString(fi), "consume": consume,
								"second_kind": sk, "second_input": hex.EncodeToString(si), "msg": msg}})
					}
				}
			}
		}
	}
	run.Set("stream_reuse_cases", n)
}

func replayStreamReuse(run *ev.Run, d *ev.ReplayDoc) {
	str := func(k string) string { s, _ := d.Detail[k].(string); return s }
	fi, _ := hex.DecodeString(str("first_input"))
	si, _ := hex.DecodeString(str("second_input"))
	c, _ := d.Detail["consume"].(float64)
	if msg := reuseCase(str("first_kind"), fi, int(c), str("second_kind"), si); msg != "" {
		fmt.Println("REPRODUCED", msg)
		run.Violate(viol{Scenario: d.Scenario, Oracle: d.Oracle, CaseID: d.CaseID, Detail: d.Detail})
	}
}
