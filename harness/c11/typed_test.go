package c11

import (
	"bytes"
	"encoding/hex"
	"errors"
	"fmt"
	"io"
	"math/big"
	"reflect"
	"strconv"
	"strings"
	"sync"

	"gitlab.com/aquachain/aquachain/rlp"
	"gitlab.com/aquachain/aquachain/zzverif/ref/refrlp"
)

// ---- custom Encoder / Decoder types ------------------------------------------------------------------

// custPiece decodes piecemeal with List/Uint/Bytes/ListEnd and encodes through rlp.Encode.
type custPiece struct {
	V uint32
	S []byte
}

func (c *custPiece) EncodeRLP(w io.Writer) error {
	if c == nil {
		_, err := w.Write([]byte{0xc0})
		return err
	}
	return rlp.Encode(w, []interface{}{c.V, c.S})
}

func (c *custPiece) DecodeRLP(s *rlp.Stream) error {
	if _, err := s.List(); err != nil {
		return err
	}
	v, err := s.Uint()
	if err != nil {
		return err
	}
	if v > 0xffffffff {
		return errors.New("custPiece: V overflow")
	}
	b, err := s.Bytes()
	if err != nil {
		return err
	}
	c.V, c.S = uint32(v), b
	return s.ListEnd()
}

// custKind looks at Kind() first, then takes the raw value (the pattern of aqua.hashOrNumber).
type custKind struct {
	Hash [32]byte
	Num  uint64
}

func (c *custKind) EncodeRLP(w io.Writer) error {
	if c.Hash == ([32]byte{}) {
		return rlp.Encode(w, c.Num)
	}
	if c.Num != 0 {
		return errors.New("custKind: both set")
	}
	return rlp.Encode(w, c.Hash)
}

func (c *custKind) DecodeRLP(s *rlp.Stream) error {
	_, size, _ := s.Kind()
	raw, err := s.Raw()
	if err != nil {
		return err
	}
	if size == 32 {
		err = rlp.DecodeBytes(raw, &c.Hash)
		if err == nil && c.Hash == ([32]byte{}) {
			return errors.New("custKind: zero hash")
		}
		return err
	}
	return rlp.DecodeBytes(raw, &c.Num)
}

// custVal encodes with a value receiver (like enr.Record) and decodes with a pointer receiver.
type custVal struct{ A, B uint16 }

func (c custVal) EncodeRLP(w io.Writer) error { return rlp.Encode(w, uint32(c.A)<<16|uint32(c.B)) }
func (c *custVal) DecodeRLP(s *rlp.Stream) error {
	var x uint32
	if err := s.Decode(&x); err != nil {
		return err
	}
	c.A, c.B = uint16(x>>16), uint16(x)
	return nil
}

// ---- lattices ------------------------------------------------------------------------------------------

type inner struct {
	X uint64
	Y []byte
}

type ignoreMid struct {
	X uint64
	I uint64 `rlp:"-"`
	Y uint64
}

type tailStruct struct {
	X uint64
	T []uint64 `rlp:"tail"`
}

type tval struct {
	label   string
	v       interface{}
	want    interface{} // value expected after a round trip when it differs from v (documented normalisation)
	hasWant bool
	items   []*refrlp.Item // what the value contributes to the enclosing list (one item, except tail / ignored)
}

type kind struct {
	name     string
	typ      reflect.Type
	tag      string // "", "nil", "tail", "-"
	vals     []tval
	lastOnly bool // legal only as the last field
	hasRaw   bool // content is not validated by design
}

var (
	kinds   []*kind
	kindIdx = map[string]*kind{}
)

func rep(b byte, n int) []byte { return bytes.Repeat([]byte{b}, n) }

func bigOf(s string) *big.Int {
	v, ok := new(big.Int).SetString(s, 0)
	if !ok {
		panic(s)
	}
	return v
}

func one(it *refrlp.Item) []*refrlp.Item { return []*refrlp.Item{it} }

func uintVals(typ reflect.Type, vs ...uint64) []tval {
	var out []tval
	for _, v := range vs {
		rv := reflect.New(typ).Elem()
		rv.SetUint(v)
		out = append(out, tval{label: strconv.FormatUint(v, 10), v: rv.Interface(), items: one(refrlp.Uint(v))})
	}
	return out
}

func u64p(v uint64) *uint64 { return &v }

func uintItems(vs ...uint64) []*refrlp.Item {
	out := []*refrlp.Item{}
	for _, v := range vs {
		out = append(out, refrlp.Uint(v))
	}
	return out
}

func buildKinds() {
	if kinds != nil {
		return
	}
	add := func(k *kind) {
		if kindIdx[k.name] != nil {
			panic("duplicate kind " + k.name)
		}
		kinds = append(kinds, k)
		kindIdx[k.name] = k
	}
	add(&kind{name: "u8", typ: reflect.TypeOf(uint8(0)), vals: uintVals(reflect.TypeOf(uint8(0)), 0, 1, 127, 128, 255)})
	add(&kind{name: "u16", typ: reflect.TypeOf(uint16(0)), vals: uintVals(reflect.TypeOf(uint16(0)), 0, 1, 127, 128, 255, 256, 65535)})
	add(&kind{name: "u32", typ: reflect.TypeOf(uint32(0)), vals: uintVals(reflect.TypeOf(uint32(0)), 0, 1, 127, 128, 255, 256, 65536, 1<<32-1)})
	add(&kind{name: "u64", typ: reflect.TypeOf(uint64(0)), vals: uintVals(reflect.TypeOf(uint64(0)), 0, 1, 127, 128, 255, 256, 1<<32, 1<<64-1,
		// one value of every byte width whose bytes all differ (a byte taken from the wrong position shows)
		0x0102, 0x010203, 0x01020304, 0x0102030405, 0x010203040506, 0x01020304050607, 0x0102030405060708)})
	add(&kind{name: "uint", typ: reflect.TypeOf(uint(0)), vals: uintVals(reflect.TypeOf(uint(0)), 0, 1, 128, 1<<64-1)})

	bigs := []string{"0", "1", "127", "128", "0x10000000000000000", "0x10000000000000000000000000000000000000000000000000000000000000000"}
	{
		k := &kind{name: "bigptr", typ: reflect.TypeOf((*big.Int)(nil))}
		for _, s := range bigs {
			k.vals = append(k.vals, tval{label: s, v: bigOf(s), items: one(refrlp.BigBytes(bigOf(s).Bytes()))})
		}
		k.vals = append(k.vals, tval{label: "nil", v: (*big.Int)(nil), want: big.NewInt(0), hasWant: true, items: one(refrlp.Uint(0))})
		add(k)
		kv := &kind{name: "big", typ: reflect.TypeOf(big.Int{})}
		for _, s := range bigs[:5] {
			kv.vals = append(kv.vals, tval{label: s, v: *bigOf(s), items: one(refrlp.BigBytes(bigOf(s).Bytes()))})
		}
		add(kv)
		// rlp:"nil" on *big.Int: the big.Int decoder wins over the pointer decoder; 0x80 is zero.
		kn := &kind{name: "bignil", typ: reflect.TypeOf((*big.Int)(nil)), tag: "nil"}
		for _, s := range bigs[:5] {
			kn.vals = append(kn.vals, tval{label: s, v: bigOf(s), items: one(refrlp.BigBytes(bigOf(s).Bytes()))})
		}
		kn.vals = append(kn.vals, tval{label: "nil", v: (*big.Int)(nil), want: big.NewInt(0), hasWant: true, items: one(refrlp.Uint(0))})
		add(kn)
	}
	add(&kind{name: "bool", typ: reflect.TypeOf(false), vals: []tval{
		{label: "false", v: false, items: one(refrlp.Uint(0))}, {label: "true", v: true, items: one(refrlp.Uint(1))}}})

	strs := [][]byte{{}, {0}, {1}, {0x7f}, {0x80}, []byte("ab"), rep('a', 55), rep('a', 56)}
	{
		ks := &kind{name: "string", typ: reflect.TypeOf("")}
		kb := &kind{name: "bytes", typ: reflect.TypeOf([]byte{})}
		for _, s := range strs {
			ks.vals = append(ks.vals, tval{label: hx(s), v: string(s), items: one(refrlp.Str(s))})
			kb.vals = append(kb.vals, tval{label: hx(s), v: append([]byte{}, s...), items: one(refrlp.Str(s))})
		}
		kb.vals = append(kb.vals, tval{label: "nil", v: []byte(nil), items: one(refrlp.Str(nil))})
		add(ks)
		add(kb)
	}
	add(&kind{name: "b0", typ: reflect.TypeOf([0]byte{}), vals: []tval{{label: "-", v: [0]byte{}, items: one(refrlp.Str(nil))}}})
	{
		k := &kind{name: "b1", typ: reflect.TypeOf([1]byte{})}
		kp := &kind{name: "b1ptr", typ: reflect.TypeOf((*[1]byte)(nil))}
		kn := &kind{name: "b1nil", typ: reflect.TypeOf((*[1]byte)(nil)), tag: "nil"}
		for _, b := range []byte{0x00, 0x01, 0x7f, 0x80, 0xff} {
			a := [1]byte{b}
			a2 := a
			a3 := a
			k.vals = append(k.vals, tval{label: hx(a[:]), v: a, items: one(refrlp.Str(a[:]))})
			kp.vals = append(kp.vals, tval{label: hx(a[:]), v: &a2, items: one(refrlp.Str(a[:]))})
			kn.vals = append(kn.vals, tval{label: hx(a[:]), v: &a3, items: one(refrlp.Str(a[:]))})
		}
		kn.vals = append(kn.vals, tval{label: "nil", v: (*[1]byte)(nil), items: one(refrlp.Str(nil))})
		add(k)
		add(kp)
		add(kn)
	}
	{
		k := &kind{name: "b2", typ: reflect.TypeOf([2]byte{})}
		for _, a := range [][2]byte{{0, 0}, {0x7f, 1}, {0x80, 0}} {
			k.vals = append(k.vals, tval{label: hx(a[:]), v: a, items: one(refrlp.Str(a[:]))})
		}
		add(k)
		k32 := &kind{name: "b32", typ: reflect.TypeOf([32]byte{})}
		k20n := &kind{name: "b20nil", typ: reflect.TypeOf((*[20]byte)(nil)), tag: "nil"}
		for _, f := range []byte{0x00, 0x7f, 0x80} {
			var a [32]byte
			var c [20]byte
			for i := range a {
				a[i] = byte(i)
			}
			for i := range c {
				c[i] = byte(0xa0 + i)
			}
			a[0], c[0] = f, f
			k32.vals = append(k32.vals, tval{label: fmt.Sprintf("%02x..", f), v: a, items: one(refrlp.Str(a[:]))})
			cc := c
			k20n.vals = append(k20n.vals, tval{label: fmt.Sprintf("%02x..", f), v: &cc, items: one(refrlp.Str(c[:]))})
		}
		k20n.vals = append(k20n.vals, tval{label: "nil", v: (*[20]byte)(nil), items: one(refrlp.Str(nil))})
		add(k32)
		add(k20n)
	}
	add(&kind{name: "u64s", typ: reflect.TypeOf([]uint64{}), vals: []tval{
		{label: "nil", v: []uint64(nil), items: one(refrlp.List())},
		{label: "0", v: []uint64{0}, items: one(refrlp.List(uintItems(0)...))},
		{label: "1,128", v: []uint64{1, 128}, items: one(refrlp.List(uintItems(1, 128)...))},
		{label: "0,0,0,0,0", v: []uint64{0, 0, 0, 0, 0}, items: one(refrlp.List(uintItems(0, 0, 0, 0, 0)...))},
	}})
	add(&kind{name: "u16a2", typ: reflect.TypeOf([2]uint16{}), vals: []tval{
		{label: "0,0", v: [2]uint16{0, 0}, items: one(refrlp.List(uintItems(0, 0)...))},
		{label: "1,256", v: [2]uint16{1, 256}, items: one(refrlp.List(uintItems(1, 256)...))},
	}})
	add(&kind{name: "bytess", typ: reflect.TypeOf([][]byte{}), vals: []tval{
		{label: "empty", v: [][]byte{}, items: one(refrlp.List())},
		{label: "[80]", v: [][]byte{{}}, items: one(refrlp.List(refrlp.Str(nil)))},
		{label: "[00,8180]", v: [][]byte{{0}, {0x80}}, items: one(refrlp.List(refrlp.Str([]byte{0}), refrlp.Str([]byte{0x80})))},
	}})
	add(&kind{name: "b1s", typ: reflect.TypeOf([][1]byte{}), vals: []tval{
		{label: "empty", v: [][1]byte{}, items: one(refrlp.List())},
		{label: "[01]", v: [][1]byte{{1}}, items: one(refrlp.List(refrlp.Str([]byte{1})))},
		{label: "[01,80]", v: [][1]byte{{1}, {0x80}}, items: one(refrlp.List(refrlp.Str([]byte{1}), refrlp.Str([]byte{0x80})))},
		{label: "[00]", v: [][1]byte{{0}}, items: one(refrlp.List(refrlp.Str([]byte{0})))},
		{label: "[00,01]", v: [][1]byte{{0}, {1}}, items: one(refrlp.List(refrlp.Str([]byte{0}), refrlp.Str([]byte{1})))},
	}})
	add(&kind{name: "u64ptr", typ: reflect.TypeOf((*uint64)(nil)), vals: []tval{
		{label: "&0", v: u64p(0), items: one(refrlp.Uint(0))},
		{label: "&1", v: u64p(1), items: one(refrlp.Uint(1))},
		{label: "&128", v: u64p(128), items: one(refrlp.Uint(128))},
		{label: "nil", v: (*uint64)(nil), want: u64p(0), hasWant: true, items: one(refrlp.Uint(0))},
	}})
	innerItem := func(x uint64, y []byte) *refrlp.Item { return refrlp.List(refrlp.Uint(x), refrlp.Str(y)) }
	add(&kind{name: "inner", typ: reflect.TypeOf(inner{}), vals: []tval{
		{label: "0,-", v: inner{}, items: one(innerItem(0, nil))},
		{label: "1,00", v: inner{1, []byte{0}}, items: one(innerItem(1, []byte{0}))},
		{label: "128,56B", v: inner{128, rep(0x80, 56)}, items: one(innerItem(128, rep(0x80, 56)))},
	}})
	add(&kind{name: "innerptr", typ: reflect.TypeOf((*inner)(nil)), vals: []tval{
		{label: "&0,-", v: &inner{}, items: one(innerItem(0, nil))},
		{label: "&5,78", v: &inner{5, []byte("x")}, items: one(innerItem(5, []byte("x")))},
	}})
	add(&kind{name: "u64nil", typ: reflect.TypeOf((*uint64)(nil)), tag: "nil", vals: []tval{
		{label: "nil", v: (*uint64)(nil), items: one(refrlp.Uint(0))},
		{label: "&1", v: u64p(1), items: one(refrlp.Uint(1))},
		{label: "&128", v: u64p(128), items: one(refrlp.Uint(128))},
		{label: "&0", v: u64p(0), want: (*uint64)(nil), hasWant: true, items: one(refrlp.Uint(0))},
	}})
	add(&kind{name: "innernil", typ: reflect.TypeOf((*inner)(nil)), tag: "nil", vals: []tval{
		{label: "nil", v: (*inner)(nil), items: one(refrlp.List())},
		{label: "&0,-", v: &inner{}, items: one(innerItem(0, nil))},
		{label: "&5,78", v: &inner{5, []byte("x")}, items: one(innerItem(5, []byte("x")))},
	}})
	add(&kind{name: "u64snil", typ: reflect.TypeOf((*[]uint64)(nil)), tag: "nil", vals: []tval{
		{label: "nil", v: (*[]uint64)(nil), items: one(refrlp.List())},
		{label: "&[1]", v: &[]uint64{1}, items: one(refrlp.List(uintItems(1)...))},
		{label: "&[]", v: &[]uint64{}, want: (*[]uint64)(nil), hasWant: true, items: one(refrlp.List())},
	}})
	add(&kind{name: "bytesnil", typ: reflect.TypeOf((*[]byte)(nil)), tag: "nil", vals: []tval{
		{label: "nil", v: (*[]byte)(nil), items: one(refrlp.Str(nil))},
		{label: "&01", v: &[]byte{1}, items: one(refrlp.Str([]byte{1}))},
		{label: "&8001", v: &[]byte{0x80, 1}, items: one(refrlp.Str([]byte{0x80, 1}))},
		{label: "&-", v: &[]byte{}, want: (*[]byte)(nil), hasWant: true, items: one(refrlp.Str(nil))},
	}})
	add(&kind{name: "ignoremid", typ: reflect.TypeOf(ignoreMid{}), vals: []tval{
		{label: "0,0", v: ignoreMid{}, items: one(refrlp.List(uintItems(0, 0)...))},
		{label: "1,2", v: ignoreMid{X: 1, Y: 2}, items: one(refrlp.List(uintItems(1, 2)...))},
		{label: "1,(9),2", v: ignoreMid{X: 1, I: 9, Y: 2}, want: ignoreMid{X: 1, Y: 2}, hasWant: true, items: one(refrlp.List(uintItems(1, 2)...))},
	}})
	add(&kind{name: "tailstruct", typ: reflect.TypeOf(tailStruct{}), vals: []tval{
		{label: "1;", v: tailStruct{X: 1}, items: one(refrlp.List(uintItems(1)...))},
		{label: "1;2,3", v: tailStruct{1, []uint64{2, 3}}, items: one(refrlp.List(uintItems(1, 2, 3)...))},
		{label: "0;0", v: tailStruct{0, []uint64{0}}, items: one(refrlp.List(uintItems(0, 0)...))},
	}})
	{
		k := &kind{name: "raw", typ: reflect.TypeOf(rlp.RawValue{}), hasRaw: true}
		long := refrlp.Str(rep(0xee, 56))
		for _, it := range []*refrlp.Item{refrlp.Str(nil), refrlp.Str([]byte{1}), refrlp.Str([]byte{0}), refrlp.List(), refrlp.List(uintItems(1, 2)...), refrlp.Str([]byte("abc")), long} {
			enc := refrlp.Encode(it)
			k.vals = append(k.vals, tval{label: hx(enc), v: rlp.RawValue(enc), items: one(it)})
		}
		add(k)
	}
	add(&kind{name: "iface", typ: reflect.TypeOf((*interface{})(nil)).Elem(), vals: []tval{
		{label: "80", v: []byte{}, items: one(refrlp.Str(nil))},
		{label: "01", v: []byte{1}, items: one(refrlp.Str([]byte{1}))},
		{label: "00", v: []byte{0}, items: one(refrlp.Str([]byte{0}))},
		{label: "8180", v: []byte{0x80}, items: one(refrlp.Str([]byte{0x80}))},
		{label: "c0", v: []interface{}{}, items: one(refrlp.List())},
		{label: "c201c0", v: []interface{}{[]byte{1}, []interface{}{}}, items: one(refrlp.List(refrlp.Str([]byte{1}), refrlp.List()))},
		{label: "nil", v: nil, want: []interface{}{}, hasWant: true, items: one(refrlp.List())},
	}})
	pieceItem := func(v uint64, s []byte) *refrlp.Item { return refrlp.List(refrlp.Uint(v), refrlp.Str(s)) }
	add(&kind{name: "custpiece", typ: reflect.TypeOf(custPiece{}), vals: []tval{
		{label: "0,-", v: custPiece{}, items: one(pieceItem(0, nil))},
		{label: "1,00", v: custPiece{1, []byte{0}}, items: one(pieceItem(1, []byte{0}))},
		{label: "max,8001", v: custPiece{0xffffffff, []byte{0x80, 1}}, items: one(pieceItem(0xffffffff, []byte{0x80, 1}))},
	}})
	add(&kind{name: "custpieceptr", typ: reflect.TypeOf((*custPiece)(nil)), vals: []tval{
		{label: "&0,-", v: &custPiece{}, items: one(pieceItem(0, nil))},
		{label: "&7,7f", v: &custPiece{7, []byte{0x7f}}, items: one(pieceItem(7, []byte{0x7f}))},
	}})
	{
		var h [32]byte
		for i := range h {
			h[i] = byte(0x10 + i)
		}
		h0 := h
		h0[0] = 0
		add(&kind{name: "custkind", typ: reflect.TypeOf(custKind{}), vals: []tval{
			{label: "num0", v: custKind{}, items: one(refrlp.Uint(0))},
			{label: "num1", v: custKind{Num: 1}, items: one(refrlp.Uint(1))},
			{label: "num2^32", v: custKind{Num: 1 << 32}, items: one(refrlp.Uint(1 << 32))},
			{label: "hash", v: custKind{Hash: h}, items: one(refrlp.Str(h[:]))},
			{label: "hash00", v: custKind{Hash: h0}, items: one(refrlp.Str(h0[:]))},
		}})
	}
	add(&kind{name: "custval", typ: reflect.TypeOf(custVal{}), vals: []tval{
		{label: "0,0", v: custVal{}, items: one(refrlp.Uint(0))},
		{label: "0,1", v: custVal{0, 1}, items: one(refrlp.Uint(1))},
		{label: "1,0", v: custVal{1, 0}, items: one(refrlp.Uint(1 << 16))},
	}})
	// field-only kinds
	add(&kind{name: "ignored", typ: reflect.TypeOf(uint64(0)), tag: "-", vals: []tval{
		{label: "0", v: uint64(0), items: []*refrlp.Item{}},
		{label: "(9)", v: uint64(9), want: uint64(0), hasWant: true, items: []*refrlp.Item{}},
	}})
	add(&kind{name: "tail", typ: reflect.TypeOf([]uint64{}), tag: "tail", lastOnly: true, vals: []tval{
		{label: "-", v: []uint64(nil), items: []*refrlp.Item{}},
		{label: "1", v: []uint64{1}, items: uintItems(1)},
		{label: "0,128", v: []uint64{0, 128}, items: uintItems(0, 128)},
	}})
	add(&kind{name: "tailraw", typ: reflect.TypeOf([]rlp.RawValue{}), tag: "tail", lastOnly: true, hasRaw: true, vals: []tval{
		{label: "-", v: []rlp.RawValue(nil), items: []*refrlp.Item{}},
		{label: "01", v: []rlp.RawValue{{0x01}}, items: uintItems(1)},
		{label: "c0,80", v: []rlp.RawValue{{0xc0}, {0x80}}, items: []*refrlp.Item{refrlp.List(), refrlp.Str(nil)}},
	}})
}

// ---- equality modulo nil/empty slices --------------------------------------------------------------------

var bigIntType = reflect.TypeOf(big.Int{})

func eqVal(a, b reflect.Value) bool {
	if a.Type() != b.Type() {
		return false
	}
	if a.Type() == bigIntType {
		x, y := a, b
		if !x.CanAddr() {
			x = reflect.New(bigIntType).Elem()
			x.Set(a)
		}
		if !y.CanAddr() {
			y = reflect.New(bigIntType).Elem()
			y.Set(b)
		}
		return x.Addr().Interface().(*big.Int).Cmp(y.Addr().Interface().(*big.Int)) == 0
	}
	switch a.Kind() {
	case reflect.Ptr:
		if a.IsNil() || b.IsNil() {
			return a.IsNil() == b.IsNil()
		}
		return eqVal(a.Elem(), b.Elem())
	case reflect.Interface:
		if a.IsNil() || b.IsNil() {
			return a.IsNil() == b.IsNil()
		}
		return eqVal(a.Elem(), b.Elem())
	case reflect.Slice:
		if a.Len() != b.Len() {
			return false
		}
		for i := 0; i < a.Len(); i++ {
			if !eqVal(a.Index(i), b.Index(i)) {
				return false
			}
		}
		return true
	case reflect.Array:
		for i := 0; i < a.Len(); i++ {
			if !eqVal(a.Index(i), b.Index(i)) {
				return false
			}
		}
		return true
	case reflect.Struct:
		for i := 0; i < a.NumField(); i++ {
			if !eqVal(a.Field(i), b.Field(i)) {
				return false
			}
		}
		return true
	case reflect.Bool:
		return a.Bool() == b.Bool()
	case reflect.String:
		return a.String() == b.String()
	case reflect.Uint, reflect.Uint8, reflect.Uint16, reflect.Uint32, reflect.Uint64, reflect.Uintptr:
		return a.Uint() == b.Uint()
	}
	panic("eqVal: unsupported kind " + a.Kind().String())
}

// deepCopyInto sets dst (settable) to a deep copy of v (may be an untyped nil for interfaces).
func setField(dst reflect.Value, v interface{}) {
	if v == nil {
		dst.Set(reflect.Zero(dst.Type()))
		return
	}
	dst.Set(deepCopy(reflect.ValueOf(v)))
}

func deepCopy(v reflect.Value) reflect.Value {
	switch v.Kind() {
	case reflect.Ptr:
		if v.IsNil() {
			return v
		}
		n := reflect.New(v.Type().Elem())
		n.Elem().Set(deepCopy(v.Elem()))
		return n
	case reflect.Slice:
		if v.IsNil() {
			return v
		}
		n := reflect.MakeSlice(v.Type(), v.Len(), v.Len())
		for i := 0; i < v.Len(); i++ {
			n.Index(i).Set(deepCopy(v.Index(i)))
		}
		return n
	case reflect.Interface:
		if v.IsNil() {
			return v
		}
		n := reflect.New(v.Type()).Elem()
		n.Set(deepCopy(v.Elem()))
		return n
	case reflect.Struct:
		if v.Type() == bigIntType {
			n := reflect.New(bigIntType)
			src := reflect.New(bigIntType)
			src.Elem().Set(v)
			n.Interface().(*big.Int).Set(src.Interface().(*big.Int))
			return n.Elem()
		}
		n := reflect.New(v.Type()).Elem()
		for i := 0; i < v.NumField(); i++ {
			n.Field(i).Set(deepCopy(v.Field(i)))
		}
		return n
	case reflect.Array:
		n := reflect.New(v.Type()).Elem()
		for i := 0; i < v.Len(); i++ {
			n.Index(i).Set(deepCopy(v.Index(i)))
		}
		return n
	}
	return v
}

// ---- typed cases -------------------------------------------------------------------------------------------

// A typedCase is one value of one composite type built from (kind,value) picks.
//
//	form "top"    one pick, the value itself is the top-level value
//	form "s2"     struct{A;B}
//	form "s3"     struct{A;B;Z uint64} with Z = 0x55 (sentinel: detects a desynchronised stream)
//	form "slice"  []K{a,b}       (both picks from the same kind)
//	form "array"  [2]K{a,b}
type typedCase struct {
	form  string
	picks []pick
}

type pick struct {
	k *kind
	i int
}

func (tc *typedCase) spec() string {
	parts := []string{tc.form}
	for _, p := range tc.picks {
		parts = append(parts, fmt.Sprintf("%s#%d", p.k.name, p.i))
	}
	return strings.Join(parts, "|")
}

func parseTypedSpec(s string) *typedCase {
	parts := strings.Split(s, "|")
	if len(parts) < 2 {
		return nil
	}
	tc := &typedCase{form: parts[0]}
	for _, p := range parts[1:] {
		kv := strings.Split(p, "#")
		if len(kv) != 2 || kindIdx[kv[0]] == nil {
			return nil
		}
		i, err := strconv.Atoi(kv[1])
		if err != nil || i < 0 || i >= len(kindIdx[kv[0]].vals) {
			return nil
		}
		tc.picks = append(tc.picks, pick{kindIdx[kv[0]], i})
	}
	return tc
}

var (
	structCache   = map[string]reflect.Type{}
	structCacheMu sync.Mutex
)

func structOf(ks []*kind, sentinel bool) reflect.Type {
	key := ""
	for _, k := range ks {
		key += k.name + ","
	}
	if sentinel {
		key += "Z"
	}
	structCacheMu.Lock()
	defer structCacheMu.Unlock()
	if t, ok := structCache[key]; ok {
		return t
	}
	var fs []reflect.StructField
	for i, k := range ks {
		f := reflect.StructField{Name: string(rune('A' + i)), Type: k.typ}
		if k.tag != "" {
			f.Tag = reflect.StructTag(`rlp:"` + k.tag + `"`)
		}
		fs = append(fs, f)
	}
	if sentinel {
		fs = append(fs, reflect.StructField{Name: "Z", Type: reflect.TypeOf(uint64(0))})
	}
	t := reflect.StructOf(fs)
	structCache[key] = t
	return t
}

const sentinelValue = 0x55

// build returns (pointer to the value to encode, pointer to the expected decoded value, model item).
func (tc *typedCase) build() (val, want reflect.Value, model *refrlp.Item, typ reflect.Type) {
	tv := func(p pick) tval { return p.k.vals[p.i] }
	wantOf := func(t tval) interface{} {
		if t.hasWant {
			return t.want
		}
		return t.v
	}
	switch tc.form {
	case "top":
		t := tv(tc.picks[0])
		typ = tc.picks[0].k.typ
		val, want = reflect.New(typ), reflect.New(typ)
		setField(val.Elem(), t.v)
		setField(want.Elem(), wantOf(t))
		model = t.items[0]
	case "s2", "s3":
		ks := []*kind{}
		for _, p := range tc.picks {
			ks = append(ks, p.k)
		}
		typ = structOf(ks, tc.form == "s3")
		val, want = reflect.New(typ), reflect.New(typ)
		model = refrlp.List()
		for i, p := range tc.picks {
			t := tv(p)
			setField(val.Elem().Field(i), t.v)
			setField(want.Elem().Field(i), wantOf(t))
			model.Elems = append(model.Elems, t.items...)
		}
		if tc.form == "s3" {
			val.Elem().Field(len(tc.picks)).SetUint(sentinelValue)
			want.Elem().Field(len(tc.picks)).SetUint(sentinelValue)
			model.Elems = append(model.Elems, refrlp.Uint(sentinelValue))
		}
	case "slice", "array":
		k := tc.picks[0].k
		if tc.form == "slice" {
			typ = reflect.SliceOf(k.typ)
		} else {
			typ = reflect.ArrayOf(len(tc.picks), k.typ)
		}
		val, want = reflect.New(typ), reflect.New(typ)
		if tc.form == "slice" {
			val.Elem().Set(reflect.MakeSlice(typ, len(tc.picks), len(tc.picks)))
			want.Elem().Set(reflect.MakeSlice(typ, len(tc.picks), len(tc.picks)))
		}
		model = refrlp.List()
		for i, p := range tc.picks {
			t := tv(p)
			setField(val.Elem().Index(i), t.v)
			setField(want.Elem().Index(i), wantOf(t))
			model.Elems = append(model.Elems, t.items...)
		}
	default:
		panic("bad form " + tc.form)
	}
	return
}

func (tc *typedCase) caseID() string {
	parts := []string{}
	for i, p := range tc.picks {
		parts = append(parts, fmt.Sprintf("%c=%s:%s", 'A'+i, p.k.name, p.k.vals[p.i].label))
	}
	return strings.Join(parts, "|") + "|" + tc.form
}

func (tc *typedCase) classKey() string {
	parts := []string{"typed", tc.form}
	for _, p := range tc.picks {
		parts = append(parts, p.k.name)
	}
	return strings.Join(parts, "/")
}

// checkTyped runs checkTypedRaw and, for a failing case, reduces the case id to the picks that matter:
// a position is irrelevant when the case keeps failing whatever (benign) value is substituted there.
// One defect then yields a few signatures ("b1:00/s3/A") instead of one per partner value.
func checkTyped(tc *typedCase) outcome {
	o := checkTypedRaw(tc)
	if len(o.viols) == 0 {
		return o
	}
	needed := localise(tc)
	var toks []string
	pos := ""
	for _, i := range needed {
		p := tc.picks[i]
		toks = append(toks, p.k.name+":"+p.k.vals[p.i].label)
		pos += string(rune('A' + i))
	}
	id := strings.Join(toks, "+") + "/" + tc.form + "/" + pos
	for i := range o.viols {
		o.viols[i].Scenario = "typed"
		o.viols[i].CaseID = id
		o.viols[i].Detail["case"] = tc.caseID()
	}
	return o
}

func substitutes(tc *typedCase, i int) []pick {
	var out []pick
	cur := tc.picks[i]
	switch tc.form {
	case "s2", "s3":
		for _, s := range []pick{{kindIdx["u64"], 1}, {kindIdx["bytes"], 5}, {kindIdx["u64s"], 2}} {
			if s != cur {
				out = append(out, s)
			}
		}
	case "slice", "array":
		for j := range cur.k.vals {
			if j != cur.i {
				out = append(out, pick{cur.k, j})
			}
		}
	}
	return out
}

// localise returns the single position whose pick makes the case fail whatever stands at the other
// position (the first such position), or all positions.
func localise(tc *typedCase) []int {
	all := make([]int, len(tc.picks))
	for i := range all {
		all[i] = i
	}
	if len(tc.picks) != 2 {
		return all
	}
	for i := range tc.picks {
		other := 1 - i
		subs := substitutes(tc, other)
		alone := len(subs) > 0
		for _, s := range subs {
			t2 := &typedCase{form: tc.form, picks: append([]pick{}, tc.picks...)}
			t2.picks[other] = s
			if len(checkTypedRaw(t2).viols) == 0 {
				alone = false
				break
			}
		}
		if alone {
			return []int{i}
		}
	}
	return all
}

// checkTypedRaw: encoding = model; decode(encode(v)) = v (three decoder entry points); re-encoding stable.
func checkTypedRaw(tc *typedCase) outcome {
	o := outcome{class: tc.classKey()}
	val, want, model, typ := tc.build()
	bad := func(oracle, what string, extra ...interface{}) {
		d := map[string]interface{}{"kind": "typed", "spec": tc.spec(), "type": typ.String(), "what": what}
		for i := 0; i+1 < len(extra); i += 2 {
			d[extra[i].(string)] = extra[i+1]
		}
		o.viols = append(o.viols, viol{Scenario: "typed-" + tc.form, Oracle: oracle, CaseID: tc.caseID(), Detail: d})
	}
	enc, err, p := encodeGuard(val.Interface())
	if p != nil {
		bad("no-panic", fmt.Sprint("EncodeToBytes panic: ", p))
		return o
	}
	if err != nil {
		bad("encode-supported-value", "EncodeToBytes: "+err.Error())
		return o
	}
	want_ := refrlp.Encode(model)
	if !bytes.Equal(enc, want_) {
		bad("encoder-vs-spec", "encoding differs from the specification model", "encoding", hx(enc), "model", hx(want_))
		return o
	}
	// the value has one encoding whether it is handed over through a pointer (addressable) or by value
	// (an interface-typed value cannot be handed over "by value": the call would see its dynamic content)
	if val.Kind() == reflect.Ptr && !val.IsNil() && val.Elem().Kind() != reflect.Interface {
		byVal, err, p := encodeGuard(val.Elem().Interface())
		switch {
		case p != nil:
			bad("no-panic", fmt.Sprint("EncodeToBytes (by value) panic: ", p))
		case err != nil && strings.Contains(err.Error(), "unadressable value"):
			// documented limit of the package: an Encoder with a pointer receiver cannot be reached through a
			// value that is not addressable
		case err != nil:
			bad("encoder-vs-spec", "EncodeToBytes of the value passed by value: "+err.Error())
		case !bytes.Equal(byVal, enc):
			bad("encoder-vs-spec", "the value passed by value encodes differently from the value passed through a pointer", "encoding", hx(byVal), "through_pointer", hx(enc))
		}
	}
	// also through Encode(io.Writer) and EncodeToReader
	{
		var buf bytes.Buffer
		if err := rlp.Encode(&buf, val.Interface()); err != nil || !bytes.Equal(buf.Bytes(), enc) {
			bad("encoder-vs-spec", "Encode(io.Writer) differs from EncodeToBytes", "encoding", hx(buf.Bytes()))
		}
		size, r, err := rlp.EncodeToReader(val.Interface())
		if err == nil {
			all, _ := io.ReadAll(r)
			if size != len(enc) || !bytes.Equal(all, enc) {
				bad("encoder-vs-spec", "EncodeToReader differs from EncodeToBytes", "encoding", hx(all))
			}
		} else {
			bad("encoder-vs-spec", "EncodeToReader: "+err.Error())
		}
	}
	decoders := []struct {
		name string
		f    func(dst interface{}) error
		f2   func(in []byte, dst interface{}) error // the same API on another input
	}{
		{"DecodeBytes", func(dst interface{}) error { return rlp.DecodeBytes(enc, dst) },
			func(in []byte, dst interface{}) error { return rlp.DecodeBytes(in, dst) }},
		{"Stream.Decode", func(dst interface{}) error { return rlp.NewStream(bytes.NewReader(enc), 0).Decode(dst) },
			func(in []byte, dst interface{}) error { return rlp.NewStream(bytes.NewReader(in), 0).Decode(dst) }},
		{"Decode(bufio)", func(dst interface{}) error {
			return rlp.NewStream(onlyReader{bytes.NewReader(enc)}, uint64(len(enc))).Decode(dst)
		}, func(in []byte, dst interface{}) error {
			return rlp.NewStream(onlyReader{bytes.NewReader(in)}, uint64(len(in))).Decode(dst)
		}},
	}
	for _, dc := range decoders {
		dst := reflect.New(typ)
		err, p := guard(func() error { return dc.f(dst.Interface()) })
		if p != nil {
			bad("no-panic", fmt.Sprint(dc.name, " panic: ", p), "encoding", hx(enc))
			continue
		}
		if err != nil {
			bad("roundtrip", dc.name+" rejects the encoding of a supported value: "+err.Error(), "encoding", hx(enc))
			continue
		}
		if !eqVal(dst.Elem(), want.Elem()) {
			bad("roundtrip-value", dc.name+fmt.Sprintf(" returned %+v, want %+v", dst.Elem().Interface(), want.Elem().Interface()), "encoding", hx(enc))
			continue
		}
		re, err, p := encodeGuard(dst.Interface())
		if p != nil || err != nil || !bytes.Equal(re, enc) {
			bad("canonical-reencode", dc.name+fmt.Sprintf(": re-encoding %s err=%v panic=%v", hx(re), err, p), "encoding", hx(enc))
			continue
		}
		// a destination that already holds a value: decoding the encoding of the type's zero value into it
		// yields that value (what was there before does not shine through)
		// (not for the harness's own Decoder type: what its DecodeRLP leaves of a previous value is its business)
		if dst.Kind() == reflect.Ptr && dst.Elem().Kind() != reflect.Interface && !strings.Contains(tc.spec(), "custkind") {
			zero := reflect.New(dst.Elem().Type())
			encZero, zerr, zp := encodeGuard(zero.Interface())
			if zerr == nil && zp == nil && !bytes.Equal(encZero, enc) {
				if err, p := guard(func() error { return dc.f2(encZero, dst.Interface()) }); p != nil {
					bad("no-panic", fmt.Sprint(dc.name, " into a used destination panic: ", p), "encoding", hx(encZero))
				} else if err == nil {
					if re2, err, p := encodeGuard(dst.Interface()); p == nil && err == nil && !bytes.Equal(re2, encZero) {
						bad("roundtrip-value", dc.name+fmt.Sprintf(": decoding %s into a destination that held the value of %s gives a value that encodes as %s", hx(encZero), hx(enc), hx(re2)), "encoding", hx(encZero))
					}
				}
			}
		}
	}
	return o
}

// ---- typed decoding targets ----------------------------------------------------------------------------------

type target struct {
	name   string
	typ    reflect.Type
	hasRaw bool
	fields []*kind  // for struct targets: the field kinds (used to name the field a difference falls into)
	keys   []string // quarantine keys
	// per-process caches of the worker loop
	quarChecked *worker
	quarantined bool
	seenReject  bool
}

// diffField names the field of a struct target in which the re-encoding first differs from the input.
func (tg *target) diffField(in, out []byte) string {
	if tg.fields == nil {
		return ""
	}
	off := 0
	for off < len(in) && off < len(out) && in[off] == out[off] {
		off++
	}
	h, err := refrlp.ParseHead(out)
	if err != nil || !h.IsList || uint64(off) < h.Off {
		return "/field=header"
	}
	// walk the items of the re-encoding; tail fields and ignored fields make the mapping approximate
	pos := int(h.Off)
	idx := 0
	var names []string
	for _, k := range tg.fields {
		if k.tag != "-" {
			names = append(names, k.name)
		}
	}
	for pos < len(out) {
		ih, err := refrlp.ParseHead(out[pos:])
		if err != nil {
			break
		}
		if off < pos+int(ih.Total()) {
			if idx >= len(names) {
				idx = len(names) - 1
			}
			if idx < 0 {
				return "/field=?"
			}
			return "/field=" + names[idx]
		}
		pos += int(ih.Total())
		idx++
	}
	return "/field=?"
}

var (
	targetsOnce sync.Once
	targets     []*target
)

// topTargets: every untagged kind as a top-level value, every tagged kind as the single field of a struct.
func topTargets() []*target {
	targetsOnce.Do(func() {
		for _, k := range kinds {
			if k.tag == "" {
				targets = append(targets, &target{name: k.name, typ: k.typ, hasRaw: k.hasRaw, keys: []string{"target:" + k.name}})
			} else {
				targets = append(targets, &target{name: "struct{" + k.name + "}", typ: structOf([]*kind{k}, false), hasRaw: k.hasRaw, fields: []*kind{k}, keys: []string{"target:" + k.name}})
			}
		}
	})
	return targets
}

func findTarget(name string) *target {
	for _, t := range topTargets() {
		if t.name == name {
			return t
		}
	}
	if strings.HasPrefix(name, "pair{") && strings.HasSuffix(name, "}") {
		ks := strings.Split(name[5:len(name)-1], ",")
		if len(ks) == 2 && kindIdx[ks[0]] != nil && kindIdx[ks[1]] != nil {
			return pairTarget(kindIdx[ks[0]], kindIdx[ks[1]])
		}
	}
	return nil
}

func pairTarget(a, b *kind) *target {
	keys := []string{"pairkind:" + a.name}
	if b != a {
		keys = append(keys, "pairkind:"+b.name)
	}
	return &target{keys: keys, name: "pair{" + a.name + "," + b.name + "}", typ: structOf([]*kind{a, b}, false), hasRaw: a.hasRaw || b.hasRaw, fields: []*kind{a, b}}
}

// checkTarget: decoding b into the target fails, or the decoded value re-encodes to exactly b.
func checkTarget(scenario string, tg *target, b []byte, refErr error, stream bool) outcome {
	var o outcome
	bad := func(oracle, caseID, what string, extra ...interface{}) {
		d := map[string]interface{}{"kind": "target", "target": tg.name, "type": tg.typ.String(), "input": hex.EncodeToString(b), "what": what, "stream": stream}
		for i := 0; i+1 < len(extra); i += 2 {
			d[extra[i].(string)] = extra[i+1]
		}
		o.viols = append(o.viols, viol{Scenario: scenario, Oracle: oracle, CaseID: caseID, Detail: d})
	}
	reencode := func(api string, pv reflect.Value, in []byte, invalid error) {
		out, eerr, p := encodeGuard(pv.Interface())
		switch {
		case p != nil:
			bad("no-panic", "target="+tg.name, fmt.Sprint("EncodeToBytes panic after ", api, ": ", p))
		case eerr != nil:
			bad("canonical-reencode", "encode-error/target="+tg.name, api+": decoded value cannot be encoded: "+eerr.Error())
		case !bytes.Equal(out, in):
			id := diffClass(in, out) + tg.diffField(in, out)
			if tg.fields == nil || strings.HasSuffix(id, "field=header") || strings.HasSuffix(id, "field=?") {
				id += "/target=" + tg.name
			}
			bad("canonical-reencode", id, api+": accepted input is not the encoding of the decoded value", "reencoded", hx(out), "consumed", hx(in))
		case invalid != nil && !tg.hasRaw:
			bad("accept-reject", "invalid-rlp-accepted/target="+tg.name+"/ref="+refReason(invalid), api+": input is not canonical RLP")
		}
	}
	o.class = "target/" + tg.name + "/reject"
	pv := reflect.New(tg.typ)
	err, p := guard(func() error { return rlp.DecodeBytes(b, pv.Interface()) })
	if p != nil {
		bad("no-panic", "target="+tg.name, fmt.Sprint("DecodeBytes panic: ", p))
		return o
	}
	if err == nil {
		o.class = "target/" + tg.name + "/accept"
		reencode("DecodeBytes", pv, b, refErr)
	}
	if !stream {
		return o
	}
	// Stream.Decode: the first value only; what it consumed must be the encoding of what it returned
	r := bytes.NewReader(b)
	pv2 := reflect.New(tg.typ)
	serr, p := guard(func() error { return rlp.NewStream(r, 0).Decode(pv2.Interface()) })
	if p != nil {
		bad("no-panic", "target="+tg.name, fmt.Sprint("Stream.Decode panic: ", p))
		return o
	}
	if serr == nil {
		if err != nil {
			o.class = "target/" + tg.name + "/accept-first-value"
		}
		consumed := b[:len(b)-r.Len()]
		_, rest, ferr := refrlp.DecodeFirst(b)
		if ferr == nil && len(rest) != r.Len() && !tg.hasRaw {
			bad("decoded-tree", "stream-extent/target="+tg.name, fmt.Sprintf("Stream.Decode consumed %d bytes, the first value has %d", len(consumed), len(b)-len(rest)))
		} else {
			reencode("Stream.Decode", pv2, consumed, ferr)
		}
	} else if err == nil {
		bad("accept-reject", "stream-rejects-what-DecodeBytes-accepts/target="+tg.name, "Stream.Decode: "+serr.Error())
	}
	return o
}
