package c11

import (
	"bytes"
	"encoding/hex"
	"fmt"
	"math/big"
	"reflect"
	"sync"

	"gitlab.com/aquachain/aquachain/common"
	"gitlab.com/aquachain/aquachain/core/state"
	"gitlab.com/aquachain/aquachain/core/types"
	"gitlab.com/aquachain/aquachain/rlp"
	"gitlab.com/aquachain/aquachain/zzverif/ev"
	"gitlab.com/aquachain/aquachain/zzverif/ref/refrlp"
)

// ---- consensus types ---------------------------------------------------------------------------------

type ctype struct {
	name  string
	fresh func() interface{}
}

var ctypes = []*ctype{
	{"Header", func() interface{} { return new(types.Header) }},
	{"Transaction", func() interface{} { return new(types.Transaction) }},
	{"Block", func() interface{} { return new(types.Block) }},
	{"Body", func() interface{} { return new(types.Body) }},
	{"Receipt", func() interface{} { return new(types.Receipt) }},
	{"ReceiptForStorage", func() interface{} { return new(types.ReceiptForStorage) }},
	{"Log", func() interface{} { return new(types.Log) }},
	{"LogForStorage", func() interface{} { return new(types.LogForStorage) }},
	{"Account", func() interface{} { return new(state.Account) }},
}

func findConsensusType(name string) *ctype {
	for _, c := range ctypes {
		if c.name == name {
			return c
		}
	}
	return nil
}

// a base artefact: a value of a consensus type, the model of its encoding and a comparison of a decoded
// value against the lattice fields it was built from.
type cbase struct {
	ct    *ctype
	label string
	value interface{}  // value to encode (nil: only the model bytes exist, e.g. signed transactions)
	model *refrlp.Item // specification model of the encoding
	same  func(decoded interface{}) string
	enc   []byte
}

// ---- field lattices and models -------------------------------------------------------------------------

func pat(n int, first, fill byte) []byte {
	b := make([]byte, n)
	for i := range b {
		b[i] = fill + byte(i)
	}
	b[0] = first
	return b
}

func bigItem(v *big.Int) *refrlp.Item { return refrlp.BigBytes(v.Bytes()) }

var (
	big0    = big.NewInt(0)
	big1    = big.NewInt(1)
	big64   = bigOf("0x10000000000000000")
	big256m = bigOf("0xffffffffffffffffffffffffffffffffffffffffffffffffffffffffffffffff")
)

type hdrFields struct {
	first      byte // first byte of every hash-like field
	bloomFill  byte
	diff, num  *big.Int
	gasLimit   uint64
	gasUsed    uint64
	time       *big.Int
	extra      []byte
	nonceFirst byte
}

func (f hdrFields) build() (*types.Header, *refrlp.Item) {
	h := &types.Header{
		ParentHash:  common.BytesToHash(pat(32, f.first, 0x10)),
		UncleHash:   common.BytesToHash(pat(32, f.first, 0x20)),
		Coinbase:    common.BytesToAddress(pat(20, f.first, 0x30)),
		Root:        common.BytesToHash(pat(32, f.first, 0x40)),
		TxHash:      common.BytesToHash(pat(32, f.first, 0x50)),
		ReceiptHash: common.BytesToHash(pat(32, f.first, 0x60)),
		Difficulty:  new(big.Int).Set(f.diff),
		Number:      new(big.Int).Set(f.num),
		GasLimit:    f.gasLimit,
		GasUsed:     f.gasUsed,
		Time:        new(big.Int).Set(f.time),
		Extra:       append([]byte{}, f.extra...),
		MixDigest:   common.BytesToHash(pat(32, f.first, 0x70)),
	}
	bloom := make([]byte, types.BloomByteLength)
	if f.bloomFill != 0 {
		for i := range bloom {
			bloom[i] = f.bloomFill
		}
		bloom[0] = f.first
	}
	copy(h.Bloom[:], bloom)
	copy(h.Nonce[:], pat(8, f.nonceFirst, 0x80))
	m := refrlp.List(
		refrlp.Str(h.ParentHash[:]), refrlp.Str(h.UncleHash[:]), refrlp.Str(h.Coinbase[:]), refrlp.Str(h.Root[:]),
		refrlp.Str(h.TxHash[:]), refrlp.Str(h.ReceiptHash[:]), refrlp.Str(h.Bloom[:]),
		bigItem(f.diff), bigItem(f.num), refrlp.Uint(f.gasLimit), refrlp.Uint(f.gasUsed), bigItem(f.time),
		refrlp.Str(f.extra), refrlp.Str(h.MixDigest[:]), refrlp.Str(h.Nonce[:]))
	return h, m
}

var (
	hdrMin = hdrFields{first: 0x00, diff: big0, num: big0, time: big0}
	hdrTyp = hdrFields{first: 0x9a, bloomFill: 0x01, diff: big.NewInt(131072), num: big.NewInt(128), gasLimit: 4712388, gasUsed: 21000, time: big.NewInt(1 << 30), extra: []byte("aquachain"), nonceFirst: 0x42}
	hdrMax = hdrFields{first: 0xff, bloomFill: 0xff, diff: big256m, num: big64, gasLimit: 1<<64 - 1, gasUsed: 1<<64 - 1, time: big64, extra: rep(0xaa, 56), nonceFirst: 0xff}
)

func headerLattice(full bool) []hdrFields {
	firsts := []byte{0x00, 0x80}
	blooms := []byte{0x00, 0x5a}
	diffs := []*big.Int{big0, big1, big64, big256m}
	nums := []*big.Int{big0, big1, big.NewInt(128)}
	limits := []uint64{0, 1<<64 - 1}
	useds := []uint64{0, 127, 128}
	times := []*big.Int{big0, big.NewInt(1 << 32)}
	extras := [][]byte{nil, {0}, rep(0xff, 32), rep(0xaa, 56)}
	nonces := []byte{0x00, 0xff}
	var out []hdrFields
	if full {
		for _, a := range firsts {
			for _, b := range blooms {
				for _, c := range diffs {
					for _, d := range nums {
						for _, e := range limits {
							for _, f := range useds {
								for _, g := range times {
									for _, h := range extras {
										for _, i := range nonces {
											out = append(out, hdrFields{a, b, c, d, e, f, g, h, i})
										}
									}
								}
							}
						}
					}
				}
			}
		}
		return out
	}
	// star: the typical header with one field varied at a time, plus the extremes
	out = append(out, hdrMin, hdrTyp, hdrMax)
	for _, v := range diffs {
		x := hdrTyp
		x.diff = v
		out = append(out, x)
	}
	for _, v := range nums {
		x := hdrTyp
		x.num = v
		out = append(out, x)
	}
	for _, v := range useds {
		x := hdrTyp
		x.gasUsed = v
		out = append(out, x)
	}
	for _, v := range extras {
		x := hdrTyp
		x.extra = v
		out = append(out, x)
	}
	for _, v := range firsts {
		x := hdrTyp
		x.first, x.nonceFirst = v, v
		out = append(out, x)
	}
	return out
}

func sameByReencoding(ct *ctype, enc []byte) func(interface{}) string {
	return func(dec interface{}) string {
		re, err := rlp.EncodeToBytes(dec)
		if err != nil {
			return "re-encoding fails: " + err.Error()
		}
		if !bytes.Equal(re, enc) {
			return "re-encoding differs: " + hx(re)
		}
		return ""
	}
}

func headerBase(f hdrFields, label string) *cbase {
	h, m := f.build()
	return &cbase{ct: findConsensusType("Header"), label: label, value: h, model: m, same: func(dec interface{}) string {
		if !eqVal(reflect.ValueOf(dec).Elem(), reflect.ValueOf(h).Elem()) {
			return fmt.Sprintf("decoded header differs: %+v", dec)
		}
		return ""
	}}
}

type txFields struct {
	nonce   uint64
	price   *big.Int
	gas     uint64
	to      []byte // nil: contract creation
	value   *big.Int
	data    []byte
	v, r, s *big.Int
}

func (f txFields) model() *refrlp.Item {
	to := refrlp.Str(nil)
	if f.to != nil {
		to = refrlp.Str(f.to)
	}
	return refrlp.List(refrlp.Uint(f.nonce), bigItem(f.price), refrlp.Uint(f.gas), to, bigItem(f.value), refrlp.Str(f.data),
		bigItem(f.v), bigItem(f.r), bigItem(f.s))
}

func (f txFields) unsigned() *types.Transaction {
	if f.v.Sign() != 0 || f.r.Sign() != 0 || f.s.Sign() != 0 {
		return nil
	}
	if f.to == nil {
		return types.NewContractCreation(f.nonce, f.value, f.gas, f.price, f.data)
	}
	return types.NewTransaction(f.nonce, common.BytesToAddress(f.to), f.value, f.gas, f.price, f.data)
}

func (f txFields) same(dec interface{}) string {
	tx := dec.(*types.Transaction)
	v, r, s := tx.RawSignatureValues()
	switch {
	case tx.Nonce() != f.nonce:
		return "nonce"
	case tx.GasPrice().Cmp(f.price) != 0:
		return "price"
	case tx.Gas() != f.gas:
		return "gas"
	case (tx.To() == nil) != (f.to == nil):
		return "recipient nil-ness"
	case tx.To() != nil && !bytes.Equal(tx.To()[:], f.to):
		return "recipient"
	case tx.Value().Cmp(f.value) != 0:
		return "value"
	case !bytes.Equal(tx.Data(), f.data):
		return "data"
	case v.Cmp(f.v) != 0 || r.Cmp(f.r) != 0 || s.Cmp(f.s) != 0:
		return "signature values"
	}
	return ""
}

func txLattice() []txFields {
	var out []txFields
	sigs := [][3]*big.Int{
		{big0, big0, big0},
		{big.NewInt(27), new(big.Int).SetBytes(pat(32, 0x80, 0x11)), new(big.Int).SetBytes(pat(32, 0x7f, 0x22))},
		{new(big.Int).Add(new(big.Int).Lsh(big1, 63), big.NewInt(36)), new(big.Int).SetBytes(pat(31, 0x01, 0x33)), big1},
	}
	for _, nonce := range []uint64{0, 1, 1<<64 - 1} {
		for _, price := range []*big.Int{big0, big1} {
			for _, to := range [][]byte{nil, pat(20, 0x94, 0xa0), pat(20, 0x00, 0xa0)} {
				for _, value := range []*big.Int{big0, big1, big256m} {
					for _, data := range [][]byte{nil, {0}, rep(0xff, 33), rep(0x60, 56)} {
						for _, sg := range sigs {
							out = append(out, txFields{nonce, price, 21000, to, value, data, sg[0], sg[1], sg[2]})
						}
					}
				}
			}
		}
	}
	return out
}

func txBase(f txFields, label string) *cbase {
	b := &cbase{ct: findConsensusType("Transaction"), label: label, model: f.model(), same: f.same}
	if tx := f.unsigned(); tx != nil {
		b.value = tx
	}
	return b
}

func mustTx(f txFields) *types.Transaction {
	tx := new(types.Transaction)
	if err := rlp.DecodeBytes(refrlp.Encode(f.model()), tx); err != nil {
		// reported by the transaction round trip; use an unsigned stand-in here
		return types.NewContractCreation(f.nonce, f.value, f.gas, f.price, f.data)
	}
	return tx
}

type logFields struct {
	addrFirst byte
	topics    int
	data      []byte
	// storage-only
	blockNumber    uint64
	txIndex, index uint
}

func (f logFields) build() (*types.Log, *refrlp.Item, *refrlp.Item) {
	l := &types.Log{Address: common.BytesToAddress(pat(20, f.addrFirst, 0xb0)), Data: append([]byte{}, f.data...),
		BlockNumber: f.blockNumber, TxHash: common.BytesToHash(pat(32, f.addrFirst, 0xc0)), TxIndex: f.txIndex,
		BlockHash: common.BytesToHash(pat(32, f.addrFirst, 0xd0)), Index: f.index}
	topics := refrlp.List()
	for i := 0; i < f.topics; i++ {
		t := common.BytesToHash(pat(32, byte(i)*0x40, 0xe0))
		l.Topics = append(l.Topics, t)
		topics.Elems = append(topics.Elems, refrlp.Str(t[:]))
	}
	cons := refrlp.List(refrlp.Str(l.Address[:]), topics, refrlp.Str(f.data))
	stor := refrlp.List(refrlp.Str(l.Address[:]), topics, refrlp.Str(f.data), refrlp.Uint(f.blockNumber), refrlp.Str(l.TxHash[:]),
		refrlp.Uint(uint64(f.txIndex)), refrlp.Str(l.BlockHash[:]), refrlp.Uint(uint64(f.index)))
	return l, cons, stor
}

func logLattice() []logFields {
	var out []logFields
	for _, a := range []byte{0x00, 0x80} {
		for _, t := range []int{0, 1, 4} {
			for _, d := range [][]byte{nil, {0}, {0x80}, rep(0x11, 33), rep(0x22, 56)} {
				for _, bn := range []uint64{0, 128} {
					out = append(out, logFields{a, t, d, bn, uint(bn), uint(bn / 64)})
				}
			}
		}
	}
	return out
}

func sameLogConsensus(want *types.Log) func(interface{}) string {
	return func(dec interface{}) string {
		var got *types.Log
		switch x := dec.(type) {
		case *types.Log:
			got = x
		case *types.LogForStorage:
			got = (*types.Log)(x)
			if got.BlockNumber != want.BlockNumber || got.TxHash != want.TxHash || got.TxIndex != want.TxIndex || got.BlockHash != want.BlockHash || got.Index != want.Index {
				return "storage fields differ"
			}
		}
		if got.Address != want.Address || !bytes.Equal(got.Data, want.Data) || len(got.Topics) != len(want.Topics) {
			return "consensus fields differ"
		}
		for i := range got.Topics {
			if got.Topics[i] != want.Topics[i] {
				return "topic differs"
			}
		}
		return ""
	}
}

type rcptFields struct {
	status    int // 0 failed, 1 successful, 2 post state (first byte 00), 3 post state (first byte 80)
	cum       uint64
	bloomFill byte
	logs      []logFields
	gasUsed   uint64
}

func (f rcptFields) build() (*types.Receipt, *refrlp.Item, *refrlp.Item) {
	r := &types.Receipt{CumulativeGasUsed: f.cum, GasUsed: f.gasUsed,
		TxHash: common.BytesToHash(pat(32, 0x00, 0x31)), ContractAddress: common.BytesToAddress(pat(20, 0x80, 0x41))}
	var st []byte
	switch f.status {
	case 0:
		r.Status = types.ReceiptStatusFailed
		st = []byte{}
	case 1:
		r.Status = types.ReceiptStatusSuccessful
		st = []byte{1}
	case 2:
		st = pat(32, 0x00, 0x51)
		r.PostState = st
	case 3:
		st = pat(32, 0x80, 0x51)
		r.PostState = st
	}
	for i := range r.Bloom {
		r.Bloom[i] = f.bloomFill
	}
	cl, sl := refrlp.List(), refrlp.List()
	r.Logs = []*types.Log{}
	for _, lf := range f.logs {
		l, c, s := lf.build()
		r.Logs = append(r.Logs, l)
		cl.Elems = append(cl.Elems, c)
		sl.Elems = append(sl.Elems, s)
	}
	cons := refrlp.List(refrlp.Str(st), refrlp.Uint(f.cum), refrlp.Str(r.Bloom[:]), cl)
	stor := refrlp.List(refrlp.Str(st), refrlp.Uint(f.cum), refrlp.Str(r.Bloom[:]), refrlp.Str(r.TxHash[:]), refrlp.Str(r.ContractAddress[:]), sl, refrlp.Uint(f.gasUsed))
	return r, cons, stor
}

func rcptLattice() []rcptFields {
	ll := logLattice()
	logsets := [][]logFields{nil, {ll[7]}, {ll[0], ll[len(ll)-1]}}
	var out []rcptFields
	for st := 0; st < 4; st++ {
		for _, cum := range []uint64{0, 1, 1<<64 - 1} {
			for _, bf := range []byte{0x00, 0x5a} {
				for _, ls := range logsets {
					out = append(out, rcptFields{st, cum, bf, ls, cum / 2})
				}
			}
		}
	}
	return out
}

func sameReceipt(want *types.Receipt, storage bool) func(interface{}) string {
	return func(dec interface{}) string {
		var got *types.Receipt
		switch x := dec.(type) {
		case *types.Receipt:
			got = x
		case *types.ReceiptForStorage:
			got = (*types.Receipt)(x)
		}
		if !bytes.Equal(got.PostState, want.PostState) || got.Status != want.Status && len(want.PostState) == 0 ||
			got.CumulativeGasUsed != want.CumulativeGasUsed || got.Bloom != want.Bloom || len(got.Logs) != len(want.Logs) {
			return "consensus fields differ"
		}
		for i := range got.Logs {
			var d interface{} = got.Logs[i]
			if storage {
				d = (*types.LogForStorage)(got.Logs[i])
			}
			if s := sameLogConsensus(want.Logs[i])(d); s != "" {
				return "log " + s
			}
		}
		if storage && (got.TxHash != want.TxHash || got.ContractAddress != want.ContractAddress || got.GasUsed != want.GasUsed) {
			return "storage fields differ"
		}
		return ""
	}
}

type acctFields struct {
	nonce    uint64
	balance  *big.Int
	rootByte byte
	codeHash []byte
}

func acctLattice() []acctFields {
	var out []acctFields
	for _, n := range []uint64{0, 1, 1<<64 - 1} {
		for _, b := range []*big.Int{big0, big1, big256m} {
			for _, r := range []byte{0x00, 0x56} {
				for _, c := range [][]byte{nil, pat(32, 0xc5, 0xd2), pat(32, 0x00, 0x01)} {
					out = append(out, acctFields{n, b, r, c})
				}
			}
		}
	}
	return out
}

// ---- building all bases ---------------------------------------------------------------------------------

// lbase is a base artefact that is only built when a unit needs it (workers are restarted often).
type lbase struct {
	ct    *ctype
	label string
	mk    func() *cbase
	b     *cbase
}

func (l *lbase) get() *cbase {
	if l.b == nil {
		l.b = l.mk()
		l.b.ct, l.b.label = l.ct, l.label
		l.b.enc = refrlp.Encode(l.b.model)
	}
	return l.b
}

type cplan struct {
	roundtrip []*lbase // lattice round trips
	mutate    []*lbase // bases whose encodings are truncated and altered
	allocSet  []*lbase
}

var (
	planOnce sync.Once
	plan     *cplan
)

func consensusPlan(thorough bool) *cplan {
	planOnce.Do(func() {
		p := &cplan{}
		lazy := func(typ, label string, mk func() *cbase) *lbase {
			return &lbase{ct: findConsensusType(typ), label: label, mk: mk}
		}
		// headers
		for i, f := range headerLattice(true) {
			p.roundtrip = append(p.roundtrip, lazy("Header", fmt.Sprintf("full#%d", i), func() *cbase { return headerBase(f, "") }))
		}
		star := headerLattice(false)
		for i, f := range star {
			b := lazy("Header", fmt.Sprintf("star#%d", i), func() *cbase { return headerBase(f, "") })
			p.roundtrip = append(p.roundtrip, b)
			if thorough || i < 6 {
				p.mutate = append(p.mutate, b)
			}
			if i < 3 {
				p.allocSet = append(p.allocSet, b)
			}
		}
		// transactions
		txl := txLattice()
		for i, f := range txl {
			b := lazy("Transaction", fmt.Sprintf("tx#%d", i), func() *cbase { return txBase(f, "") })
			p.roundtrip = append(p.roundtrip, b)
			p.mutate = append(p.mutate, b)
			if i%97 == 0 {
				p.allocSet = append(p.allocSet, b)
			}
		}
		// blocks and bodies
		hdrs := []hdrFields{hdrMin, hdrTyp, hdrMax}
		txsets := [][]txFields{nil, {txl[1]}, {txl[len(txl)-1], txl[40]}}
		unclesets := [][]hdrFields{nil, {hdrTyp}, {hdrMax, hdrMin}}
		n := 0
		for _, hf := range hdrs {
			for _, ts := range txsets {
				for _, us := range unclesets {
					parts := func() (h *types.Header, hm *refrlp.Item, txs []*types.Transaction, txm *refrlp.Item, uncles []*types.Header, um *refrlp.Item) {
						h, hm = hf.build()
						txm = refrlp.List()
						for _, tf := range ts {
							txs = append(txs, mustTx(tf))
							txm.Elems = append(txm.Elems, tf.model())
						}
						um = refrlp.List()
						for _, uf := range us {
							u, m := uf.build()
							uncles = append(uncles, u)
							um.Elems = append(um.Elems, m)
						}
						return
					}
					bb := lazy("Block", fmt.Sprintf("block#%d", n), func() *cbase {
						h, hm, txs, txm, uncles, um := parts()
						blk := types.NewBlockWithHeader(h).WithBody(txs, uncles)
						model := refrlp.List(hm, txm, um)
						enc := refrlp.Encode(model)
						c := &cbase{value: blk, model: model}
						c.same = func(dec interface{}) string {
							got := dec.(*types.Block)
							if !eqVal(reflect.ValueOf(got.Header()).Elem(), reflect.ValueOf(h).Elem()) {
								return "header differs"
							}
							if len(got.Transactions()) != len(ts) || len(got.Uncles()) != len(us) {
								return "body length differs"
							}
							for i, tf := range ts {
								if s := tf.same(got.Transactions()[i]); s != "" {
									return "tx " + s
								}
							}
							for i := range us {
								if !eqVal(reflect.ValueOf(got.Uncles()[i]).Elem(), reflect.ValueOf(uncles[i]).Elem()) {
									return "uncle differs"
								}
							}
							return sameByReencoding(nil, enc)(dec)
						}
						return c
					})
					p.roundtrip = append(p.roundtrip, bb)
					p.mutate = append(p.mutate, bb)
					if n%9 == 4 || n == 26 {
						p.allocSet = append(p.allocSet, bb)
					}
					if hf.first == hdrTyp.first {
						bd := lazy("Body", fmt.Sprintf("body#%d", n), func() *cbase {
							_, _, txs, txm, uncles, um := parts()
							bmodel := refrlp.List(txm, um)
							return &cbase{value: &types.Body{Transactions: txs, Uncles: uncles}, model: bmodel, same: sameByReencoding(nil, refrlp.Encode(bmodel))}
						})
						p.roundtrip = append(p.roundtrip, bd)
						p.mutate = append(p.mutate, bd)
					}
					n++
				}
			}
		}
		// logs
		for i, lf := range logLattice() {
			c := lazy("Log", fmt.Sprintf("log#%d", i), func() *cbase {
				l, cm, _ := lf.build()
				return &cbase{value: l, model: cm, same: sameLogConsensus(l)}
			})
			s := lazy("LogForStorage", fmt.Sprintf("slog#%d", i), func() *cbase {
				l, _, sm := lf.build()
				return &cbase{value: (*types.LogForStorage)(l), model: sm, same: sameLogConsensus(l)}
			})
			p.roundtrip = append(p.roundtrip, c, s)
			p.mutate = append(p.mutate, c, s)
			if i%23 == 0 {
				p.allocSet = append(p.allocSet, c, s)
			}
		}
		// receipts
		for i, rf := range rcptLattice() {
			c := lazy("Receipt", fmt.Sprintf("rcpt#%d", i), func() *cbase {
				r, cm, _ := rf.build()
				return &cbase{value: r, model: cm, same: sameReceipt(r, false)}
			})
			s := lazy("ReceiptForStorage", fmt.Sprintf("srcpt#%d", i), func() *cbase {
				r, _, sm := rf.build()
				return &cbase{value: (*types.ReceiptForStorage)(r), model: sm, same: sameReceipt(r, true)}
			})
			p.roundtrip = append(p.roundtrip, c, s)
			if thorough || i%3 == 2 || i < 3 {
				p.mutate = append(p.mutate, c, s)
			}
			if i%29 == 5 {
				p.allocSet = append(p.allocSet, c, s)
			}
		}
		// accounts
		for i, af := range acctLattice() {
			b := lazy("Account", fmt.Sprintf("acct#%d", i), func() *cbase {
				a := &state.Account{Nonce: af.nonce, Balance: new(big.Int).Set(af.balance), Root: common.BytesToHash(pat(32, af.rootByte, 0x61)), CodeHash: af.codeHash}
				m := refrlp.List(refrlp.Uint(af.nonce), bigItem(af.balance), refrlp.Str(a.Root[:]), refrlp.Str(af.codeHash))
				return &cbase{value: a, model: m, same: func(dec interface{}) string {
					if !eqVal(reflect.ValueOf(dec).Elem(), reflect.ValueOf(a).Elem()) {
						return "account differs"
					}
					return ""
				}}
			})
			p.roundtrip = append(p.roundtrip, b)
			p.mutate = append(p.mutate, b)
			if i%17 == 3 {
				p.allocSet = append(p.allocSet, b)
			}
		}
		plan = p
	})
	return plan
}

// ---- checks ------------------------------------------------------------------------------------------------

// checkConsensusRT: the real encoder produces the model bytes; every decoder entry point returns the value.
func checkConsensusRT(b *cbase) outcome {
	o := outcome{class: "consensus/" + b.ct.name + "/roundtrip"}
	bad := func(oracle, what string) {
		o.viols = append(o.viols, viol{Scenario: "consensus-roundtrip", Oracle: oracle, CaseID: b.ct.name + "/" + b.label,
			Detail: map[string]interface{}{"kind": "consensus", "type": b.ct.name, "input": hex.EncodeToString(b.enc), "mutation": "none", "what": what}})
	}
	if b.value != nil {
		enc, err, p := encodeGuard(b.value)
		switch {
		case p != nil:
			bad("no-panic", fmt.Sprint("EncodeToBytes panic: ", p))
		case err != nil:
			bad("encode-supported-value", err.Error())
		case !bytes.Equal(enc, b.enc):
			bad("encoder-vs-spec", "encoding differs from the specification model: "+hx(enc))
		}
	}
	for _, name := range []string{"DecodeBytes", "Stream.Decode"} {
		dst := b.ct.fresh()
		err, p := guard(func() error {
			if name == "DecodeBytes" {
				return rlp.DecodeBytes(b.enc, dst)
			}
			return rlp.NewStream(bytes.NewReader(b.enc), 0).Decode(dst)
		})
		if p != nil {
			bad("no-panic", fmt.Sprint(name, " panic: ", p))
			continue
		}
		if err != nil {
			bad("roundtrip", name+" rejects a valid encoding: "+err.Error())
			continue
		}
		if s := b.same(dst); s != "" {
			bad("roundtrip-value", name+": "+s)
			continue
		}
		re, err, p := encodeGuard(dst)
		if p != nil || err != nil || !bytes.Equal(re, b.enc) {
			bad("canonical-reencode", fmt.Sprintf("%s: re-encoding %s err=%v panic=%v", name, hx(re), err, p))
		}
	}
	return o
}

// checkConsensusBytes: in is a damaged encoding; decoding fails or the decoded value encodes to exactly in.
func checkConsensusBytes(scenario string, ct *ctype, in []byte, mutation string) outcome {
	var o outcome
	if scenario == "consensus-roundtrip" { // replay of a round-trip case
		for _, lb := range consensusPlan(true).roundtrip {
			if lb.ct == ct {
				if b := lb.get(); bytes.Equal(b.enc, in) {
					return checkConsensusRT(b)
				}
			}
		}
		ev.Broken("replay: round-trip base not found")
	}
	bad := func(oracle, caseID, what string) {
		o.viols = append(o.viols, viol{Scenario: scenario, Oracle: oracle, CaseID: caseID,
			Detail: map[string]interface{}{"kind": "consensus", "type": ct.name, "input": hex.EncodeToString(in), "mutation": mutation, "what": what}})
	}
	mclass := mutation
	if i := bytes.IndexByte([]byte(mutation), '@'); i >= 0 {
		mclass = mutation[:i]
	}
	if len(mclass) > 3 && mclass[:3] == "set" {
		mclass = "set"
	}
	dst := ct.fresh()
	err, p := guard(func() error { return rlp.DecodeBytes(in, dst) })
	if p != nil {
		bad("no-panic", ct.name+"/"+mclass, fmt.Sprint("DecodeBytes panic: ", p))
		return o
	}
	if err != nil {
		o.class = "consensus/" + ct.name + "/" + mclass + "/reject:" + errClass(err)
		return o
	}
	o.class = "consensus/" + ct.name + "/" + mclass + "/accept"
	re, eerr, p := encodeGuard(dst)
	switch {
	case p != nil:
		bad("no-panic", ct.name+"/"+mclass, fmt.Sprint("EncodeToBytes panic after decoding: ", p))
	case eerr != nil:
		bad("canonical-reencode", "encode-error/"+ct.name, "decoded value cannot be encoded: "+eerr.Error())
	case !bytes.Equal(re, in):
		bad("canonical-reencode", diffClass(in, re)+"/"+ct.name, "accepted input is not the encoding of the decoded value; re-encoding "+hx(re))
	default:
		if _, rerr := refrlp.Decode(in); rerr != nil {
			bad("accept-reject", "invalid-rlp-accepted/"+ct.name+"/ref="+refReason(rerr), "input is not canonical RLP")
		}
	}
	return o
}

// mutations of one encoding: every truncation, one extension, every single-byte alteration.
func forEachMutation(enc []byte, thorough bool, f func(label string, mk func() []byte)) {
	for i := 0; i < len(enc); i++ {
		f(fmt.Sprintf("trunc@%d", i), func() []byte { return append([]byte{}, enc[:i]...) })
	}
	f("extend@end", func() []byte { return append(append([]byte{}, enc...), 0x80) })
	for i := 0; i < len(enc); i++ {
		if thorough {
			for v := 0; v < 256; v++ {
				if byte(v) == enc[i] {
					continue
				}
				f("set@"+itoa(i)+"="+hexByte(byte(v)), func() []byte {
					m := append([]byte{}, enc...)
					m[i] = byte(v)
					return m
				})
			}
			continue
		}
		for _, mask := range []byte{0x01, 0x40, 0x80} {
			f("xor"+hexByte(mask)+"@"+itoa(i), func() []byte {
				m := append([]byte{}, enc...)
				m[i] ^= mask
				return m
			})
		}
	}
}

func itoa(i int) string { return fmt.Sprint(i) }

func hexByte(b byte) string { return hex.EncodeToString([]byte{b}) }

func consensusCounts(thorough bool) (roundtrip, mutated int) {
	p := consensusPlan(thorough)
	return len(p.roundtrip), len(p.mutate)
}

func consensusAllocCount(thorough bool) int { return len(consensusPlan(thorough).allocSet) }

// consensusAllocUnit: single goroutine; alterations that can turn a byte into a long-form header announcing
// a large size, at every position of a base.
func consensusAllocUnit(w *worker, b *cbase, from int) {
	vals := []byte{0xb9, 0xba, 0xbb, 0xbf, 0xf9, 0xfa, 0xfb, 0xff}
	var batch []allocCase
	ct := b.ct
	k := 0
	flush := func() {
		allocBatch("alloc", batch, w.a, &w.maxAlloc)
		batch = batch[:0]
	}
	add := func(m []byte) {
		k++
		if k-1 < from {
			return
		}
		if len(batch) == 0 || w.careful {
			if !w.begin(k-1, []string{"ctype:" + ct.name}, func() (string, string, map[string]interface{}) {
				return "alloc", "consensus=" + ct.name, map[string]interface{}{"kind": "alloc", "input": hex.EncodeToString(m), "api": "consensus=" + ct.name}
			}) {
				return
			}
		}
		batch = append(batch, allocCase{"consensus=" + ct.name, m, func() { rlp.DecodeBytes(m, ct.fresh()) }})
		if len(batch) >= 8 || w.careful {
			flush()
		}
	}
	add(b.enc)
	for i := 0; i < len(b.enc); i++ {
		for _, mask := range []byte{0x01, 0x40, 0x80} {
			m := append([]byte{}, b.enc...)
			m[i] ^= mask
			add(m)
		}
		for _, v := range vals {
			if b.enc[i] == v {
				continue
			}
			m := append([]byte{}, b.enc...)
			m[i] = v
			add(m)
		}
	}
	flush()
}
