package c13

// Free-running pass under the Go race detector (complement of the E1 exploration, DESIGN.md 9.6):
// VerifyHeaders of the UNINSTRUMENTED engine with 4 workers on real goroutines, several batches
// in flight on one shared engine, with and without the caller's early abort. The functional oracle
// is the deterministic one of the exploration: result i equals the one-by-one verdict for header i.

import (
	"encoding/json"
	"fmt"
	"os"
	"runtime"
	"sync"
	"testing"
	"time"

	"gitlab.com/aquachain/aquachain/consensus/aquahash"
	"gitlab.com/aquachain/aquachain/core/types"
)

func TestRaceFree(t *testing.T) {
	t0 := time.Now()
	runtime.GOMAXPROCS(4)
	all := BatchCases()
	rounds := 3
	if os.Getenv("VERIF_TIER") == "thorough" {
		rounds = 40
	}
	var mu sync.Mutex
	var fails []string
	failf := func(f string, a ...interface{}) {
		mu.Lock()
		if len(fails) < 20 {
			fails = append(fails, fmt.Sprintf(f, a...))
		}
		mu.Unlock()
	}
	engine := aquahash.NewFaker()
	runs := 0
	sem := make(chan struct{}, 6)
	var wg sync.WaitGroup
	for r := 0; r < rounds; r++ {
		for i := range all {
			bc := &all[i]
			if len(bc.Headers) < 2 {
				continue
			}
			want := bc.Sequential(aquahash.NewFaker())
			for _, abortEarly := range []bool{false, true} {
				runs++
				wg.Add(1)
				sem <- struct{}{}
				go func(i int, abortEarly bool) {
					defer func() { <-sem; wg.Done() }()
					headers := make([]*types.Header, len(bc.Headers))
					for k, h := range bc.Headers {
						headers[k] = types.CopyHeader(h)
					}
					abort, results := engine.VerifyHeaders(bc.Reader(), headers, bc.Seals)
					n := 0
					for ; n < len(headers); n++ {
						err := <-results
						if (err == nil) != (want[n] == nil) {
							failf("batch#%d abort=%v: result %d is %q, one-by-one verification gives %q", i, abortEarly, n, errClass(err), errClass(want[n]))
							break
						}
						if err != nil && abortEarly {
							break
						}
					}
					close(abort)
				}(i, abortEarly)
			}
		}
	}
	wg.Wait()
	if p := os.Getenv("VERIF_RACE_OUT"); p != "" {
		b, _ := json.Marshal(map[string]interface{}{"shapes": 2, "iterations": map[string]int{"batches": runs}, "functional_failures": fails, "wall_s": time.Since(t0).Seconds()})
		os.WriteFile(p, b, 0o644)
	}
	for _, f := range fails {
		fmt.Println("RACEPASS-FAIL " + f)
	}
	if len(fails) > 0 {
		t.Fail()
	}
}
