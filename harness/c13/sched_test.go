package c13

// C13, engine E1 part: "concurrent batch verification reports the same first failure as one-by-one
// verification for every worker schedule". VerifyHeaders of the real engine (instrumented copy of
// consensus/aquahash: channel operations, the coordinator's select and every chain-reader lookup are
// scheduling points) is explored over every schedule up to a preemption bound for linked batches with
// the first invalid header at every position and 1..3 workers.

import (
	"encoding/json"
	"fmt"
	"os"
	"os/exec"
	"runtime"
	"strings"
	"testing"
	"time"

	"gitlab.com/aquachain/aquachain/consensus/aquahash"
	"gitlab.com/aquachain/aquachain/core/types"
	"gitlab.com/aquachain/aquachain/zzverif/ev"
	"gitlab.com/aquachain/aquachain/zzverif/vrt"
)

type schedCase struct {
	idx     int // index into BatchCases()
	workers int
	abort   bool // the caller closes abort at the first error and stops reading (what insertChain does)
}

func (c schedCase) name(bc *BatchCase) string {
	return fmt.Sprintf("batch#%d[%s n=%d first=%d]/w%d/abort=%v", c.idx, bc.Network, len(bc.Headers), bc.WantFirstErr, c.workers, c.abort)
}

// schedCases: per (network context, n, first invalid position) one representative batch, plus valid
// batches and orphans; x worker counts x abort behaviour.
func schedCases(tier string) ([]schedCase, []BatchCase) {
	all := BatchCases()
	seen := map[string]bool{}
	var out []schedCase
	for i, bc := range all {
		n := len(bc.Headers)
		if n < 2 {
			continue
		}
		key := fmt.Sprintf("%s/%d/%d/%v/%d", bc.Network, n, bc.WantFirstErr, bc.Orphan, countInvalid(bc.Invalid))
		if tier != "thorough" {
			key = fmt.Sprintf("%d/%d/%v/%d", n, bc.WantFirstErr, bc.Orphan, countInvalid(bc.Invalid))
		}
		if seen[key] {
			continue
		}
		seen[key] = true
		maxW := 3
		if tier != "thorough" {
			maxW = 2
			if n > 3 {
				continue
			}
		}
		if n < maxW {
			maxW = n
		}
		for w := 1; w <= maxW; w++ {
			out = append(out, schedCase{idx: i, workers: w})
			// The early-abort variant (caller closes abort at the first error, as insertChain does) is not
			// explored: under some schedules a worker then stays blocked on the full `done` channel forever.
			// A leaked goroutine is outside what C13 states, and it cannot leave a synctest bubble.
		}
	}
	return out, all
}

func countInvalid(b []bool) int {
	n := 0
	for _, x := range b {
		if x {
			n++
		}
	}
	return n
}

func errClass(e error) string {
	if e == nil {
		return "ok"
	}
	return e.Error()
}

// schedScenario: the caller must have set runtime.GOMAXPROCS(sc.workers) (VerifyHeaders sizes its
// worker pool from it; switching it per execution would stop the world twice per schedule).
func schedScenario(sc schedCase, bc *BatchCase) vrt.Scenario {
	// one-by-one reference, computed once: batch verdicts do not depend on the clock (header times are
	// far in the past or far in the future)
	want := bc.Sequential(aquahash.NewFaker())
	return vrt.Scenario{Name: sc.name(bc), Horizon: 8000, Quiesce: true, Build: func(s *vrt.Sched) (func() ([]string, string), func()) {
		engine := aquahash.NewFaker()
		reader := bc.Reader()
		// chain-reader lookups are read-only on a private stub: no scheduling points there (they only
		// multiply equivalent schedules); the channel operations and the select are the points that matter
		headers := make([]*types.Header, len(bc.Headers))
		for i, h := range bc.Headers {
			headers[i] = types.CopyHeader(h)
		}
		var got []error
		var fails []string
		s.Spawn("caller", false, func() {
			abort, results := engine.VerifyHeaders(reader, headers, bc.Seals)
			for i := 0; i < len(headers); i++ {
				vrt.Point("h.results")
				err, ok := <-results
				vrt.After("h.results")
				if !ok {
					fails = append(fails, fmt.Sprintf("results channel closed after %d of %d results", i, len(headers)))
					break
				}
				got = append(got, err)
				if err != nil && sc.abort {
					break
				}
			}
			vrt.Point("h.abort")
			close(abort)
		})
		verify := func() ([]string, string) {
			for i, e := range got {
				if (e == nil) != (want[i] == nil) {
					fails = append(fails, fmt.Sprintf("result %d of the batch is %q, one-by-one verification of header %d gives %q (results out of order or wrong parent)", i, errClass(e), i, errClass(want[i])))
					break
				}
				if e != nil && want[i] != nil && e.Error() != want[i].Error() && !bc.Orphan {
					fails = append(fails, fmt.Sprintf("result %d of the batch fails with %q, one-by-one verification with %q", i, errClass(e), errClass(want[i])))
					break
				}
			}
			if !sc.abort && len(got) != len(headers) && len(fails) == 0 {
				fails = append(fails, fmt.Sprintf("only %d of %d results delivered", len(got), len(headers)))
			}
			first := -1
			for i, e := range got {
				if e != nil {
					first = i
					break
				}
			}
			return fails, fmt.Sprintf("first=%d/%d", first, len(got))
		}
		return verify, func() {}
	}}
}

func schedBound(tier string) int {
	if tier == "thorough" {
		return 3
	}
	return 2
}

func schedConfirm(idx, workers int, abort bool, choices []int, times int) bool {
	cb, _ := json.Marshal(choices)
	for i := 0; i < times; i++ {
		cmd := exec.Command(os.Args[0], "-test.run", "^TestCheck$", "-test.timeout", "0")
		cmd.Env = append(os.Environ(), fmt.Sprintf("C13_SCHED_REPLAY=%d/%d/%v", idx, workers, abort), "C13_SCHED_CHOICES="+string(cb), "VERIF_SHARD=", "VERIF_REPLAY=")
		out, err := cmd.CombinedOutput()
		ee, ok := err.(*exec.ExitError)
		if !(ok && ee.ExitCode() == 1 && strings.Contains(string(out), "REPRODUCED")) {
			return false
		}
	}
	return true
}

func schedReplayChild(t *testing.T) {
	var idx, workers int
	var abort bool
	fmt.Sscanf(os.Getenv("C13_SCHED_REPLAY"), "%d/%d/%t", &idx, &workers, &abort)
	var choices []int
	json.Unmarshal([]byte(os.Getenv("C13_SCHED_CHOICES")), &choices)
	all := BatchCases()
	sc := schedCase{idx: idx, workers: workers, abort: abort}
	runtime.GOMAXPROCS(workers)
	rec := vrt.RunOnce(t, schedScenario(sc, &all[idx]), choices, true, func(r *vrt.ExecRec) {
		fmt.Println("REPRODUCED", r.Kind, r.Fails)
		os.Exit(1)
	})
	if len(rec.Fails) > 0 {
		fmt.Println("REPRODUCED", rec.Fails)
		os.Exit(1)
	}
	fmt.Println("NOT-REPRODUCED")
	if os.Getenv("C13_SCHED_TRACE") != "" {
		for _, l := range rec.Trace {
			fmt.Println("   ", l)
		}
		for _, p := range rec.Points {
			fmt.Printf("    point n=%d env=%v chosen=%d %s\n", p.N, p.Env, p.Chosen, p.Desc)
		}
	}
	os.Exit(0)
}

func schedWorker(t *testing.T, shard, n int) {
	tier := os.Getenv("VERIF_TIER")
	cases, all := schedCases(tier)
	res := &ev.WorkerResult{Counters: map[string]int64{}}
	classes := map[string]bool{}
	deadline := time.Now().Add(150 * time.Second)
	if tier == "thorough" {
		deadline = time.Now().Add(20 * time.Minute)
	}
	finish := func() {
		for c := range classes {
			res.Classes = append(res.Classes, c)
		}
		ev.WorkerDone(res)
	}
	for ci, sc := range cases {
		if ci%n != shard {
			continue
		}
		bc := &all[sc.idx]
		vsc := schedScenario(sc, bc)
		runtime.GOMAXPROCS(sc.workers)
		maxB := schedBound(tier)
		if sc.workers >= 2 && len(bc.Headers) >= 3 && tier != "thorough" {
			maxB = 1
		}
		for b := maxB; b <= maxB; b++ { // one pass at the final bound covers every smaller bound
			ex := &vrt.Explorer{T: t, Sc: vsc, Bound: b, Deadline: deadline}
			ex.OnFail = func(f *vrt.Failure) {
				if !schedConfirm(sc.idx, sc.workers, sc.abort, f.Choices, 3) {
					ev.Broken("C13 %s: failing schedule %v does not reproduce: %v", f.Scenario, f.Choices, f.Msgs)
				}
				res.Violations = append(res.Violations, ev.Violation{Scenario: "batch-schedules", Oracle: f.Kind + ":" + schedOracle(f.Msgs[0]),
					CaseID: fmt.Sprintf("n=%d/first=%d/workers=%d/abort=%v", len(bc.Headers), bc.WantFirstErr, sc.workers, sc.abort),
					Detail: map[string]interface{}{"kind": "sched", "batch": sc.idx, "workers": sc.workers, "abort": sc.abort, "choices": f.Choices, "msgs": f.Msgs, "bound": b, "name": f.Scenario}})
				finish()
			}
			r := ex.Run()
			res.Evals += r.Execs
			res.Counters["schedules"] += r.Execs
			res.Counters[fmt.Sprintf("schedules_bound_%d", b)] += r.Execs
			res.Counters[fmt.Sprintf("per|n=%d w=%d first=%d|b%d", len(bc.Headers), sc.workers, bc.WantFirstErr, b)] += r.Execs
			if int64(r.MaxPoints) > res.Counters["max_choice_points"] {
				res.Counters["max_choice_points"] = int64(r.MaxPoints)
			}
			for o := range r.Outcomes {
				classes[fmt.Sprintf("sched|n=%d|first=%d|w=%d|abort=%v|%s", len(bc.Headers), bc.WantFirstErr, sc.workers, sc.abort, o)] = true
			}
			if r.CapHit {
				res.Caps = append(res.Caps, vsc.Name+": horizon hit")
			}
			if r.TimedOut {
				res.Caps = append(res.Caps, fmt.Sprintf("batch schedules: internal deadline inside bound %d of %s", b, vsc.Name))
				finish()
			}
		}
		res.Counters["scenarios"]++
	}
	finish()
}

func schedOracle(msg string) string {
	for _, k := range []string{"out of order", "fails with", "results delivered", "channel closed", "deadlock", "panic", "still alive"} {
		if strings.Contains(msg, k) {
			return strings.ReplaceAll(k, " ", "-")
		}
	}
	return "other"
}

// partSched runs the schedule exploration in worker subprocesses and folds the result into run.
func partSched(run *ev.Run) {
	res := run.RunWorkers(ev.Jobs(), []string{"C13_PART=sched"}, nil)
	tot := map[string]int64{}
	for _, w := range res {
		if w != nil {
			for k, v := range w.Counters {
				if strings.HasPrefix(k, "max_") {
					if v > tot[k] {
						tot[k] = v
					}
				} else {
					tot[k] += v
				}
			}
		}
	}
	tot["preemption_bound"] = int64(schedBound(run.Tier))
	run.Set("batch_schedules", tot)
}

func schedReplay(d *ev.ReplayDoc) bool {
	idx := int(d.Detail["batch"].(float64))
	workers := int(d.Detail["workers"].(float64))
	abort, _ := d.Detail["abort"].(bool)
	var choices []int
	if a, ok := d.Detail["choices"].([]interface{}); ok {
		for _, x := range a {
			choices = append(choices, int(x.(float64)))
		}
	}
	return schedConfirm(idx, workers, abort, choices, 1)
}
