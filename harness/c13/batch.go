// Scenario builder of check C13 (non-test file so that other harness packages / the controlled
// scheduler exploration can reuse it): a harness-owned consensus.ChainReader stub, a generator of
// valid child headers (difficulty from the reference table refdiff, not from the code under test)
// and BatchCases(): linked batches of n <= 4 headers with the first invalid one at each position.
package c13

import (
	"context"
	"fmt"
	"math/big"
	"sync"

	"gitlab.com/aquachain/aquachain/common"
	"gitlab.com/aquachain/aquachain/consensus"
	"gitlab.com/aquachain/aquachain/core/types"
	"gitlab.com/aquachain/aquachain/params"
	"gitlab.com/aquachain/aquachain/zzverif/ref/refhdr"
)

// BubbleEpoch is the fake clock of a testing/synctest bubble at its start (2000-01-01 00:00:00 UTC).
// Every non-"future" header of the scenarios is older, so the scenarios mean the same under the real
// clock and inside a bubble.
const BubbleEpoch = 946684800

// ---- chain reader stub --------------------------------------------------------------------------

// StubChain is a harness-owned consensus.ChainReader. Headers are looked up by hash (the behaviour
// of the real header cache); with StrictNumber the number must match too (the database behaviour).
type StubChain struct {
	Cfg          *params.ChainConfig
	StrictNumber bool
	// Hook, when set, is called at the start of every GetHeader/GetBlock (a yield point for the
	// controlled scheduler). It must not call back into the stub.
	Hook func(op string, hash common.Hash, number uint64)

	mu      sync.RWMutex
	headers map[common.Hash]*types.Header
	blocks  map[common.Hash]*types.Block
	Lookups int64 // number of GetHeader calls (guarded by mu)
}

func NewStubChain(cfg *params.ChainConfig, known ...*types.Header) *StubChain {
	c := &StubChain{Cfg: cfg, headers: map[common.Hash]*types.Header{}, blocks: map[common.Hash]*types.Block{}}
	for _, h := range known {
		c.Add(h)
	}
	return c
}

// Add makes h known (h.Version must be set).
func (c *StubChain) Add(h *types.Header) {
	c.mu.Lock()
	c.headers[h.Hash()] = h
	c.mu.Unlock()
}

func (c *StubChain) AddBlock(b *types.Block) {
	c.mu.Lock()
	c.blocks[b.Hash()] = b
	c.headers[b.Hash()] = b.Header()
	c.mu.Unlock()
}

func (c *StubChain) Config() *params.ChainConfig  { return c.Cfg }
func (c *StubChain) GetContext() context.Context  { return context.Background() }
func (c *StubChain) CurrentHeader() *types.Header { return nil }

func (c *StubChain) GetHeader(hash common.Hash, number uint64) *types.Header {
	if c.Hook != nil {
		c.Hook("GetHeader", hash, number)
	}
	c.mu.Lock()
	c.Lookups++
	h := c.headers[hash]
	c.mu.Unlock()
	if h != nil && c.StrictNumber && h.Number.Uint64() != number {
		return nil
	}
	return h
}

func (c *StubChain) GetHeaderByNumber(number uint64) *types.Header { return nil }

func (c *StubChain) GetHeaderByHash(hash common.Hash) *types.Header {
	c.mu.RLock()
	defer c.mu.RUnlock()
	return c.headers[hash]
}

func (c *StubChain) GetBlock(hash common.Hash, number uint64) *types.Block {
	if c.Hook != nil {
		c.Hook("GetBlock", hash, number)
	}
	c.mu.RLock()
	defer c.mu.RUnlock()
	return c.blocks[hash]
}

var _ consensus.ChainReader = (*StubChain)(nil)

// ---- networks -----------------------------------------------------------------------------------

// ConfigOf returns the repository's built-in chain config of a reference network (by chain id).
func ConfigOf(n *refhdr.Network) *params.ChainConfig {
	for _, c := range params.AllChainConfigs() {
		if c.ChainId != nil && c.ChainId.Int64() == n.ChainID {
			return c
		}
	}
	return nil
}

// ToRef extracts the fields the reference rules talk about.
func ToRef(h *types.Header) *refhdr.Hdr {
	return &refhdr.Hdr{Number: h.Number, Time: h.Time, Difficulty: h.Difficulty, GasLimit: h.GasLimit, GasUsed: h.GasUsed, ExtraLen: len(h.Extra)}
}

// DefaultGas is the gas limit of fabricated ancestors.
const DefaultGas = 4712388

// Ancestor fabricates a known header at the given height (not linked to a real genesis).
func Ancestor(cfg *params.ChainConfig, height int64, parent *types.Header, t int64, diff *big.Int, gas uint64) *types.Header {
	h := &types.Header{
		Number: big.NewInt(height), Time: big.NewInt(t), Difficulty: new(big.Int).Set(diff), GasLimit: gas,
		UncleHash: types.EmptyUncleHash, TxHash: types.EmptyRootHash, ReceiptHash: types.EmptyRootHash,
		Extra: []byte("c13"),
	}
	h.Root[0], h.Root[31] = byte(height), 0x13
	h.Version = cfg.GetBlockVersion(h.Number)
	if parent != nil {
		h.ParentHash = parent.Hash()
	} else {
		h.ParentHash[0] = 0xaa
	}
	return h
}

// Child builds a header that the REFERENCE accepts as a child of parent, delta seconds later.
func Child(net *refhdr.Network, cfg *params.ChainConfig, parent *types.Header, delta int64) *types.Header {
	h := &types.Header{
		ParentHash: parent.Hash(),
		Number:     new(big.Int).Add(parent.Number, big.NewInt(1)),
		Time:       new(big.Int).Add(parent.Time, big.NewInt(delta)),
		GasLimit:   parent.GasLimit,
		UncleHash:  types.EmptyUncleHash, TxHash: types.EmptyRootHash, ReceiptHash: types.EmptyRootHash,
		Extra: []byte("c13"),
	}
	h.Difficulty = net.Diff(parent.Number, parent.Time, parent.Difficulty, h.Time)
	h.Version = cfg.GetBlockVersion(h.Number)
	return h
}

// ---- batch cases --------------------------------------------------------------------------------

// Deviation makes a valid child invalid in exactly one rule while keeping it linked to its parent.
type Deviation struct {
	Name  string
	Apply func(h, parent *types.Header)
}

// FarFuture is beyond "now + 15 s" for the real clock and for a bubble clock alike (2100-01-01).
const FarFuture = 4102444800

func Deviations() []Deviation {
	return []Deviation{
		{"extra33", func(h, p *types.Header) { h.Extra = make([]byte, 33) }},
		{"difficulty+1", func(h, p *types.Header) { h.Difficulty = new(big.Int).Add(h.Difficulty, big.NewInt(1)) }},
		{"time-equals-parent", func(h, p *types.Header) { h.Time = new(big.Int).Set(p.Time) }},
		{"gaslimit-jump", func(h, p *types.Header) { h.GasLimit = p.GasLimit + p.GasLimit/1024 }},
		{"gasused-over-limit", func(h, p *types.Header) { h.GasUsed = h.GasLimit + 1 }},
		{"number+2", func(h, p *types.Header) { h.Number = new(big.Int).Add(p.Number, big.NewInt(2)) }},
		{"future", func(h, p *types.Header) { h.Time = big.NewInt(FarFuture) }},
	}
}

// BatchCase is one linked batch together with the chain the verifier sees.
type BatchCase struct {
	Name    string
	Network string
	Config  *params.ChainConfig
	Known   []*types.Header // what the chain reader knows before the batch (parent and grandparent of Headers[0])
	Headers []*types.Header // linked: Headers[i].ParentHash == Headers[i-1].Hash()
	Seals   []bool
	// Invalid[i]: the reference rejects Headers[i] as a child of its predecessor (clock = BubbleEpoch).
	Invalid []bool
	// WantFirstErr is the index of the first invalid header, -1 if the whole batch is valid.
	WantFirstErr int
	// Orphan: the chain reader does not know the parent of Headers[0] (Known is empty). Headers[0] must be
	// rejected; what happens to its successors (unknown grandparent) is only compared between batch and
	// one-by-one verification, Invalid[i>0] is not meaningful.
	Orphan bool
}

// Reader returns a fresh chain reader stub that knows c.Known.
func (c *BatchCase) Reader() *StubChain { return NewStubChain(c.Config, c.Known...) }

// Sequential is the one-by-one oracle: header i is verified with VerifyHeader against a chain in which
// the batch's preceding headers are known.
func (c *BatchCase) Sequential(engine consensus.Engine) []error {
	chain := c.Reader()
	out := make([]error, len(c.Headers))
	for i, h := range c.Headers {
		out[i] = engine.VerifyHeader(chain, types.CopyHeader(h), c.Seals[i])
		chain.Add(types.CopyHeader(h))
	}
	return out
}

type batchCtx struct {
	net   string
	start int64 // height of the known parent of Headers[0]
}

func batchContexts() []batchCtx {
	return []batchCtx{
		{"test", 0},        // heights 1..4: no grandparent, resets at 1 and 3
		{"test", 3},        // heights 4..7: HF5 reset, hash version 1 -> 2
		{"testnet2", 5},    // heights 6..9: HF8 reset, hash version 2 -> 3
		{"testnet2", 16},   // heights 17..20: hash version 3 -> 4
		{"mainnet", 3597},  // heights 3598..3601: homestead formula, HF1 reset
		{"mainnet", 22797}, // heights 22798..22801: HF5 reset, hash version 1 -> 2
		{"mainnet", 35997}, // heights 35998..36001: divisor 16 -> 128, limit 240 -> 180
	}
}

// BatchCases enumerates, for every context and n in 1..4: the valid batch, every (position, deviation)
// pair, and two invalid headers at every pair of positions (two deviation pairings).
func BatchCases() []BatchCase {
	var out []BatchCase
	devs := Deviations()
	for _, bc := range batchContexts() {
		net := refhdr.ByName(bc.net)
		cfg := ConfigOf(net)
		var known []*types.Header
		var gp *types.Header
		pdiff := big.NewInt(1 << 36)
		if bc.start >= 1 {
			gp = Ancestor(cfg, bc.start-1, nil, BubbleEpoch-500000, pdiff, DefaultGas)
			known = append(known, gp)
		}
		parent := Ancestor(cfg, bc.start, gp, BubbleEpoch-499000, pdiff, DefaultGas)
		known = append(known, parent)

		build := func(n int, dev map[int]Deviation) BatchCase {
			c := BatchCase{Network: bc.net, Config: cfg, Known: known, WantFirstErr: -1}
			prev := parent
			for i := 0; i < n; i++ {
				delta := int64(100 + 150*(i%2)) // 100 s / 250 s: both sides of either duration limit
				h := Child(net, cfg, prev, delta)
				if d, ok := dev[i]; ok {
					d.Apply(h, prev)
				}
				// classify with the reference (a "future" predecessor makes its successors "future" too)
				bad := net.Check(ToRef(prev), ToRef(h), BubbleEpoch, false) != ""
				c.Headers = append(c.Headers, h)
				c.Seals = append(c.Seals, i%2 == 0)
				c.Invalid = append(c.Invalid, bad)
				if bad && c.WantFirstErr < 0 {
					c.WantFirstErr = i
				}
				prev = h
			}
			return c
		}
		for n := 1; n <= 4; n++ {
			c := build(n, nil)
			c.Name = fmt.Sprintf("%s@%d/n=%d/valid", bc.net, bc.start, n)
			out = append(out, c)
			for i := 0; i < n; i++ {
				for _, d := range devs {
					c := build(n, map[int]Deviation{i: d})
					c.Name = fmt.Sprintf("%s@%d/n=%d/%s@%d", bc.net, bc.start, n, d.Name, i)
					out = append(out, c)
				}
			}
			if n <= 3 {
				c := build(n, nil)
				c.Name = fmt.Sprintf("%s@%d/n=%d/orphan", bc.net, bc.start, n)
				c.Known, c.Orphan, c.WantFirstErr = nil, true, 0
				c.Invalid[0] = true
				out = append(out, c)
			}
			for i := 0; i < n; i++ {
				for j := i + 1; j < n; j++ {
					for _, pr := range [][2]int{{0, 1}, {1, 2}} {
						c := build(n, map[int]Deviation{i: devs[pr[0]], j: devs[pr[1]]})
						c.Name = fmt.Sprintf("%s@%d/n=%d/%s@%d+%s@%d", bc.net, bc.start, n, devs[pr[0]].Name, i, devs[pr[1]].Name, j)
						out = append(out, c)
					}
				}
			}
		}
	}
	return out
}
