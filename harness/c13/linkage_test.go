package c13

// Part L: a batch is accepted only if it is an ascending, linked run. Every sequence of length 1..3 over
// a small set of valid headers / blocks (a main chain a1..a4, a sibling branch b2..b3 on a1, duplicates)
// is handed to InsertHeaderChain and to InsertChain of a real BlockChain (validating fake-seal engine)
// that already holds a1. Oracle (independent of core): a header batch is accepted iff every element's
// parent is the element before it (the first one's parent must be known) - numbers then ascend by one by
// construction - and a refused batch leaves the head where it was; of a block batch exactly the linked
// prefix is imported (InsertChain drops the rest without an error: pinned behaviour, not a rule of C13).

import (
	"fmt"

	"gitlab.com/aquachain/aquachain/core"
	"gitlab.com/aquachain/aquachain/core/types"
	"gitlab.com/aquachain/aquachain/params"
	"gitlab.com/aquachain/aquachain/zzverif/chainkit"
	"gitlab.com/aquachain/aquachain/zzverif/ev"
)

func partLinkage(run *ev.Run, col *collector) {
	env := chainkit.NewEnv(params.TestChainConfig, nil)
	eng := chainkit.Faker()
	a, _ := env.Gen(env.Genesis, eng, 4, func(i int, g *core.BlockGen) {})
	b, _ := env.Gen(a[0], eng, 2, func(i int, g *core.BlockGen) { g.SetExtra([]byte("b")) })
	pool := []*types.Block{a[1], a[2], a[3], b[0], b[1]} // a2 a3 a4 b2 b3
	names := []string{"a2", "a3", "a4", "b2", "b3"}
	known := map[string]bool{a[0].Hash().Hex(): true, env.Genesis.Hash().Hex(): true}
	n := 0
	var rec func(seq []int)
	eval := func(seq []int) {
		// reference verdict
		linked := known[pool[seq[0]].ParentHash().Hex()]
		for k := 1; k < len(seq); k++ {
			if pool[seq[k]].ParentHash() != pool[seq[k-1]].Hash() {
				linked = false
			}
		}
		label := ""
		for _, i := range seq {
			label += names[i] + " "
		}
		for _, mode := range []string{"headers", "blocks"} {
			mode := mode
			n++
			det := func() map[string]interface{} { return map[string]interface{}{"kind": "linkage", "mode": mode, "batch": label} }
			col.check("batch-linkage", "accepted-iff-ascending-linked-run", mode+"/"+fmt.Sprint(linked), det, func() string {
				bc, err := env.Open(env.NewChainDB(), chainkit.Archive(), eng)
				if err != nil {
					ev.Broken("linkage part: %v", err)
				}
				defer bc.Stop()
				if _, err := bc.InsertChain(types.Blocks{a[0]}); err != nil {
					ev.Broken("linkage part: a1 rejected: %v", err)
				}
				before := bc.CurrentHeader().Hash()
				if mode == "headers" {
					var hs []*types.Header
					for _, i := range seq {
						hs = append(hs, pool[i].Header())
					}
					_, err = bc.InsertHeaderChain(hs, 1)
				} else {
					var bs types.Blocks
					for _, i := range seq {
						bs = append(bs, pool[i])
					}
					_, err = bc.InsertChain(bs)
				}
				if mode == "blocks" {
					// InsertChain imports the linked prefix of a batch and silently drops the rest (pinned
					// behaviour); what matters for C13 is that nothing beyond the first break is taken in
					p := 0
					if known[pool[seq[0]].ParentHash().Hex()] {
						p = 1
						for p < len(seq) && pool[seq[p]].ParentHash() == pool[seq[p-1]].Hash() {
							p++
						}
					}
					inPrefix := map[int]bool{}
					for _, i := range seq[:p] {
						inPrefix[i] = true
					}
					for k, i := range seq {
						has := bc.HasBlock(pool[i].Hash(), pool[i].NumberU64())
						if k < p && !has {
							return fmt.Sprintf("batch [%s] given to InsertChain (error %v): element %d belongs to the linked prefix but was not imported", label, err, k)
						}
						if k >= p && !inPrefix[i] && has {
							return fmt.Sprintf("batch [%s] given to InsertChain (error %v): element %d comes after the first break of the batch but was imported", label, err, k)
						}
					}
					return ""
				}
				if (err == nil) != linked {
					return fmt.Sprintf("batch [%s] given to %s: error %v, but it is linked=%v (every element's parent is the element before it, the first one's parent is known)", label, mode, err, linked)
				}
				if err != nil && bc.CurrentHeader().Hash() != before {
					return fmt.Sprintf("batch [%s] was refused (%v) but the head header moved", label, err)
				}
				return ""
			})
		}
	}
	rec = func(seq []int) {
		if len(seq) > 0 {
			eval(seq)
		}
		if len(seq) == 3 {
			return
		}
		for i := range pool {
			rec(append(append([]int(nil), seq...), i))
		}
	}
	rec(nil)
	run.Eval(n)
	run.Class("batch-linkage/enumerated")
}
