// C13 - headers and uncles are accepted iff they satisfy the consensus rules.
//
// This file holds the E4 (input lattice) parts: header rules (VerifyHeader vs refhdr/refdiff inside a
// testing/synctest bubble, so that time.Now() is a fixed fake clock), uncle sets (VerifyUncles on a
// real fake-sealed block tree built with core.GenerateChain) and the schedule-independent comparison
// of VerifyHeaders (batch) with one-by-one VerifyHeader, free-running under several GOMAXPROCS values.
// The controlled-scheduler exploration of batch verification builds on BatchCases() in batch.go.
package c13

import (
	"context"
	"fmt"
	"math/big"
	"os"
	"runtime"
	"runtime/debug"
	"sort"
	"strings"
	"sync"
	"sync/atomic"
	"testing"
	"testing/synctest"
	"time"

	"gitlab.com/aquachain/aquachain/aquadb"
	"gitlab.com/aquachain/aquachain/common"
	"gitlab.com/aquachain/aquachain/common/log"
	"gitlab.com/aquachain/aquachain/consensus"
	"gitlab.com/aquachain/aquachain/consensus/aquahash"
	"gitlab.com/aquachain/aquachain/core"
	"gitlab.com/aquachain/aquachain/core/types"
	"gitlab.com/aquachain/aquachain/core/vm"
	"gitlab.com/aquachain/aquachain/params"
	"gitlab.com/aquachain/aquachain/zzverif/ev"
	"gitlab.com/aquachain/aquachain/zzverif/ref/refhdr"
)

// ---- violation collection (probe is re-run twice before it is believed) ---------------------------

type collector struct {
	mu    sync.Mutex
	viols []ev.Violation
	seen  map[string]bool
}

func guarded(probe func() string) (msg string) {
	defer func() {
		if r := recover(); r != nil {
			msg = fmt.Sprintf("panic: %v", r)
		}
	}()
	return probe()
}

func (c *collector) check(scn, oracle, caseID string, detail func() map[string]interface{}, probe func() string) bool {
	msg := guarded(probe)
	if msg == "" {
		return true
	}
	for i := 0; i < 2; i++ {
		if m2 := guarded(probe); m2 != msg {
			// Every probe is a pure function of its header and its stub chain (fresh copies, fake clock): a
			// verdict that changes between identical calls means the engine's answer depends on what it
			// verified before (state shared between calls), which "accepted iff the rules hold" excludes.
			oracle, caseID = "verdict-depends-on-verification-history", scn+"/"+oracle
			msg = fmt.Sprintf("the same call gave %q and then %q", msg, m2)
			break
		}
	}
	c.mu.Lock()
	defer c.mu.Unlock()
	sig := scn + "/" + oracle + "/" + caseID
	if c.seen == nil {
		c.seen = map[string]bool{}
	}
	if c.seen[sig] {
		return false
	}
	c.seen[sig] = true
	d := map[string]interface{}{}
	if detail != nil {
		d = detail()
	}
	d["_msg"] = msg
	c.viols = append(c.viols, ev.Violation{Scenario: scn, Oracle: oracle, CaseID: caseID, Detail: d})
	return false
}

// checkSched is check for the free-running batch part. The only non-determinism there is the goroutine
// schedule inside VerifyHeaders (stub, reference and one-by-one oracle are deterministic), so a probe that
// fails on some runs and passes on others is a genuine counterexample of "for every worker schedule";
// it is reported under its own case id, with the observed failure count, instead of being dismissed.
func (c *collector) checkSched(scn, oracle, caseID string, detail func() map[string]interface{}, probe func() string) bool {
	msg := guarded(probe)
	if msg == "" {
		return true
	}
	fails, total := 1, 1
	for i := 0; i < 9; i++ {
		total++
		if guarded(probe) != "" {
			fails++
		}
	}
	if fails < total {
		caseID += "/schedule-dependent"
	}
	c.mu.Lock()
	defer c.mu.Unlock()
	sig := scn + "/" + oracle + "/" + caseID
	if c.seen == nil {
		c.seen = map[string]bool{}
	}
	if c.seen[sig] {
		return false
	}
	c.seen[sig] = true
	d := detail()
	d["_msg"] = msg
	d["failed_runs"] = fmt.Sprintf("%d of %d", fails, total)
	c.viols = append(c.viols, ev.Violation{Scenario: scn, Oracle: oracle, CaseID: caseID, Detail: d})
	return false
}

func errStr(err error) string {
	if err == nil {
		return "<nil>"
	}
	return err.Error()
}

// ---- part A: header lattice ------------------------------------------------------------------------

// hcase is one concrete (parent, header) pair, fully described by integers (replayable).
type hcase struct {
	Net        string
	ParentNum  int64
	ParentDiff string
	ParentGas  uint64
	Delta      int64 // header time - parent time
	Number     int64 // header number
	ExtraLen   int
	GasLimit   uint64
	GasUsed    uint64
	DiffOff    int64 // header difficulty - expected difficulty
	Engine     string
	Seal       bool
	Dev        string // names of the deviated fields
	TimeHi     bool   // header time additionally has bit 64 set (everything computed on 64 bits sees time mod 2^64)
}

// the parent lives 100000 s before the bubble clock; the "future" deltas put the header at now+14/15/16
const parentAge = 100000

func (c *hcase) detail() map[string]interface{} {
	return map[string]interface{}{
		"kind": "header", "net": c.Net, "parentNumber": c.ParentNum, "parentDifficulty": c.ParentDiff, "parentGasLimit": fmt.Sprint(c.ParentGas),
		"delta": c.Delta, "number": c.Number, "extraLen": c.ExtraLen, "gasLimit": fmt.Sprint(c.GasLimit), "gasUsed": fmt.Sprint(c.GasUsed),
		"difficultyOffset": c.DiffOff, "engine": c.Engine, "seal": c.Seal, "deviated": c.Dev, "timeHi": c.TimeHi,
		"note": "parent time = bubble clock (2000-01-01T00:00:00Z) - 100000 s; header time = parent time + delta; header difficulty = refdiff + difficultyOffset",
	}
}

func hcaseFromDetail(d map[string]interface{}) *hcase {
	i := func(k string) int64 { f, _ := d[k].(float64); return int64(f) }
	s := func(k string) string { x, _ := d[k].(string); return x }
	u := func(k string) uint64 { x, _ := new(big.Int).SetString(s(k), 10); return x.Uint64() }
	b, _ := d["seal"].(bool)
	return &hcase{Net: s("net"), ParentNum: i("parentNumber"), ParentDiff: s("parentDifficulty"), ParentGas: u("parentGasLimit"),
		Delta: i("delta"), Number: i("number"), ExtraLen: int(i("extraLen")), GasLimit: u("gasLimit"), GasUsed: u("gasUsed"),
		DiffOff: i("difficultyOffset"), Engine: s("engine"), Seal: b, Dev: s("deviated"), TimeHi: d["timeHi"] == true}
}

type hctx struct {
	net    *refhdr.Network
	cfg    *params.ChainConfig
	chain  *StubChain
	parent *types.Header
}

func newHctx(netName string, parentNum int64, parentDiff *big.Int, parentGas uint64, now int64) *hctx {
	net := refhdr.ByName(netName)
	cfg := ConfigOf(net)
	var gp *types.Header
	if parentNum >= 1 {
		gp = Ancestor(cfg, parentNum-1, nil, now-parentAge-300, parentDiff, parentGas)
	}
	parent := Ancestor(cfg, parentNum, gp, now-parentAge, parentDiff, parentGas)
	chain := NewStubChain(cfg, parent)
	if gp != nil {
		chain.Add(gp)
	}
	return &hctx{net, cfg, chain, parent}
}

var (
	engFaker  = aquahash.NewFaker()
	engTester = aquahash.NewTester()
)

func engineOf(name string) consensus.Engine {
	if name == "tester" {
		return engTester
	}
	return engFaker
}

// probe builds the header of c in context x, asks the code and the reference.
func (x *hctx) probe(c *hcase, now int64) (msg, refWhy string, accepted bool) {
	p := x.parent
	h := &types.Header{
		ParentHash: p.Hash(), Number: big.NewInt(c.Number), Time: new(big.Int).Add(p.Time, big.NewInt(c.Delta)),
		GasLimit: c.GasLimit, GasUsed: c.GasUsed, Extra: make([]byte, c.ExtraLen),
		UncleHash: types.EmptyUncleHash, TxHash: types.EmptyRootHash, ReceiptHash: types.EmptyRootHash,
	}
	exp := x.net.Diff(p.Number, p.Time, p.Difficulty, h.Time)
	if c.TimeHi {
		// the difficulty is the one of the time modulo 2^64 (so that only the rules on the timestamp itself
		// can refuse the header); the timestamp is 2^64 later: far in the future
		h.Time = new(big.Int).Add(h.Time, new(big.Int).Lsh(big.NewInt(1), 64))
	}
	h.Difficulty = new(big.Int).Add(exp, big.NewInt(c.DiffOff))
	h.Version = x.cfg.GetBlockVersion(h.Number)
	refWhy = x.net.Check(ToRef(p), ToRef(h), now, false)
	err := engineOf(c.Engine).VerifyHeader(x.chain, h, c.Seal)
	if (err == nil) != (refWhy == "") {
		ref := "accepts"
		if refWhy != "" {
			ref = "rejects (" + refWhy + ")"
		}
		return fmt.Sprintf("VerifyHeader=%s but the reference %s; expected difficulty %v, header difficulty %v", errStr(err), ref, exp, h.Difficulty), refWhy, err == nil
	}
	return "", refWhy, err == nil
}

type fieldAlt struct {
	field string
	set   func(c *hcase)
}

// alternatives of every field for a context (each at, just inside and just outside its bound).
func alternatives(parentNum int64, P uint64) [][]fieldAlt {
	q := P / 1024
	var out [][]fieldAlt
	out = append(out, []fieldAlt{
		{"number=p", func(c *hcase) { c.Number = parentNum }},
		{"number=p+2", func(c *hcase) { c.Number = parentNum + 2 }},
	})
	out = append(out, []fieldAlt{
		{"time=parent", func(c *hcase) { c.Delta = 0 }},
		{"time=parent-1", func(c *hcase) { c.Delta = -1 }},
		{"time=now+14", func(c *hcase) { c.Delta = parentAge + 14 }},
		{"time=now+15", func(c *hcase) { c.Delta = parentAge + 15 }},
		{"time=now+16", func(c *hcase) { c.Delta = parentAge + 16 }},
		{"time+2^64", func(c *hcase) { c.TimeHi = true }},
	})
	out = append(out, []fieldAlt{
		{"extra=32", func(c *hcase) { c.ExtraLen = 32 }},
		{"extra=33", func(c *hcase) { c.ExtraLen = 33 }},
	})
	var gl []fieldAlt
	for _, g := range []struct {
		n string
		v uint64
	}{{"4999", 4999}, {"5000", 5000}, {"P-q", P - q}, {"P-q+1", P - q + 1}, {"P+q-1", P + q - 1}, {"P+q", P + q}, {"2^63-1", 1<<63 - 1}, {"2^63", 1 << 63}} {
		g := g
		gl = append(gl, fieldAlt{"gasLimit=" + g.n, func(c *hcase) { c.GasLimit = g.v }})
	}
	out = append(out, gl)
	out = append(out, []fieldAlt{
		{"gasUsed=limit", func(c *hcase) { c.GasUsed = c.GasLimit }},
		{"gasUsed=limit+1", func(c *hcase) { c.GasUsed = c.GasLimit + 1 }},
	})
	out = append(out, []fieldAlt{
		{"difficulty=expected-1", func(c *hcase) { c.DiffOff = -1 }},
		{"difficulty=expected+1", func(c *hcase) { c.DiffOff = 1 }},
	})
	return out
}

type latticeCtx struct {
	net        string
	parentNum  int64
	parentDiff *big.Int
	parentGas  uint64
	delta      int64
	pairs      bool
	tester     bool
}

func parentHeights(n *refhdr.Network) []int64 {
	set := map[int64]bool{0: true, 1: true, 2: true, 3: true}
	for _, f := range n.ForkHeights() {
		// child heights f-1 .. f+2  <=>  parent heights f-2 .. f+1
		for d := int64(-2); d <= 1; d++ {
			if f+d >= 0 {
				set[f+d] = true
			}
		}
	}
	var out []int64
	for h := range set {
		out = append(out, h)
	}
	sort.Slice(out, func(i, j int) bool { return out[i] < out[j] })
	return out
}

func latticeContexts(quick bool) []latticeCtx {
	diffs := []int64{46039386, 100001792, 30959185800, 1 << 40}
	deltas := []int64{1, 10, 179, 180, 239, 240, 1000, 10000}
	if !quick {
		diffs = append(diffs, 46039387, 2*30959185800, 1, 2047, 2048, 131072, 99999999, 100000000, 100001793, 2*46039386, 1<<62)
		deltas = append(deltas, 9, 181, 241, 2, 11, 19, 20, 990, 999, 1009, 1010, 99999)
	}
	var out []latticeCtx
	for i := range refhdr.Networks {
		n := &refhdr.Networks[i]
		for _, ph := range parentHeights(n) {
			// default shape and every single deviation
			for _, d := range diffs {
				for _, dl := range deltas {
					out = append(out, latticeCtx{net: n.Name, parentNum: ph, parentDiff: big.NewInt(d), parentGas: DefaultGas, delta: dl})
				}
			}
			// all pairs of deviations on a reduced set of contexts; the second engine (test mode, seal=false);
			// a parent gas limit (5001) that lets the minimum-gas-limit rule be the only one violated
			pd, pdl := []int64{46039386, 1 << 40}, []int64{1, 240}
			if !quick {
				pd, pdl = []int64{46039386, 100001792, 30959185800, 1 << 40}, []int64{1, 10, 180, 240, 1000}
			}
			for _, d := range pd {
				for _, dl := range pdl {
					out = append(out, latticeCtx{net: n.Name, parentNum: ph, parentDiff: big.NewInt(d), parentGas: DefaultGas, delta: dl, pairs: true, tester: !quick})
					out = append(out, latticeCtx{net: n.Name, parentNum: ph, parentDiff: big.NewInt(d), parentGas: 5001, delta: dl, pairs: !quick, tester: true})
				}
			}
		}
	}
	return out
}

func partLattice(run *ev.Run, col *collector, capped func() bool) {
	now := time.Now().Unix() // inside the bubble: 2000-01-01T00:00:00Z
	if now != BubbleEpoch {
		ev.Broken("bubble clock is %d, expected %d", now, BubbleEpoch)
	}
	ctxs := latticeContexts(run.Quick())
	var capOnce sync.Once
	ev.ParallelFor(len(ctxs), func(i int) {
		if capped() {
			capOnce.Do(func() { run.Cap("header lattice: deadline reached") })
			return
		}
		lc := ctxs[i]
		x := newHctx(lc.net, lc.parentNum, lc.parentDiff, lc.parentGas, now)
		base := hcase{Net: lc.net, ParentNum: lc.parentNum, ParentDiff: lc.parentDiff.String(), ParentGas: lc.parentGas,
			Delta: lc.delta, Number: lc.parentNum + 1, ExtraLen: 0, GasLimit: lc.parentGas, GasUsed: 0, Engine: "faker", Seal: true}
		alts := alternatives(lc.parentNum, lc.parentGas)
		eval := func(c hcase) {
			engines := []string{"faker"}
			if lc.tester {
				engines = append(engines, "tester")
			}
			for _, en := range engines {
				c := c
				c.Engine, c.Seal = en, en == "faker"
				var why string
				var acc bool
				run.Eval(1)
				ok := col.check("header", "accepted-iff-reference-accepts", fmt.Sprintf("%s/%s", c.Net, classOf(&c)), c.detail,
					func() string { var m string; m, why, acc = x.probe(&c, now); return m })
				if ok {
					if why == "" {
						why = "ok"
					}
					run.Class(fmt.Sprintf("header/%s/h=%d/%s", c.Net, c.ParentNum+1, why))
					run.Add("header_reference_"+why, 1)
					if acc && c.Dev == "time=now+15" && c.ParentNum == 2 {
						run.Sample(map[string]interface{}{"part": "header", "case": c.detail(), "accepted": acc})
					}
				}
			}
		}
		eval(base)
		for fi, fa := range alts {
			for _, a := range fa {
				c := base
				a.set(&c)
				c.Dev = a.field
				fixGasUsed(&c)
				eval(c)
				if !lc.pairs {
					continue
				}
				for _, fb := range alts[fi+1:] {
					for _, b := range fb {
						c2 := base
						a.set(&c2)
						b.set(&c2)
						c2.Dev = a.field + "," + b.field
						fixGasUsed(&c2)
						eval(c2)
					}
				}
			}
		}
	})
}

// fixGasUsed re-derives a gas-used deviation after the gas limit changed (gasUsed is relative to it).
func fixGasUsed(c *hcase) {
	switch {
	case strings.Contains(c.Dev, "gasUsed=limit+1"):
		c.GasUsed = c.GasLimit + 1
	case strings.Contains(c.Dev, "gasUsed=limit"):
		c.GasUsed = c.GasLimit
	}
}

func classOf(c *hcase) string {
	if c.Dev == "" {
		return "valid-shape"
	}
	// strip the values: one signature per deviated field set
	var fs []string
	for _, p := range strings.Split(c.Dev, ",") {
		fs = append(fs, strings.SplitN(p, "=", 2)[0])
	}
	return strings.Join(fs, "+")
}

// ---- part B: uncles ---------------------------------------------------------------------------------

type tree struct {
	name         string
	net          *refhdr.Network
	cfg          *params.ChainConfig
	chain        consensus.ChainReader // a real core.BlockChain holding main (a stub serving the same blocks if insertion failed)
	buildProblem string
	main         []*types.Block          // main[k] has height k (main[0] = genesis)
	sib          map[int64]*types.Header // sibling of main[k] (same parent, different coinbase)
	incl         map[int64][]int64       // main[k] includes the siblings at these heights as uncles
}

func buildTree(name string, length int, incl map[int64][]int64) *tree {
	net := refhdr.ByName(name)
	cfg := ConfigOf(net)
	db := aquadb.NewMemDatabase()
	gen := &core.Genesis{Config: cfg, Difficulty: big.NewInt(1 << 30), GasLimit: DefaultGas, Timestamp: BubbleEpoch - 900000}
	genesis := gen.MustCommit(db)
	engine := aquahash.NewFaker()
	ctx := context.Background()
	t := &tree{name: name, net: net, cfg: cfg, main: []*types.Block{genesis}, sib: map[int64]*types.Header{}, incl: incl}
	for k := int64(1); k <= int64(length); k++ {
		parent := t.main[k-1]
		sb, _ := core.GenerateChain(ctx, cfg, parent, engine, db, 1, func(i int, b *core.BlockGen) {
			b.SetCoinbase(common.Address{0x51, byte(k)})
			b.SetExtra([]byte("sibling"))
		})
		t.sib[k] = sb[0].Header()
		mb, _ := core.GenerateChain(ctx, cfg, parent, engine, db, 1, func(i int, b *core.BlockGen) {
			b.SetCoinbase(common.Address{0x4d, byte(k)})
			for _, u := range incl[k] {
				b.AddUncle(types.CopyHeader(t.sib[u]))
			}
		})
		t.main = append(t.main, mb[0])
	}
	// the generated chain must be valid by the reference and must be accepted by a real BlockChain
	// (InsertChain verifies the headers as a batch and the uncles already included at two heights)
	t.buildProblem = guarded(func() string {
		for k := 1; k < len(t.main); k++ {
			if why := net.Check(ToRef(t.main[k-1].Header()), ToRef(t.main[k].Header()), 0, true); why != "" {
				return fmt.Sprintf("block %d produced by GenerateChain (difficulty from Engine.CalcDifficulty) is invalid by the reference: %s", k, why)
			}
		}
		db2 := aquadb.NewMemDatabase()
		gen.MustCommit(db2)
		bc, err := core.NewBlockChain(ctx, db2, nil, cfg, aquahash.NewFaker(), vm.Config{})
		if err != nil {
			return "cannot create block chain: " + err.Error()
		}
		if i, err := bc.InsertChain(t.main[1:]); err != nil {
			bc.Stop()
			return fmt.Sprintf("InsertChain rejects the reference-valid generated chain at index %d: %v", i, err)
		}
		t.chain = bc
		return ""
	})
	if t.chain == nil {
		// keep going on a stub reader that serves the same blocks
		st := NewStubChain(cfg)
		for _, b := range t.main {
			st.AddBlock(b)
		}
		t.chain = st
	}
	return t
}

// candidate uncle
type cand struct {
	label  string
	hdr    *types.Header
	parent int64 // height of its parent on the main chain (-1: none)
	// what the property's conditions say about it, relative to a block at height T (filled per T)
}

func (t *tree) candidates(T int64) []cand {
	var cs []cand
	for k := T - 8; k <= T; k++ {
		if k >= 1 && t.sib[k] != nil {
			cs = append(cs, cand{fmt.Sprintf("sib%d", k), t.sib[k], k - 1})
		}
	}
	for _, k := range []int64{T - 1, T - 3, T - 7} {
		if k >= 1 {
			cs = append(cs, cand{fmt.Sprintf("anc%d", k), t.main[k].Header(), k - 2})
		}
	}
	// individually invalid variants of a fresh, recent sibling (T-2: parent main[T-3])
	k := T - 2
	mut := func(label string, f func(h *types.Header)) {
		h := types.CopyHeader(t.sib[k])
		f(h)
		cs = append(cs, cand{label, h, k - 1})
	}
	mut("bad-difficulty", func(h *types.Header) { h.Difficulty.Add(h.Difficulty, big.NewInt(1)) })
	mut("bad-extra33", func(h *types.Header) { h.Extra = make([]byte, 33) })
	mut("bad-time", func(h *types.Header) { h.Time.Set(t.main[k-1].Time()) })
	mut("bad-gaslimit", func(h *types.Header) { pg := t.main[k-1].GasLimit(); h.GasLimit = pg + pg/1024 })
	mut("bad-number", func(h *types.Header) { h.Number.Add(h.Number, big.NewInt(1)) })
	mut("other-valid", func(h *types.Header) { h.Coinbase[19] ^= 1 }) // a second valid sibling at that height
	return cs
}

// refUncles is the property's predicate on an ordered uncle list of a block at height T on t's main chain.
func (t *tree) refUncles(T int64, set []cand) string {
	if len(set) > t.net.MaxUnc(T) {
		return "too-many"
	}
	window := map[int64]bool{} // heights of the 7 ancestors
	for k := T - 1; k >= T-7 && k >= 0; k-- {
		window[k] = true
	}
	included := map[string]bool{}
	for k := range window {
		for _, u := range t.incl[k] {
			included[fmt.Sprintf("sib%d", u)] = true
		}
	}
	seen := map[string]bool{}
	for _, c := range set {
		if seen[c.label] {
			return "duplicate-in-block"
		}
		seen[c.label] = true
		if included[c.label] {
			return "already-included"
		}
		if strings.HasPrefix(c.label, "anc") {
			return "is-ancestor"
		}
		if c.parent < 0 || !window[c.parent] {
			return "not-recent"
		}
		if c.parent == T-1 {
			return "sibling-of-the-block"
		}
		p := t.main[c.parent].Header()
		if why := t.net.Check(ToRef(p), ToRef(c.hdr), 0, true); why != "" {
			return "invalid-header:" + why
		}
	}
	return ""
}

func (t *tree) block(T int64, set []cand) *types.Block {
	h := Child(t.net, t.cfg, t.main[T-1].Header(), 240)
	var us []*types.Header
	for _, c := range set {
		us = append(us, types.CopyHeader(c.hdr))
	}
	return types.NewBlock(h, nil, us, nil)
}

func partUncles(run *ev.Run, col *collector) {
	engine := aquahash.NewFaker()
	trees := []*tree{
		// pre-HF5 (hash version 1, two uncles allowed); main[5] and main[7] already include uncles
		buildTree("mainnet", 10, treeIncl["mainnet"]),
		// post-HF5 (one uncle), crossing the version 2 -> 3 change at height 8
		buildTree("testnet2", 10, treeIncl["testnet2"]),
	}
	for _, t := range trees {
		t := t
		run.Eval(1)
		col.check("uncles", "generated-valid-chain-accepted", t.name, func() map[string]interface{} {
			return map[string]interface{}{"kind": "tree", "tree": t.name}
		}, func() string { return buildTree(t.name, 10, t.incl).buildProblem })
		for _, T := range []int64{9, 10} {
			cs := t.candidates(T)
			var sets [][]cand
			sets = append(sets, nil)
			for _, a := range cs {
				sets = append(sets, []cand{a})
				for _, b := range cs {
					sets = append(sets, []cand{a, b})
					for _, c := range cs {
						sets = append(sets, []cand{a, b, c})
					}
				}
			}
			ev.ParallelFor(len(sets), func(i int) {
				set := sets[i]
				var labels []string
				for _, c := range set {
					labels = append(labels, c.label)
				}
				blk := t.block(T, set)
				var want string
				run.Eval(1)
				ok := col.check("uncles", "accepted-iff-reference-accepts", fmt.Sprintf("%s/%s", t.name, generalise(labels)),
					func() map[string]interface{} {
						return map[string]interface{}{"kind": "uncles", "tree": t.name, "height": T, "uncles": labels}
					},
					func() string {
						want = t.refUncles(T, set)
						err := engine.VerifyUncles(t.chain, blk)
						if (err == nil) != (want == "") {
							return fmt.Sprintf("VerifyUncles=%s but the reference says %q", errStr(err), want)
						}
						return ""
					})
				if ok {
					if want == "" {
						want = "ok"
					}
					run.Class(fmt.Sprintf("uncles/%s/T=%d/n=%d/%s", t.name, T, len(set), want))
					run.Add(fmt.Sprintf("uncles_%s_reference_%s", t.name, want), 1)
					if len(set) == 2 && i%97 == 0 {
						run.Sample(map[string]interface{}{"part": "uncles", "tree": t.name, "height": T, "uncles": labels, "reference": want})
					}
				}
			})
		}
	}
}

// generalise strips heights from candidate labels: one signature per kind combination.
func generalise(labels []string) string {
	var out []string
	for _, l := range labels {
		out = append(out, strings.TrimRight(l, "0123456789"))
	}
	if len(out) == 0 {
		return "none"
	}
	return strings.Join(out, "+")
}

var treeIncl = map[string]map[int64][]int64{"mainnet": {5: {4}, 7: {5, 6}}, "testnet2": {5: {4}, 7: {6}}}

func replayUncles(col *collector, d *ev.ReplayDoc) {
	name, _ := d.Detail["tree"].(string)
	Tf, _ := d.Detail["height"].(float64)
	T := int64(Tf)
	incl := treeIncl[name]
	if incl == nil {
		ev.Broken("replay: unknown tree %q", name)
	}
	t := buildTree(name, 10, incl)
	byLabel := map[string]cand{}
	for _, c := range t.candidates(T) {
		byLabel[c.label] = c
	}
	var set []cand
	ls, _ := d.Detail["uncles"].([]interface{})
	for _, l := range ls {
		c, ok := byLabel[fmt.Sprint(l)]
		if !ok {
			ev.Broken("replay: unknown candidate %v", l)
		}
		set = append(set, c)
	}
	blk := t.block(T, set)
	col.check(d.Scenario, d.Oracle, d.CaseID, func() map[string]interface{} { return d.Detail }, func() string {
		want := t.refUncles(T, set)
		err := aquahash.NewFaker().VerifyUncles(t.chain, blk)
		if (err == nil) != (want == "") {
			return fmt.Sprintf("VerifyUncles=%s but the reference says %q", errStr(err), want)
		}
		return ""
	})
}

// ---- part C: batch == one-by-one (free-running) --------------------------------------------------------

// runBatch returns the results of VerifyHeaders in arrival order (nil on timeout).
func runBatch(engine consensus.Engine, c *BatchCase) ([]error, string) {
	hs := make([]*types.Header, len(c.Headers))
	for i, h := range c.Headers {
		hs[i] = types.CopyHeader(h)
	}
	abort, results := engine.VerifyHeaders(c.Reader(), hs, c.Seals)
	defer close(abort)
	out := make([]error, 0, len(hs))
	timeout := time.After(2 * time.Minute) // safety net only
	for len(out) < len(hs) {
		select {
		case err, ok := <-results:
			if !ok {
				return out, fmt.Sprintf("results channel closed after %d of %d results", len(out), len(hs))
			}
			out = append(out, err)
		case <-timeout:
			ev.Broken("batch %s: no result within the safety bound after %d of %d results", c.Name, len(out), len(hs))
		}
	}
	select {
	case err, ok := <-results:
		if ok {
			return out, fmt.Sprintf("more results than headers (extra: %v)", err)
		}
	default:
	}
	return out, ""
}

func firstErr(es []error) int {
	for i, e := range es {
		if e != nil {
			return i
		}
	}
	return -1
}

func probeBatch(engine consensus.Engine, c *BatchCase) string {
	seq := c.Sequential(engine)
	for i, e := range seq {
		if c.Orphan && i > 0 {
			break
		}
		if (e != nil) != c.Invalid[i] {
			return fmt.Sprintf("one-by-one VerifyHeader of header %d = %s but the reference says invalid=%v", i, errStr(e), c.Invalid[i])
		}
	}
	got, problem := runBatch(engine, c)
	if problem != "" {
		return "VerifyHeaders: " + problem
	}
	if firstErr(got) != firstErr(seq) {
		return fmt.Sprintf("VerifyHeaders reports its first error at index %d (%s), one-by-one verification at %d (%s)",
			firstErr(got), errAt(got, firstErr(got)), firstErr(seq), errAt(seq, firstErr(seq)))
	}
	for i := range got {
		if (got[i] == nil) != (seq[i] == nil) {
			return fmt.Sprintf("result %d of VerifyHeaders = %s, one-by-one = %s (results must arrive in input order)", i, errStr(got[i]), errStr(seq[i]))
		}
	}
	return ""
}

func errAt(es []error, i int) string {
	if i < 0 {
		return "none"
	}
	return errStr(es[i])
}

func partBatch(run *ev.Run, col *collector, capped func() bool) {
	cases := BatchCases()
	procs := []int{1, 2, 3, 4, 16}
	reps := 2
	if run.Thorough() {
		reps = 25
	}
	old := runtime.GOMAXPROCS(0)
	defer runtime.GOMAXPROCS(old)
	engine := aquahash.NewFaker()
	base := runtime.NumGoroutine()
	for _, p := range procs {
		runtime.GOMAXPROCS(p)
		for ci := range cases {
			c := &cases[ci]
			if capped() {
				run.Cap("batch: deadline reached")
				return
			}
			for r := 0; r < reps; r++ {
				run.Eval(1)
				if !col.checkSched("batch", "first-error-equals-one-by-one", fmt.Sprintf("%s/n=%d/first=%d", c.Network, len(c.Headers), c.WantFirstErr),
					func() map[string]interface{} {
						return map[string]interface{}{"kind": "batch", "case": c.Name, "gomaxprocs": p}
					},
					func() string { return probeBatch(engine, c) }) {
					break
				}
			}
			kind := "valid"
			if c.WantFirstErr >= 0 {
				kind = c.Name[strings.LastIndex(c.Name, "/")+1:]
				kind = strings.TrimRight(strings.SplitN(kind, "@", 2)[0], "0123456789")
			}
			run.Class(fmt.Sprintf("batch/%s/n=%d/first=%d/%s", c.Network, len(c.Headers), c.WantFirstErr, kind))
			run.Add(fmt.Sprintf("batch_first_invalid_%d", c.WantFirstErr), 1)
			if p == 3 && ci%211 == 5 {
				run.Sample(map[string]interface{}{"part": "batch", "case": c.Name, "gomaxprocs": p, "firstError": c.WantFirstErr})
			}
		}
		// abort: closing the abort channel right away must not wedge or panic anything
		for ci := 0; ci < len(cases); ci += 7 {
			c := &cases[ci]
			run.Eval(1)
			col.check("batch", "abort-is-harmless", "abort", func() map[string]interface{} {
				return map[string]interface{}{"kind": "batch-abort", "case": c.Name, "gomaxprocs": p}
			}, func() string {
				abort, results := engine.VerifyHeaders(c.Reader(), c.Headers, c.Seals)
				close(abort)
				n := 0
				deadline := time.After(2 * time.Minute)
				for {
					select {
					case _, ok := <-results:
						if ok {
							n++
						}
						if n > len(c.Headers) {
							return "more results than headers after abort"
						}
						if ok {
							continue
						}
						return ""
					case <-deadline:
						ev.Broken("abort case wedged")
					default:
						return "" // nothing pending: fine (results may legitimately stop after an abort)
					}
				}
			})
		}
	}
	runtime.GOMAXPROCS(old)
	// every verifier goroutine must be gone: the count returns to the baseline (generous settle time)
	settle := time.Now().Add(60 * time.Second)
	for runtime.NumGoroutine() > base && time.Now().Before(settle) {
		time.Sleep(20 * time.Millisecond)
	}
	run.Eval(1)
	if n := runtime.NumGoroutine(); n > base {
		col.check("batch", "no-leaked-goroutine", "leak", nil, func() string {
			return fmt.Sprintf("%d goroutines before the batch runs, %d still alive a minute after the last one", base, runtime.NumGoroutine())
		})
	}
}

func replayBatch(col *collector, d *ev.ReplayDoc) {
	name, _ := d.Detail["case"].(string)
	pf, _ := d.Detail["gomaxprocs"].(float64)
	for _, c := range BatchCases() {
		if c.Name == name {
			c := c
			if pf >= 1 {
				runtime.GOMAXPROCS(int(pf))
			}
			col.checkSched(d.Scenario, d.Oracle, strings.TrimSuffix(d.CaseID, "/schedule-dependent"), func() map[string]interface{} { return d.Detail }, func() string {
				for i := 0; i < 200; i++ { // a schedule-dependent failure needs some runs to show again
					if m := probeBatch(aquahash.NewFaker(), &c); m != "" {
						return m
					}
				}
				return ""
			})
			return
		}
	}
	ev.Broken("replay: unknown batch case %q", name)
}

// ---- driver -------------------------------------------------------------------------------------------

func TestCheck(t *testing.T) {
	log.Root().SetHandler(log.DiscardHandler())
	if os.Getenv("C13_SCHED_REPLAY") != "" {
		schedReplayChild(t)
		return
	}
	if shard, n, ok := ev.Shard(); ok && os.Getenv("C13_PART") == "sched" {
		schedWorker(t, shard, n)
		return
	}
	debug.SetGCPercent(50) // argon2id header hashes allocate their memory per call: keep the heap small and hot
	run := ev.Start("exploration")
	run.Rule = "one evaluation = one call of VerifyHeader / VerifyUncles / VerifyHeaders on a concrete input compared with the reference verdict; distinct_nontrivial = distinct (network, child height, first violated rule) for headers, (tree, height, set size, reference reason) for uncle sets, (network, batch length, first invalid index, deviation) for batches"
	run.Assume("difficulty schedule: the five built-in aquahash networks (mainnet, testnet, testnet2, dev, test); HF10 (grandparent formula) is not scheduled on any built-in network and is not modelled")
	run.Assume("headers: the chain reader is a harness stub that finds headers by hash (header-cache behaviour); parent and grandparent are known, the header itself is not")
	run.Assume("clock: time.Now() is the fixed clock of a testing/synctest bubble (2000-01-01T00:00:00Z) for the header lattice; batches use header times before 2000 or in 2100 so the verdict is the same under the real clock")
	run.Assume("uncles: block trees of 10 blocks with one sibling per height (mainnet schedule for the 2-uncle epoch, testnet2 for the 1-uncle epoch incl. the hash-version change at height 8); ordered uncle lists of length <= 3; an uncle's own timestamp is not compared with the clock (judged relative to its parent only)")
	run.Assume("batches: linked batches (each header's parent hash is its predecessor's hash) of length <= 4; free-running with GOMAXPROCS in {1,2,3,4,16}; in addition every schedule of VerifyHeaders up to a preemption bound is explored under the controlled scheduler (batch_schedules)")

	realOut := os.Stdout
	col := &collector{}
	finish := func() {
		os.Stdout = realOut
		for _, v := range col.viols {
			run.Violate(v)
		}
		run.Finish()
	}
	if d := ev.Replay(); d != nil {
		switch kind, _ := d.Detail["kind"].(string); kind {
		case "header":
			c := hcaseFromDetail(d.Detail)
			synctest.Test(t, func(t *testing.T) {
				now := time.Now().Unix()
				pd, _ := new(big.Int).SetString(c.ParentDiff, 10)
				x := newHctx(c.Net, c.ParentNum, pd, c.ParentGas, now)
				col.check(d.Scenario, d.Oracle, d.CaseID, c.detail, func() string { m, _, _ := x.probe(c, now); return m })
			})
		case "uncles":
			replayUncles(col, d)
		case "tree":
			name, _ := d.Detail["tree"].(string)
			col.check(d.Scenario, d.Oracle, d.CaseID, func() map[string]interface{} { return d.Detail }, func() string {
				return buildTree(name, 10, treeIncl[name]).buildProblem
			})
		case "batch":
			replayBatch(col, d)
		case "unclefork":
			c2 := &collector{}
			partUncleLimitAtFork(run, c2)
			for _, v := range c2.viols {
				if v.CaseID == d.CaseID {
					col.viols = append(col.viols, v)
				}
			}
		case "linkage":
			c2 := &collector{}
			partLinkage(run, c2)
			for _, v := range c2.viols {
				if v.CaseID == d.CaseID {
					col.viols = append(col.viols, v)
				}
			}
		case "sched":
			if schedReplay(d) {
				run.Violate(ev.Violation{Scenario: d.Scenario, Oracle: d.Oracle, CaseID: d.CaseID, Detail: d.Detail})
			}
		default:
			ev.Broken("replay: unknown kind %q", kind)
		}
		finish()
	}
	deadline := run.Deadline(150*time.Second, 14*time.Minute)
	capped := func() bool { return time.Now().After(deadline) }
	secs := map[string]float64{}
	timed := func(name string, f func()) {
		t0, e0 := time.Now(), run.Evals()
		f()
		secs[name] = float64(int(time.Since(t0).Seconds()*10)) / 10
		run.Set("evaluations_"+name, run.Evals()-e0)
	}
	timed("uncles", func() { partUncles(run, col) })
	timed("batch", func() { partBatch(run, col, capped) })
	timed("header_lattice", func() {
		// inside the bubble time.Now() is the fake clock: the real deadline is watched from outside
		var over atomic.Bool
		tm := time.AfterFunc(time.Until(deadline), func() { over.Store(true) })
		defer tm.Stop()
		synctest.Test(t, func(t *testing.T) { partLattice(run, col, over.Load) })
	})
	timed("uncle_limit_at_fork", func() { partUncleLimitAtFork(run, col) })
	timed("batch_linkage", func() { partLinkage(run, col) })
	timed("batch_schedules", func() { partSched(run) })
	run.Set("part_seconds", secs)
	finish()
}
