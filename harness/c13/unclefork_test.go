package c13

// C13: the uncle-count limit (2, then 1 from HF5) is a function of the BLOCK's height, not of where
// the local head happens to be. On the repository's test schedule (HF5 at height 5) candidate blocks
// at heights 4, 5 and 6 carrying 1 or 2 individually valid uncles are verified against chains whose
// head is just below the block, at the fork, and beyond it.

import (
	"fmt"

	"gitlab.com/aquachain/aquachain/core"
	"gitlab.com/aquachain/aquachain/core/types"
	"gitlab.com/aquachain/aquachain/params"
	"gitlab.com/aquachain/aquachain/zzverif/chainkit"
	"gitlab.com/aquachain/aquachain/zzverif/ev"
)

func partUncleLimitAtFork(run *ev.Run, col *collector) {
	env := chainkit.NewEnv(params.TestChainConfig, nil)
	eng := chainkit.Faker()
	const n = 8
	main, _ := env.Gen(env.Genesis, eng, n, func(i int, g *core.BlockGen) {})
	// two siblings per height (children of main[h-2], i.e. uncles candidates at height h)
	sib := map[uint64][]*types.Header{}
	for h := 2; h <= n; h++ {
		for s := byte(1); s <= 2; s++ {
			b, _ := env.Gen(main[h-2], eng, 1, func(i int, g *core.BlockGen) { g.SetExtra([]byte{'u', s}) })
			sib[uint64(h)] = append(sib[uint64(h)], b[0].Header())
		}
	}
	for _, headAt := range []int{3, 4, 5, 7} {
		db := env.NewChainDB()
		bc, err := env.Open(db, chainkit.Archive(), eng)
		if err != nil {
			ev.Broken("uncle-limit part: %v", err)
		}
		if _, err := bc.InsertChain(main[:headAt]); err != nil {
			ev.Broken("uncle-limit part: main chain rejected: %v", err)
		}
		for _, h := range []int{4, 5, 6} {
			if h-1 > headAt {
				continue // parent unknown to this chain
			}
			for _, k := range []int{1, 2} {
				// uncles: siblings of the parent (height h-1), whose parent main[h-3] is an ancestor
				uncles := append([]*types.Header(nil), sib[uint64(h-1)][:k]...)
				hdr := types.CopyHeader(main[h-1].Header())
				hdr.Extra = []byte("cand")
				cand := types.NewBlock(hdr, nil, uncles, nil)
				limit := 2
				if h >= 5 {
					limit = 1
				}
				want := k <= limit
				id := fmt.Sprintf("block=%d/uncles=%d/head=%d", h, k, headAt)
				run.Eval(1)
				run.Class("uncle-limit-at-fork/" + id)
				col.check("uncle-limit-at-fork", "count-limit-follows-block-height", id,
					func() map[string]interface{} {
						return map[string]interface{}{"kind": "unclefork", "block": h, "uncles": k, "head": headAt}
					},
					func() string {
						err := eng.VerifyUncles(bc, cand)
						if (err == nil) != want {
							return fmt.Sprintf("VerifyUncles of a block at height %d with %d valid uncles while the head is at %d: %v, the limit at that height is %d", h, k, headAt, err, limit)
						}
						return ""
					})
			}
		}
		bc.Stop()
	}
}
