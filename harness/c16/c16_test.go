// C16 - log blooms have no false negatives and log queries are exact.
//
// Part 1 (blooms): every receipt with <= 2 logs over a log alphabet (3 addresses x topic lists of
// length 0-4 over 3 topics) and every block with <= 2 receipts over a reduced alphabet: the blooms
// produced by types.LogsBloom / types.CreateBloom / receipt.Bloom (as core/state_processor sets it) /
// header bloom (as types.NewBlock sets it) contain every address and topic, judged by
// types.BloomLookup and by the independent Yellow Paper reference zzverif/ref/refbloom.
//
// Part 2 (queries): small chains written with the core.Write* functions into an aquadb.MemDatabase,
// bloom-bits index written for k completed sections with the real bloombits.Generator in the storage
// format of aqua.BloomIndexer.Commit; filters.New(backend, begin, end, addresses, topics).Logs(ctx)
// compared with a brute-force scan of the model's canonical receipts for every criteria x every
// (begin,end) x every index progress state. DESIGN.md section 4/C16.
package c16

import (
	"bytes"
	"context"
	"encoding/binary"
	"encoding/hex"
	"encoding/json"
	"errors"
	"fmt"
	"math/big"
	"os"
	"path/filepath"
	"runtime"
	"sort"
	"strconv"
	"strings"
	"sync"
	"sync/atomic"
	"testing"
	"time"

	"gitlab.com/aquachain/aquachain/aqua"
	"gitlab.com/aquachain/aquachain/aqua/event"
	"gitlab.com/aquachain/aquachain/aqua/filters"
	"gitlab.com/aquachain/aquachain/aquadb"
	"gitlab.com/aquachain/aquachain/common"
	"gitlab.com/aquachain/aquachain/common/bitutil"
	"gitlab.com/aquachain/aquachain/common/log"
	"gitlab.com/aquachain/aquachain/core"
	"gitlab.com/aquachain/aquachain/core/bloombits"
	"gitlab.com/aquachain/aquachain/core/types"
	"gitlab.com/aquachain/aquachain/params"
	"gitlab.com/aquachain/aquachain/rlp"
	"gitlab.com/aquachain/aquachain/rpc"
	"gitlab.com/aquachain/aquachain/zzverif/ev"
	"gitlab.com/aquachain/aquachain/zzverif/ref/refbloom"
)

// ---- alphabet -----------------------------------------------------------------------------------

var (
	// A0 is the zero address and A1 has leading zero bytes: anything that goes through a big
	// integer and loses leading zeros hashes the wrong bytes for them.
	addrA = [3]common.Address{
		{},
		common.HexToAddress("0x00000000000000000000000000000000000000a1"),
		common.HexToAddress("0xffffffffffffffffffffffffffffffffffffffff"),
	}
	addrX = common.HexToAddress("0x5555555555555555555555555555555555555555") // in no log
	addrC = common.HexToAddress("0xc0111de0c0111de0c0111de0c0111de0c0111de0") // carrier of collider topics
	topT  = [3]common.Hash{
		{},
		common.HexToHash("0xddf252ad1be2c89b69c2b068fc378daa952ba7f163c4a11628f55a4df523b3ef"),
		common.HexToHash("0xffffffffffffffffffffffffffffffffffffffffffffffffffffffffffffffff"),
	}
	topU = common.HexToHash("0x00000000000000000000000000000000000000000000000000000000000000ee") // in no log
)

type mlog struct {
	addr   common.Address
	topics []common.Hash
	data   []byte
}

func (l mlog) items() [][]byte {
	out := [][]byte{l.addr.Bytes()}
	for _, t := range l.topics {
		out = append(out, t.Bytes())
	}
	return out
}

func (l mlog) String() string {
	var ts []string
	for _, t := range l.topics {
		ts = append(ts, nameOfTopic(t))
	}
	return nameOfAddr(l.addr) + "[" + strings.Join(ts, ",") + "]"
}

func nameOfAddr(a common.Address) string {
	for i, x := range addrA {
		if x == a {
			return fmt.Sprintf("A%d", i)
		}
	}
	if a == addrX {
		return "X"
	}
	if a == addrC {
		return "C"
	}
	return a.Hex()
}

func nameOfTopic(t common.Hash) string {
	for i, x := range topT {
		if x == t {
			return fmt.Sprintf("T%d", i)
		}
	}
	if t == topU {
		return "U"
	}
	return "c:" + hex.EncodeToString(t[28:])
}

func (l mlog) toLog() *types.Log {
	return &types.Log{Address: l.addr, Topics: append([]common.Hash(nil), l.topics...), Data: append([]byte(nil), l.data...)}
}

// logAlphabet: 3 addresses x topic lists of length 0..maxTopics over 3 topics.
func logAlphabet(maxTopics int) []mlog { return logAlphabetN(maxTopics, 3) }

// logAlphabetN: topic lists over the first nTop topics, except that with nTop == 2 the topics are T0 and T2.
func logAlphabetN(maxTopics, nTop int) []mlog {
	var out []mlog
	for a := 0; a < 3; a++ {
		for n := 0; n <= maxTopics; n++ {
			total := 1
			for i := 0; i < n; i++ {
				total *= nTop
			}
			for c := 0; c < total; c++ {
				ts := make([]common.Hash, n)
				x := c
				for i := 0; i < n; i++ {
					ts[i] = topT[x%nTop*2%3] // nTop 3: T0,T2,T1; nTop 2: T0,T2
					x /= nTop
				}
				out = append(out, mlog{addr: addrA[a], topics: ts, data: []byte{byte(a), byte(n), byte(c)}})
			}
		}
	}
	return out
}

var run *ev.Run

// ---- Part 1: blooms -----------------------------------------------------------------------------

type bloomFail struct {
	oracle, caseID, what string
}

// checkReceiptBloom evaluates one receipt (a list of logs). It returns the failures found.
func checkReceiptBloom(logs []mlog) (fails []bloomFail) {
	defer func() {
		if r := recover(); r != nil {
			fails = append(fails, bloomFail{"no-panic", "receipt", fmt.Sprint(r)})
		}
	}()
	tl := make([]*types.Log, len(logs))
	var items [][]byte
	for i, l := range logs {
		tl[i] = l.toLog()
		items = append(items, l.items()...)
	}
	rc := &types.Receipt{Status: types.ReceiptStatusSuccessful, CumulativeGasUsed: 21000, Logs: tl}
	lb := types.BytesToBloom(types.LogsBloom(tl).Bytes())
	cb := types.CreateBloom(types.Receipts{rc})
	rc.Bloom = cb // core/state_processor.go ApplyTransaction
	ref := refbloom.Of(items...)
	for k, it := range items {
		kind := "topic"
		if isAddrItem(logs, k) {
			kind = "address"
		}
		var lk bool
		if kind == "address" {
			lk = types.BloomLookup(rc.Bloom, common.BytesToAddress(it))
		} else {
			lk = types.BloomLookup(rc.Bloom, common.BytesToHash(it))
		}
		if !lk {
			fails = append(fails, bloomFail{"no-false-negative", "receipt/" + kind + "/BloomLookup", "item " + hex.EncodeToString(it)})
		}
		if !refbloom.Has(rc.Bloom, it) {
			fails = append(fails, bloomFail{"no-false-negative", "receipt/" + kind + "/refbloom", "item " + hex.EncodeToString(it)})
		}
		if !refbloom.Has(lb, it) {
			fails = append(fails, bloomFail{"no-false-negative", "logsbloom/" + kind + "/refbloom", "item " + hex.EncodeToString(it)})
		}
	}
	if lb != cb {
		fails = append(fails, bloomFail{"logsbloom-equals-createbloom", "receipt", ""})
	}
	if refbloom.Bloom(cb) != ref {
		fails = append(fails, bloomFail{"equals-yellow-paper-m3-2048", "receipt", fmt.Sprintf("set bytes (index:value) got %s want %s", nonzero(cb[:]), nonzero(ref[:]))})
	}
	// the stored and the consensus encodings keep bloom and logs
	enc, err := rlp.EncodeToBytes((*types.ReceiptForStorage)(rc))
	if err != nil {
		fails = append(fails, bloomFail{"storage-roundtrip", "receipt/encode", err.Error()})
		return
	}
	var back types.ReceiptForStorage
	if err := rlp.DecodeBytes(enc, &back); err != nil {
		fails = append(fails, bloomFail{"storage-roundtrip", "receipt/decode", err.Error()})
		return
	}
	if back.Bloom != cb || !sameLogs(back.Logs, tl) {
		fails = append(fails, bloomFail{"storage-roundtrip", "receipt/content", ""})
	}
	enc, err = rlp.EncodeToBytes(rc)
	if err != nil {
		fails = append(fails, bloomFail{"consensus-roundtrip", "receipt/encode", err.Error()})
		return
	}
	var back2 types.Receipt
	if err := rlp.DecodeBytes(enc, &back2); err != nil {
		fails = append(fails, bloomFail{"consensus-roundtrip", "receipt/decode", err.Error()})
		return
	}
	if back2.Bloom != cb || !sameLogs(back2.Logs, tl) {
		fails = append(fails, bloomFail{"consensus-roundtrip", "receipt/content", ""})
	}
	return
}

func nonzero(b []byte) string {
	var s []string
	for i, x := range b {
		if x != 0 {
			s = append(s, fmt.Sprintf("%d:%02x", i, x))
		}
	}
	return strings.Join(s, ",")
}

// isAddrItem: item k of the flattened item list of logs is an address.
func isAddrItem(logs []mlog, k int) bool {
	p := 0
	for _, l := range logs {
		if k == p {
			return true
		}
		p += 1 + len(l.topics)
	}
	return false
}

func sameLogs(a, b []*types.Log) bool {
	if len(a) != len(b) {
		return false
	}
	for i := range a {
		if a[i].Address != b[i].Address || !bytes.Equal(a[i].Data, b[i].Data) || len(a[i].Topics) != len(b[i].Topics) {
			return false
		}
		for j := range a[i].Topics {
			if a[i].Topics[j] != b[i].Topics[j] {
				return false
			}
		}
	}
	return true
}

type alphaReceipt struct {
	logs    []mlog
	idx     []int // indexes into the log alphabet
	receipt *types.Receipt
	items   [][]byte
	isAddr  []bool
}

func receiptAlphabet(alpha []mlog) []alphaReceipt {
	var out []alphaReceipt
	mk := func(idx ...int) {
		ar := alphaReceipt{idx: idx}
		var tl []*types.Log
		for _, i := range idx {
			ar.logs = append(ar.logs, alpha[i])
			tl = append(tl, alpha[i].toLog())
			for k, it := range alpha[i].items() {
				ar.items = append(ar.items, it)
				ar.isAddr = append(ar.isAddr, k == 0)
			}
		}
		rc := &types.Receipt{Status: types.ReceiptStatusSuccessful, CumulativeGasUsed: 21000, Logs: tl}
		rc.Bloom = types.CreateBloom(types.Receipts{rc})
		ar.receipt = rc
		out = append(out, ar)
	}
	mk()
	for i := range alpha {
		mk(i)
	}
	for i := range alpha {
		for j := range alpha {
			mk(i, j)
		}
	}
	return out
}

func checkBlockBloom(rs []alphaReceipt) (fails []bloomFail) {
	defer func() {
		if r := recover(); r != nil {
			fails = append(fails, bloomFail{"no-panic", "header", fmt.Sprint(r)})
		}
	}()
	var receipts []*types.Receipt
	var items [][]byte
	var union types.Bloom
	for _, r := range rs {
		receipts = append(receipts, r.receipt)
		items = append(items, r.items...)
		for i := range union {
			union[i] |= r.receipt.Bloom[i]
		}
	}
	h := &types.Header{Number: big.NewInt(1), Difficulty: big.NewInt(1), Time: big.NewInt(1), Version: 1}
	hb := types.NewBlock(h, nil, nil, receipts).Header().Bloom
	cb := types.CreateBloom(receipts)
	k := 0
	for _, r := range rs {
		for i, it := range r.items {
			kind := "topic"
			var lk bool
			if r.isAddr[i] {
				kind = "address"
				lk = types.BloomLookup(hb, common.BytesToAddress(it))
			} else {
				lk = types.BloomLookup(hb, common.BytesToHash(it))
			}
			if !lk {
				fails = append(fails, bloomFail{"no-false-negative", "header/" + kind + "/BloomLookup", "item " + hex.EncodeToString(it)})
			}
			if !refbloom.Has(hb, it) {
				fails = append(fails, bloomFail{"no-false-negative", "header/" + kind + "/refbloom", "item " + hex.EncodeToString(it)})
			}
			k++
		}
	}
	if hb != cb {
		fails = append(fails, bloomFail{"header-bloom-equals-createbloom", "header", ""})
	}
	if !refbloom.Covers(hb, union) {
		fails = append(fails, bloomFail{"header-bloom-covers-receipt-blooms", "header", ""})
	}
	if refbloom.Bloom(hb) != refbloom.Of(items...) {
		fails = append(fails, bloomFail{"equals-yellow-paper-m3-2048", "header", ""})
	}
	return
}

func describeLogs(ls []mlog) string {
	var s []string
	for _, l := range ls {
		s = append(s, l.String())
	}
	return "{" + strings.Join(s, " ") + "}"
}

func reportBloomFails(scn string, fails []bloomFail, detail map[string]interface{}, redo func() []bloomFail) {
	if len(fails) == 0 {
		return
	}
	for n := 0; n < 3; n++ {
		again := redo()
		if len(again) != len(fails) {
			ev.Broken("bloom verdict flips on re-evaluation: %v vs %v", fails, again)
		}
	}
	for _, f := range fails {
		d := map[string]interface{}{"msg": f.oracle + " " + f.caseID + " " + f.what}
		for k, v := range detail {
			d[k] = v
		}
		run.Violate(ev.Violation{Scenario: scn, Oracle: f.oracle, CaseID: f.caseID, Detail: d})
	}
}

func part1() {
	// 1a: all receipts with one log over the full log alphabet and with two logs over the logs with
	// <= pairMax topics (quick 3, thorough 4 = everything)
	alpha := logAlphabet(4)
	nA := len(alpha)
	pairMax := 3
	if run.Thorough() {
		pairMax = 4
	}
	cases := [][]int{nil}
	for i := range alpha {
		cases = append(cases, []int{i})
	}
	for i := range alpha {
		for j := range alpha {
			if len(alpha[i].topics) <= pairMax && len(alpha[j].topics) <= pairMax {
				cases = append(cases, []int{i, j})
			}
		}
	}
	total := len(cases)
	_ = nA
	var classes sync.Map
	ev.ParallelFor(total, func(i int) {
		idx := cases[i]
		logs := make([]mlog, len(idx))
		for k, x := range idx {
			logs[k] = alpha[x]
		}
		fails := checkReceiptBloom(logs)
		run.Eval(1)
		if len(idx) > 0 {
			key := fmt.Sprintf("receipt/logs=%d", len(idx))
			for _, l := range logs {
				key += fmt.Sprintf("/%s+%dtopics", nameOfAddr(l.addr), len(l.topics))
			}
			classes.LoadOrStore(key, true)
		}
		reportBloomFails("bloom-receipt", fails, map[string]interface{}{"part": "receipt", "logs": idx, "logs_text": describeLogs(logs)},
			func() []bloomFail { return checkReceiptBloom(logs) })
	})
	run.Set("receipts_checked", total)
	run.Sample(map[string]interface{}{"part": "bloom-receipt", "logs": describeLogs([]mlog{alpha[5], alpha[200]})})

	// 1b: all blocks with <= 2 receipts over receipts with <= 2 logs over reduced log alphabets:
	// topic lists of length 0-1 over 3 topics; thorough also length 0-2 over 2 topics
	type balpha struct{ maxT, nTop int }
	alphas := []balpha{{1, 3}}
	if run.Thorough() {
		alphas = append(alphas, balpha{2, 2})
	}
	btotal := 0
	for _, ba := range alphas {
		ralpha := receiptAlphabet(logAlphabetN(ba.maxT, ba.nTop))
		nR := len(ralpha)
		n := 1 + nR + nR*nR
		btotal += n
		ev.ParallelFor(n, func(i int) {
			var rs []alphaReceipt
			switch {
			case i == 0:
			case i <= nR:
				rs = []alphaReceipt{ralpha[i-1]}
			default:
				j := i - 1 - nR
				rs = []alphaReceipt{ralpha[j/nR], ralpha[j%nR]}
			}
			fails := checkBlockBloom(rs)
			run.Eval(1)
			if len(rs) > 0 {
				key := fmt.Sprintf("block/receipts=%d", len(rs))
				for _, r := range rs {
					key += fmt.Sprintf("/logs=%d", len(r.logs))
				}
				classes.LoadOrStore(key, true)
			}
			var idx [][]int
			var txt []string
			for _, r := range rs {
				idx = append(idx, append([]int{}, r.idx...))
				txt = append(txt, describeLogs(r.logs))
			}
			reportBloomFails("bloom-header", fails, map[string]interface{}{"part": "block", "max_topics": ba.maxT, "n_topics": ba.nTop, "receipts": idx, "receipts_text": txt},
				func() []bloomFail { return checkBlockBloom(rs) })
		})
	}
	run.Set("blocks_checked", btotal)
	classes.Range(func(k, _ interface{}) bool { run.Class(k.(string)); return true })
}

// ---- Part 2: chains ----------------------------------------------------------------------------

// colliders returns <= 3 topics (found by exhaustive search over 2^16 candidates, refbloom only)
// whose bloom bits together cover the bits of target, none of them equal to target.
func colliders(target []byte) []common.Hash {
	want := refbloom.Indices(target)
	var out []common.Hash
	covered := map[uint]bool{}
	for _, bit := range want {
		if covered[bit] {
			continue
		}
		found := false
		for c := 0; c < 1<<16 && !found; c++ {
			var h common.Hash
			copy(h[:], []byte("c16-collider"))
			binary.BigEndian.PutUint16(h[30:], uint16(c))
			if bytes.Equal(h[:], target) {
				continue
			}
			idx := refbloom.Indices(h[:])
			for _, b := range idx {
				if b == bit {
					found = true
				}
			}
			if found {
				out = append(out, h)
				for _, b := range idx {
					covered[b] = true
				}
			}
		}
		if !found {
			ev.Broken("no collider for bit %d of %x in the candidate space", bit, target)
		}
	}
	return out
}

var (
	collOnce sync.Once
	collA0   []common.Hash
	collT    [3][]common.Hash
	collX    []common.Hash
	collU    []common.Hash
)

func initColliders() {
	collOnce.Do(func() {
		collA0 = colliders(addrA[0].Bytes())
		for i := range topT {
			collT[i] = colliders(topT[i].Bytes())
		}
		collX = colliders(addrX.Bytes())
		collU = colliders(topU.Bytes())
	})
}

const nKinds = 9

// blockKind returns the receipts (lists of logs) of a block of the given kind.
func blockKind(kind int) [][]mlog {
	T := topT
	A := addrA
	switch kind {
	case 0: // nothing
		return nil
	case 1: // the plain matching block
		return [][]mlog{{{addr: A[0], topics: []common.Hash{T[0], T[1], T[2]}}}}
	case 2: // right items, wrong positions / wrong log
		return [][]mlog{{{addr: A[0], topics: []common.Hash{T[1], T[0]}}, {addr: A[1], topics: []common.Hash{T[2]}}}}
	case 3: // items spread over receipts; a 4-topic log
		return [][]mlog{
			{{addr: A[1], topics: []common.Hash{T[0]}}},
			{{addr: A[0], topics: nil}, {addr: A[2], topics: []common.Hash{T[2], T[2], T[0], T[1]}}},
		}
	case 4: // bloom-only: covers the bits of A0, T0, T1, T2 and contains none of them
		return [][]mlog{{
			{addr: addrC, topics: collA0}, {addr: addrC, topics: collT[0]},
			{addr: addrC, topics: collT[1]}, {addr: addrC, topics: collT[2]},
		}}
	case 5: // several matching logs in two receipts
		return [][]mlog{
			{{addr: A[1], topics: []common.Hash{T[0], T[1]}}, {addr: A[0], topics: []common.Hash{T[0]}}},
			{{addr: A[1], topics: []common.Hash{T[0], T[2], T[2], T[1]}}},
		}
	case 6: // an empty receipt and an unrelated log
		return [][]mlog{{}, {{addr: A[2], topics: []common.Hash{T[1]}}}}
	case 7: // real address, topic only by collision; the "unknown" items only by collision
		return [][]mlog{{
			{addr: A[0], topics: collT[0]}, {addr: addrC, topics: collT[1]},
			{addr: addrC, topics: collX}, {addr: addrC, topics: collU},
		}}
	case 8: // a matching log in a block that lacks one of the three topics altogether (no T1 anywhere)
		return [][]mlog{{{addr: A[0], topics: []common.Hash{T[0], T[2]}}}}
	}
	panic("kind")
}

func kindOf(n, rot int) int { return (n + rot + 3*(n/8)) % nKinds }

// layoutKind: layout 0 is dense (every aligned group of 8 blocks holds all 8 kinds, shifted from
// group to group); layouts 1 and 2 blank out the even / the odd groups of 8 (one unrelated log
// only), so that whole bytes of the matcher's bit vectors are zero next to bytes that are not, and
// the other groups begin and end with the plain matching block.
func layoutKind(n, rot, layout int) int {
	if layout == 0 {
		return kindOf(n, rot)
	}
	if (n/8)%2 == layout-1 {
		if n%8 == 3 {
			return 6
		}
		return 0
	}
	return [8]int{1, 5, 2, 4, 7, 3, 6, 1}[(n+8*rot)%8]
}

type chain struct {
	L, rot   int
	layout   int
	blocks   []*types.Block
	receipts []types.Receipts // with derived log fields, what is written to the database
	side     map[int]*types.Block
	sideRcpt map[int]types.Receipts
	model    [][]types.Log // canonical logs per block in order, independent copies
	refBloom []refbloom.Bloom
	present  []map[string]bool // items really in the block
}

func header(n int, parent common.Hash, extra string) *types.Header {
	return &types.Header{
		ParentHash: parent, Number: big.NewInt(int64(n)), Difficulty: big.NewInt(131072), GasLimit: 4700000,
		Time: big.NewInt(int64(1500000000 + 240*n)), Extra: []byte(extra), Coinbase: common.HexToAddress("0xc01bc01bc01bc01bc01bc01bc01bc01bc01bc01b"),
		Version: 1,
	}
}

func assemble(n int, parent common.Hash, extra string, spec [][]mlog, nonceBase uint64) (*types.Block, types.Receipts) {
	var txs []*types.Transaction
	var rcs types.Receipts
	for i, r := range spec {
		tx := types.NewTransaction(nonceBase+uint64(i), addrA[i%3], big.NewInt(int64(n)), 90000, big.NewInt(1), []byte(extra))
		txs = append(txs, tx)
		rc := &types.Receipt{Status: types.ReceiptStatusSuccessful, CumulativeGasUsed: uint64(21000 * (i + 1)), GasUsed: 21000, TxHash: tx.Hash()}
		for _, l := range r {
			lg := l.toLog()
			lg.Data = []byte(fmt.Sprintf("%s/%d/%d", extra, n, i))
			rc.Logs = append(rc.Logs, lg)
		}
		rc.Bloom = types.CreateBloom(types.Receipts{rc})
		rcs = append(rcs, rc)
	}
	b := types.NewBlock(header(n, parent, extra), txs, nil, rcs)
	hash := b.Hash()
	idx := uint(0)
	for i, rc := range rcs {
		for _, lg := range rc.Logs {
			lg.BlockNumber, lg.BlockHash, lg.TxHash, lg.TxIndex, lg.Index = uint64(n), hash, rc.TxHash, uint(i), idx
			idx++
		}
	}
	return b, rcs
}

func buildChain(L, rot, layout int) *chain {
	c := buildChainWith(L, rot, func(n int) int { return layoutKind(n, rot, layout) })
	c.layout = layout
	return c
}

const prodSize = 4096 // params.BloomBitsBlocks, the section size the node uses

// buildProdChain: two full production-size sections plus enough blocks for the real ChainIndexer
// (256 confirmations) to index both; the block patterns sit around the section boundaries and the
// head, a matching block every 512 blocks, everything else is empty.
func buildProdChain() *chain {
	L := 2*prodSize + 300
	return buildChainWith(L, 4, func(n int) int {
		switch m := n % prodSize; {
		case m < 8 || m >= prodSize-8 || n >= L-8:
			return kindOf(n, 4)
		case n%512 == 100:
			return 1
		}
		return 0
	})
}

func buildChainWith(L, rot int, kind func(n int) int) *chain {
	initColliders()
	c := &chain{L: L, rot: rot, side: map[int]*types.Block{}, sideRcpt: map[int]types.Receipts{}}
	var parent common.Hash
	for n := 0; n < L; n++ {
		spec := blockKind(kind(n))
		b, rcs := assemble(n, parent, "c16", spec, uint64(n*4))
		c.blocks = append(c.blocks, b)
		c.receipts = append(c.receipts, rcs)
		// a non-canonical sibling holding a log that matches almost everything
		if n%5 == 2 && (L <= 64 || len(spec) > 0) {
			sb, srcs := assemble(n, parent, "side", blockKind(1), uint64(1000+n*4))
			c.side[n], c.sideRcpt[n] = sb, srcs
		}
		// the model: independent copies
		var ml []types.Log
		var items [][]byte
		pres := map[string]bool{}
		for _, rc := range rcs {
			for _, lg := range rc.Logs {
				cp := *lg
				cp.Topics = append([]common.Hash(nil), lg.Topics...)
				cp.Data = append([]byte(nil), lg.Data...)
				ml = append(ml, cp)
				items = append(items, lg.Address.Bytes())
				pres[string(lg.Address.Bytes())] = true
				for _, t := range lg.Topics {
					items = append(items, t.Bytes())
					pres[string(t.Bytes())] = true
				}
			}
		}
		c.model = append(c.model, ml)
		c.refBloom = append(c.refBloom, refbloom.Of(items...))
		c.present = append(c.present, pres)
		parent = b.Hash()
	}
	return c
}

// writeChain writes the chain and the bloom-bits index of the first k sections into a new database.
func (c *chain) writeChain(size, k int) (aquadb.Database, []string) {
	db := aquadb.NewMemDatabase()
	var problems []string
	must := func(err error) {
		if err != nil {
			ev.Broken("database write: %v", err)
		}
	}
	td := new(big.Int)
	for n, b := range c.blocks {
		must(core.WriteBlock(db, b))
		must(core.WriteBlockReceipts(db, b.Hash(), uint64(n), c.receipts[n]))
		must(core.WriteCanonicalHash(db, b.Hash(), uint64(n)))
		td.Add(td, b.Difficulty())
		must(core.WriteTd(db, b.Hash(), uint64(n), td))
		must(core.WriteTxLookupEntries(db, b))
		if sb := c.side[n]; sb != nil {
			must(core.WriteBlock(db, sb))
			must(core.WriteBlockReceipts(db, sb.Hash(), uint64(n), c.sideRcpt[n]))
			must(core.WriteTd(db, sb.Hash(), uint64(n), td))
		}
	}
	head := c.blocks[len(c.blocks)-1].Hash()
	must(core.WriteHeadBlockHash(db, head))
	must(core.WriteHeadHeaderHash(db, head))
	must(core.WriteHeadFastBlockHash(db, head))

	// bloom-bits index, the way aqua.BloomIndexer (Reset/Process/Commit) under core.ChainIndexer.processSection does it
	for s := 0; s < k; s++ {
		gen, err := bloombits.NewGenerator(uint(size))
		if err != nil {
			ev.Broken("NewGenerator(%d): %v", size, err)
		}
		var shead common.Hash
		for i := 0; i < size; i++ {
			num := uint64(s*size + i)
			hash := core.GetCanonicalHash(db, num)
			h := core.GetHeaderNoVersion(db, hash, num)
			if h == nil {
				ev.Broken("canonical header %d missing", num)
			}
			h.Version = 1
			if err := gen.AddBloom(uint(num-uint64(s*size)), h.Bloom); err != nil {
				problems = append(problems, fmt.Sprintf("AddBloom(%d): %v", i, err))
			}
			shead = h.Hash()
		}
		batch := db.NewBatch()
		for bit := 0; bit < types.BloomBitLength; bit++ {
			bits, err := gen.Bitset(uint(bit))
			if err != nil {
				if bit < size {
					problems = append(problems, fmt.Sprintf("Bitset(%d) with section size %d: %v", bit, size, err))
				}
				// Generator.Bitset bounds the BIT index by the SECTION size, so below 2048 blocks per
				// section it cannot return most vectors; read them through the in-package accessor.
				atomic.AddInt64(&bitsetRefused, 1)
				bits, err = gen.VerifBitset(uint(bit))
				if err != nil {
					ev.Broken("VerifBitset: %v", err)
				}
			} else if vb, _ := gen.VerifBitset(uint(bit)); !bytes.Equal(vb, bits) {
				ev.Broken("VerifBitset differs from Bitset")
			}
			// no false negative in the index: a set bloom bit of block i must be set in the vector
			for i := 0; i < size; i++ {
				rb := c.refBloom[s*size+i]
				if rb.Bit(uint(bit)) && bits[i/8]&(1<<uint(7-i%8)) == 0 {
					problems = append(problems, fmt.Sprintf("index vector of bit %d misses block %d", bit, s*size+i))
				}
			}
			core.WriteBloomBits(batch, uint(bit), uint64(s), shead, bitutil.CompressBytes(bits))
		}
		must(batch.Write())
	}
	return db, problems
}

var bitsetRefused int64

// ---- backend ------------------------------------------------------------------------------------

type backend struct {
	db             aquadb.Database
	size, sections uint64
	reqs           chan chan *bloombits.Retrieval
	quit           chan struct{}
	mux            *event.TypeMux
	txFeed         event.Feed
	chainFeed      event.Feed
	rmLogsFeed     event.Feed
	logsFeed       event.Feed
	api            *filters.PublicFilterAPI
	failSection    int64 // retrievals of this section fail (fault pass); -1: none
}

var errInjectedRetrieval = errors.New("injected bloom-bits retrieval failure")

func newBackend(db aquadb.Database, size, sections uint64) *backend {
	b := &backend{db: db, size: size, sections: sections, reqs: make(chan chan *bloombits.Retrieval), quit: make(chan struct{}), mux: new(event.TypeMux), failSection: -1}
	// aqua.startBloomHandlers with the section size as a parameter
	for i := 0; i < 4; i++ {
		go func() {
			for {
				select {
				case <-b.quit:
					return
				case request := <-b.reqs:
					task := <-request
					task.Bitsets = make([][]byte, len(task.Sections))
					for i, section := range task.Sections {
						head := core.GetCanonicalHash(b.db, (section+1)*b.size-1)
						if int64(section) == atomic.LoadInt64(&b.failSection) {
							task.Error = errInjectedRetrieval // what aqua/bloombits.go does when the vector cannot be read
							continue
						}
						if compVector, err := core.GetBloomBits(b.db, task.Bit, section, head); err == nil {
							if blob, err := bitutil.DecompressBytes(compVector, int(b.size)/8); err == nil {
								task.Bitsets[i] = blob
							} else {
								task.Error = err
							}
						} else {
							task.Error = err
						}
					}
					request <- task
				}
			}
		}()
	}
	// the RPC entry point aqua_getLogs (aqua/filters/api.go); its event system subscribes to the feeds above
	b.api = filters.NewPublicFilterAPI(b, false)
	return b
}

func (b *backend) close() { close(b.quit) }

func (b *backend) ChainDb() aquadb.Database                       { return b.db }
func (b *backend) EventMux() *event.TypeMux                       { return b.mux }
func (b *backend) GetHeaderVersion(*big.Int) params.HeaderVersion { return 1 }
func (b *backend) BloomStatus() (uint64, uint64)                  { return b.size, b.sections }
func (b *backend) SubscribeTxPreEvent(ch chan<- core.TxPreEvent) event.Subscription {
	return b.txFeed.Subscribe(ch)
}
func (b *backend) SubscribeChainEvent(ch chan<- core.ChainEvent) event.Subscription {
	return b.chainFeed.Subscribe(ch)
}
func (b *backend) SubscribeRemovedLogsEvent(ch chan<- core.RemovedLogsEvent) event.Subscription {
	return b.rmLogsFeed.Subscribe(ch)
}
func (b *backend) SubscribeLogsEvent(ch chan<- []*types.Log) event.Subscription {
	return b.logsFeed.Subscribe(ch)
}

func (b *backend) HeaderByNumber(ctx context.Context, blockNr rpc.BlockNumber) (*types.Header, error) {
	var hash common.Hash
	var num uint64
	if blockNr == rpc.LatestBlockNumber {
		hash = core.GetHeadBlockHash(b.db)
		num = core.GetBlockNumber(b.db, hash)
	} else {
		num = uint64(blockNr)
		hash = core.GetCanonicalHash(b.db, num)
	}
	h := core.GetHeaderNoVersion(b.db, hash, num)
	if h != nil {
		h.Version = 1
	}
	return h, nil
}

func (b *backend) GetReceipts(ctx context.Context, blockHash common.Hash) (types.Receipts, error) {
	number := core.GetBlockNumber(b.db, blockHash)
	return core.GetBlockReceipts(b.db, blockHash, number), nil
}

func (b *backend) GetLogs(ctx context.Context, blockHash common.Hash) ([][]*types.Log, error) {
	number := core.GetBlockNumber(b.db, blockHash)
	receipts := core.GetBlockReceipts(b.db, blockHash, number)
	logs := make([][]*types.Log, len(receipts))
	for i, receipt := range receipts {
		logs[i] = receipt.Logs
	}
	return logs, nil
}

// ServiceFilter is aqua.AquaApiBackend.ServiceFilter.
func (b *backend) ServiceFilter(ctx context.Context, session *bloombits.MatcherSession) {
	for i := 0; i < 3; i++ {
		go session.Multiplex(16, 0, b.reqs)
	}
}

// ---- criteria -----------------------------------------------------------------------------------

type criteria struct {
	ai    int   // address list selector
	tsel  []int // per position: 0 wildcard, 1 {t}, 2 {t,u}, 3 {unknown}
	addrs []common.Address
	tops  [][]common.Hash
}

func (c criteria) String() string {
	var as []string
	for _, a := range c.addrs {
		as = append(as, nameOfAddr(a))
	}
	var ps []string
	for _, p := range c.tops {
		var ts []string
		for _, t := range p {
			ts = append(ts, nameOfTopic(t))
		}
		ps = append(ps, "{"+strings.Join(ts, ",")+"}")
	}
	return "addr{" + strings.Join(as, ",") + "} topics[" + strings.Join(ps, " ") + "]"
}

func mkCriteria(ai int, tsel []int) criteria {
	c := criteria{ai: ai, tsel: append([]int(nil), tsel...)}
	switch ai {
	case 1:
		c.addrs = []common.Address{addrA[0]}
	case 2:
		c.addrs = []common.Address{addrA[0], addrA[1]}
	case 3:
		c.addrs = []common.Address{addrX}
	}
	for p, s := range tsel {
		switch s {
		case 0:
			if p%2 == 0 {
				c.tops = append(c.tops, nil)
			} else {
				c.tops = append(c.tops, []common.Hash{})
			}
		case 1:
			c.tops = append(c.tops, []common.Hash{topT[p%3]})
		case 2:
			c.tops = append(c.tops, []common.Hash{topT[p%3], topT[(p+1)%3]})
		case 3:
			c.tops = append(c.tops, []common.Hash{topU})
		}
	}
	return c
}

func allCriteria(maxPos int) []criteria {
	var out []criteria
	for ai := 0; ai < 4; ai++ {
		for n := 0; n <= maxPos; n++ {
			total := 1
			for i := 0; i < n; i++ {
				total *= 4
			}
			for x := 0; x < total; x++ {
				sel := make([]int, n)
				y := x
				for i := 0; i < n; i++ {
					sel[i] = y % 4
					y /= 4
				}
				out = append(out, mkCriteria(ai, sel))
			}
		}
	}
	return out
}

// refMatch: the brute-force predicate.
func refMatch(c *criteria, l *types.Log) bool {
	if len(c.addrs) > 0 {
		ok := false
		for _, a := range c.addrs {
			if a == l.Address {
				ok = true
			}
		}
		if !ok {
			return false
		}
	}
	if len(c.tops) > len(l.Topics) {
		return false
	}
	for p, alt := range c.tops {
		if len(alt) == 0 {
			continue
		}
		ok := false
		for _, t := range alt {
			if t == l.Topics[p] {
				ok = true
			}
		}
		if !ok {
			return false
		}
	}
	return true
}

const (
	patNone = iota
	patMatch
	patNearMiss
	patCollision
)

var patName = [4]string{"none", "matching", "near-miss", "bloom-only-collision"}

// blockPattern classifies block n for criteria c with the reference bloom.
func (ch *chain) blockPattern(c *criteria, n int) int {
	for i := range ch.model[n] {
		if refMatch(c, &ch.model[n][i]) {
			return patMatch
		}
	}
	rb := ch.refBloom[n]
	pass, real := true, true
	clause := func(items [][]byte) {
		if len(items) == 0 {
			return
		}
		p, r := false, false
		for _, it := range items {
			if refbloom.Has(rb, it) {
				p = true
			}
			if ch.present[n][string(it)] {
				r = true
			}
		}
		pass = pass && p
		real = real && r
	}
	var as [][]byte
	for _, a := range c.addrs {
		as = append(as, a.Bytes())
	}
	clause(as)
	for _, alt := range c.tops {
		var ts [][]byte
		for _, t := range alt {
			ts = append(ts, t.Bytes())
		}
		clause(ts)
	}
	switch {
	case !pass:
		return patNone
	case real:
		return patNearMiss
	default:
		return patCollision
	}
}

// expected returns what a brute-force scan of the canonical receipts returns for (begin, end).
// begin == -1 and end == -1 mean the current head (aqua/filters/filter.go, rpc.LatestBlockNumber);
// nothing exists beyond the head; begin > end is an empty range.
func (ch *chain) expected(matches [][]int, begin, end int) []*types.Log {
	head := ch.L - 1
	if begin == -1 {
		begin = head
	}
	if end == -1 {
		end = head
	}
	if end > head {
		end = head
	}
	var out []*types.Log
	for n := begin; n <= end; n++ {
		for _, i := range matches[n] {
			out = append(out, &ch.model[n][i])
		}
	}
	return out
}

func diffLogs(got, want []*types.Log) string {
	// classify
	key := func(l *types.Log) string { return fmt.Sprintf("%d/%d/%d", l.BlockNumber, l.TxIndex, l.Index) }
	if len(got) == len(want) {
		same := true
		for i := range got {
			g, w := got[i], want[i]
			if g == nil {
				return "nil-log"
			}
			if key(g) != key(w) {
				same = false
				break
			}
			if g.Address != w.Address || !bytes.Equal(g.Data, w.Data) || len(g.Topics) != len(w.Topics) || g.TxHash != w.TxHash || g.BlockHash != w.BlockHash || g.Removed {
				return "metadata"
			}
			for j := range g.Topics {
				if g.Topics[j] != w.Topics[j] {
					return "metadata"
				}
			}
		}
		if same {
			return ""
		}
	}
	gs, ws := map[string]int{}, map[string]int{}
	for _, g := range got {
		if g == nil {
			return "nil-log"
		}
		gs[key(g)]++
	}
	for _, w := range want {
		ws[key(w)]++
	}
	missing, extra := false, false
	for k, n := range ws {
		if gs[k] < n {
			missing = true
		}
	}
	for k, n := range gs {
		if ws[k] < n {
			extra = true
		}
	}
	switch {
	case missing && extra:
		return "missing+extra"
	case missing:
		return "missing"
	case extra:
		return "extra"
	}
	return "order"
}

func logKeys(ls []*types.Log) []string {
	var out []string
	for _, l := range ls {
		if l == nil {
			out = append(out, "nil")
			continue
		}
		out = append(out, fmt.Sprintf("#%d tx%d log%d", l.BlockNumber, l.TxIndex, l.Index))
	}
	return out
}

// runQuery evaluates one query on the real filter. A panic is returned as an error string.
func runQuery(b *backend, c *criteria, begin, end int, viaAPI bool) (logs []*types.Log, err error, panicked string) {
	defer func() {
		if r := recover(); r != nil {
			panicked = fmt.Sprint(r)
		}
	}()
	if viaAPI {
		// PublicFilterAPI.GetLogs: an absent fromBlock / toBlock means "latest"
		crit := filters.FilterCriteria{Addresses: c.addrs, Topics: c.tops}
		if begin != -1 {
			crit.FromBlock = big.NewInt(int64(begin))
		}
		if end != -1 {
			crit.ToBlock = big.NewInt(int64(end))
		}
		logs, err = b.api.GetLogs(context.Background(), crit)
		if err != nil {
			return
		}
		// the same criteria installed as a filter and polled twice (aqua_newFilter + aqua_getFilterLogs): every
		// poll answers the whole query again. A poll that differs from GetLogs is an error of its own.
		id, ferr := b.api.NewFilter(crit)
		if ferr != nil {
			return // NewFilter refuses some bound combinations (e.g. from = latest with a numbered end) by design
		}
		defer b.api.UninstallFilter(id)
		for poll := 1; poll <= 2; poll++ {
			l2, e2 := b.api.GetFilterLogs(context.Background(), id)
			if e2 != nil {
				return nil, fmt.Errorf("GetFilterLogs poll %d: %v", poll, e2), ""
			}
			if d := diffLogs(l2, logs); d != "" {
				// one of the two answers is wrong whatever the expected result is
				return logs, fmt.Errorf("GetFilterLogs poll %d differs from GetLogs for the same criteria (%s): GetLogs %v, GetFilterLogs %v", poll, d, logKeys(logs), logKeys(l2)), ""
			}
		}
		return
	}
	// hand the filter its own copies of the criteria: it must not depend on aliasing
	f := filters.New(b, int64(begin), int64(end), c.addrs, c.tops)
	logs, err = f.Logs(context.Background())
	return
}

func posClass(v, indexed, head int, isEnd bool, begin int) string {
	switch {
	case v == -1:
		return "latest"
	case v > head:
		return "beyond-head"
	case isEnd && begin != -1 && v < begin:
		return "before-begin"
	case v < indexed:
		return "indexed"
	default:
		return "unindexed"
	}
}

// involvement says which answering path(s) the effective range [begin, min(end, head)] needs.
func involvement(begin, end, indexed, head int) string {
	if begin == -1 {
		begin = head
	}
	if end == -1 || end > head {
		end = head
	}
	switch {
	case begin > end:
		return "empty-range"
	case end < indexed:
		return "index-only"
	case begin >= indexed:
		return "scan-only"
	}
	return "index-then-scan"
}

func progClass(k, size, L int) string {
	switch {
	case k == 0:
		return "no-index"
	case k*size == L:
		return "all-indexed"
	case k == L/size:
		return "all-full-sections"
	default:
		return "partial"
	}
}

type state struct {
	ch      *chain
	size, k int
	b       *backend
}

type verdict struct {
	bad            bool
	oracle, kind   string
	got, want      []string
	errText, panik string
}

func evalQuery(st *state, c *criteria, matches [][]int, begin, end int) verdict {
	return evalQueryVia(st, c, matches, begin, end, false)
}

func evalQueryVia(st *state, c *criteria, matches [][]int, begin, end int, viaAPI bool) verdict {
	want := st.ch.expected(matches, begin, end)
	got, err, pan := runQuery(st.b, c, begin, end, viaAPI)
	switch {
	case pan != "":
		return verdict{bad: true, oracle: "no-panic", kind: "panic", panik: pan}
	case err != nil:
		return verdict{bad: true, oracle: "no-error", kind: "error", errText: err.Error(), got: logKeys(got), want: logKeys(want)}
	}
	if d := diffLogs(got, want); d != "" {
		return verdict{bad: true, oracle: "equals-brute-force-scan", kind: d, got: logKeys(got), want: logKeys(want)}
	}
	return verdict{}
}

func (st *state) detail(c *criteria, begin, end int, v verdict) map[string]interface{} {
	d := map[string]interface{}{
		"part": "query", "L": st.ch.L, "rot": st.ch.rot, "layout": st.ch.layout, "size": st.size, "sections_indexed": st.k,
		"begin": begin, "end": end, "addr_sel": c.ai, "topic_sel": c.tsel, "criteria": c.String(),
		"diff": v.kind, "observed": v.got, "expected": v.want,
		"msg": fmt.Sprintf("chain of %d blocks, section size %d, %d section(s) indexed: filters.New(backend, %d, %d, %s).Logs: %s",
			st.ch.L, st.size, st.k, begin, end, c.String(), v.kind),
		"note": "chain: buildChain(L, rot, layout); block n has kind layoutKind(n, rot, layout), see blockKind in harness/c16",
	}
	if v.errText != "" {
		d["error"] = v.errText
	}
	if v.panik != "" {
		d["panic"] = v.panik
	}
	return d
}

// traceFile, in a worker started with VERIF_C16_TRACE, receives one JSON line per query before the
// query runs: after a crash of the process the last line is the query that was running.
var traceFile *os.File

func trace(st *state, c *criteria, begin, end int, part string, viaAPI bool) {
	if traceFile == nil {
		return
	}
	d := map[string]interface{}{"part": part, "L": st.ch.L, "rot": st.ch.rot, "layout": st.ch.layout, "size": st.size, "sections_indexed": st.k,
		"begin": begin, "end": end, "addr_sel": c.ai, "topic_sel": c.tsel, "criteria": c.String(), "via_api": viaAPI}
	b, _ := json.Marshal(d)
	traceFile.Write(append(b, '\n'))
}

type inflight struct {
	desc atomic.Value
}

var (
	progress atomic.Int64
	flights  sync.Map
)

func watchdog(stop chan struct{}) {
	last, lastT := int64(-1), time.Now()
	for {
		select {
		case <-stop:
			return
		case <-time.After(5 * time.Second):
		}
		if cur := progress.Load(); cur != last {
			last, lastT = cur, time.Now()
			continue
		}
		if time.Since(lastT) > 180*time.Second {
			var s []string
			flights.Range(func(k, v interface{}) bool { s = append(s, fmt.Sprint(v)); return true })
			sort.Strings(s)
			buf := make([]byte, 1<<20)
			buf = buf[:runtime.Stack(buf, true)]
			os.Stderr.Write(buf)
			ev.Broken("no query finished for 180 s; queries in flight: %s", strings.Join(s, " | "))
		}
	}
}

type chainCfg struct {
	L, rot int
	layout int
	sizes  []int
	gmp    int  // GOMAXPROCS of the worker process while it runs this configuration
	maxPos int  // topic positions in the criteria
	prod   bool // the production-size part (partProd) runs at this point of the sequence
}

func tierCfgs(tier string) []chainCfg {
	if tier != "thorough" {
		return []chainCfg{
			{L: 16, rot: 0, layout: 0, sizes: []int{8}, gmp: 2, maxPos: 3},
			{L: 21, rot: 5, layout: 1, sizes: []int{16}, gmp: 2, maxPos: 2},
			// layout 2: the second byte of every queried bit vector is zero ([x,0]: the shape whose sparse
			// encoding is exactly as long as the raw vector)
			{L: 16, rot: 0, layout: 2, sizes: []int{16}, gmp: 2, maxPos: 2},
		}
	}
	return []chainCfg{
		{L: 16, rot: 0, layout: 0, sizes: []int{8, 16}, gmp: 2, maxPos: 3},
		{L: 21, rot: 5, layout: 1, sizes: []int{16}, gmp: 2, maxPos: 3},
		{L: 27, rot: 2, layout: 0, sizes: []int{8, 16}, gmp: 2, maxPos: 3},
		{prod: true},
		// auxiliary guard: the first configuration again with other degrees of real parallelism
		{L: 16, rot: 0, layout: 0, sizes: []int{8, 16}, gmp: 1, maxPos: 2},
		{L: 16, rot: 0, layout: 0, sizes: []int{8, 16}, gmp: 4, maxPos: 2},
		{L: 32, rot: 7, layout: 2, sizes: []int{16}, gmp: 2, maxPos: 3},
		{L: 40, rot: 6, layout: 0, sizes: []int{16}, gmp: 2, maxPos: 3},
		{L: 24, rot: 3, layout: 0, sizes: []int{8}, gmp: 2, maxPos: 3},
		{L: 37, rot: 1, layout: 1, sizes: []int{16}, gmp: 2, maxPos: 3},
	}
}

// collector gathers what one process (a shard worker, or the replay) found.
type collector struct {
	mu      sync.Mutex
	res     ev.WorkerResult
	classes map[string]struct{}
	viol    map[string]ev.Violation
	weight  map[string]int
	found   []ev.Violation
}

func newCollector() *collector {
	return &collector{classes: map[string]struct{}{}, viol: map[string]ev.Violation{}, weight: map[string]int{}, res: ev.WorkerResult{Counters: map[string]int64{}}}
}

// violate keeps, per signature, the smallest case (weight) seen.
func (c *collector) violate(v ev.Violation, weight int) {
	c.mu.Lock()
	defer c.mu.Unlock()
	sig := v.Signature()
	if _, ok := c.viol[sig]; !ok || weight < c.weight[sig] {
		c.viol[sig], c.weight[sig] = v, weight
	}
}

func (c *collector) wouldKeep(v ev.Violation, weight int) bool {
	c.mu.Lock()
	defer c.mu.Unlock()
	sig := v.Signature()
	_, ok := c.viol[sig]
	return !ok || weight < c.weight[sig]
}

func (c *collector) done() *ev.WorkerResult {
	c.mu.Lock()
	defer c.mu.Unlock()
	for k := range c.classes {
		c.res.Classes = append(c.res.Classes, k)
	}
	sort.Strings(c.res.Classes)
	var sigs []string
	for s := range c.viol {
		sigs = append(sigs, s)
	}
	sort.Strings(sigs)
	for _, s := range sigs {
		v := c.viol[s]
		if v.Detail == nil {
			v.Detail = map[string]interface{}{}
		}
		v.Detail["weight"] = c.weight[s]
		c.found = append(c.found, v)
	}
	// not through WorkerResult.Violations: the parent keeps the smallest case per signature over all workers
	c.res.Extra = map[string]interface{}{"violations": c.found}
	return &c.res
}

// part2 runs the jobs j (one job = one (configuration, size, progress state, criteria), all ranges)
// with j % nshards == shard.
func part2(cfgs []chainCfg, deadline time.Time, shard, nshards int, col *collector) {
	stop := make(chan struct{})
	go watchdog(stop)
	defer close(stop)
	var capped atomic.Bool
	jobBase := 0
	for cfgi, cfg := range cfgs {
		if time.Now().After(deadline) {
			capped.Store(true)
			break
		}
		if cfg.prod {
			partProd(deadline, shard, nshards, col)
			continue
		}
		runtime.GOMAXPROCS(cfg.gmp)
		crits := allCriteria(cfg.maxPos)
		ch := buildChain(cfg.L, cfg.rot, cfg.layout)
		// brute-force matches and block patterns per criteria
		matches := make([][][]int, len(crits))
		pats := make([][]int, len(crits))
		for ci := range crits {
			m := make([][]int, ch.L)
			p := make([]int, ch.L)
			for n := 0; n < ch.L; n++ {
				for i := range ch.model[n] {
					if refMatch(&crits[ci], &ch.model[n][i]) {
						m[n] = append(m[n], i)
					}
				}
				p[n] = ch.blockPattern(&crits[ci], n)
			}
			matches[ci], pats[ci] = m, p
		}
		for _, size := range cfg.sizes {
			// every block pattern on both sides of every section boundary (= in every full section)
			for s := 0; s*size < ch.L; s++ {
				var seen [4]bool
				for ci := range crits {
					for n := s * size; n < (s+1)*size && n < ch.L; n++ {
						seen[pats[ci][n]] = true
					}
				}
				full := (s+1)*size <= ch.L
				for p, ok := range seen {
					if ok {
						part := "full"
						if !full {
							part = "trailing-partial"
						}
						col.classes[fmt.Sprintf("blocks/size=%d/section=%d(%s)/pattern=%s", size, s, part, patName[p])] = struct{}{}
					} else if full && cfg.layout == 0 {
						ev.Broken("chain L=%d rot=%d: section %d of size %d has no %s block for any criteria", ch.L, ch.rot, s, size, patName[p])
					}
				}
			}
			var states []*state
			for k := 0; k <= ch.L/size; k++ {
				db, problems := ch.writeChain(size, k)
				for _, p := range problems {
					col.violate(ev.Violation{Scenario: "bloombits-index", Oracle: "generator-no-false-negative", CaseID: fmt.Sprintf("size=%d", size),
						Detail: map[string]interface{}{"part": "index", "L": ch.L, "rot": ch.rot, "layout": ch.layout, "size": size, "sections_indexed": k, "msg": p}}, ch.L*100+k)
				}
				states = append(states, &state{ch: ch, size: size, k: k, b: newBackend(db, uint64(size), uint64(k))})
			}
			// the database must hold what the model says (guards the harness, not the property)
			for n := 0; n < ch.L; n++ {
				got := core.GetBlockReceipts(states[0].b.db, ch.blocks[n].Hash(), uint64(n))
				var flat []*types.Log
				for _, r := range got {
					flat = append(flat, r.Logs...)
				}
				var want []*types.Log
				for i := range ch.model[n] {
					want = append(want, &ch.model[n][i])
				}
				if d := diffLogs(flat, want); d != "" {
					col.violate(ev.Violation{Scenario: "receipts-storage", Oracle: "stored-logs-equal-written-logs", CaseID: d,
						Detail: map[string]interface{}{"part": "storage", "L": ch.L, "rot": ch.rot, "block": n}}, n)
				}
			}
			njobs := len(states) * len(crits)
			var mine []int
			for j := 0; j < njobs; j++ {
				if (jobBase+j)%nshards == shard {
					mine = append(mine, j)
				}
			}
			jobBase += njobs
			ev.ParallelFor(len(mine), func(mi int) {
				j := mine[mi]
				if time.Now().After(deadline) {
					capped.Store(true)
					return
				}
				st, ci := states[j/len(crits)], j%len(crits)
				c := &crits[ci]
				local := map[string]struct{}{}
				indexed := st.k * st.size
				head := ch.L - 1
				n := 0
			ranges:
				for begin := -1; begin <= ch.L+1; begin++ {
					for end := -1; end <= ch.L+1; end++ {
						flights.Store(j, fmt.Sprintf("L=%d size=%d k=%d %s begin=%d end=%d", ch.L, size, st.k, c.String(), begin, end))
						for _, viaAPI := range []bool{false, true} {
							if viaAPI && begin != -1 && end != -1 {
								break // the RPC entry point only adds the mapping of absent bounds to "latest"
							}
							trace(st, c, begin, end, "query", viaAPI)
							v := evalQueryVia(st, c, matches[ci], begin, end, viaAPI)
							progress.Add(1)
							n++
							res := "empty"
							if len(st.ch.expected(matches[ci], begin, end)) > 0 {
								res = "logs"
							}
							rc := fmt.Sprintf("begin=%s/end=%s", posClass(begin, indexed, head, false, begin), posClass(end, indexed, head, true, begin))
							entry := "Filter.Logs"
							if viaAPI {
								entry = "PublicFilterAPI.GetLogs"
							}
							local[fmt.Sprintf("query/%s/size=%d/%s/%s/%s", entry, size, progClass(st.k, size, ch.L), rc, res)] = struct{}{}
							if !v.bad {
								continue
							}
							span := end - begin
							if span < 0 || begin == -1 || end == -1 {
								span = ch.L
							}
							weight := ((ch.L*8+st.k)*64+len(c.addrs)+2*len(c.tops))*4096 + span*64 + (begin + 1)
							d := st.detail(c, begin, end, v)
							scn := "log-query"
							if viaAPI {
								scn = "log-query-rpc"
								d["via_api"] = true
								d["msg"] = strings.Replace(d["msg"].(string), "filters.New(backend, ", "PublicFilterAPI.GetLogs(-1 = absent bound; ", 1)
							}
							viol := ev.Violation{Scenario: scn, Oracle: v.oracle,
								CaseID: fmt.Sprintf("size=%d/%s/%s", size, involvement(begin, end, indexed, head), v.kind), Detail: d}
							if col.wouldKeep(viol, weight) {
								// determinism: only a case that is going to be reported is re-evaluated (a failing
								// retrieval makes the session close wait for its one-second kill timer)
								for r := 0; r < 3; r++ {
									v2 := evalQueryVia(st, c, matches[ci], begin, end, viaAPI)
									if v2.bad != v.bad || v2.kind != v.kind {
										ev.Broken("query verdict flips on re-evaluation (%s vs %s): %v", v.kind, v2.kind, d)
									}
								}
								col.violate(viol, weight)
							}
							if time.Now().After(deadline) {
								capped.Store(true)
								break ranges
							}
						}
					}
				}
				flights.Delete(j)
				col.mu.Lock()
				col.res.Evals += int64(n)
				col.res.Counters[fmt.Sprintf("queries/L=%d/size=%d/gomaxprocs=%d", ch.L, size, cfg.gmp)] += int64(n)
				for k := range local {
					col.classes[k] = struct{}{}
				}
				if len(col.res.Samples) < 2 && cfgi == 0 && len(c.tops) == 2 && len(c.addrs) == 1 {
					col.res.Samples = append(col.res.Samples, map[string]interface{}{"part": "log-query", "L": ch.L, "size": size, "sections_indexed": st.k,
						"criteria": c.String(), "ranges": "all (begin,end) in {-1,0..L+1}^2", "expected_for_whole_chain": logKeys(st.ch.expected(matches[ci], 0, ch.L-1))})
				}
				col.mu.Unlock()
			})
			// fault pass: the read of one indexed section's bit vectors fails. An indexed query over the whole
			// chain then either reports an error or is complete; it never succeeds with logs missing.
			var fjobs [][3]int
			for si, st := range states {
				for sec := 0; sec < st.k; sec++ {
					for ci := 1; ci < len(crits); ci += 5 {
						if (si+sec+ci)%nshards == shard {
							fjobs = append(fjobs, [3]int{si, sec, ci})
						}
					}
				}
			}
			ev.ParallelFor(len(fjobs), func(fi int) {
				if time.Now().After(deadline) {
					capped.Store(true)
					return
				}
				st, sec, ci := states[fjobs[fi][0]], fjobs[fi][1], fjobs[fi][2]
				fb := newBackend(st.b.db, uint64(st.size), uint64(st.k))
				defer fb.close()
				atomic.StoreInt64(&fb.failSection, int64(sec))
				c := &crits[ci]
				want := st.ch.expected(matches[ci], 0, ch.L-1)
				got, err, pan := runQuery(fb, c, 0, ch.L-1, false)
				col.mu.Lock()
				col.res.Evals++
				col.res.Counters["queries_with_failing_retrieval"]++
				col.classes[fmt.Sprintf("query-fault/size=%d/err=%v", size, err != nil)] = struct{}{}
				col.mu.Unlock()
				if pan == "" && (err != nil || diffLogs(got, want) == "") {
					return
				}
				d := st.detail(c, 0, ch.L-1, verdict{kind: "missing", got: logKeys(got), want: logKeys(want), panik: pan})
				d["part"], d["failing_section"] = "query-fault", sec
				d["msg"] = fmt.Sprintf("retrieval of section %d fails: the query reports success but returns %d of %d logs", sec, len(got), len(want))
				col.violate(ev.Violation{Scenario: "log-query-retrieval-failure", Oracle: "error-or-complete", CaseID: fmt.Sprintf("size=%d", size), Detail: d}, ch.L*100+sec)
			})
			for _, st := range states {
				st.b.close()
			}
		}
	}
	if capped.Load() {
		col.res.Counters["capped_small_chains"] = 1
	}
	col.res.Counters["generator_bitset_refusals_worked_around"] += atomic.LoadInt64(&bitsetRefused)
}

// ---- production section size --------------------------------------------------------------------

type fakeChain struct {
	head *types.Header
	feed event.Feed
}

func (f *fakeChain) CurrentHeader() *types.Header { return types.CopyHeader(f.head) }
func (f *fakeChain) SubscribeChainEvent(ch chan<- core.ChainEvent) event.Subscription {
	return f.feed.Subscribe(ch)
}

// prodStates builds the two index progress states of the production-size chain: one section indexed
// by the harness the way writeChain does it (every vector through the real Generator.Bitset), and
// both sections indexed by the real aqua.NewBloomIndexer / core.ChainIndexer.
func prodStates(ch *chain, col *collector) []*state {
	db1, problems := ch.writeChain(prodSize, 1)
	for _, p := range problems {
		col.violate(ev.Violation{Scenario: "bloombits-index", Oracle: "generator-no-false-negative", CaseID: fmt.Sprintf("size=%d", prodSize),
			Detail: map[string]interface{}{"part": "prod-index", "msg": p}}, 0)
	}
	db2, _ := ch.writeChain(prodSize, 0)
	cfg := &params.ChainConfig{ChainId: big.NewInt(1337), HF: params.ForkMap{}}
	if v := cfg.GetBlockVersion(big.NewInt(5000)); v != 1 {
		ev.Broken("chain config gives header version %d", v)
	}
	indexer := aqua.NewBloomIndexer(cfg, db2, prodSize)
	indexer.Start(&fakeChain{head: ch.blocks[ch.L-1].Header()})
	var sections uint64
	for t0 := time.Now(); ; {
		sections, _, _ = indexer.Sections()
		if sections >= 2 || time.Since(t0) > 120*time.Second {
			break
		}
		time.Sleep(20 * time.Millisecond)
	}
	indexer.Close()
	if sections != 2 {
		// not a wall-clock oracle: the indexer has nothing else to wait for
		col.violate(ev.Violation{Scenario: "bloombits-index", Oracle: "chain-indexer-indexes-confirmed-sections", CaseID: fmt.Sprintf("sections=%d", sections),
			Detail: map[string]interface{}{"part": "prod-index", "L": ch.L, "size": prodSize, "observed": sections, "expected": 2,
				"msg": "aqua.NewBloomIndexer over a chain with two full sections and 300 confirmations did not index two sections"}}, 0)
	}
	// what the real indexer stored must be what the harness-driven generator stores (cross-check of writeChain)
	db3, _ := ch.writeChain(prodSize, 2)
	for s := uint64(0); s < sections; s++ {
		head := core.GetCanonicalHash(db2, (s+1)*prodSize-1)
		for bit := uint(0); bit < types.BloomBitLength; bit++ {
			a, err1 := core.GetBloomBits(db2, bit, s, head)
			b, err2 := core.GetBloomBits(db3, bit, s, head)
			if err1 != nil || err2 != nil || !bytes.Equal(a, b) {
				col.violate(ev.Violation{Scenario: "bloombits-index", Oracle: "chain-indexer-equals-generator", CaseID: "prod",
					Detail: map[string]interface{}{"part": "prod-index", "section": s, "bit": bit, "err_indexer": fmt.Sprint(err1), "err_harness": fmt.Sprint(err2),
						"msg": fmt.Sprintf("stored vector of bit %d section %d: ChainIndexer/BloomIndexer and the generator driven by the harness differ", bit, s)}}, int(s)*4096+int(bit))
				break
			}
		}
	}
	return []*state{
		{ch: ch, size: prodSize, k: 1, b: newBackend(db1, prodSize, 1)},
		{ch: ch, size: prodSize, k: int(sections), b: newBackend(db2, prodSize, sections)},
	}
}

func prodRangePoints(L int) []int {
	return []int{-1, 0, 1, prodSize - 2, prodSize - 1, prodSize, prodSize + 1, 2*prodSize - 2, 2*prodSize - 1, 2 * prodSize, 2*prodSize + 1, L - 2, L - 1, L, L + 1}
}

// partProd: the production section size, thorough tier. Ranges: all pairs of the boundary points.
func partProd(deadline time.Time, shard, nshards int, col *collector) {
	runtime.GOMAXPROCS(2)
	crits := allCriteria(2)
	ch := buildProdChain()
	states := prodStates(ch, col)
	pts := prodRangePoints(ch.L)
	var capped atomic.Bool
	var mine []int
	for j := 0; j < len(states)*len(crits); j++ {
		if j%nshards == shard {
			mine = append(mine, j)
		}
	}
	ev.ParallelFor(len(mine), func(mi int) {
		j := mine[mi]
		if time.Now().After(deadline) {
			capped.Store(true)
			return
		}
		st, c := states[j/len(crits)], &crits[j%len(crits)]
		m := make([][]int, ch.L)
		for n := 0; n < ch.L; n++ {
			for i := range ch.model[n] {
				if refMatch(c, &ch.model[n][i]) {
					m[n] = append(m[n], i)
				}
			}
		}
		indexed, head := st.k*st.size, ch.L-1
		local := map[string]struct{}{}
		n := 0
		for _, begin := range pts {
			for _, end := range pts {
				flights.Store(j, fmt.Sprintf("prod k=%d %s begin=%d end=%d", st.k, c.String(), begin, end))
				trace(st, c, begin, end, "prod-query", false)
				v := evalQuery(st, c, m, begin, end)
				progress.Add(1)
				n++
				res := "empty"
				if len(ch.expected(m, begin, end)) > 0 {
					res = "logs"
				}
				rc := fmt.Sprintf("begin=%s/end=%s", posClass(begin, indexed, head, false, begin), posClass(end, indexed, head, true, begin))
				local[fmt.Sprintf("query/size=%d/sections=%d/%s/%s", prodSize, st.k, rc, res)] = struct{}{}
				if !v.bad {
					continue
				}
				pv := ev.Violation{Scenario: "log-query", Oracle: v.oracle, CaseID: fmt.Sprintf("size=%d/%s/%s", prodSize, involvement(begin, end, indexed, head), v.kind)}
				if !col.wouldKeep(pv, len(c.addrs)+2*len(c.tops)) {
					if time.Now().After(deadline) {
						capped.Store(true)
						return
					}
					continue
				}
				for r := 0; r < 3; r++ {
					if v2 := evalQuery(st, c, m, begin, end); v2.bad != v.bad || v2.kind != v.kind {
						ev.Broken("query verdict flips on re-evaluation (%s vs %s): %v", v.kind, v2.kind, st.detail(c, begin, end, v))
					}
				}
				d := st.detail(c, begin, end, v)
				d["part"] = "prod-query"
				if len(v.got) > 40 {
					d["observed"] = append(v.got[:40:40], "...")
				}
				if len(v.want) > 40 {
					d["expected"] = append(v.want[:40:40], "...")
				}
				col.violate(ev.Violation{Scenario: "log-query", Oracle: v.oracle,
					CaseID: fmt.Sprintf("size=%d/%s/%s", prodSize, involvement(begin, end, indexed, head), v.kind), Detail: d}, len(c.addrs)+2*len(c.tops))
			}
		}
		flights.Delete(j)
		col.mu.Lock()
		col.res.Evals += int64(n)
		col.res.Counters[fmt.Sprintf("queries/L=%d/size=%d/gomaxprocs=2", ch.L, prodSize)] += int64(n)
		for k := range local {
			col.classes[k] = struct{}{}
		}
		col.mu.Unlock()
	})
	for _, st := range states {
		st.b.close()
	}
	if capped.Load() {
		col.res.Counters["capped_production_size"] = 1
	}
}

// ---- replay -------------------------------------------------------------------------------------

func num(d map[string]interface{}, k string) int {
	f, _ := d[k].(float64)
	return int(f)
}

func ints(v interface{}) []int {
	var out []int
	if l, ok := v.([]interface{}); ok {
		for _, x := range l {
			f, _ := x.(float64)
			out = append(out, int(f))
		}
	}
	return out
}

// oneQuery rebuilds the chain, the database and the backend of a small-chain query and runs it.
func oneQuery(d map[string]interface{}) (verdict, *state, criteria) {
	c := mkCriteria(num(d, "addr_sel"), ints(d["topic_sel"]))
	var ch *chain
	var st *state
	if d["part"] == "prod-query" {
		ch = buildProdChain()
		states := prodStates(ch, newCollector())
		st = states[0]
		if num(d, "sections_indexed") != 1 {
			st = states[1]
		}
	} else {
		ch = buildChain(num(d, "L"), num(d, "rot"), num(d, "layout"))
		size, k := num(d, "size"), num(d, "sections_indexed")
		db, _ := ch.writeChain(size, k)
		st = &state{ch: ch, size: size, k: k, b: newBackend(db, uint64(size), uint64(k))}
	}
	m := make([][]int, ch.L)
	for n := 0; n < ch.L; n++ {
		for i := range ch.model[n] {
			if refMatch(&c, &ch.model[n][i]) {
				m[n] = append(m[n], i)
			}
		}
	}
	via, _ := d["via_api"].(bool)
	return evalQueryVia(st, &c, m, num(d, "begin"), num(d, "end"), via), st, c
}

// panicLine extracts the panic message of a crashed process.
func panicLine(output string) string {
	for _, l := range strings.Split(output, "\n") {
		if strings.HasPrefix(l, "panic: ") || strings.HasPrefix(l, "fatal error: ") {
			return l
		}
	}
	return "process died"
}

func panicClass(line string) string {
	for _, k := range []string{"index out of range", "slice bounds out of range", "nil pointer", "close of closed channel", "send on closed channel", "negative WaitGroup", "all goroutines are asleep", "concurrent map", "makeslice"} {
		if strings.Contains(line, k) {
			return strings.ReplaceAll(k, " ", "-")
		}
	}
	return "other"
}

// runOne runs one query in a process of its own; it reports whether that process died and its output.
func runOne(d map[string]interface{}) (died bool, output string, res *ev.WorkerResult) {
	b, _ := json.Marshal(d)
	out := run.RunWorkers(1, []string{"VERIF_C16_ONE=" + string(b), "VERIF_JOBS=2"}, func(_ int, o string) { died, output = true, o })
	if len(out) == 1 {
		res = out[0]
	}
	return
}

// replayCrash re-runs a query that killed its process.
func replayCrash(d map[string]interface{}) {
	died, output, _ := runOne(d)
	fmt.Printf("NOTE replay in a process of its own: died=%v %s\n", died, panicLine(output))
	if died {
		run.Violate(ev.Violation{Scenario: "log-query", Oracle: "no-crash", CaseID: crashCaseID(d, output), Detail: d})
	}
}

func crashCaseID(d map[string]interface{}, output string) string {
	L, size, k := num(d, "L"), num(d, "size"), num(d, "sections_indexed")
	return fmt.Sprintf("size=%d/%s/%s", size, involvement(num(d, "begin"), num(d, "end"), k*size, L-1), panicClass(panicLine(output)))
}

// foundIn decodes the violations a worker reported.
func foundIn(r *ev.WorkerResult) []ev.Violation {
	if r == nil || r.Extra == nil {
		return nil
	}
	b, _ := json.Marshal(r.Extra["violations"])
	var vs []ev.Violation
	json.Unmarshal(b, &vs)
	return vs
}

// reportFound reports, per signature, the smallest case any worker found.
func reportFound(results []*ev.WorkerResult) {
	best := map[string]ev.Violation{}
	for _, r := range results {
		for _, v := range foundIn(r) {
			sig := v.Signature()
			if old, ok := best[sig]; !ok || num(v.Detail, "weight") < num(old.Detail, "weight") {
				best[sig] = v
			}
		}
	}
	var sigs []string
	for s := range best {
		sigs = append(sigs, s)
	}
	sort.Strings(sigs)
	for _, s := range sigs {
		run.Violate(best[s])
	}
}

// handleCrash: shard died. Run it again with a query trace, then run the last traced query alone.
func handleCrash(shard, nshards int, output string, baseEnv []string) {
	if strings.Contains(output, "HARNESS-ERROR") {
		ev.Broken("worker %d: %s", shard, headStr(output, 2000))
	}
	path := filepath.Join(os.Getenv("VERIF_SCRATCH"), fmt.Sprintf("c16-trace-%d.jsonl", shard))
	defer os.Remove(path)
	died := false
	var out2 string
	budget := 60 * time.Second
	if run.Thorough() {
		budget = 11 * time.Minute
	}
	env := append(append([]string{}, baseEnv...), fmt.Sprintf("VERIF_SHARD=%d/%d", shard, nshards), "VERIF_C16_TRACE="+path, "VERIF_JOBS=1",
		fmt.Sprintf("VERIF_C16_DEADLINE=%d", time.Now().Add(budget).UnixNano()))
	run.RunWorkers(1, env, func(_ int, o string) { died, out2 = true, o })
	if !died {
		ev.Broken("worker %d died once (%s) and not when it was run again", shard, panicLine(output))
	}
	b, _ := os.ReadFile(path)
	lines := strings.Split(strings.TrimSpace(string(b)), "\n")
	var d map[string]interface{}
	if len(lines) == 0 || json.Unmarshal([]byte(lines[len(lines)-1]), &d) != nil {
		ev.Broken("worker %d died before its first query: %s", shard, headStr(out2, 2000))
	}
	alone, out3, _ := runOne(d)
	d["panic"] = panicLine(out2)
	d["msg"] = fmt.Sprintf("the process dies (%s) in filters.New(backend, %d, %d, %v).Logs on a chain of %d blocks, section size %d, %d section(s) indexed",
		panicLine(out2), num(d, "begin"), num(d, "end"), d["criteria"], num(d, "L"), num(d, "size"), num(d, "sections_indexed"))
	d["stack"] = headStr(stackHead(out2), 1500)
	if alone {
		d["reproduces"] = "the query alone, in a fresh process"
		run.Violate(ev.Violation{Scenario: "log-query", Oracle: "no-crash", CaseID: crashCaseID(d, out3), Detail: d})
		return
	}
	d["reproduces"] = "only after the queries that precede it in the shard (deterministically, twice)"
	run.Violate(ev.Violation{Scenario: "log-query", Oracle: "no-crash-in-sequence", CaseID: crashCaseID(d, out2), Detail: d})
}

func stackHead(output string) string {
	if i := strings.Index(output, "panic: "); i >= 0 {
		return output[i:]
	}
	if i := strings.Index(output, "fatal error: "); i >= 0 {
		return output[i:]
	}
	return output
}

// headStr keeps the first n bytes.
func headStr(s string, n int) string {
	if len(s) > n {
		return s[:n]
	}
	return s
}

func replay(d *ev.ReplayDoc) {
	switch d.Detail["part"] {
	case "criteria-json":
		partCriteriaJSON(run) // the whole part is re-run: it reports the same case again if it still fails
	case "receipt":
		alpha := logAlphabet(4)
		var logs []mlog
		for _, i := range ints(d.Detail["logs"]) {
			logs = append(logs, alpha[i])
		}
		reportBloomFails("bloom-receipt", checkReceiptBloom(logs), map[string]interface{}{"part": "receipt", "logs": d.Detail["logs"]},
			func() []bloomFail { return checkReceiptBloom(logs) })
	case "block":
		nTop := num(d.Detail, "n_topics")
		if nTop == 0 {
			nTop = 3
		}
		ralpha := receiptAlphabet(logAlphabetN(num(d.Detail, "max_topics"), nTop))
		var rs []alphaReceipt
		if l, ok := d.Detail["receipts"].([]interface{}); ok {
			for _, r := range l {
				want := ints(r)
				for _, ar := range ralpha {
					if fmt.Sprint(ar.idx) == fmt.Sprint(want) || (len(ar.idx) == 0 && len(want) == 0) {
						rs = append(rs, ar)
						break
					}
				}
			}
		}
		reportBloomFails("bloom-header", checkBlockBloom(rs), map[string]interface{}{"part": "block", "receipts": d.Detail["receipts"]},
			func() []bloomFail { return checkBlockBloom(rs) })
	case "query", "index":
		if d.Oracle == "no-crash" {
			replayCrash(d.Detail)
			return
		}
		ch := buildChain(num(d.Detail, "L"), num(d.Detail, "rot"), num(d.Detail, "layout"))
		size, k := num(d.Detail, "size"), num(d.Detail, "sections_indexed")
		_, problems := ch.writeChain(size, k)
		for _, p := range problems {
			run.Violate(ev.Violation{Scenario: "bloombits-index", Oracle: "generator-no-false-negative", CaseID: fmt.Sprintf("size=%d", size),
				Detail: map[string]interface{}{"msg": p}})
		}
		if d.Detail["part"] == "index" {
			return
		}
		v, st, c := oneQuery(d.Detail)
		begin, end := num(d.Detail, "begin"), num(d.Detail, "end")
		fmt.Printf("NOTE replay %s begin=%d end=%d got=%v want=%v err=%q\n", c.String(), begin, end, v.got, v.want, v.errText)
		if v.bad {
			run.Violate(ev.Violation{Scenario: d.Scenario, Oracle: v.oracle, CaseID: d.CaseID, Detail: st.detail(&c, begin, end, v)})
		}
	case "prod-query", "prod-index":
		if d.Oracle == "no-crash" {
			replayCrash(d.Detail)
			return
		}
		col := newCollector()
		ch := buildProdChain()
		states := prodStates(ch, col)
		for _, v := range foundIn(col.done()) {
			run.Violate(v)
		}
		if d.Detail["part"] == "prod-index" {
			return
		}
		st := states[0]
		if num(d.Detail, "sections_indexed") != 1 {
			st = states[1]
		}
		c := mkCriteria(num(d.Detail, "addr_sel"), ints(d.Detail["topic_sel"]))
		m := make([][]int, ch.L)
		for n := 0; n < ch.L; n++ {
			for i := range ch.model[n] {
				if refMatch(&c, &ch.model[n][i]) {
					m[n] = append(m[n], i)
				}
			}
		}
		begin, end := num(d.Detail, "begin"), num(d.Detail, "end")
		v := evalQuery(st, &c, m, begin, end)
		if v.bad {
			run.Violate(ev.Violation{Scenario: d.Scenario, Oracle: v.oracle, CaseID: d.CaseID, Detail: st.detail(&c, begin, end, v)})
		}
	default:
		ev.Broken("unknown replay part %v", d.Detail["part"])
	}
}

// ---- entry --------------------------------------------------------------------------------------

// Sixteen in-process workers on sixteen Ps spend three quarters of their time in futex wake-ups of
// the matcher's goroutine hand-offs; processes with two Ps each run the same queries at a quarter
// of the CPU cost. Part 2 is therefore sharded over worker processes (ev.RunWorkers).
func worker(shard, n int) {
	deadline := time.Now().Add(10 * time.Minute)
	if ns, err := strconv.ParseInt(os.Getenv("VERIF_C16_DEADLINE"), 10, 64); err == nil {
		deadline = time.Unix(0, ns)
	}
	col := newCollector()
	if one := os.Getenv("VERIF_C16_ONE"); one != "" {
		var d map[string]interface{}
		if err := json.Unmarshal([]byte(one), &d); err != nil {
			ev.Broken("bad VERIF_C16_ONE: %v", err)
		}
		stop := make(chan struct{})
		go watchdog(stop)
		if v, st, c := oneQuery(d); v.bad {
			col.violate(ev.Violation{Scenario: "log-query", Oracle: v.oracle, CaseID: "single", Detail: st.detail(&c, num(d, "begin"), num(d, "end"), v)}, 0)
		}
		ev.WorkerDone(col.done())
	}
	if p := os.Getenv("VERIF_C16_TRACE"); p != "" {
		f, err := os.Create(p)
		if err != nil {
			ev.Broken("trace file: %v", err)
		}
		traceFile = f
	}
	part2(tierCfgs(os.Getenv("VERIF_TIER")), deadline, shard, n, col)
	ev.WorkerDone(col.done())
}

func TestCheck(t *testing.T) {
	log.Root().SetHandler(log.DiscardHandler())
	if shard, n, ok := ev.Shard(); ok {
		worker(shard, n)
		return
	}
	run = ev.Start("exploration")
	run.Rule = "part 1: every receipt with one log over {3 addresses x topic lists of length 0-4 over 3 topics}, every receipt with two such logs " +
		"(quick: logs with <= 3 topics) and every block with <=2 receipts over reduced alphabets; a case is distinct by its log multiset shape. " +
		"part 2: every (chain, section size, number of indexed sections, address list x positional topic alternatives, begin, end) with " +
		"begin,end in {-1,0..L+1} through filters.New(...).Logs, and every query with an open end also through PublicFilterAPI.GetLogs; " +
		"a query is non-trivial by where begin/end lie relative to the indexed boundary and the head and whether logs are expected. " +
		"thorough adds the production section size 4096 (index built by the real ChainIndexer/BloomIndexer) with begin,end over all pairs of 15 boundary points"
	run.Assume("log alphabet: addresses {zero, leading-zero, all-ones}, topics {zero, event-signature-like, all-ones}, one unknown address and one unknown topic; data does not enter blooms")
	run.Assume("chains of 16-40 blocks (dense: all 8 block kinds in every aligned group of 8; sparse: alternate groups blanked), section sizes 8 and 16; " +
		"the bloom-bits vectors of bits >= section size are read with an in-package accessor because Generator.Bitset refuses them for sections smaller than 2048 blocks")
	run.Assume("address lists {none, {A0}, {A0,A1}, {unknown}}; per topic position {wildcard, {t}, {t,u}, {unknown}}, 0-3 positions (0-2 for some chains, see coverage.chains)")
	run.Assume("the matcher goroutine pipeline runs free (no schedule enumeration) in worker processes with GOMAXPROCS 2 (thorough: one configuration also with 1 and 4); header version 1 (keccak) for all blocks")
	run.Assume("reference semantics: begin/end -1 = current head, nothing beyond the head, begin > end is empty; the backend mirrors aqua.AquaApiBackend (3 multiplexers per session, handlers as in aqua.startBloomHandlers with the section size as parameter)")
	if d := ev.Replay(); d != nil {
		replay(d)
		run.Finish()
	}
	partCriteriaJSON(run)
	t1 := time.Now()
	part1()
	run.Set("part1_wall_s", time.Since(t1).Seconds())
	cfgs := tierCfgs(run.Tier)
	var desc []string
	for _, c := range cfgs {
		if c.prod {
			desc = append(desc, fmt.Sprintf("L=%d section size %d (production): 1 section by the generator, 2 sections by the real ChainIndexer/BloomIndexer; ranges = pairs of %d boundary points; topic-positions<=2", 2*prodSize+300, prodSize, len(prodRangePoints(0))))
			continue
		}
		desc = append(desc, fmt.Sprintf("L=%d rot=%d layout=%d sizes=%v gomaxprocs=%d topic-positions<=%d criteria=%d", c.L, c.rot, c.layout, c.sizes, c.gmp, c.maxPos, len(allCriteria(c.maxPos))))
	}
	run.Set("chains", desc)
	deadline := run.Deadline(60*time.Second, 11*time.Minute)
	if v, err := strconv.Atoi(os.Getenv("VERIF_C16_DEADLINE_S")); err == nil { // developer aid on a busy machine
		deadline = time.Now().Add(time.Duration(v) * time.Second)
	}
	nw := ev.Jobs() / 2
	if nw < 1 {
		nw = 1
	}
	baseEnv := []string{"VERIF_JOBS=2", fmt.Sprintf("VERIF_C16_DEADLINE=%d", deadline.UnixNano())}
	var cmu sync.Mutex
	crashed := map[int]string{}
	results := run.RunWorkers(nw, baseEnv, func(shard int, output string) {
		cmu.Lock()
		crashed[shard] = output
		cmu.Unlock()
	})
	reportFound(results)
	var capSmall, capProd int64
	for _, r := range results {
		if r != nil {
			capSmall += r.Counters["capped_small_chains"]
			capProd += r.Counters["capped_production_size"]
		}
	}
	if capSmall > 0 {
		run.Cap(fmt.Sprintf("deadline reached before all (chain, size, progress, criteria) jobs were run (%d of %d workers)", capSmall, nw))
	}
	if capProd > 0 {
		run.Cap(fmt.Sprintf("deadline reached before all production-size jobs were run (%d of %d workers)", capProd, nw))
	}
	// a worker that died: the code under test crashed the process (a panic on one of the matcher's
	// goroutines cannot be recovered by the caller). Find the query, report it.
	var shards []int
	for s := range crashed {
		shards = append(shards, s)
	}
	sort.Ints(shards)
	if len(shards) > 0 {
		run.Cap(fmt.Sprintf("%d of %d workers died, their remaining jobs were not run", len(shards), nw))
	}
	for i, s := range shards {
		if i >= 2 {
			break // the same defect, most likely; two traces are enough
		}
		handleCrash(s, nw, crashed[s], baseEnv)
	}
	run.Finish()
}
