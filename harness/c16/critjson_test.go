package c16

// Part 0: the criteria a client sends are JSON (aqua_getLogs / aqua_newFilter); FilterCriteria.UnmarshalJSON
// turns them into the address list and the positional topic alternatives that parts 2 and 3 then query
// with. Every criteria text with 0-3 topic positions, each position one of {null, "t", ["t"], ["t","u"],
// [null], [null,"t"], ["t",null], ["t",null,"u"], []}, x {no address, one address, a list of two} is
// decoded and compared with the documented meaning: a position is a wildcard when it is null, an empty
// list or a list that contains null; otherwise it is exactly the listed alternatives, in order.

import (
	"encoding/json"
	"fmt"
	"strings"

	"gitlab.com/aquachain/aquachain/aqua/filters"
	"gitlab.com/aquachain/aquachain/common"
	"gitlab.com/aquachain/aquachain/zzverif/ev"
)

type posForm struct {
	text string
	want []int // nil: wildcard; otherwise indices into the two topics
}

func partCriteriaJSON(run *ev.Run) {
	tops := []common.Hash{common.HexToHash("0x11" + strings.Repeat("00", 30) + "aa"), common.HexToHash("0xddf252ad1be2c89b69c2b068fc378daa952ba7f163c4a11628f55a4df523b3ef")}
	q := func(i int) string { return `"` + tops[i].Hex() + `"` }
	forms := []posForm{
		{"null", nil},
		{q(0), []int{0}},
		{"[" + q(0) + "]", []int{0}},
		{"[" + q(0) + "," + q(1) + "]", []int{0, 1}},
		{"[null]", nil},
		{"[null," + q(0) + "]", nil},
		{"[" + q(0) + ",null]", nil},
		{"[" + q(0) + ",null," + q(1) + "]", nil},
		{"[]", nil},
	}
	addrs := []common.Address{common.HexToAddress("0x00000000000000000000000000000000000000a1"), common.HexToAddress("0xffffffffffffffffffffffffffffffffffffffff")}
	aq := func(i int) string { return `"` + addrs[i].Hex() + `"` }
	addrForms := []struct {
		text string
		want []int
	}{{"", nil}, {aq(0), []int{0}}, {"[" + aq(0) + "," + aq(1) + "]", []int{0, 1}}}
	n := 0
	for npos := 0; npos <= 3; npos++ {
		total := 1
		for i := 0; i < npos; i++ {
			total *= len(forms)
		}
		for x := 0; x < total; x++ {
			sel := make([]int, npos)
			y := x
			for i := range sel {
				sel[i] = y % len(forms)
				y /= len(forms)
			}
			for ai, af := range addrForms {
				var parts []string
				for _, s := range sel {
					parts = append(parts, forms[s].text)
				}
				text := `{"fromBlock":"0x1","toBlock":"0x2",`
				if af.text != "" {
					text += `"address":` + af.text + ","
				}
				text += `"topics":[` + strings.Join(parts, ",") + "]}"
				n++
				var crit filters.FilterCriteria
				id := fmt.Sprintf("addr=%d/topics=%v", ai, sel)
				report := func(msg string) {
					run.Violate(ev.Violation{Scenario: "criteria-json", Oracle: "decoded-criteria-mean-what-the-text-says", CaseID: id,
						Detail: map[string]interface{}{"part": "criteria-json", "json": text, "msg": msg}})
				}
				if err := json.Unmarshal([]byte(text), &crit); err != nil {
					report("well-formed criteria refused: " + err.Error())
					continue
				}
				if len(crit.Addresses) != len(af.want) {
					report(fmt.Sprintf("%d addresses decoded, %d given", len(crit.Addresses), len(af.want)))
					continue
				}
				for i, w := range af.want {
					if crit.Addresses[i] != addrs[w] {
						report(fmt.Sprintf("address %d decoded as %x", i, crit.Addresses[i]))
					}
				}
				// positions beyond the decoded list are wildcards
				for p, s := range sel {
					var got []common.Hash
					if p < len(crit.Topics) {
						got = crit.Topics[p]
					}
					want := forms[s].want
					ok := len(got) == len(want)
					for i := 0; ok && i < len(want); i++ {
						ok = got[i] == tops[want[i]]
					}
					if !ok {
						report(fmt.Sprintf("topic position %d given as %s decoded as %x (a position is a wildcard when it is null, empty or contains null; otherwise exactly the listed alternatives)", p, forms[s].text, got))
						break
					}
				}
				if len(crit.Topics) > npos {
					report(fmt.Sprintf("%d topic positions decoded, %d given", len(crit.Topics), npos))
				}
			}
		}
	}
	run.Eval(n)
	run.Set("criteria_json_texts", n)
	run.Class("criteria-json/decoded")
}
