// C07 - EVM execution is total, gas-bounded and sandboxed for every program.
// Engine E4: adversarial programs (all short sequences over a macro alphabet, every byte value, every
// operand tuple of the state-touching / memory / call instructions, precompile inputs, recursion to the
// depth limit) run on the real core/vm through vm.EVM.Call / Create with a step tracer that checks gas
// accounting, paid-for memory, call depth and - around every failing or static frame - that world state
// is exactly what it was. DESIGN.md section 4/C07.
package c07

import (
	"fmt"
	"math/big"
	"os"
	"sort"
	"strconv"
	"strings"
	"sync"
	"sync/atomic"
	"testing"
	"time"

	"gitlab.com/aquachain/aquachain/common"
	"gitlab.com/aquachain/aquachain/common/log"
	"gitlab.com/aquachain/aquachain/core/vm"
	"gitlab.com/aquachain/aquachain/zzverif/ev"
	"gitlab.com/aquachain/aquachain/zzverif/evmkit"
)

var gcBallast []byte

type checker struct {
	run      *ev.Run
	worlds   map[string]*world
	deadline time.Time
	capped   sync.Once
	done     atomic.Bool
	classes  sync.Map // string -> struct{}
	counts   sync.Map // scenario -> *atomic.Int64
	info     sync.Map // informational counters -> *atomic.Int64
}

func (k *checker) add(m *sync.Map, key string, n int64) {
	c, ok := m.Load(key)
	if !ok {
		c, _ = m.LoadOrStore(key, new(atomic.Int64))
	}
	c.(*atomic.Int64).Add(n)
}

func dump(m *sync.Map) map[string]int64 {
	out := map[string]int64{}
	m.Range(func(k, v interface{}) bool { out[k.(string)] = v.(*atomic.Int64).Load(); return true })
	return out
}

// expired is sticky: once the deadline has passed every caller stops.
func (k *checker) expired() bool {
	if k.done.Load() {
		return true
	}
	if time.Now().After(k.deadline) {
		k.done.Store(true)
		k.capped.Do(func() { k.run.Cap("internal deadline reached before the enumeration was complete") })
		return true
	}
	return false
}

// stop is the cheap per-item form: reads the sticky flag always, the clock every 32nd item.
func (k *checker) stop(i int) bool { return k.done.Load() || (i%32 == 0 && k.expired()) }

func errClass(err error) string {
	if err == nil {
		return "ok"
	}
	s := err.Error()
	for _, p := range []string{"invalid opcode", "stack underflow", "stack limit", "invalid jump destination"} {
		if strings.HasPrefix(s, p) {
			return p
		}
	}
	return s
}

// evaluate runs one case, records its class and reports a finding after re-confirming it.
func (k *checker) evaluate(c Case) outcome {
	w := k.worlds[c.Ep.Name]
	out := execute(w, c)
	k.run.Eval(1)
	k.add(&k.counts, c.Scenario+"/"+string(c.Mode), 1)
	if out.tr.steps > 0 || c.To != (common.Address{}) {
		// class: scenario, mode, epoch, how it ended, deepest frame, which call-type instructions ran, whether memory grew
		var calls []string
		for _, op := range []vm.OpCode{vm.CALL, vm.CALLCODE, vm.DELEGATECALL, vm.STATICCALL, vm.CREATE, vm.SELFDESTRUCT, vm.SSTORE, vm.LOG2} {
			if out.tr.opsSeen[byte(op)] {
				calls = append(calls, op.String())
			}
		}
		memc := "mem0"
		switch {
		case out.tr.maxMem > 1<<16:
			memc = "mem>64k"
		case out.tr.maxMem > 0:
			memc = "mem>0"
		}
		d := out.tr.maxDepth
		if d > 3 {
			d = 3
		}
		k.classes.Store(fmt.Sprintf("%s|%s|%s|%s|d%d|%s|%s|failedcalls=%v", c.Scenario, c.Mode, c.Ep.Name, errClass(out.err), d, strings.Join(calls, "+"), memc, out.tr.callFailed > 0), struct{}{})
	}
	if out.tr.nestedSeen > 0 {
		k.add(&k.info, "call_sites_observed", int64(out.tr.nestedSeen))
		k.add(&k.info, "failed_callee_frames_checked", int64(out.tr.callFailed))
	}
	if out.err != nil && c.Mode != ModeStatic {
		k.add(&k.info, "failed_top_frames_checked", 1)
	}
	if c.Mode == ModeStatic && c.Ep.ByzRules {
		k.add(&k.info, "static_executions_checked", 1)
	}
	if c.Mode == ModeStatic && !c.Ep.ByzRules && out.stateMoved {
		k.add(&k.info, "static_call_changed_state_before_byzantium_rules", 1)
	}
	if out.f != nil {
		for i := 0; i < 3; i++ {
			again := execute(w, c)
			if again.f == nil || again.f.oracle != out.f.oracle || again.f.op != out.f.op {
				ev.Broken("C07: verdict not deterministic for %s code=%x gas=%d %s", c.Mode, c.Code, c.Gas, c.Ep.Name)
			}
		}
		k.run.Violate(ev.Violation{Scenario: c.Scenario, Oracle: out.f.oracle, CaseID: fmt.Sprintf("%s/op=%s", c.Mode, out.f.op), Detail: c.detail(out.f)})
	}
	return out
}

func (k *checker) parallel(n int, f func(i int)) {
	ev.ParallelFor(n, func(i int) {
		if k.stop(i) {
			return
		}
		f(i)
	})
}

func hasStaticCall(ep evmkit.Epoch) bool { return ep.Fork.Byzantium }

func modesFor(ep evmkit.Epoch, create bool) []Mode {
	m := []Mode{ModeCall}
	if hasStaticCall(ep) {
		m = append(m, ModeStatic)
	}
	if create {
		m = append(m, ModeCreate)
	}
	return m
}

var calldata64 = func() []byte {
	b := make([]byte, 64)
	for i := range b {
		b[i] = byte(0xc1 + i*5)
	}
	return b
}()

func calldataN(n int) []byte {
	b := make([]byte, n)
	for i := range b {
		b[i] = byte(0x11 + i*3)
	}
	return b
}

func TestCheck(t *testing.T) {
	log.Root().SetHandler(log.DiscardHandler())
	// a never-touched ballast keeps GC cycles ~256 MiB apart (see harness/c08): every case builds a fresh EVM
	mb := 256
	if v, err := strconv.Atoi(os.Getenv("VERIF_C07_BALLAST_MB")); err == nil {
		mb = v
	}
	gcBallast = make([]byte, mb<<20)

	run := ev.Start("exploration")
	run.Rule = "a case is (entry mode call/static/create, program bytes, call data, gas, epoch); classes = distinct (scenario, mode, epoch, how the top frame ended, deepest frame reached (capped at 3), which of CALL/CALLCODE/DELEGATECALL/STATICCALL/CREATE/SELFDESTRUCT/SSTORE/LOG2 executed, memory growth class, whether a callee frame failed) over cases that executed at least one instruction"
	run.Assume("gas budgets are at most the block gas limit 4712388 (2^62 only for the fixed recursion programs), which bounds memory and running time")
	run.Assume("world state is observed as (state root of a deep copy after IntermediateRoot(EIP-158 clearing iff active at the height), digest of the log list, refund counter; the refund an SSTORE/SELFDESTRUCT books in its own gas function before the tracer sees the step is subtracted); state.StateDB.Copy and trie hashing are trusted as observers (their own properties are C09/C10)")
	if run.Thorough() {
		nestedObsPerCase = 48
	}
	run.Assume(fmt.Sprintf("around call sites inside a program the before/after observation is made for the first %d call-type instructions of an execution; the top-level frame is always observed", nestedObsPerCase))
	run.Assume("static-call immutability is asserted where Byzantium rules are active (test@0-4, mainnet >= 36050); on mainnet 22800..36049 STATICCALL is a valid opcode without write protection - counted as information only, the property says 'under Byzantium rules'")
	run.Assume("a call-type instruction must cost the frame at least G_call=700 (G_create=32000) net of returned gas; other instructions exactly their traced cost")
	run.Assume("precompile allocation is bounded as TotalAlloc delta <= 8 MiB + 512 B per unit of gas supplied, measured single-threaded")

	k := &checker{run: run, worlds: map[string]*world{}}
	k.deadline = run.Deadline(150*time.Second, 14*time.Minute)
	epochs := evmkit.Epochs()
	for _, ep := range epochs {
		k.worlds[ep.Name] = buildWorld(ep)
	}

	if d := ev.Replay(); d != nil {
		replay(k, d)
		run.Finish()
	}

	use := []evmkit.Epoch{epochs[0], epochs[1], epochs[2], epochs[5]} // homestead, byzantium, spring, spring before Byzantium rules
	gases := []uint64{100, 21000, 1000000}
	seqDepth, createDepth := 3, 2
	if run.Thorough() {
		use = epochs
		gases = []uint64{0, 1, 2, 100, 21000, 1000000, evmkit.GasLimit}
		seqDepth, createDepth = 4, 3
	}
	var names []string
	for _, e := range use {
		names = append(names, e.Name)
	}
	run.Set("epochs", names)
	run.Set("gas_budgets", gases)
	only := os.Getenv("VERIF_C07_ONLY")
	on := func(part string) bool { return only == "" || only == part }
	if only != "" {
		run.Cap("restricted to part " + only)
	}
	phases := map[string]float64{}
	last := time.Now()
	lap := func(name string) { phases[name] += time.Since(last).Seconds(); last = time.Now() }

	// ---- precompiles, called directly ------------------------------------------------------------------------
	if on("precompile") {
		k.precompiles(use, run.Thorough())
	}
	lap("precompile")

	// ---- recursion to the depth limit --------------------------------------------------------------------------
	if on("depth") {
		k.depthLimit(use)
	}
	lap("depth")

	// ---- two creations with different init code in one frame ---------------------------------------------------
	if on("create-pairs") {
		k.createPairs(use)
	}
	lap("create-pairs")

	// ---- every operand tuple of one instruction -------------------------------------------------------------------
	if on("ops") {
		progs := singleOps(run.Thorough())
		run.Set("single_instruction_programs", len(progs))
		opGases := []uint64{21000, 1000000}
		if run.Thorough() {
			opGases = []uint64{100, 21000, 1000000, evmkit.GasLimit}
		}
		for _, ep := range use {
			for _, mode := range modesFor(ep, false) {
				for gi, g := range opGases {
					if run.Quick() && mode == ModeStatic && gi != len(opGases)-1 {
						continue // quick tier: the static wrapper only with the ample budget
					}
					k.parallel(len(progs), func(i int) {
						k.evaluate(Case{Scenario: "ops", Mode: mode, Code: progs[i], Input: calldata64, Gas: g, Ep: ep})
					})
				}
			}
		}
	}
	lap("ops")

	// ---- every byte value alone and after three pushes ------------------------------------------------------------
	if on("bytes") {
		vals := v3()
		if run.Thorough() {
			vals = []*big.Int{big.NewInt(0), big.NewInt(32), dec(pow2(64)), dec(pow2(256))}
		}
		progs := byteprograms(vals)
		run.Set("byte_programs", len(progs))
		for _, ep := range use {
			for _, mode := range modesFor(ep, true) {
				for _, g := range gases {
					k.parallel(len(progs), func(i int) {
						k.evaluate(Case{Scenario: "bytes", Mode: mode, Code: progs[i], Input: calldata64, Gas: g, Ep: ep})
					})
				}
			}
		}
	}
	lap("bytes")

	// ---- all short sequences over the macro alphabet -----------------------------------------------------------------
	if on("seq") {
		alpha := alphabet()
		run.Set("sequence_alphabet", len(alpha))
		run.Set("sequence_depth", map[string]int{"call_and_static": seqDepth, "create": createDepth, "programs": seqCount(len(alpha), seqDepth)})
		inputs := [][]byte{calldata64}
		if run.Thorough() {
			inputs = [][]byte{calldata64, nil, calldataN(1), calldataN(2048)}
		}
		type job struct{ length, first int }
		var jobs []job
		for l := seqDepth; l >= 1; l-- {
			for f := range alpha {
				jobs = append(jobs, job{l, f})
			}
		}
		// two passes so that a deadline cap cuts the longest programs, not whole epochs: first everything
		// shorter than seqDepth on every epoch, then the seqDepth-symbol programs
		for pass := 0; pass < 2; pass++ {
			for _, ep := range use {
				if run.Quick() && ep.Name == epochs[5].Name {
					continue // quick tier: the pre-Byzantium-rules spring epoch only sees the ops/bytes/precompile/depth parts
				}
				mainEpoch := ep.Name == epochs[0].Name || ep.Name == epochs[1].Name || ep.Name == epochs[2].Name
				modes := modesFor(ep, true)
				k.parallel(len(jobs), func(i int) {
					j := jobs[i]
					if (pass == 0) == (j.length == seqDepth) {
						return
					}
					n := 0
					enumSeq(alpha, j.length, j.first, func(code []byte) {
						n++
						if k.stop(n) {
							return
						}
						for _, mode := range modes {
							if mode == ModeCreate && j.length > createDepth {
								continue
							}
							if run.Thorough() && j.length == seqDepth && (!mainEpoch || (mode == ModeStatic && !ep.ByzRules)) {
								continue // thorough tier: 4-symbol programs on the three main epochs (static mode where it is asserted)
							}
							for gi, g := range gases {
								if run.Quick() && j.length == seqDepth && (g < 1000 || (mode == ModeStatic && gi != len(gases)-1)) {
									continue // quick tier, longest programs: no starvation budget; static wrapper only with the ample budget
								}
								if run.Thorough() && j.length == seqDepth && g != 1000000 {
									continue // thorough tier: 4-symbol programs with one ample budget
								}
								for ii, in := range inputs {
									if ii > 0 && (j.length > 3 || gi != len(gases)-2) { // extra call data sizes: up to 3 symbols, one gas budget (10^6)
										continue
									}
									k.evaluate(Case{Scenario: "seq", Mode: mode, Code: code, Input: in, Gas: g, Ep: ep})
								}
							}
						}
					})
				})
			}
		}
	}
	lap("seq")

	var cl []string
	k.classes.Range(func(key, _ interface{}) bool { cl = append(cl, key.(string)); return true })
	sort.Strings(cl)
	run.Classes(cl)
	run.Set("evaluations_per_scenario", dump(&k.counts))
	run.Set("oracle_applications", dump(&k.info))
	run.Set("phase_seconds", phases)
	run.Sample(map[string]interface{}{"scenario": "seq", "what": "e.g. PUSH32 2^256-1, DUP1, CALLDATACOPY / CALL(suicider,value 1), PUSH 0, SELFDESTRUCT / STATICCALL(writer), RETURNDATACOPY ..., entered by Call, inside a STATICCALL wrapper, and as init code of Create"})
	run.Sample(map[string]interface{}{"scenario": "ops", "what": "push operands; op; STOP for every operand tuple over {0,1,32,2^63,2^64-1,2^256-1} (sub-lattices for 4+ operands), calls over 3 gas x 15 targets x 3 values x 81 memory ranges"})
	run.Sample(map[string]interface{}{"scenario": "depth", "what": "longest: self-recursive CALL/CALLCODE/DELEGATECALL/STATICCALL/CREATE with 2^62 gas, 1025 nested frames"})
	run.Sample(map[string]interface{}{"scenario": "precompile", "what": "addresses 1..9, inputs of every length 0..200 of 0x00/0xff/0x01, pairing sizes around k*192, ecrecover v/r/s boundaries, modexp length lattice up to 2^256-1"})
	run.Finish()
}
