package c07

import (
	"encoding/hex"
	"fmt"
	"runtime"
	"strconv"

	"gitlab.com/aquachain/aquachain/common"
	"gitlab.com/aquachain/aquachain/zzverif/ev"
	"gitlab.com/aquachain/aquachain/zzverif/evmkit"
)

// precompiles calls addresses 1..9 directly with every input, first in parallel under the general
// oracles, then (modexp, the only one whose work is not linear in its input) single-threaded with an
// allocation bound.
func (k *checker) precompiles(use []evmkit.Epoch, thorough bool) {
	generic, modexp := precompileInputs(thorough)
	inputs := append(append([][]byte{}, generic...), modexp...)
	k.run.Set("precompile_inputs", map[string]int{"every_address": len(generic), "modexp_only": len(modexp)})
	gases := []uint64{0, 3000, 100000}
	if thorough {
		gases = []uint64{0, 59, 60, 2999, 3000, 21000, 1000000, evmkit.GasLimit}
	}
	type pc struct {
		addr byte
		in   int
	}
	var cases []pc
	for a := byte(1); a <= 9; a++ {
		for i := range inputs {
			if i >= len(generic) && a != 5 {
				break
			}
			cases = append(cases, pc{a, i})
		}
	}
	for _, ep := range use {
		for _, g := range gases {
			k.parallel(len(cases), func(i int) {
				c := cases[i]
				k.evaluate(Case{Scenario: "precompile", Mode: ModeCall, Input: inputs[c.in], Gas: g, Ep: ep, To: common.BytesToAddress([]byte{c.addr}), Code: []byte{0}})
			})
		}
	}
	// allocation bound, modexp, highest budget of the tier
	g := gases[len(gases)-1]
	var ms runtime.MemStats
	for _, ep := range use {
		if !ep.ByzRules {
			continue // address 5 is not a precompile there
		}
		w := k.worlds[ep.Name]
		for i, in := range inputs {
			if k.stop(i) {
				return
			}
			c := Case{Scenario: "precompile", Mode: ModeCall, Input: in, Gas: g, Ep: ep, To: common.BytesToAddress([]byte{5}), Code: []byte{0}}
			runtime.ReadMemStats(&ms)
			before := ms.TotalAlloc
			out := execute(w, c)
			runtime.ReadMemStats(&ms)
			delta := ms.TotalAlloc - before
			k.run.Eval(1)
			k.add(&k.counts, "precompile-alloc/call", 1)
			// what a call may allocate is bounded by what it paid for (gas consumed), not by what it was offered
			used := g
			if out.left <= g {
				used = g - out.left
			}
			if limit := uint64(8<<20) + 512*used; delta > limit && out.f == nil {
				// re-measure twice: the bound must be exceeded every time
				again := 0
				for r := 0; r < 2; r++ {
					runtime.ReadMemStats(&ms)
					b := ms.TotalAlloc
					execute(w, c)
					runtime.ReadMemStats(&ms)
					if ms.TotalAlloc-b > limit {
						again++
					}
				}
				if again == 2 {
					f := &finding{oracle: "alloc", op: "modexp", what: fmt.Sprintf("modexp allocated %d bytes while consuming %d gas (bound %d)", delta, used, limit)}
					k.run.Violate(ev.Violation{Scenario: c.Scenario, Oracle: "alloc", CaseID: "call/op=modexp", Detail: c.detail(f)})
				}
			}
		}
	}
}

// depthLimit: self-recursive programs with 2^62 gas must reach exactly depth 1024 (1025 frames) and stop there.
func (k *checker) depthLimit(use []evmkit.Epoch) {
	recs := recursions()
	type dc struct {
		ep  evmkit.Epoch
		rec recursion
	}
	var cases []dc
	for _, ep := range use {
		for _, r := range recs {
			if r.name == "STATICCALL" && !hasStaticCall(ep) {
				continue
			}
			cases = append(cases, dc{ep, r})
		}
	}
	k.parallel(len(cases), func(i int) {
		c := cases[i]
		cs := Case{Scenario: "depth", Mode: ModeCall, Code: c.rec.code, Gas: 1 << 62, Ep: c.ep, NoNested: true}
		out := k.evaluate(cs)
		if out.f == nil && out.tr.maxDepth != 1025 {
			f := &finding{oracle: "depth-reached", op: c.rec.name, what: fmt.Sprintf("self-recursive %s with 2^62 gas reached %d nested frames, expected exactly 1025 (depth 0..1024)", c.rec.name, out.tr.maxDepth)}
			k.run.Violate(ev.Violation{Scenario: "depth", Oracle: f.oracle, CaseID: "call/op=" + c.rec.name, Detail: cs.detail(f)})
		}
		// the same recursion with the block gas limit and nested observations on: every frame that fails must roll back
		k.evaluate(Case{Scenario: "depth", Mode: ModeCall, Code: c.rec.code, Gas: evmkit.GasLimit, Ep: c.ep})
	})
}

// createPairs: one frame creates two contracts one after the other; every ordered pair of init codes from
// a set whose members jump (near, far, into PUSH data that another member has as code at the same offset)
// or do not jump. Whatever an execution learns about one piece of code must not carry over to another.
func createInits() [][]byte {
	h := func(s string) []byte { b, _ := hex.DecodeString(s); return b }
	return [][]byte{
		h("6003565b00"),     // PUSH1 3 JUMP JUMPDEST STOP
		h("6005565b5b5b00"), // JUMPDESTs at 3,4,5; jumps to 5
		h("600456615b5b00"), // PUSH1 4 JUMP PUSH2 5b5b STOP: target 4 is PUSH data (invalid)
		h("601456" + "6f" + "5b5b5b5b5b5b5b5b5b5b5b5b5b5b5b5b" + "5b00"), // PUSH1 20 JUMP PUSH16 <16 x 5b> JUMPDEST(20) STOP: far valid target
		h("600a56" + "6f" + "5b5b5b5b5b5b5b5b5b5b5b5b5b5b5b5b" + "5b00"), // PUSH1 10 JUMP ...: target inside the PUSH16 data (invalid)
		h("600160005500"),                          // no jump: SSTORE(0,1) STOP
		h("6001600055" + "616000" + "6000" + "f3"), // SSTORE(0,1); RETURN 24576 bytes: the largest code that may be deposited
		h("6001600055" + "616001" + "6000" + "f3"), // SSTORE(0,1); RETURN 24577 bytes: one byte too large, the creation fails as a whole
	}
}

func createPairProgram(a, b []byte) []byte {
	one := func(init []byte) []byte {
		w := make([]byte, 32)
		copy(w, init)
		p := append([]byte{0x7f}, w...)                                              // PUSH32 init (left aligned)
		p = append(p, 0x60, 0x00, 0x52)                                              // PUSH1 0 MSTORE
		p = append(p, 0x60, byte(len(init)), 0x60, 0x00, 0x60, 0x00, opCREATE, 0x50) // CREATE(0, 0, len) POP
		return p
	}
	return append(append(one(a), one(b)...), 0x00)
}

func (k *checker) createPairs(use []evmkit.Epoch) {
	inits := createInits()
	type pc struct {
		ep   evmkit.Epoch
		a, b int
	}
	var cases []pc
	for _, ep := range use {
		for a := range inits {
			for b := range inits {
				cases = append(cases, pc{ep, a, b})
			}
		}
	}
	k.run.Set("create_pair_programs", len(cases))
	k.parallel(len(cases), func(i int) {
		c := cases[i]
		for _, g := range []uint64{1000000, evmkit.GasLimit} {
			k.evaluate(Case{Scenario: "create-pairs", Mode: ModeCall, Code: createPairProgram(inits[c.a], inits[c.b]), Gas: g, Ep: c.ep})
		}
	})
}

func replay(k *checker, d *ev.ReplayDoc) {
	get := func(key string) string { s, _ := d.Detail[key].(string); return s }
	code, e1 := hex.DecodeString(get("code"))
	input, e2 := hex.DecodeString(get("input"))
	to, e3 := hex.DecodeString(get("to"))
	gas, e4 := strconv.ParseUint(get("gas"), 10, 64)
	ep, ok := evmkit.EpochByName(get("epoch"))
	if e1 != nil || e2 != nil || e3 != nil || e4 != nil || !ok {
		ev.Broken("replay: malformed detail")
	}
	val, _ := d.Detail["value"].(float64)
	nn, _ := d.Detail["no_nested"].(bool)
	c := Case{Scenario: d.Scenario, Mode: Mode(get("mode")), Code: code, Input: input, Gas: gas, Value: int64(val), Ep: ep, To: common.BytesToAddress(to), NoNested: nn}
	if _, have := k.worlds[ep.Name]; !have {
		k.worlds[ep.Name] = buildWorld(ep)
	}
	out := k.evaluate(c)
	if d.Oracle == "depth-reached" && out.f == nil && out.tr.maxDepth != 1025 {
		k.run.Violate(ev.Violation{Scenario: d.Scenario, Oracle: d.Oracle, CaseID: d.CaseID, Detail: c.detail(&finding{what: fmt.Sprintf("reached %d frames", out.tr.maxDepth)})})
	}
}
