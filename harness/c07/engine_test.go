package c07

import (
	"crypto/sha256"
	"encoding/hex"
	"fmt"
	"math/big"
	"time"

	"gitlab.com/aquachain/aquachain/aquadb"
	"gitlab.com/aquachain/aquachain/common"
	"gitlab.com/aquachain/aquachain/core/state"
	"gitlab.com/aquachain/aquachain/core/vm"
	"gitlab.com/aquachain/aquachain/zzverif/evmkit"
)

// ---- the world every case starts from --------------------------------------------------------------------

var (
	addrC       = evmkit.Contract                                                   // runs the program under test
	addrCaller  = evmkit.CallerAddr                                                 // externally owned, rich
	addrSuicide = common.HexToAddress("0x00000000000000000000000000000000005e1fde") // CALLER SELFDESTRUCT
	addrWriter  = common.HexToAddress("0x000000000000000000000000000000000000a11d") // SSTORE + LOG0 + return 32 bytes
	addrRevert  = common.HexToAddress("0x0000000000000000000000000000000000bad0ee") // SSTORE then REVERT
	addrEOA     = common.HexToAddress("0x000000000000000000000000000000000000e0a0") // funded, no code
	addrNone    = common.HexToAddress("0x00000000000000000000000000000000000d0e50") // does not exist
	addrStaticW = common.HexToAddress("0x0000000000000000000000000000000000057a71") // STATICCALLs addrC
)

func push20(a common.Address) []byte { return append([]byte{0x73}, a[:]...) }

var (
	codeSuicide = []byte{0x33, 0xff}                                                                               // CALLER SELFDESTRUCT
	codeWriter  = []byte{0x60, 0x07, 0x60, 0x01, 0x55, 0x60, 0x00, 0x60, 0x00, 0xa0, 0x60, 0x20, 0x60, 0x00, 0xf3} // SSTORE(1,7) LOG0(0,0) RETURN(0,32)
	codeRevert  = []byte{0x60, 0x07, 0x60, 0x02, 0x55, 0x60, 0x00, 0x60, 0x00, 0xfd}                               // SSTORE(2,7) then REVERT (INVALID before Byzantium)
	// the static wrapper: STATICCALL(gas=2^64-1, addrC, in 0..0, out 0..0); STOP
	codeStaticW = func() []byte {
		b := []byte{0x60, 0x00, 0x60, 0x00, 0x60, 0x00, 0x60, 0x00}
		b = append(b, push20(addrC)...)
		b = append(b, 0x67, 0xff, 0xff, 0xff, 0xff, 0xff, 0xff, 0xff, 0xff, 0xfa, 0x00)
		return b
	}()
)

type world struct {
	ep   evmkit.Epoch
	db   state.Database
	root common.Hash
}

func buildWorld(ep evmkit.Epoch) *world {
	db := state.NewDatabase(aquadb.NewMemDatabase())
	st, err := state.New(common.Hash{}, db)
	if err != nil {
		panic(err)
	}
	st.AddBalance(addrCaller, new(big.Int).Exp(big.NewInt(10), big.NewInt(18), nil))
	st.SetNonce(addrCaller, 5)
	st.SetNonce(addrC, 1)
	st.AddBalance(addrC, big.NewInt(1000))
	st.SetCode(addrC, []byte{0x00})
	st.SetState(addrC, common.BigToHash(big.NewInt(0)), common.BigToHash(big.NewInt(5)))
	st.SetState(addrC, common.BigToHash(big.NewInt(1)), common.BigToHash(big.NewInt(6)))
	for _, a := range []struct {
		addr common.Address
		code []byte
		bal  int64
	}{{addrSuicide, codeSuicide, 500}, {addrWriter, codeWriter, 0}, {addrRevert, codeRevert, 3}, {addrStaticW, codeStaticW, 0}} {
		st.SetNonce(a.addr, 1)
		st.SetCode(a.addr, a.code)
		if a.bal > 0 {
			st.AddBalance(a.addr, big.NewInt(a.bal))
		}
	}
	st.AddBalance(addrEOA, big.NewInt(77))
	root, err := st.Commit(false)
	if err != nil {
		panic(err)
	}
	if err := db.TrieDB().Commit(root, false); err != nil {
		panic(err)
	}
	return &world{ep: ep, db: db, root: root}
}

// newState opens the committed world and installs the program as addrC's code, finalised as if an
// earlier transaction had deployed it (empty journal). It returns the state and its root.
func (w *world) newState(program []byte, clearEmpty bool) (*state.StateDB, common.Hash) {
	st, err := state.New(w.root, w.db)
	if err != nil {
		panic(err)
	}
	st.SetCode(addrC, program)
	return st, st.IntermediateRoot(clearEmpty)
}

// ---- observing world state -----------------------------------------------------------------------------------

// obs is everything a failed or static frame must leave unchanged.
type obs struct {
	root   common.Hash
	logs   string
	refund uint64
}

func (o obs) String() string {
	return fmt.Sprintf("root=%x logs=%s refund=%d", o.root[:6], o.logs, o.refund)
}

func logsDigest(st *state.StateDB) string {
	logs := st.Logs()
	if len(logs) == 0 {
		return "0"
	}
	h := sha256.New()
	for _, l := range logs {
		h.Write(l.Address[:])
		for _, t := range l.Topics {
			h.Write(t[:])
		}
		h.Write([]byte{byte(len(l.Topics))})
		h.Write(l.Data)
		fmt.Fprintf(h, "|%d|", len(l.Data))
	}
	return fmt.Sprintf("%d:%x", len(logs), h.Sum(nil)[:6])
}

// The state root is taken the way the chain takes it at the end of a transaction: with EIP-158 state
// clearing (touched empty accounts are dropped) where that rule is active, without it elsewhere. In every
// built-in schedule EIP-158 and Byzantium start at the same height (HF7), so Epoch.ByzRules tells.
// Without this an empty account object created by touching a precompile address from a static frame
// would count as a change although it never reaches a state root.

// observe looks at a live state without disturbing it (works on a deep copy).
func observe(st *state.StateDB, clearEmpty bool) obs {
	o := obs{logs: logsDigest(st), refund: st.GetRefund()}
	o.root = st.Copy().IntermediateRoot(clearEmpty)
	return o
}

// observeFinal looks at a state that will not be used again.
func observeFinal(st *state.StateDB, clearEmpty bool) obs {
	o := obs{logs: logsDigest(st), refund: st.GetRefund()}
	o.root = st.IntermediateRoot(clearEmpty)
	return o
}

// withNonceBump is what the state root would be if only addr's nonce were one higher.
func withNonceBump(st *state.StateDB, addr common.Address, clearEmpty bool) common.Hash {
	cp := st.Copy()
	cp.SetNonce(addr, cp.GetNonce(addr)+1)
	return cp.IntermediateRoot(clearEmpty)
}

// ---- the step tracer with the per-step oracles ---------------------------------------------------------------

type finding struct {
	oracle string
	op     string
	what   string
}

type frame struct {
	entryGas          uint64
	hasLast           bool
	lastGas, lastCost uint64
	lastOp            vm.OpCode
	lastPC            uint64
	pending           *obs         // state before the call/create instruction at lastPC
	pendingBump       *common.Hash // root if only the creator's nonce had been bumped (CREATE)
	isData            []bool       // per code offset of this frame's code: inside the immediate data of a PUSH
}

// pushData marks the immediate-data bytes of the code by walking it instruction by instruction (the
// definition of a valid jump destination / instruction boundary in the specification; independent of
// the interpreter's jump-destination analysis and its cache).
func pushData(code []byte) []bool {
	d := make([]bool, len(code))
	for pc := 0; pc < len(code); pc++ {
		if op := code[pc]; op >= 0x60 && op <= 0x7f {
			n := int(op) - 0x5f
			for k := 1; k <= n && pc+k < len(code); k++ {
				d[pc+k] = true
			}
			pc += n
		}
	}
	return d
}

type tracer struct {
	clearEmpty bool
	st         *state.StateDB
	frames     []frame
	first      *finding
	maxDepth   int
	steps      int
	nestedObs  int // how many more call sites get a before/after state observation
	nestedSeen int
	callFailed int
	opsSeen    [256]bool
	maxMem     int
}

func (t *tracer) fail(oracle string, op vm.OpCode, f string, a ...interface{}) {
	if t.first == nil {
		t.first = &finding{oracle: oracle, op: op.String(), what: fmt.Sprintf(f, a...)}
	}
}

func isCallOp(op vm.OpCode) bool {
	return op == vm.CALL || op == vm.CALLCODE || op == vm.DELEGATECALL || op == vm.STATICCALL || op == vm.CREATE
}

// minCallCharge is what a call-type instruction costs at the very least, net of everything the callee
// can hand back (G_call = 700 in every gas table of this chain; G_create = 32000). A CALL with value
// additionally pays 9000 and grants a 2300 stipend, which only makes the net charge larger.
func minCallCharge(op vm.OpCode) uint64 {
	if op == vm.CREATE {
		return 32000
	}
	return 700
}

// cMem is the Yellow Paper memory cost of a words: 3a + floor(a^2/512), computed without overflow.
func cMem(words uint64) *big.Int {
	w := new(big.Int).SetUint64(words)
	q := new(big.Int).Mul(w, w)
	q.Rsh(q, 9)
	return q.Add(q, new(big.Int).Mul(w, big.NewInt(3)))
}

func (t *tracer) CaptureStart(from, to common.Address, create bool, input []byte, gas uint64, value *big.Int) error {
	return nil
}

func (t *tracer) CaptureState(env *vm.EVM, pc uint64, op vm.OpCode, gas, cost uint64, memory *vm.Memory, stack *vm.Stack, contract *vm.Contract, depth int, err error) error {
	if err != nil { // the instruction did not pass validity / stack / static / gas checks: the frame ends here
		return nil
	}
	t.steps++
	t.opsSeen[byte(op)] = true
	if depth > t.maxDepth {
		t.maxDepth = depth
	}
	if depth-1 > 1024 {
		t.fail("depth", op, "instruction executing at call depth %d", depth-1)
	}
	// frame bookkeeping: a deeper first step opens a frame, a shallower step closes the deeper ones
	if depth < 1 || depth > len(t.frames)+1 {
		t.fail("trace", op, "step at depth %d while %d frames are open", depth, len(t.frames))
		return nil
	}
	if depth == len(t.frames)+1 {
		t.frames = append(t.frames, frame{entryGas: gas, isData: pushData(contract.Code)})
	} else {
		t.frames = t.frames[:depth]
	}
	f := &t.frames[depth-1]
	// control flow stays on the instruction boundaries of the frame's own code, and a jump lands on a JUMPDEST
	if int(pc) < len(f.isData) && f.isData[pc] {
		t.fail("control-flow", op, "execution at pc=%d depth=%d, which is immediate data of a PUSH in this frame's code (%d bytes)", pc, depth, len(contract.Code))
	}
	if f.hasLast && pc != f.lastPC+1 && (f.lastOp == vm.JUMP || f.lastOp == vm.JUMPI) && op != vm.JUMPDEST {
		t.fail("control-flow", op, "%s at pc=%d depth=%d continued at pc=%d, which holds %s, not JUMPDEST", f.lastOp, f.lastPC, depth, pc, op)
	}
	if f.hasLast {
		if isCallOp(f.lastOp) {
			min := minCallCharge(f.lastOp)
			if f.lastGas < min || gas > f.lastGas-min {
				t.fail("gas-call", f.lastOp, "frame had %d gas before %s at pc=%d and %d after it returned: the call yielded gas (at least %d must be gone)", f.lastGas, f.lastOp, f.lastPC, gas, min)
			}
			if f.pending != nil {
				t.nestedSeen++
				if stack.Back(0).Sign() == 0 { // the callee frame failed (or was refused)
					t.callFailed++
					now := observe(t.st, t.clearEmpty)
					// this step's own gas function has already run: SSTORE / SELFDESTRUCT book their refund there
					switch {
					case op == vm.SSTORE && now.refund == f.pending.refund+15000:
						now.refund -= 15000
					case op == vm.SELFDESTRUCT && now.refund == f.pending.refund+24000:
						now.refund -= 24000
					}
					same := now == *f.pending
					if !same && f.pendingBump != nil {
						bumped := *f.pending
						bumped.root = *f.pendingBump
						same = now == bumped
					}
					if !same {
						t.fail("nested-revert", f.lastOp, "%s at pc=%d depth=%d pushed 0 (callee failed) but world state changed: before {%s} after {%s}", f.lastOp, f.lastPC, depth, *f.pending, now)
					}
				}
			}
		} else if f.lastGas < f.lastCost || gas != f.lastGas-f.lastCost {
			t.fail("gas-step", f.lastOp, "%s at pc=%d: gas before %d, cost %d, but gas before the next instruction is %d", f.lastOp, f.lastPC, f.lastGas, f.lastCost, gas)
		}
	}
	if cost > gas {
		t.fail("gas-step", op, "%s at pc=%d charged %d with only %d gas available", op, pc, cost, gas)
	}
	// memory must have been paid for out of this frame's gas
	ml := memory.Len()
	if ml > t.maxMem {
		t.maxMem = ml
	}
	if ml%32 != 0 {
		t.fail("memory", op, "memory size %d is not a multiple of 32", ml)
	}
	if f.entryGas < gas-cost && cost <= gas {
		t.fail("gas-step", op, "frame entered with %d gas now has %d", f.entryGas, gas-cost)
	} else if cost <= gas {
		spent := new(big.Int).SetUint64(f.entryGas - (gas - cost))
		if need := cMem(uint64(ml) / 32); need.Cmp(spent) > 0 {
			t.fail("memory", op, "memory of %d bytes costs %s gas but the frame has spent only %s (entry %d, now %d)", ml, need, spent, f.entryGas, gas-cost)
		}
	}
	f.hasLast, f.lastGas, f.lastCost, f.lastOp, f.lastPC = true, gas, cost, op, pc
	f.pending, f.pendingBump = nil, nil
	if isCallOp(op) && t.nestedObs > 0 {
		t.nestedObs--
		o := observe(t.st, t.clearEmpty)
		f.pending = &o
		if op == vm.CREATE {
			b := withNonceBump(t.st, contract.Address(), t.clearEmpty)
			f.pendingBump = &b
		}
	}
	return nil
}

func (t *tracer) CaptureFault(env *vm.EVM, pc uint64, op vm.OpCode, gas, cost uint64, memory *vm.Memory, stack *vm.Stack, contract *vm.Contract, depth int, err error) error {
	return nil
}
func (t *tracer) CaptureEnd(output []byte, gasUsed uint64, d time.Duration, err error) error {
	return nil
}

// ---- one execution ------------------------------------------------------------------------------------------------

// Mode is how the program is entered.
type Mode string

const (
	ModeCall   Mode = "call"   // Call(caller -> addrC)
	ModeStatic Mode = "static" // Call(caller -> wrapper) which STATICCALLs addrC
	ModeCreate Mode = "create" // Create(caller, initcode = program)
)

type Case struct {
	Scenario string
	Mode     Mode
	Code     []byte
	Input    []byte
	Gas      uint64
	Value    int64
	Ep       evmkit.Epoch
	// To overrides the callee of ModeCall (precompile cases); zero = addrC.
	To common.Address
	// NoNested switches the per-call-site state observations off (deep recursion scenario).
	NoNested bool
}

type outcome struct {
	f          *finding
	err        error
	left       uint64
	ret        []byte
	tr         *tracer
	stateMoved bool // static mode only: state differs from before (informational before Byzantium rules)
}

// nestedObsPerCase: how many call sites per execution get a before/after state observation (12 quick, 48 thorough).
var nestedObsPerCase = 12

func execute(w *world, c Case) (out outcome) {
	clearEmpty := c.Ep.ByzRules
	st, preRoot := w.newState(c.Code, clearEmpty)
	pre := obs{root: preRoot, logs: "0", refund: 0}
	tr := &tracer{st: st, nestedObs: nestedObsPerCase, clearEmpty: clearEmpty}
	if c.NoNested {
		tr.nestedObs = 0
	}
	out.tr = tr
	evm := evmkit.NewEVM(c.Ep, st, tr)
	var bumped common.Hash
	if c.Mode == ModeCreate {
		bumped = withNonceBump(st, addrCaller, clearEmpty)
	}
	panicked := func() (p interface{}) {
		defer func() { p = recover() }()
		switch c.Mode {
		case ModeCreate:
			out.ret, _, out.left, out.err = evm.Create(vm.AccountRef(addrCaller), c.Code, c.Gas, big.NewInt(c.Value))
		case ModeStatic:
			out.ret, out.left, out.err = evm.Call(vm.AccountRef(addrCaller), addrStaticW, c.Input, c.Gas, new(big.Int))
		default:
			to := addrC
			if c.To != (common.Address{}) {
				to = c.To
			}
			out.ret, out.left, out.err = evm.Call(vm.AccountRef(addrCaller), to, c.Input, c.Gas, big.NewInt(c.Value))
		}
		return nil
	}()
	if panicked != nil {
		out.f = &finding{oracle: "panic", op: lastOp(tr), what: fmt.Sprintf("panic escaped the EVM: %v", panicked)}
		return
	}
	if tr.first != nil {
		out.f = tr.first
		return
	}
	if out.left > c.Gas {
		out.f = &finding{oracle: "gas-left", op: lastOp(tr), what: fmt.Sprintf("%d gas left of %d supplied", out.left, c.Gas)}
		return
	}
	// the top frame's own last instruction accounts for the leftover when the frame ended by itself
	if len(tr.frames) > 0 && (out.err == nil || out.err.Error() == "evm: execution reverted") && c.Mode != ModeCreate {
		f := tr.frames[0]
		if f.hasLast && !isCallOp(f.lastOp) && f.lastGas-f.lastCost != out.left {
			out.f = &finding{oracle: "gas-left", op: f.lastOp.String(), what: fmt.Sprintf("last instruction %s left %d gas but the call returned %d", f.lastOp, f.lastGas-f.lastCost, out.left)}
			return
		}
	}
	switch {
	case c.Mode == ModeStatic:
		now := observeFinal(st, clearEmpty)
		if now != pre {
			out.stateMoved = true
			if c.Ep.ByzRules {
				out.f = &finding{oracle: "static", op: lastOp(tr), what: fmt.Sprintf("program ran inside STATICCALL yet world state changed: before {%s} after {%s}", pre, now)}
			}
		}
	case out.err != nil:
		now := observeFinal(st, clearEmpty)
		ok := now == pre
		if !ok && c.Mode == ModeCreate {
			p2 := pre
			p2.root = bumped
			ok = now == p2
		}
		if !ok {
			out.f = &finding{oracle: "revert", op: lastOp(tr), what: fmt.Sprintf("top-level %s failed (%v) but world state changed: before {%s} after {%s}", c.Mode, out.err, pre, now)}
		}
	}
	return
}

func lastOp(t *tracer) string {
	if n := len(t.frames); n > 0 && t.frames[n-1].hasLast {
		return t.frames[n-1].lastOp.String()
	}
	return "-"
}

func (c Case) detail(f *finding) map[string]interface{} {
	d := map[string]interface{}{
		"scenario": c.Scenario, "mode": string(c.Mode), "code": hex.EncodeToString(c.Code), "input": hex.EncodeToString(c.Input),
		"gas": fmt.Sprint(c.Gas), "value": c.Value, "epoch": c.Ep.Name, "to": hex.EncodeToString(c.To[:]), "no_nested": c.NoNested,
	}
	if f != nil {
		d["observed"] = f.what
		d["op"] = f.op
	}
	return d
}
