package c07

import (
	"bytes"
	"math/big"

	"gitlab.com/aquachain/aquachain/common"
)

// ---- values and symbols -------------------------------------------------------------------------------------------

func pow2(n uint) *big.Int { return new(big.Int).Lsh(big.NewInt(1), n) }
func dec(x *big.Int) *big.Int {
	return new(big.Int).Sub(x, big.NewInt(1))
}

// v6 is the adversarial value lattice of DESIGN.md C07: 0, 1, 32, 2^63, 2^64-1, 2^256-1.
func v6() []*big.Int {
	return []*big.Int{big.NewInt(0), big.NewInt(1), big.NewInt(32), pow2(63), dec(pow2(64)), dec(pow2(256))}
}
func v3() []*big.Int { return []*big.Int{big.NewInt(0), big.NewInt(32), dec(pow2(256))} }

// vMem adds sizes whose quadratic memory cost is affordable but not negligible (1 KiB, 64 KiB, 512 KiB).
func vMem() []*big.Int {
	return append(v6(), big.NewInt(1024), big.NewInt(1<<16), big.NewInt(1<<19))
}

// pushOf spells PUSH1 for small values, PUSH8 for 64-bit ones and PUSH32 for the rest.
func pushOf(v *big.Int) []byte {
	b := v.Bytes()
	n := 1
	switch {
	case len(b) > 8:
		n = 32
	case len(b) > 1:
		n = 8
	}
	out := make([]byte, 1+n)
	out[0] = byte(0x60 + n - 1)
	v.FillBytes(out[1:])
	return out
}

func cat(parts ...[]byte) []byte { return bytes.Join(parts, nil) }

const (
	opSTOP, opSHA3, opBALANCE, opCALLDATALOAD, opCALLDATACOPY, opCODECOPY, opEXTCODESIZE, opEXTCODECOPY         = 0x00, 0x20, 0x31, 0x35, 0x37, 0x39, 0x3b, 0x3c
	opRETURNDATACOPY, opBLOCKHASH, opMLOAD, opMSTORE, opMSTORE8, opSLOAD, opSSTORE, opJUMP, opJUMPI, opJUMPDEST = 0x3e, 0x40, 0x51, 0x52, 0x53, 0x54, 0x55, 0x56, 0x57, 0x5b
	opDUP1, opDUP16, opSWAP16, opLOG0, opCREATE, opCALL, opCALLCODE, opRETURN, opDELEGATECALL, opSTATICCALL     = 0x80, 0x8f, 0x9f, 0xa0, 0xf0, 0xf1, 0xf2, 0xf3, 0xf4, 0xfa
	opREVERT, opINVALID, opSELFDESTRUCT, opADDRESS, opGAS, opCODESIZE                                           = 0xfd, 0xfe, 0xff, 0x30, 0x5a, 0x38
)

var gasAll = []byte{0x67, 0xff, 0xff, 0xff, 0xff, 0xff, 0xff, 0xff, 0xff} // PUSH8 2^64-1

// callMacro is a self-contained call: in = memory[0,64), out = memory[0,64), all gas.
func callMacro(op byte, target common.Address, value int) []byte {
	b := []byte{0x60, 0x40, 0x60, 0x00, 0x60, 0x40, 0x60, 0x00}
	if op == opCALL || op == opCALLCODE {
		b = append(b, 0x60, byte(value))
	}
	b = append(b, push20(target)...)
	b = append(b, gasAll...)
	return append(b, op)
}

type symbol struct {
	name string
	code []byte
}

// alphabet is the macro alphabet the program sequences are built from.
func alphabet() []symbol {
	var a []symbol
	for _, v := range v6() {
		a = append(a, symbol{"PUSH" + v.Text(16), pushOf(v)})
	}
	a = append(a, symbol{"PUSH3-64KiB", []byte{0x62, 0x01, 0x00, 0x00}})
	a = append(a, symbol{"PUSH32-truncated", []byte{0x7f, 0xff, 0xff}})
	raw := []struct {
		n string
		b byte
	}{{"JUMP", opJUMP}, {"JUMPI", opJUMPI}, {"JUMPDEST", opJUMPDEST}, {"MLOAD", opMLOAD}, {"MSTORE", opMSTORE}, {"MSTORE8", opMSTORE8},
		{"SHA3", opSHA3}, {"SSTORE", opSSTORE}, {"RETURN", opRETURN}, {"REVERT", opREVERT}, {"INVALID", opINVALID}, {"SELFDESTRUCT", opSELFDESTRUCT},
		{"DUP1", opDUP1}, {"DUP16", opDUP16}, {"SWAP16", opSWAP16}, {"CALLDATACOPY", opCALLDATACOPY}, {"CODECOPY", opCODECOPY},
		{"RETURNDATACOPY", opRETURNDATACOPY}, {"EXTCODECOPY", opEXTCODECOPY}, {"LOG2", opLOG0 + 2}}
	for _, r := range raw {
		a = append(a, symbol{r.n, []byte{r.b}})
	}
	a = append(a,
		symbol{"CALL(self)", callMacro(opCALL, addrC, 0)},
		symbol{"CALL(identity)", callMacro(opCALL, common.BytesToAddress([]byte{4}), 0)},
		symbol{"CALL(suicider,1)", callMacro(opCALL, addrSuicide, 1)},
		symbol{"CALL(writer)", callMacro(opCALL, addrWriter, 0)},
		symbol{"CALL(reverter)", callMacro(opCALL, addrRevert, 0)},
		symbol{"CALLCODE(suicider)", callMacro(opCALLCODE, addrSuicide, 0)},
		symbol{"DELEGATECALL(writer)", callMacro(opDELEGATECALL, addrWriter, 0)},
		symbol{"STATICCALL(writer)", callMacro(opSTATICCALL, addrWriter, 0)},
		symbol{"STATICCALL(self)", callMacro(opSTATICCALL, addrC, 0)},
		symbol{"CREATE(mem[0:32])", []byte{0x60, 0x20, 0x60, 0x00, 0x60, 0x00, opCREATE}},
	)
	return a
}

// enumSeq calls f with every program of exactly `length` symbols starting with symbol `first`.
func enumSeq(alpha []symbol, length, first int, f func(code []byte)) {
	idx := make([]int, length)
	idx[0] = first
	buf := make([]byte, 0, 256)
	for {
		buf = buf[:0]
		for _, i := range idx {
			buf = append(buf, alpha[i].code...)
		}
		f(append([]byte{}, buf...))
		p := length - 1
		for p >= 1 {
			idx[p]++
			if idx[p] < len(alpha) {
				break
			}
			idx[p] = 0
			p--
		}
		if p < 1 {
			return
		}
	}
}

func seqCount(n, depth int) int {
	t, p := 0, 1
	for l := 1; l <= depth; l++ {
		p *= n
		t += p
	}
	return t
}

// ---- every byte value as a program ---------------------------------------------------------------------------------

func byteprograms(vals []*big.Int) [][]byte {
	var out [][]byte
	for b := 0; b < 256; b++ {
		out = append(out, []byte{byte(b)})
		for _, x := range vals {
			for _, y := range vals {
				for _, z := range vals {
					out = append(out, cat(pushOf(x), pushOf(y), pushOf(z), []byte{byte(b)}))
				}
			}
		}
	}
	return out
}

// ---- one instruction, all operand tuples ------------------------------------------------------------------------

// tuples is the k-fold product of vals, each tuple listed top-of-stack first.
func tuples(vals []*big.Int, k int) [][]*big.Int {
	if k == 0 {
		return [][]*big.Int{nil}
	}
	var out [][]*big.Int
	for _, rest := range tuples(vals, k-1) {
		for _, v := range vals {
			out = append(out, append([]*big.Int{v}, rest...))
		}
	}
	return out
}

// opWith pushes the operands (given top first) and executes op, then STOP.
func opWith(op byte, operands []*big.Int) []byte {
	var b []byte
	for i := len(operands) - 1; i >= 0; i-- {
		b = append(b, pushOf(operands[i])...)
	}
	return append(b, op, opSTOP)
}

func addrWord(a common.Address) *big.Int { return new(big.Int).SetBytes(a[:]) }

func callTargets(thorough bool) []*big.Int {
	t := []*big.Int{addrWord(addrC), addrWord(addrSuicide), addrWord(addrWriter), addrWord(addrRevert), addrWord(addrEOA), addrWord(addrNone)}
	pre := []int64{1, 3, 4, 5, 9} // ecrecover, ripemd (the touch exception), identity, modexp, first non-precompile
	if thorough {
		pre = []int64{1, 2, 3, 4, 5, 6, 7, 8, 9}
	}
	for _, i := range pre {
		t = append(t, big.NewInt(i))
	}
	return t
}

// singleOps returns "push operands; op; STOP" for all operand tuples of the state-touching, memory and
// frame-creating instructions.
func singleOps(thorough bool) [][]byte {
	var out [][]byte
	V := v6()
	M := vMem()
	for _, op := range []byte{opBALANCE, opEXTCODESIZE, opBLOCKHASH, opSLOAD, opSELFDESTRUCT, opMLOAD, opJUMP, opCALLDATALOAD} {
		for _, t := range tuples(append(V, addrWord(addrSuicide), addrWord(addrNone), big.NewInt(3)), 1) {
			out = append(out, opWith(op, t))
		}
	}
	for _, t := range tuples(M, 1) {
		out = append(out, opWith(opMLOAD, t))
	}
	for _, op := range []byte{opMSTORE, opMSTORE8, opSHA3, opRETURN, opREVERT, opLOG0} {
		for _, t := range tuples(M, 2) {
			out = append(out, opWith(op, t))
		}
	}
	for _, op := range []byte{opSSTORE, opJUMPI} {
		for _, t := range tuples(V, 2) {
			out = append(out, opWith(op, t))
		}
	}
	for _, op := range []byte{opCALLDATACOPY, opCODECOPY, opRETURNDATACOPY, opLOG0 + 1, opCREATE} {
		for _, t := range tuples(M, 3) {
			out = append(out, opWith(op, t))
		}
	}
	// RETURNDATACOPY with a non-empty return buffer: call the identity precompile with 64 bytes first
	for _, t := range tuples(V, 3) {
		out = append(out, cat(callMacro(opCALL, common.BytesToAddress([]byte{4}), 0), opWith(opRETURNDATACOPY, t)))
	}
	four := V
	if !thorough {
		four = []*big.Int{big.NewInt(0), big.NewInt(32), dec(pow2(64)), dec(pow2(256))}
	}
	for _, op := range []byte{opEXTCODECOPY, opLOG0 + 2} {
		for _, t := range tuples(four, 4) {
			out = append(out, opWith(op, t))
		}
	}
	for _, t := range tuples(v3(), 5) {
		out = append(out, opWith(opLOG0+3, t))
	}
	for _, t := range tuples(v3(), 6) {
		out = append(out, opWith(opLOG0+4, t))
	}
	// calls: gas x target x value x (inOff, inSize, outOff, outSize)
	gasArgs := []*big.Int{big.NewInt(0), big.NewInt(2300), dec(pow2(256))}
	values := []*big.Int{big.NewInt(0), big.NewInt(1), dec(pow2(256))}
	memArgs := tuples(v3(), 4)
	if thorough {
		memArgs = tuples([]*big.Int{big.NewInt(0), big.NewInt(32), big.NewInt(1 << 16), dec(pow2(256))}, 4)
	} else {
		// a few affordable large ranges: input 64 KiB, output at 64 KiB, both 512 KiB
		k64, k512, z, w32 := big.NewInt(1<<16), big.NewInt(1<<19), big.NewInt(0), big.NewInt(32)
		memArgs = append(memArgs, []*big.Int{z, k64, z, z}, []*big.Int{z, z, k64, w32}, []*big.Int{z, k512, z, k512}, []*big.Int{k64, w32, k64, w32})
	}
	for _, op := range []byte{opCALL, opCALLCODE, opDELEGATECALL, opSTATICCALL} {
		vals := values
		if op == opDELEGATECALL || op == opSTATICCALL {
			vals = []*big.Int{nil}
		}
		for _, g := range gasArgs {
			for _, to := range callTargets(thorough) {
				for _, v := range vals {
					for _, m := range memArgs {
						t := []*big.Int{g, to}
						if v != nil {
							t = append(t, v)
						}
						out = append(out, opWith(op, append(t, m...)))
					}
				}
			}
		}
	}
	return out
}

// ---- recursion to the depth limit ----------------------------------------------------------------------------

type recursion struct {
	name string
	code []byte
}

func recursions() []recursion {
	self := func(op byte, withValue bool) []byte {
		b := []byte{0x60, 0x00, 0x60, 0x00, 0x60, 0x00, 0x60, 0x00}
		if withValue {
			b = append(b, 0x60, 0x00)
		}
		return append(b, opADDRESS, opGAS, op, opSTOP)
	}
	return []recursion{
		{"CALL", self(opCALL, true)},
		{"CALLCODE", self(opCALLCODE, true)},
		{"DELEGATECALL", self(opDELEGATECALL, false)},
		{"STATICCALL", self(opSTATICCALL, false)},
		// initcode that deploys itself again: CODECOPY(0,0,CODESIZE); CREATE(0,0,CODESIZE)
		{"CREATE", []byte{opCODESIZE, 0x60, 0x00, 0x60, 0x00, opCODECOPY, opCODESIZE, 0x60, 0x00, 0x60, 0x00, opCREATE, opSTOP}},
	}
}

// ---- precompile inputs --------------------------------------------------------------------------------------------

func word(v *big.Int) []byte {
	var w [32]byte
	new(big.Int).And(v, dec(pow2(256))).FillBytes(w[:])
	return w[:]
}

// precompileInputs returns the inputs given to every address 1..9 and the modexp length lattice that is
// only given to address 5.
func precompileInputs(thorough bool) (generic, modexp [][]byte) {
	var out [][]byte
	for n := 0; n <= 200; n++ {
		out = append(out, make([]byte, n), bytes.Repeat([]byte{0xff}, n), bytes.Repeat([]byte{0x01}, n))
	}
	for _, n := range []int{191, 192, 193, 383, 384, 385, 576, 2048} { // pairing sizes around multiples of 192
		out = append(out, make([]byte, n), bytes.Repeat([]byte{0xff}, n))
	}
	// ecrecover: the vector of core/vm/contracts_test.go and mutations of v, r, s
	ec := common.Hex2Bytes("18c547e4f7b0f325ad1e56f57e26c745b09a3e503d86e00e5255ff7f715d3d1c000000000000000000000000000000000000000000000000000000000000001c73b1693892219d736caba55bdb67216e485557ea6b6af75f37096c9aa6a5a75feeb940b1d03b21e36b0e47e79769f095fe2ab855bd91e3a38756b7d75a9c4549")
	out = append(out, ec)
	for _, v := range []byte{0, 1, 26, 27, 28, 29, 255} {
		m := append([]byte{}, ec...)
		m[63] = v
		out = append(out, m)
		m2 := append([]byte{}, m...)
		m2[32] = 1 // high bytes of v not zero
		out = append(out, m2)
	}
	secpN, _ := new(big.Int).SetString("fffffffffffffffffffffffffffffffebaaedce6af48a03bbfd25e8cd0364141", 16)
	for _, r := range []*big.Int{big.NewInt(0), big.NewInt(1), dec(secpN), secpN, dec(pow2(256))} {
		for _, s := range []*big.Int{big.NewInt(0), big.NewInt(1), new(big.Int).Rsh(secpN, 1), dec(secpN), secpN, dec(pow2(256))} {
			out = append(out, cat(ec[:32], word(big.NewInt(27)), word(r), word(s)))
		}
	}
	generic, out = out, nil
	// modexp: (baseLen, expLen, modLen) lattice x tails
	lens := []*big.Int{big.NewInt(0), big.NewInt(1), big.NewInt(32), big.NewInt(33), big.NewInt(64), big.NewInt(65), big.NewInt(1024), big.NewInt(1025),
		pow2(16), pow2(20), pow2(26), pow2(32), pow2(62), dec(pow2(64)), pow2(64), new(big.Int).Add(pow2(64), big.NewInt(1)), pow2(255), dec(pow2(256))}
	if !thorough {
		lens = []*big.Int{big.NewInt(0), big.NewInt(1), big.NewInt(33), big.NewInt(1025), pow2(20), pow2(26), pow2(62), dec(pow2(64)), new(big.Int).Add(pow2(64), big.NewInt(1)), dec(pow2(256))}
	}
	tails := [][]byte{nil, bytes.Repeat([]byte{0xff}, 32), bytes.Repeat([]byte{0xff}, 200), append(make([]byte, 99), 0x03)}
	for _, b := range lens {
		for _, e := range lens {
			for _, m := range lens {
				for _, t := range tails {
					out = append(out, cat(word(b), word(e), word(m), t))
				}
			}
		}
	}
	// truncated modexp headers
	for n := 0; n <= 96; n += 7 {
		out = append(out, bytes.Repeat([]byte{0x01}, n))
	}
	return generic, out
}
