// Reference model for C12: transaction fields, canonical encoding, signing hash and sender recovery
// rules written from the yellow paper (appendix F), EIP-2 (low S from Homestead on) and EIP-155.
// Only the elliptic-curve arithmetic (btcec RecoverCompact) and the rlp / keccak primitives are shared
// with the code under test.
package c12

import (
	"bytes"
	"fmt"
	"math/big"

	"github.com/btcsuite/btcd/btcec/v2"
	becdsa "github.com/btcsuite/btcd/btcec/v2/ecdsa"
	"gitlab.com/aquachain/aquachain/common"
	"gitlab.com/aquachain/aquachain/core/types"
	"gitlab.com/aquachain/aquachain/rlp"
	"gitlab.com/aquachain/aquachain/zzverif/ev"
	"golang.org/x/crypto/sha3"
)

var curveN, _ = new(big.Int).SetString("fffffffffffffffffffffffffffffffebaaedce6af48a03bbfd25e8cd0364141", 16)

func keccak(parts ...[]byte) []byte {
	h := sha3.NewLegacyKeccak256()
	for _, p := range parts {
		h.Write(p)
	}
	return h.Sum(nil)
}

func refAddress(pub *btcec.PublicKey) common.Address {
	return common.BytesToAddress(keccak(pub.SerializeUncompressed()[1:])[12:])
}

type fields struct {
	nonce   uint64
	price   *big.Int
	gas     uint64
	to      *common.Address
	value   *big.Int
	data    []byte
	v, r, s *big.Int
}

func fieldsOf(tx *types.Transaction) fields {
	v, r, s := tx.RawSignatureValues()
	return fields{nonce: tx.Nonce(), price: tx.GasPrice(), gas: tx.Gas(), to: tx.To(), value: tx.Value(), data: tx.Data(),
		v: new(big.Int).Set(v), r: new(big.Int).Set(r), s: new(big.Int).Set(s)}
}

func (f fields) clone() fields {
	g := f
	g.price, g.value = new(big.Int).Set(f.price), new(big.Int).Set(f.value)
	g.v, g.r, g.s = new(big.Int).Set(f.v), new(big.Int).Set(f.r), new(big.Int).Set(f.s)
	g.data = append([]byte(nil), f.data...)
	if f.to != nil {
		t := *f.to
		g.to = &t
	}
	return g
}

func (f fields) toBytes() []byte {
	if f.to == nil {
		return []byte{}
	}
	return f.to[:]
}

// encode is the canonical RLP of the nine fields.
func (f fields) encode() []byte {
	data := f.data
	if data == nil {
		data = []byte{}
	}
	b, err := rlp.EncodeToBytes([]interface{}{f.nonce, f.price, f.gas, f.toBytes(), f.value, data, f.v, f.r, f.s})
	if err != nil {
		ev.Broken("reference encode: %v", err)
	}
	return b
}

// diff names the first signed field or signature component in which two transactions differ.
func diff(a, b fields) string {
	switch {
	case a.nonce != b.nonce:
		return "nonce"
	case a.price.Cmp(b.price) != 0:
		return "gasprice"
	case a.gas != b.gas:
		return "gaslimit"
	case (a.to == nil) != (b.to == nil) || a.to != nil && *a.to != *b.to:
		return "recipient"
	case a.value.Cmp(b.value) != 0:
		return "value"
	case !bytes.Equal(a.data, b.data):
		return "data"
	case a.v.Cmp(b.v) != 0:
		return "v"
	case a.r.Cmp(b.r) != 0:
		return "r"
	case a.s.Cmp(b.s) != 0:
		return "s"
	}
	return ""
}

func (f fields) describe() string {
	to := "nil"
	if f.to != nil {
		to = fmt.Sprintf("%x", f.to[:])
	}
	return fmt.Sprintf("nonce=%d price=%v gas=%d to=%s value=%v data=%x v=%v r=%x s=%x", f.nonce, f.price, f.gas, to, f.value, f.data, f.v, f.r, f.s)
}

// vBase is the V of recovery bit 0 under signer s.
func (s sgn) vBase() *big.Int {
	if s.kind == "eip155" {
		return new(big.Int).Add(new(big.Int).Lsh(s.chain, 1), big.NewInt(35))
	}
	return big.NewInt(27)
}

func (s sgn) vFor(parity int) *big.Int { return new(big.Int).Add(s.vBase(), big.NewInt(int64(parity))) }

// parity is the recovery bit f.v denotes under s (only meaningful when parityOK).
func (f fields) parity(s sgn) int {
	return int(new(big.Int).Sub(f.v, s.vBase()).Int64() & 1)
}

func (f fields) parityOK(s sgn) bool {
	d := new(big.Int).Sub(f.v, s.vBase())
	return d.Sign() >= 0 && d.Cmp(big.NewInt(1)) <= 0
}

// twin is the malleated form of an unprotected signature: (27+28-v, r, N-s).
func (f fields) twin() fields {
	g := f.clone()
	g.v = new(big.Int).Sub(big.NewInt(55), f.v)
	g.s = new(big.Int).Sub(curveN, f.s)
	return g
}

// ownSigner is the signer a transaction's V asks for.
func (f fields) ownSigner() sgn {
	if f.v.Cmp(big.NewInt(35)) < 0 {
		return sgn{kind: "homestead"}
	}
	c := new(big.Int).Sub(f.v, big.NewInt(35))
	return sgn{"eip155", c.Rsh(c, 1)}
}

// refSigHash: keccak256(rlp(nonce, price, gas, to, value, data [, chainid, 0, 0])).
func refSigHash(protected bool, chain *big.Int, f fields) []byte {
	data := f.data
	if data == nil {
		data = []byte{}
	}
	items := []interface{}{f.nonce, f.price, f.gas, f.toBytes(), f.value, data}
	if protected {
		items = append(items, chain, uint(0), uint(0))
	}
	b, err := rlp.EncodeToBytes(items)
	if err != nil {
		ev.Broken("reference sighash: %v", err)
	}
	return keccak(b)
}

// refRules applies the validity rules; it returns the recovery bit, whether the EIP-155 hash applies,
// and the reason for rejection ("" = acceptable so far).
func refRules(s sgn, f fields) (recid int, protected bool, reject string) {
	v27 := f.v.Cmp(big.NewInt(27)) == 0 || f.v.Cmp(big.NewInt(28)) == 0
	lowS := s.kind != "frontier"
	switch {
	case s.kind == "eip155" && !v27:
		// replay protected form: V must be 35+2c or 36+2c for the signer's own chain id
		if !f.parityOK(s) {
			return 0, false, "foreign-chain-id-or-v-out-of-range"
		}
		recid, protected = f.parity(s), true
	case v27:
		// unprotected form, still valid after EIP-155 (under Homestead rules)
		recid = int(f.v.Int64() - 27)
	default:
		return 0, false, "v-out-of-range"
	}
	if f.r.Sign() <= 0 || f.r.Cmp(curveN) >= 0 {
		return 0, false, "r-out-of-range"
	}
	if f.s.Sign() <= 0 || f.s.Cmp(curveN) >= 0 {
		return 0, false, "s-out-of-range"
	}
	if lowS && f.s.Cmp(new(big.Int).Rsh(curveN, 1)) > 0 {
		return 0, false, "high-s"
	}
	return recid, protected, ""
}

func refRecover(s sgn, f fields) (common.Address, string) {
	recid, protected, reject := refRules(s, f)
	if reject != "" {
		return common.Address{}, reject
	}
	sig := make([]byte, 65)
	sig[0] = byte(27 + recid)
	f.r.FillBytes(sig[1:33])
	f.s.FillBytes(sig[33:65])
	pub, _, err := becdsa.RecoverCompact(sig, refSigHash(protected, s.chain, f))
	if err != nil || pub == nil || !pub.IsOnCurve() {
		return common.Address{}, "no-such-curve-point"
	}
	return refAddress(pub), ""
}

func refSender(s sgn, f fields) (common.Address, bool) {
	a, why := refRecover(s, f)
	return a, why == ""
}

func refReject(s sgn, f fields) string {
	_, why := refRecover(s, f)
	if why == "" {
		return "accepted"
	}
	return why
}
