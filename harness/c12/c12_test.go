// C12 - a transaction is bound to its signer and to its chain.
// Engine E4: a lattice of keys x transaction contents x signers is signed with the real types.SignTx;
// every transaction, every single-bit flip of its RLP encoding, every single-field replacement, a
// V/R/S boundary lattice, every chain-id pair and every ordered pair of signers (sender cache) is
// evaluated by the real sender recovery and compared with a reference written from the yellow paper /
// EIP-155 / EIP-2 rules (refSender in ref_test.go). DESIGN.md section 4/C12.
package c12

import (
	"bytes"
	"encoding/hex"
	"encoding/json"
	"fmt"
	"math/big"
	"os"
	"runtime/debug"
	"strings"
	"sync"
	"sync/atomic"
	"testing"
	"time"

	"github.com/btcsuite/btcd/btcec/v2"
	"gitlab.com/aquachain/aquachain/common"
	"gitlab.com/aquachain/aquachain/common/log"
	"gitlab.com/aquachain/aquachain/core/types"
	"gitlab.com/aquachain/aquachain/rlp"
	"gitlab.com/aquachain/aquachain/zzverif/ev"
)

// ---- lattice ------------------------------------------------------------------------------------

type keyCase struct {
	name string
	priv *btcec.PrivateKey
	addr common.Address
}

func keyLattice() []keyCase {
	mk := func(name string, d []byte) keyCase {
		p, _ := btcec.PrivKeyFromBytes(d)
		return keyCase{name, p, refAddress(p.PubKey())}
	}
	short := keccak([]byte("c12 key with a 31 byte D"))
	short[0] = 0
	short[1] |= 0x80
	o1 := keccak([]byte("c12 ordinary key one"))
	o1[0] = 0x5a
	o2 := keccak([]byte("c12 ordinary key two"))
	o2[0] = 0xd1
	nm1 := new(big.Int).Sub(curveN, big.NewInt(1))
	return []keyCase{
		mk("one", []byte{1}), mk("two", []byte{2}), mk("n-1", nm1.Bytes()), mk("d31", short), mk("ord1", o1), mk("ord2", o2),
	}
}

var (
	max64  = ^uint64(0)
	max256 = new(big.Int).Sub(new(big.Int).Lsh(big.NewInt(1), 256), big.NewInt(1))
	toAddr = common.HexToAddress("0x00000000000000000000000000000000c12c12aa")
	toAlt  = common.HexToAddress("0x00000000000000000000000000000000c12c12ab")
)

type content struct {
	nonce uint64
	price *big.Int
	gas   uint64
	to    *common.Address
	value *big.Int
	data  []byte
}

func (c content) String() string {
	to := "nil"
	if c.to != nil {
		to = "addr"
	}
	return fmt.Sprintf("nonce=%d/price=%v/gas=%d/to=%s/value=%dbit/data=%dB", c.nonce, c.price, c.gas, to, c.value.BitLen(), len(c.data))
}

func contentLattice() []content {
	var out []content
	for _, n := range []uint64{0, 1, max64} {
		for _, p := range []int64{0, 1} {
			for _, to := range []*common.Address{nil, &toAddr} {
				for _, v := range []*big.Int{big.NewInt(0), big.NewInt(1), max256} {
					for _, d := range [][]byte{nil, {0}, bytes.Repeat([]byte{0xff}, 33)} {
						out = append(out, content{n, big.NewInt(p), 21000, to, v, d})
					}
				}
			}
		}
	}
	return out
}

func (c content) unsigned() *types.Transaction {
	if c.to == nil {
		return types.NewContractCreation(c.nonce, c.value, c.gas, c.price, c.data)
	}
	return types.NewTransaction(c.nonce, *c.to, c.value, c.gas, c.price, c.data)
}

// sgn describes one signer of the lattice.
type sgn struct {
	kind  string   // frontier, homestead, eip155
	chain *big.Int // eip155 only
}

func (s sgn) name() string {
	if s.kind == "eip155" {
		return "eip155:" + s.chain.String()
	}
	return s.kind
}

func (s sgn) real() types.Signer {
	switch s.kind {
	case "frontier":
		return types.FrontierSigner{}
	case "homestead":
		return types.HomesteadSigner{}
	}
	return types.NewEIP155Signer(new(big.Int).Set(s.chain))
}

func parseSgn(n string) sgn {
	if strings.HasPrefix(n, "eip155:") {
		c, ok := new(big.Int).SetString(n[7:], 10)
		if !ok {
			ev.Broken("bad signer %q", n)
		}
		return sgn{"eip155", c}
	}
	return sgn{kind: n}
}

func chainLattice() []*big.Int {
	return []*big.Int{
		big.NewInt(1), big.NewInt(3), big.NewInt(110) /* V = 255/256: nine bits */, big.NewInt(61717561), /* aquachain mainnet */
		// 1+27 and 3+28: V - 2c - 8 of a transaction signed for chain 1 (3) is -27 (-28) under these signers, which only the
		// chain id comparison keeps away from recoverPlain's unsigned reading of V
		big.NewInt(28), big.NewInt(31),
		new(big.Int).Lsh(big.NewInt(1), 31), new(big.Int).Lsh(big.NewInt(1), 62),
		new(big.Int).Add(new(big.Int).Lsh(big.NewInt(1), 64), big.NewInt(5)), // V does not fit 64 bits
	}
}

func signerLattice() []sgn {
	out := []sgn{{kind: "frontier"}, {kind: "homestead"}}
	for _, c := range chainLattice() {
		out = append(out, sgn{"eip155", c})
	}
	return out
}

// ---- base transactions --------------------------------------------------------------------------

type baseTx struct {
	ki, ci, si int
	key        keyCase
	c          content
	s          sgn
	f          fields // fields of the signed transaction
	enc        []byte // RLP of the signed transaction
}

func (b *baseTx) id() string { return fmt.Sprintf("key=%s/%s/%s", b.key.name, b.s.name(), b.c) }

// realSender runs the real recovery on a freshly decoded copy (no cache), guarding against panics.
func realSender(s types.Signer, enc []byte) (addr common.Address, err error) {
	defer func() {
		if r := recover(); r != nil {
			err = fmt.Errorf("PANIC: %v", r)
		}
	}()
	tx := new(types.Transaction)
	if err := rlp.DecodeBytes(enc, tx); err != nil {
		return common.Address{}, fmt.Errorf("DECODE: %v", err)
	}
	return types.Sender(s, tx)
}

func isPanic(err error) bool { return err != nil && strings.HasPrefix(err.Error(), "PANIC:") }

type verdict struct {
	ok   bool
	addr common.Address
}

func (v verdict) String() string {
	if !v.ok {
		return "rejected"
	}
	return hex.EncodeToString(v.addr[:])
}

// compare evaluates one (signer, encoded transaction) pair: real recovery vs reference.
func compare(s sgn, enc []byte, f fields) (realV, refV verdict, perr error) {
	a, err := realSender(s.real(), enc)
	if isPanic(err) {
		perr = err
	}
	realV = verdict{err == nil, a}
	ra, rok := refSender(s, f)
	refV = verdict{rok, ra}
	return
}

type reporter struct {
	run  *ev.Run
	seen sync.Map
}

// violate re-evaluates the differential three times before reporting.
func (r *reporter) violate(scenario, oracle, caseID string, s sgn, enc []byte, f fields, first string, detail map[string]interface{}) {
	if _, dup := r.seen.LoadOrStore(scenario+"/"+oracle+"/"+caseID, true); dup {
		return
	}
	for i := 0; i < 3; i++ {
		rv, fv, perr := compare(s, enc, f)
		now := fmt.Sprintf("%v|%v|%v", rv, fv, perr != nil)
		if first == "" {
			first = now
		}
		if now != first {
			ev.Broken("verdict flips for %s/%s: %s then %s", scenario, caseID, first, now)
		}
	}
	d := map[string]interface{}{"signer": s.name(), "tx_rlp": hex.EncodeToString(enc), "fields": f.describe()}
	for k, v := range detail {
		d[k] = v
	}
	r.run.Violate(ev.Violation{Scenario: scenario, Oracle: oracle, CaseID: caseID, Detail: d})
}

// check compares real and reference verdicts for one transaction under one signer and applies the
// property's clauses. orig is the genuine sender of the base the transaction was derived from and
// changed the first signed field / signature component that differs from the base ("" = none).
func (r *reporter) check(scenario string, s sgn, enc []byte, f fields, orig common.Address, changed string, classes map[string]struct{}, detail map[string]interface{}) verdict {
	rv, fv, perr := compare(s, enc, f)
	first := fmt.Sprintf("%v|%v|%v", rv, fv, perr != nil)
	r.run.Eval(1)
	kind := s.kind
	switch {
	case perr != nil:
		d := map[string]interface{}{"panic": perr.Error()}
		for k, v := range detail {
			d[k] = v
		}
		r.violate(scenario, "no-panic", kind+"/"+changed, s, enc, f, first, d)
	case changed != "" && rv.ok && rv.addr == orig:
		d := map[string]interface{}{"original_sender": hex.EncodeToString(orig[:]), "changed": changed, "reference": fv.String()}
		for k, v := range detail {
			d[k] = v
		}
		r.violate(scenario, "changed-transaction-not-attributed-to-original-sender", kind+"/"+changed, s, enc, f, first, d)
	case rv.ok && !fv.ok:
		why := refReject(s, f)
		d := map[string]interface{}{"real": rv.String(), "reference": "rejected: " + why, "changed": changed}
		for k, v := range detail {
			d[k] = v
		}
		r.violate(scenario, "invalid-signature-rejected", kind+"/"+why, s, enc, f, first, d)
	case !rv.ok && fv.ok:
		d := map[string]interface{}{"real": "rejected", "reference": fv.String(), "changed": changed}
		for k, v := range detail {
			d[k] = v
		}
		r.violate(scenario, "valid-signature-accepted", kind+"/"+changed, s, enc, f, first, d)
	case rv.ok && fv.ok && rv.addr != fv.addr:
		d := map[string]interface{}{"real": rv.String(), "reference": fv.String(), "changed": changed}
		for k, v := range detail {
			d[k] = v
		}
		r.violate(scenario, "recovers-reference-address", kind+"/"+changed, s, enc, f, first, d)
	default:
		out := "rejected:" + refReject(s, f)
		if rv.ok {
			out = "other-address"
			if rv.addr == orig {
				out = "original-sender"
			}
		}
		if classes != nil {
			classes[scenario+"|"+kind+"|"+changed+"|"+out] = struct{}{}
		}
	}
	return rv
}

// ---- the check ----------------------------------------------------------------------------------

func TestCheck(t *testing.T) {
	log.Root().SetHandler(log.DiscardHandler())
	debug.SetGCPercent(800)
	run := ev.Start("exploration")
	run.Rule = "base transactions = keys x contents x signers, all signed with types.SignTx; derived cases = every single-bit flip of the RLP encoding, " +
		"every replacement of one field by another lattice value, a V/R/S boundary lattice, every (signed-under, queried-under) signer pair, every ordered signer pair for the sender cache, " +
		"RLP and JSON round trips, TxPool.AddRemote and ApplyTransaction on the signature-relevant variants. A class is (scenario, signer kind, changed field, outcome) and is counted only when the real recovery ran."
	run.Assume("keys {1, 2, N-1, a 31-byte D, two ordinary}; contents nonce{0,1,2^64-1} x price{0,1} x gas{21000} x to{nil,addr} x value{0,1,2^256-1} x data{empty,00,ff*33}")
	run.Assume("signers Frontier, Homestead, EIP-155 with chain ids {1, 3, 28, 31, 110, 61717561, 2^31, 2^62, 2^64+5}")
	run.Assume("the reference accepts high-S only under the Frontier signer (EIP-2 applies from Homestead on, and EIP-155 implies Homestead)")
	run.Assume("elliptic-curve arithmetic (btcec RecoverCompact) is shared between the code under test and the reference; the rules around it are not")
	rep := &reporter{run: run}
	t0 := time.Now()
	phase := func(name string) {
		if os.Getenv("VERIF_DEBUG") != "" {
			fmt.Printf("NOTE phase %s done at %.1fs evals=%d\n", name, time.Since(t0).Seconds(), run.Evals())
		}
	}

	if d := ev.Replay(); d != nil {
		replay(rep, d)
		run.Finish()
	}
	deadline := run.Deadline(45*time.Second, 12*time.Minute)

	keys := keyLattice()
	contents := contentLattice()
	signers := signerLattice()
	if keys[0].addr != common.HexToAddress("7e5f4552091a69125d5dfcb7b8c2659029395bdf") {
		ev.Broken("reference address of key 1 is %x", keys[0].addr)
	}

	// -- 1. sign everything ------------------------------------------------------------------------
	bases := make([]*baseTx, len(keys)*len(contents)*len(signers))
	ev.ParallelFor(len(bases), func(i int) {
		ki := i / (len(contents) * len(signers))
		ci := i / len(signers) % len(contents)
		si := i % len(signers)
		b := &baseTx{ki: ki, ci: ci, si: si, key: keys[ki], c: contents[ci], s: signers[si]}
		bases[i] = b
		func() {
			defer func() {
				if r := recover(); r != nil {
					run.Violate(ev.Violation{Scenario: "sign", Oracle: "no-panic", CaseID: b.s.kind, Detail: map[string]interface{}{"case": b.id(), "panic": fmt.Sprint(r)}})
				}
			}()
			stx, err := types.SignTx(b.c.unsigned(), b.s.real(), b.key.priv)
			run.Eval(1)
			if err != nil {
				run.Violate(ev.Violation{Scenario: "sign", Oracle: "signtx-succeeds", CaseID: b.s.kind, Detail: map[string]interface{}{"case": b.id(), "error": err.Error()}})
				return
			}
			b.enc, err = rlp.EncodeToBytes(stx)
			if err != nil {
				ev.Broken("encode: %v", err)
			}
			b.f = fieldsOf(stx)
			// the harness' own encoder must agree with the real one, otherwise derived cases are not what they claim to be
			if !bytes.Equal(b.f.encode(), b.enc) {
				run.Violate(ev.Violation{Scenario: "roundtrip", Oracle: "canonical-rlp", CaseID: b.s.kind, Detail: map[string]interface{}{"case": b.id(), "real": hex.EncodeToString(b.enc), "reference": hex.EncodeToString(b.f.encode())}})
			}
			// content survived signing
			want := fields{nonce: b.c.nonce, price: b.c.price, gas: b.c.gas, to: b.c.to, value: b.c.value, data: b.c.data, v: b.f.v, r: b.f.r, s: b.f.s}
			if ch := diff(want, b.f); ch != "" {
				run.Violate(ev.Violation{Scenario: "sign", Oracle: "content-preserved", CaseID: b.s.kind + "/" + ch, Detail: map[string]interface{}{"case": b.id()}})
			}
			// sender through Sender, AsMessage, cached second call
			if from, err := types.Sender(b.s.real(), stx); err != nil || from != b.key.addr {
				run.Violate(ev.Violation{Scenario: "sign", Oracle: "sender-is-signing-key", CaseID: b.s.kind + "/Sender", Detail: map[string]interface{}{"case": b.id(), "got": fmt.Sprintf("%x %v", from, err), "want": hex.EncodeToString(b.key.addr[:]), "tx_rlp": hex.EncodeToString(b.enc)}})
			}
			if msg, err := stx.AsMessage(b.s.real()); err != nil || msg.From() != b.key.addr {
				run.Violate(ev.Violation{Scenario: "sign", Oracle: "sender-is-signing-key", CaseID: b.s.kind + "/AsMessage", Detail: map[string]interface{}{"case": b.id(), "got": fmt.Sprintf("%x %v", msg.From(), err)}})
			}
			run.Eval(2)
		}()
	})
	for _, b := range bases {
		if b.enc == nil {
			run.Finish() // signing failed: reported above
		}
	}
	// fresh decode, real vs reference, every base under its own signer
	var mu sync.Mutex
	merge := func(m map[string]struct{}) {
		ks := make([]string, 0, len(m))
		for k := range m {
			ks = append(ks, k)
		}
		run.Classes(ks)
	}
	ev.ParallelFor(len(bases), func(i int) {
		b := bases[i]
		cl := map[string]struct{}{}
		rv := rep.check("genuine", b.s, b.enc, b.f, b.key.addr, "", cl, map[string]interface{}{"case": b.id()})
		if !rv.ok || rv.addr != b.key.addr {
			rep.violate("genuine", "sender-is-signing-key", b.s.kind+"/fresh-decode", b.s, b.enc, b.f, "", map[string]interface{}{"case": b.id(), "got": rv.String()})
		}
		cl["genuine|key="+b.key.name+"|"+b.s.kind] = struct{}{}
		mu.Lock()
		merge(cl)
		mu.Unlock()
	})
	phase("sign+genuine")
	run.Set("base_transactions", len(bases))
	run.Sample(map[string]interface{}{"scenario": "genuine", "case": bases[7].id(), "tx_rlp": hex.EncodeToString(bases[7].enc)})

	// -- 2. round trips (all bases) ----------------------------------------------------------------
	roundTrips(rep, bases)
	phase("roundtrips")

	// -- 3. chain-id / signer pairs (all bases x all signers) ----------------------------------------
	signerPairs(rep, pick(bases, pickN(run, 1944, len(bases))), signers)
	phase("signer-pairs")

	// -- 4. sender cache: every ordered pair of signers ---------------------------------------------
	senderCache(rep, pick(bases, pickN(run, 64, 512)), signers)
	signAfterLooking(rep, pick(bases, pickN(run, 256, 2048)), keys)
	phase("cache")

	// -- 5. single-field replacement ---------------------------------------------------------------
	fieldReplacement(rep, pick(bases, pickN(run, 450, len(bases))), signers, deadline)
	phase("field-replacement")

	// -- 6. V/R/S lattice ----------------------------------------------------------------------------
	vrsLattice(rep, pick(bases, pickN(run, 27, 108)), deadline)
	phase("vrs")

	// -- 7. pool and state transition -----------------------------------------------------------------
	poolAndApply(rep, keys)
	phase("pool-apply")

	// -- 8. single-bit flips -----------------------------------------------------------------------
	bitFlips(rep, pick(bases, pickN(run, 45, 450)), deadline)
	phase("bit-flips")

	run.Finish()
}

func pickN(run *ev.Run, quick, thorough int) int {
	if run.Quick() {
		return quick
	}
	return thorough
}

// pick selects n bases with a stride coprime to every radix of the lattice, so that every key,
// every signer and every value of every content dimension occurs (n >= 9).
func pick(bases []*baseTx, n int) []*baseTx {
	if n >= len(bases) {
		return bases
	}
	const stride = 1009 // prime, coprime to 2, 3, 6, 9
	out := make([]*baseTx, 0, n)
	seen := map[int]bool{}
	for i := 0; len(out) < n; i++ {
		j := (i*stride + i/len(bases)) % len(bases)
		if !seen[j] {
			seen[j] = true
			out = append(out, bases[j])
		}
	}
	return out
}

func roundTrips(rep *reporter, bases []*baseTx) {
	run := rep.run
	ev.ParallelFor(len(bases), func(i int) {
		b := bases[i]
		fail := func(oracle, what string) {
			run.Violate(ev.Violation{Scenario: "roundtrip", Oracle: oracle, CaseID: b.s.kind, Detail: map[string]interface{}{"case": b.id(), "tx_rlp": hex.EncodeToString(b.enc), "observed": what, "signer": b.s.name()}})
		}
		defer func() {
			if r := recover(); r != nil {
				fail("no-panic", fmt.Sprint(r))
			}
		}()
		tx := new(types.Transaction)
		if err := rlp.DecodeBytes(b.enc, tx); err != nil {
			fail("rlp-decodes", err.Error())
			return
		}
		h0 := tx.Hash()
		if h0 != common.BytesToHash(keccak(b.enc)) {
			fail("hash-is-keccak-of-rlp", h0.Hex())
		}
		re, _ := rlp.EncodeToBytes(tx)
		if !bytes.Equal(re, b.enc) {
			fail("rlp-reencodes-identically", hex.EncodeToString(re))
		}
		js, err := json.Marshal(tx)
		if err != nil {
			fail("json-marshals", err.Error())
			return
		}
		tx2 := new(types.Transaction)
		if err := json.Unmarshal(js, tx2); err != nil {
			fail("json-unmarshals", err.Error()+" "+string(js))
			return
		}
		if tx2.Hash() != h0 {
			fail("hash-survives-json", tx2.Hash().Hex()+" "+string(js))
		}
		if ch := diff(b.f, fieldsOf(tx2)); ch != "" {
			fail("fields-survive-json", ch+" "+string(js))
		}
		if from, err := types.Sender(b.s.real(), tx2); err != nil || from != b.key.addr {
			fail("sender-survives-json", fmt.Sprintf("%x %v", from, err))
		}
		var m map[string]interface{}
		json.Unmarshal(js, &m)
		if hs, _ := m["hash"].(string); !strings.EqualFold(hs, h0.Hex()) {
			fail("json-hash-field", hs)
		}
		js2, _ := json.Marshal(tx2)
		if !bytes.Equal(js, js2) {
			fail("json-remarshals-identically", string(js2))
		}
		// the JSON form carries an informational "hash" member: a document in which one signed field was
		// changed and "hash" left alone decodes (if at all) to a transaction whose hash is the hash of its
		// own content, not the one the document claims
		for _, fld := range []string{"nonce", "gasPrice", "gas", "to", "value", "input", "v", "r", "s"} {
			m2 := map[string]interface{}{}
			for k, v := range m {
				m2[k] = v
			}
			switch old := m[fld].(type) {
			case nil:
				m2[fld] = "0x00000000000000000000000000000000000000aa"
			case string:
				switch fld {
				case "to":
					last := old[len(old)-1]
					r := byte('1')
					if last == '1' {
						r = '2'
					}
					m2[fld] = old[:len(old)-1] + string(r)
				case "input":
					m2[fld] = old + "00"
				default:
					v, ok := new(big.Int).SetString(strings.TrimPrefix(old, "0x"), 16)
					if !ok {
						continue
					}
					m2[fld] = "0x" + v.Add(v, big.NewInt(1)).Text(16)
				}
			}
			jm, _ := json.Marshal(m2)
			tx3 := new(types.Transaction)
			if json.Unmarshal(jm, tx3) != nil {
				continue
			}
			enc3, err := rlp.EncodeToBytes(tx3)
			if err != nil {
				continue
			}
			if tx3.Hash() != common.BytesToHash(keccak(enc3)) {
				fail("json-hash-member-is-not-trusted", fmt.Sprintf("field %s changed in the JSON text, \"hash\" kept: decoded transaction reports hash %s, its content hashes to %x", fld, tx3.Hash().Hex(), keccak(enc3)))
			}
			if tx3.Hash() == h0 {
				fail("json-field-change-changes-hash", fmt.Sprintf("field %s changed in the JSON text but the decoded transaction keeps the original hash", fld))
			}
		}
		run.Eval(3)
		run.Class("roundtrip|" + b.s.kind + "|to=" + fmt.Sprint(b.c.to != nil) + "|data=" + fmt.Sprint(len(b.c.data)))
		if i == 11 {
			run.Sample(map[string]interface{}{"scenario": "roundtrip", "case": b.id(), "json": string(js)})
		}
	})
}

// signerPairs: every base queried under every signer of the lattice.
func signerPairs(rep *reporter, bases []*baseTx, signers []sgn) {
	var mu sync.Mutex
	ev.ParallelFor(len(bases), func(i int) {
		b := bases[i]
		cl := map[string]struct{}{}
		for _, q := range signers {
			if q.name() == b.s.name() {
				continue
			}
			rv := rep.check("signed-under-"+b.s.kind, q, b.enc, b.f, b.key.addr, "", cl, map[string]interface{}{"case": b.id(), "signed_under": b.s.name()})
			// replay protection, stated directly: a protected transaction is attributed under its own chain id only
			if b.s.kind == "eip155" && rv.ok {
				rep.violate("replay-protection", "protected-transaction-rejected-under-foreign-signer", b.s.kind+"->"+q.kind, q, b.enc, b.f,
					"", map[string]interface{}{"case": b.id(), "signed_under": b.s.name(), "attributed_to": rv.String()})
			}
		}
		mu.Lock()
		ks := make([]string, 0, len(cl))
		for k := range cl {
			ks = append(ks, k)
		}
		rep.run.Classes(ks)
		mu.Unlock()
	})
}

// senderCache: Sender(s1, tx) then Sender(s2, tx) on the same object must answer for s2.
func senderCache(rep *reporter, bases []*baseTx, signers []sgn) {
	run := rep.run
	// include the malleated twin of each base: valid under Frontier, invalid under Homestead
	type item struct {
		b   *baseTx
		f   fields
		tag string
	}
	var items []item
	for _, b := range bases {
		items = append(items, item{b, b.f, "genuine"})
		if b.s.kind != "eip155" {
			items = append(items, item{b, b.f.twin(), "high-s-twin"})
		}
	}
	ev.ParallelFor(len(items), func(i int) {
		it := items[i]
		enc := it.f.encode()
		for _, s1 := range signers {
			for _, s2 := range signers {
				tx := new(types.Transaction)
				if err := rlp.DecodeBytes(enc, tx); err != nil {
					ev.Broken("decode own encoding: %v", err)
				}
				a1, e1 := types.Sender(s1.real(), tx)
				a2, e2 := types.Sender(s2.real(), tx)
				a3, e3 := types.Sender(s1.real(), tx) // and back
				w1, we1 := realSender(s1.real(), enc)
				w2, we2 := realSender(s2.real(), enc)
				run.Eval(1)
				if (e2 == nil) != (we2 == nil) || a2 != w2 || (e3 == nil) != (we1 == nil) || a3 != w1 || (e1 == nil) != (we1 == nil) || a1 != w1 {
					if _, dup := rep.seen.LoadOrStore("cache/"+s1.kind+s2.kind+it.tag, true); !dup {
						run.Violate(ev.Violation{Scenario: "sender-cache", Oracle: "answers-for-the-queried-signer", CaseID: s1.kind + "-then-" + s2.kind + "/" + it.tag,
							Detail: map[string]interface{}{"case": it.b.id(), "tx_rlp": hex.EncodeToString(enc), "signer": s2.name(), "first_signer": s1.name(), "second_signer": s2.name(),
								"first": fmt.Sprintf("%x %v", a1, e1), "second_cached": fmt.Sprintf("%x %v", a2, e2), "second_fresh": fmt.Sprintf("%x %v", w2, we2), "third_cached": fmt.Sprintf("%x %v", a3, e3)}})
					}
				} else {
					run.Class(fmt.Sprintf("cache|%s->%s|%s|first=%v|second=%v", s1.kind, s2.kind, it.tag, e1 == nil, e2 == nil))
				}
			}
		}
	})
}

// signAfterLooking: the object that is signed has been queried before (hash, size, sender under the
// signer). The signed transaction is a new value: its hash is the hash of ITS encoding, its sender the
// key that signed it - also when the same content is then signed again with another key.
func signAfterLooking(rep *reporter, bases []*baseTx, keys []keyCase) {
	run := rep.run
	ev.ParallelFor(len(bases), func(i int) {
		b := bases[i]
		other := keys[(b.ki+1)%len(keys)]
		fail := func(oracle, msg string) {
			if _, dup := rep.seen.LoadOrStore("looked/"+oracle+b.s.kind, true); !dup {
				run.Violate(ev.Violation{Scenario: "sign-after-looking", Oracle: oracle, CaseID: b.s.kind, Detail: map[string]interface{}{"case": b.id(), "observed": msg}})
			}
		}
		defer func() {
			if r := recover(); r != nil {
				fail("no-panic", fmt.Sprint(r))
			}
		}()
		u := b.c.unsigned()
		u.Hash()
		u.Size()
		s1, err := types.SignTx(u, b.s.real(), b.key.priv)
		run.Eval(1)
		if err != nil {
			return
		}
		enc1, _ := rlp.EncodeToBytes(s1)
		if s1.Hash() != common.BytesToHash(keccak(enc1)) {
			fail("hash-is-keccak-of-rlp", fmt.Sprintf("signed after Hash() was called on the unsigned object: reports %x, its encoding hashes to %x", s1.Hash(), keccak(enc1)))
		}
		if int(s1.Size()) != len(enc1) {
			fail("size-is-encoded-size", fmt.Sprintf("reports size %v, encodes to %d bytes", s1.Size(), len(enc1)))
		}
		if a, err := types.Sender(b.s.real(), s1); err != nil || a != b.key.addr {
			fail("sender-is-the-signing-key", fmt.Sprintf("%x %v", a, err))
		}
		// the same object (sender now cached) signed again with another key
		s2, err := types.SignTx(s1, b.s.real(), other.priv)
		if err != nil {
			return
		}
		enc2, _ := rlp.EncodeToBytes(s2)
		if a, err := types.Sender(b.s.real(), s2); err != nil || a != other.addr {
			fail("sender-is-the-signing-key", fmt.Sprintf("re-signed with key %s: Sender reports %x %v, the signing key's address is %x", other.name, a, err, other.addr))
		}
		if s2.Hash() != common.BytesToHash(keccak(enc2)) {
			fail("hash-is-keccak-of-rlp", fmt.Sprintf("re-signed: reports %x, its encoding hashes to %x", s2.Hash(), keccak(enc2)))
		}
		// the sender of the object SignTx returned is the sender of its encoding, under the signer's own
		// chain id and under chain id 0 (whose V has no room for the replay protection it claims)
		for _, sg := range []types.Signer{b.s.real(), types.NewEIP155Signer(big.NewInt(0))} {
			st, err := types.SignTx(b.c.unsigned(), sg, b.key.priv)
			if err != nil {
				continue // refusing to sign is fine
			}
			enc, _ := rlp.EncodeToBytes(st)
			dec := new(types.Transaction)
			if rlp.DecodeBytes(enc, dec) != nil {
				continue
			}
			live, e1 := types.Sender(sg, st)
			wire, e2 := types.Sender(sg, dec)
			if (e1 == nil) != (e2 == nil) || live != wire {
				fail("sender-survives-reencoding", fmt.Sprintf("SignTx returned a transaction attributed to %x (%v); after an RLP round trip it is attributed to %x (%v)", live, e1, wire, e2))
			} else if e1 == nil && live != b.key.addr {
				fail("sender-is-the-signing-key", fmt.Sprintf("signed by %x, attributed to %x", b.key.addr, live))
			}
		}
		run.Class("sign-after-looking|" + b.s.kind)
	})
}

// fieldReplacement: one field of a signed transaction replaced by every other lattice value, signature kept.
func fieldReplacement(rep *reporter, bases []*baseTx, signers []sgn, deadline time.Time) {
	var capped atomic.Bool
	var mu sync.Mutex
	ev.ParallelFor(len(bases), func(i int) {
		if time.Now().After(deadline) {
			capped.Store(true)
			return
		}
		b := bases[i]
		cl := map[string]struct{}{}
		try := func(f fields) {
			ch := diff(b.f, f)
			if ch == "" {
				return
			}
			rep.check("field-replacement", b.s, f.encode(), f, b.key.addr, ch, cl, map[string]interface{}{"case": b.id()})
		}
		for _, n := range []uint64{0, 1, 2, max64, max64 - 1} {
			f := b.f.clone()
			f.nonce = n
			try(f)
		}
		for _, p := range []*big.Int{big.NewInt(0), big.NewInt(1), big.NewInt(2), max256} {
			f := b.f.clone()
			f.price = p
			try(f)
		}
		for _, g := range []uint64{0, 20999, 21001, max64} {
			f := b.f.clone()
			f.gas = g
			try(f)
		}
		for _, to := range []*common.Address{nil, &toAddr, &toAlt, {}} {
			f := b.f.clone()
			f.to = to
			try(f)
		}
		for _, v := range []*big.Int{big.NewInt(0), big.NewInt(1), big.NewInt(2), max256} {
			f := b.f.clone()
			f.value = v
			try(f)
		}
		for _, d := range [][]byte{nil, {0}, {1}, bytes.Repeat([]byte{0xff}, 33), bytes.Repeat([]byte{0xff}, 32), append(bytes.Repeat([]byte{0xff}, 32), 0xfe)} {
			f := b.f.clone()
			f.data = d
			try(f)
		}
		// chain id: the same recovery bit moved to every other chain (and to the unprotected form), queried under both signers
		par := b.f.parity(b.s)
		for _, q := range signers {
			if q.name() == b.s.name() {
				continue
			}
			f := b.f.clone()
			f.v = q.vFor(par)
			if diff(b.f, f) == "" {
				continue // frontier <-> homestead: same V
			}
			rep.check("field-replacement", q, f.encode(), f, b.key.addr, "chainid", cl, map[string]interface{}{"case": b.id(), "moved_to": q.name()})
			rep.check("field-replacement", b.s, f.encode(), f, b.key.addr, "chainid", cl, map[string]interface{}{"case": b.id(), "moved_to": q.name()})
		}
		mu.Lock()
		ks := make([]string, 0, len(cl))
		for k := range cl {
			ks = append(ks, k)
		}
		rep.run.Classes(ks)
		mu.Unlock()
	})
	if capped.Load() {
		rep.run.Cap("deadline reached during single-field replacement")
	}
}

// vrsLattice: V x R x S boundary values, including the genuine values and the malleated twin.
func vrsLattice(rep *reporter, bases []*baseTx, deadline time.Time) {
	halfN := new(big.Int).Rsh(curveN, 1)
	add := func(x *big.Int, d int64) *big.Int { return new(big.Int).Add(x, big.NewInt(d)) }
	// ... and values wider than 32 bytes, which only the RLP form can carry
	p256 := new(big.Int).Lsh(big.NewInt(1), 256)
	bound := []*big.Int{big.NewInt(0), big.NewInt(1), halfN, add(halfN, 1), add(curveN, -1), curveN, add(curveN, 1), max256, p256, add(p256, 1), new(big.Int).Lsh(big.NewInt(1), 300)}
	var capped atomic.Bool
	var mu sync.Mutex
	ev.ParallelFor(len(bases), func(i int) {
		if time.Now().After(deadline) {
			capped.Store(true)
			return
		}
		b := bases[i]
		cl := map[string]struct{}{}
		rs := append(append([]*big.Int(nil), bound...), b.f.r)
		ss := append(append([]*big.Int(nil), bound...), b.f.s, new(big.Int).Sub(curveN, b.f.s))
		vs := []*big.Int{big.NewInt(0), big.NewInt(1), big.NewInt(26), big.NewInt(27), big.NewInt(28), big.NewInt(29), big.NewInt(35), big.NewInt(36), big.NewInt(255), big.NewInt(256)}
		// values congruent to 27 / 28 modulo 2^8, 2^32 and 2^64 (a truncating conversion of V must not
		// turn them into a valid recovery id)
		for _, sh := range []uint{8, 32, 63, 64} {
			for _, lo := range []int64{27, 28} {
				vs = append(vs, add(new(big.Int).Lsh(big.NewInt(1), sh), lo))
			}
		}
		if b.s.kind == "eip155" {
			base := add(new(big.Int).Lsh(b.s.chain, 1), 35)
			vs = append(vs, add(base, -1), base, add(base, 1), add(base, 2), add(base, 256))
		}
		for _, v := range vs {
			for _, r := range rs {
				for _, s := range ss {
					f := b.f.clone()
					f.v, f.r, f.s = v, r, s
					ch := diff(b.f, f)
					tag := ""
					if ch != "" {
						tag = "vrs"
						if f.r.Cmp(b.f.r) == 0 && new(big.Int).Add(f.s, b.f.s).Cmp(curveN) == 0 && f.parityOK(b.s) && f.parity(b.s) != b.f.parity(b.s) {
							tag = "malleated-twin"
						}
					}
					orig := b.key.addr
					if tag == "malleated-twin" && b.s.kind == "frontier" {
						// the twin is the one changed transaction that legitimately recovers the original key; only Frontier admits it
						rv, fv, perr := compare(b.s, f.encode(), f)
						rep.run.Eval(1)
						if perr != nil || rv != fv || !rv.ok || rv.addr != orig {
							rep.violate("vrs-lattice", "frontier-accepts-high-s", "frontier/twin", b.s, f.encode(), f, fmt.Sprintf("%v|%v|%v", rv, fv, perr != nil), map[string]interface{}{"case": b.id()})
						} else {
							cl["vrs-lattice|frontier|malleated-twin|original-sender"] = struct{}{}
						}
						continue
					}
					rep.check("vrs-lattice", b.s, f.encode(), f, orig, tag, cl, map[string]interface{}{"case": b.id()})
				}
			}
		}
		mu.Lock()
		ks := make([]string, 0, len(cl))
		for k := range cl {
			ks = append(ks, k)
		}
		rep.run.Classes(ks)
		mu.Unlock()
	})
	if capped.Load() {
		rep.run.Cap("deadline reached during the V/R/S lattice")
	}
}

// bitFlips: every single-bit flip of the RLP encoding.
func bitFlips(rep *reporter, bases []*baseTx, deadline time.Time) {
	run := rep.run
	var capped atomic.Bool
	var flips, decoded, same atomic.Int64
	var mu sync.Mutex
	type unit struct {
		b    *baseTx
		byte int
	}
	var units []unit
	for _, b := range bases {
		for i := range b.enc {
			units = append(units, unit{b, i})
		}
	}
	ev.ParallelFor(len(units), func(ui int) {
		if time.Now().After(deadline) {
			capped.Store(true)
			return
		}
		u := units[ui]
		b := u.b
		cl := map[string]struct{}{}
		for bit := 0; bit < 8; bit++ {
			enc := append([]byte(nil), b.enc...)
			enc[u.byte] ^= 1 << bit
			flips.Add(1)
			run.Eval(1)
			tx := new(types.Transaction)
			var derr error
			func() {
				defer func() {
					if r := recover(); r != nil {
						derr = fmt.Errorf("PANIC: %v", r)
					}
				}()
				derr = rlp.DecodeBytes(enc, tx)
			}()
			if isPanic(derr) {
				rep.violate("bit-flip", "no-panic", b.s.kind+"/decode", b.s, enc, b.f, "", map[string]interface{}{"case": b.id(), "panic": derr.Error(), "flipped_bit": u.byte*8 + bit})
				continue
			}
			if derr != nil {
				cl["bit-flip|"+b.s.kind+"|decode-error"] = struct{}{}
				continue
			}
			decoded.Add(1)
			f := fieldsOf(tx)
			ch := diff(b.f, f)
			if ch == "" {
				// a second encoding of the same transaction (RLP leniency is C11's subject): hash and sender must be those of the original
				same.Add(1)
				from, err := types.Sender(b.s.real(), tx)
				if tx.Hash() != common.BytesToHash(keccak(b.enc)) || err != nil || from != b.key.addr {
					rep.violate("bit-flip", "same-fields-same-hash-and-sender", b.s.kind, b.s, enc, f, "", map[string]interface{}{"case": b.id(), "flipped_bit": u.byte*8 + bit})
				}
				cl["bit-flip|"+b.s.kind+"|same-transaction-other-encoding"] = struct{}{}
				continue
			}
			// the decoded transaction re-encodes canonically to f.encode(); evaluate under the signer of the base,
			// under the signer its own V asks for, and under Frontier
			detail := map[string]interface{}{"case": b.id(), "flipped_bit": u.byte*8 + bit, "flipped_rlp": hex.EncodeToString(enc)}
			qs := []sgn{b.s}
			if own := f.ownSigner(); own.name() != b.s.name() {
				qs = append(qs, own)
			}
			if b.s.kind != "frontier" {
				qs = append(qs, sgn{kind: "frontier"})
			}
			for _, q := range qs {
				rep.check("bit-flip", q, enc, f, b.key.addr, ch, cl, detail)
			}
		}
		mu.Lock()
		ks := make([]string, 0, len(cl))
		for k := range cl {
			ks = append(ks, k)
		}
		run.Classes(ks)
		mu.Unlock()
	})
	if capped.Load() {
		run.Cap("deadline reached during single-bit flips")
	}
	run.Set("bit_flips", flips.Load())
	run.Set("bit_flips_decoding", decoded.Load())
	run.Set("bit_flips_same_transaction", same.Load())
	run.Set("bit_flip_bases", len(bases))
}

// replay re-runs one reported case.
func replay(rep *reporter, d *ev.ReplayDoc) {
	get := func(k string) string { s, _ := d.Detail[k].(string); return s }
	enc, err := hex.DecodeString(get("tx_rlp"))
	if err != nil || len(enc) == 0 || get("signer") == "" {
		fmt.Printf("NOTE replay of %s/%s carries no transaction; run the tier instead\n", d.Scenario, d.CaseID)
		return
	}
	if d.Scenario == "pool" || d.Scenario == "apply" {
		replayPoolApply(rep, d)
		return
	}
	s := parseSgn(get("signer"))
	tx := new(types.Transaction)
	if err := rlp.DecodeBytes(enc, tx); err != nil {
		fmt.Printf("NOTE replay: transaction does not decode: %v\n", err)
		return
	}
	f := fieldsOf(tx)
	rv, fv, perr := compare(s, enc, f)
	rep.run.Eval(1)
	fmt.Printf("NOTE replay %s under %s: real=%v reference=%v (%s) panic=%v\n", d.CaseID, s.name(), rv, fv, refReject(s, f), perr)
	var orig common.Address
	copy(orig[:], common.FromHex(get("original_sender")))
	bad := perr != nil || rv.ok != fv.ok || rv.addr != fv.addr
	if d.Oracle == "changed-transaction-not-attributed-to-original-sender" {
		bad = rv.ok && rv.addr == orig
	}
	if d.Scenario == "sender-cache" {
		s2 := parseSgn(get("second_signer"))
		s1 := parseSgn(get("first_signer"))
		types.Sender(s1.real(), tx)
		a2, e2 := types.Sender(s2.real(), tx)
		w2, we2 := realSender(s2.real(), enc)
		bad = (e2 == nil) != (we2 == nil) || a2 != w2
	}
	if bad {
		rep.run.Violate(ev.Violation{Scenario: d.Scenario, Oracle: d.Oracle, CaseID: d.CaseID, Detail: d.Detail})
	}
}
