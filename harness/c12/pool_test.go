// C12, acceptance observed where it matters: TxPool.AddRemote and core.ApplyTransaction.
package c12

import (
	"encoding/hex"
	"fmt"
	"math/big"

	"gitlab.com/aquachain/aquachain/aqua/event"
	"gitlab.com/aquachain/aquachain/aquadb"
	"gitlab.com/aquachain/aquachain/common"
	"gitlab.com/aquachain/aquachain/core"
	"gitlab.com/aquachain/aquachain/core/state"
	"gitlab.com/aquachain/aquachain/core/types"
	"gitlab.com/aquachain/aquachain/core/vm"
	"gitlab.com/aquachain/aquachain/params"
	"gitlab.com/aquachain/aquachain/rlp"
	"gitlab.com/aquachain/aquachain/zzverif/ev"
)

var poolChain = big.NewInt(61717561)

type fakeChain struct {
	statedb *state.StateDB
	feed    *event.Feed
}

func (c *fakeChain) CurrentBlock() *types.Block {
	return types.NewBlock(&types.Header{GasLimit: 10_000_000, Number: big.NewInt(10), Time: big.NewInt(1), Difficulty: big.NewInt(1)}, nil, nil, nil)
}
func (c *fakeChain) GetBlock(common.Hash, uint64) *types.Block   { return c.CurrentBlock() }
func (c *fakeChain) StateAt(common.Hash) (*state.StateDB, error) { return c.statedb, nil }
func (c *fakeChain) SubscribeChainHeadEvent(ch chan<- core.ChainHeadEvent) event.Subscription {
	return c.feed.Subscribe(ch)
}

func freshState(rich common.Address) *state.StateDB {
	st, err := state.New(common.Hash{}, state.NewDatabase(aquadb.NewMemDatabase()))
	if err != nil {
		ev.Broken("state.New: %v", err)
	}
	st.AddBalance(rich, new(big.Int).Lsh(big.NewInt(1), 200))
	return st
}

func chainConfig(homestead, eip155 *big.Int) *params.ChainConfig {
	cfg := *params.TestChainConfig
	cfg.ChainId = new(big.Int).Set(poolChain)
	cfg.HomesteadBlock = homestead
	cfg.EIP155Block = eip155
	return &cfg
}

// variant is one transaction derived from a genuine one.
type variant struct {
	tag     string
	f       fields
	changed string
}

func variantsOf(key keyCase, c content) []variant {
	var out []variant
	sign := func(s sgn) fields {
		stx, err := types.SignTx(c.unsigned(), s.real(), key.priv)
		if err != nil {
			ev.Broken("SignTx in pool scenario: %v", err)
		}
		return fieldsOf(stx)
	}
	for _, s := range []sgn{{kind: "frontier"}, {"eip155", poolChain}, {"eip155", big.NewInt(1)}, {"eip155", big.NewInt(110)}} {
		g := sign(s)
		name := s.name()
		if s.kind == "frontier" {
			name = "unprotected"
		}
		out = append(out, variant{"genuine:" + name, g, ""})
		// malleated twin
		t := g.clone()
		t.s = new(big.Int).Sub(curveN, g.s)
		t.v = s.vFor(1 - g.parity(s))
		out = append(out, variant{"twin:" + name, t, "malleated-twin"})
		if s.kind == "eip155" && s.chain.Cmp(poolChain) != 0 {
			continue
		}
		for _, m := range []struct {
			name string
			f    func(*fields)
		}{
			{"nonce", func(f *fields) { f.nonce++ }},
			{"gasprice", func(f *fields) { f.price = new(big.Int).Add(f.price, big.NewInt(1)) }},
			{"gaslimit", func(f *fields) { f.gas++ }},
			{"recipient", func(f *fields) { f.to = &toAlt }},
			{"value", func(f *fields) { f.value = new(big.Int).Add(f.value, big.NewInt(1)) }},
			{"data", func(f *fields) { f.data = append(append([]byte(nil), f.data...), 1) }},
			{"r", func(f *fields) { f.r = new(big.Int).Xor(f.r, big.NewInt(1)) }},
			{"s", func(f *fields) { f.s = new(big.Int).Xor(f.s, big.NewInt(2)) }},
			{"v-parity", func(f *fields) { f.v = s.vFor(1 - f.parity(s)) }},
		} {
			h := g.clone()
			m.f(&h)
			out = append(out, variant{"changed-" + m.name + ":" + name, h, m.name})
		}
	}
	return out
}

func decodeTx(f fields) *types.Transaction {
	tx := new(types.Transaction)
	if err := rlp.DecodeBytes(f.encode(), tx); err != nil {
		ev.Broken("decode own encoding: %v", err)
	}
	return tx
}

// poolOutcome adds the transaction to a fresh pool and reports under which account it is held.
func poolOutcome(key keyCase, f fields) (heldBy *common.Address, err error) {
	defer func() {
		if r := recover(); r != nil {
			err = fmt.Errorf("PANIC: %v", r)
		}
	}()
	chain := &fakeChain{freshState(key.addr), new(event.Feed)}
	cfg := core.DefaultTxPoolConfig
	cfg.Journal = ""
	cfg.NoLocals = true
	pool := core.NewTxPool(cfg, chainConfig(big.NewInt(0), big.NewInt(0)), chain)
	defer pool.Stop()
	tx := decodeTx(f)
	err = pool.AddRemote(tx)
	pending, queued := pool.Content()
	for _, m := range []map[common.Address]types.Transactions{pending, queued} {
		for a, txs := range m {
			for _, t := range txs {
				if t.Hash() == tx.Hash() {
					aa := a
					heldBy = &aa
				}
			}
		}
	}
	return heldBy, err
}

type applyCfg struct {
	name   string
	cfg    *params.ChainConfig
	block  int64
	signer sgn // what MakeSigner must amount to
}

func applyConfigs() []applyCfg {
	return []applyCfg{
		{"eip155@0/block10", chainConfig(big.NewInt(0), big.NewInt(0)), 10, sgn{"eip155", poolChain}},
		{"eip155@5/block4", chainConfig(big.NewInt(0), big.NewInt(5)), 4, sgn{kind: "homestead"}},
		{"eip155@5/block5", chainConfig(big.NewInt(0), big.NewInt(5)), 5, sgn{"eip155", poolChain}},
		{"homestead-only/block10", chainConfig(big.NewInt(0), nil), 10, sgn{kind: "homestead"}},
		{"homestead@5/block4", chainConfig(big.NewInt(5), nil), 4, sgn{kind: "frontier"}},
		{"frontier/block10", chainConfig(nil, nil), 10, sgn{kind: "frontier"}},
	}
}

// applyOutcome runs ApplyTransaction on a fresh state; it reports whether it succeeded and whether the
// key's account was touched (nonce or balance changed).
func applyOutcome(ac applyCfg, key keyCase, f fields) (applied bool, keyTouched bool, err error) {
	defer func() {
		if r := recover(); r != nil {
			err = fmt.Errorf("PANIC: %v", r)
		}
	}()
	st := freshState(key.addr)
	bal0, nonce0 := new(big.Int).Set(st.GetBalance(key.addr)), st.GetNonce(key.addr)
	header := &types.Header{Number: big.NewInt(ac.block), Time: big.NewInt(1), Difficulty: big.NewInt(1), GasLimit: 10_000_000, Coinbase: common.HexToAddress("0xc0ffee")}
	gp := new(core.GasPool).AddGas(10_000_000)
	var used uint64
	_, _, err = core.ApplyTransaction(ac.cfg, nil, nil, gp, st, header, decodeTx(f), &used, vm.Config{})
	keyTouched = st.GetNonce(key.addr) != nonce0 || st.GetBalance(key.addr).Cmp(bal0) != 0
	return err == nil, keyTouched, err
}

func poolAndApply(rep *reporter, keys []keyCase) {
	run := rep.run
	type job struct {
		key keyCase
		c   content
	}
	var jobs []job
	for _, k := range keys {
		for _, to := range []*common.Address{nil, &toAddr} {
			jobs = append(jobs, job{k, content{0, big.NewInt(1), 100000, to, big.NewInt(1), nil}})
		}
	}
	poolSigner := sgn{"eip155", poolChain}
	ev.ParallelFor(len(jobs), func(i int) {
		j := jobs[i]
		for _, v := range variantsOf(j.key, j.c) {
			enc := v.f.encode()
			detail := func(extra map[string]interface{}) map[string]interface{} {
				d := map[string]interface{}{"key": j.key.name, "variant": v.tag, "tx_rlp": hex.EncodeToString(enc), "fields": v.f.describe(), "key_address": hex.EncodeToString(j.key.addr[:]), "to_nil": j.c.to == nil}
				for k, x := range extra {
					d[k] = x
				}
				return d
			}
			kindOf := func(s sgn) string {
				return s.kind + "/" + map[bool]string{true: v.changed, false: "genuine"}[v.changed != ""]
			}
			// ---- pool
			want, wantOK := refSender(poolSigner, v.f)
			held, err := poolOutcome(j.key, v.f)
			run.Eval(1)
			d := detail(map[string]interface{}{"signer": poolSigner.name(), "reference": verdict{wantOK, want}.String() + " " + refReject(poolSigner, v.f), "pool_error": fmt.Sprint(err), "held_by": fmt.Sprintf("%x", held)})
			switch {
			case isPanic(err):
				run.Violate(ev.Violation{Scenario: "pool", Oracle: "no-panic", CaseID: kindOf(poolSigner), Detail: d})
			case !wantOK && (err == nil || held != nil):
				run.Violate(ev.Violation{Scenario: "pool", Oracle: "invalid-signature-rejected", CaseID: "eip155/" + refReject(poolSigner, v.f), Detail: d})
			case !wantOK && err != core.ErrInvalidSender:
				run.Violate(ev.Violation{Scenario: "pool", Oracle: "rejected-as-invalid-sender", CaseID: kindOf(poolSigner), Detail: d})
			case wantOK && want == j.key.addr && (err != nil || held == nil || *held != j.key.addr):
				run.Violate(ev.Violation{Scenario: "pool", Oracle: "valid-transaction-held-under-its-sender", CaseID: kindOf(poolSigner), Detail: d})
			case wantOK && want != j.key.addr && held != nil && *held == j.key.addr:
				run.Violate(ev.Violation{Scenario: "pool", Oracle: "changed-transaction-not-attributed-to-original-sender", CaseID: kindOf(poolSigner), Detail: d})
			default:
				run.Class(fmt.Sprintf("pool|%s|accepted=%v|ref=%s", v.tag[:indexOrLen(v.tag, ':')], err == nil, refReject(poolSigner, v.f)))
			}
			// ---- state transition
			for _, ac := range applyConfigs() {
				want, wantOK := refSender(ac.signer, v.f)
				applied, touched, err := applyOutcome(ac, j.key, v.f)
				run.Eval(1)
				d := detail(map[string]interface{}{"signer": ac.signer.name(), "config": ac.name, "reference": verdict{wantOK, want}.String() + " " + refReject(ac.signer, v.f),
					"apply_error": fmt.Sprint(err), "applied": applied, "key_account_touched": touched})
				switch {
				case isPanic(err):
					run.Violate(ev.Violation{Scenario: "apply", Oracle: "no-panic", CaseID: ac.name + "/" + kindOf(ac.signer), Detail: d})
				case !wantOK && (applied || touched):
					run.Violate(ev.Violation{Scenario: "apply", Oracle: "invalid-signature-rejected", CaseID: ac.signer.kind + "/" + refReject(ac.signer, v.f) + "/" + ac.name, Detail: d})
				case wantOK && want == j.key.addr && v.changed == "" && (!applied || !touched):
					run.Violate(ev.Violation{Scenario: "apply", Oracle: "valid-transaction-applied-to-its-sender", CaseID: ac.name + "/" + kindOf(ac.signer), Detail: d})
				case wantOK && want != j.key.addr && touched:
					run.Violate(ev.Violation{Scenario: "apply", Oracle: "changed-transaction-not-attributed-to-original-sender", CaseID: ac.name + "/" + kindOf(ac.signer), Detail: d})
				default:
					run.Class(fmt.Sprintf("apply|%s|%s|applied=%v|ref=%s", ac.name, v.tag[:indexOrLen(v.tag, ':')], applied, refReject(ac.signer, v.f)))
				}
			}
		}
		if i == 0 {
			run.Sample(map[string]interface{}{"scenario": "pool+apply", "key": j.key.name, "variants": len(variantsOf(j.key, j.c)), "configs": len(applyConfigs())})
		}
	})
}

func indexOrLen(s string, c byte) int {
	for i := 0; i < len(s); i++ {
		if s[i] == c {
			return i
		}
	}
	return len(s)
}

func replayPoolApply(rep *reporter, d *ev.ReplayDoc) {
	get := func(k string) string { s, _ := d.Detail[k].(string); return s }
	enc, _ := hex.DecodeString(get("tx_rlp"))
	tx := new(types.Transaction)
	if err := rlp.DecodeBytes(enc, tx); err != nil {
		fmt.Printf("NOTE replay: %v\n", err)
		return
	}
	f := fieldsOf(tx)
	var key keyCase
	for _, k := range keyLattice() {
		if k.name == get("key") {
			key = k
		}
	}
	if key.priv == nil {
		ev.Broken("replay: unknown key %q", get("key"))
	}
	rep.run.Eval(1)
	if d.Scenario == "pool" {
		s := sgn{"eip155", poolChain}
		want, wantOK := refSender(s, f)
		held, err := poolOutcome(key, f)
		fmt.Printf("NOTE replay pool: error=%v held_by=%x reference=%v %s\n", err, held, verdict{wantOK, want}, refReject(s, f))
		if isPanic(err) || !wantOK && (err == nil || held != nil) || wantOK && want != key.addr && held != nil && *held == key.addr || wantOK && want == key.addr && (err != nil || held == nil) {
			rep.run.Violate(ev.Violation{Scenario: d.Scenario, Oracle: d.Oracle, CaseID: d.CaseID, Detail: d.Detail})
		}
		return
	}
	for _, ac := range applyConfigs() {
		if ac.name != get("config") {
			continue
		}
		want, wantOK := refSender(ac.signer, f)
		applied, touched, err := applyOutcome(ac, key, f)
		fmt.Printf("NOTE replay apply %s: applied=%v key_touched=%v error=%v reference=%v %s\n", ac.name, applied, touched, err, verdict{wantOK, want}, refReject(ac.signer, f))
		if isPanic(err) || !wantOK && (applied || touched) || wantOK && want != key.addr && touched {
			rep.run.Violate(ev.Violation{Scenario: d.Scenario, Oracle: d.Oracle, CaseID: d.CaseID, Detail: d.Detail})
		}
	}
}
