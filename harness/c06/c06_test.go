// C06 - every included transaction is charged, nonced and rolled back exactly.
//
// Engine E4 (lattice enumeration against a reference): the real core.ApplyTransaction,
// StateProcessor.Process, GenerateChain and BlockChain.InsertChain are driven over a finite lattice of
// sender states x transaction fields x callee programs x block positions x fork epochs; the expected
// result of every case is computed by plain arithmetic written in this file (section "reference"): the
// intrinsic gas from the data bytes, the execution gas of the fixed callee programs from the Yellow
// Paper fee schedule (hand-computed constants), the refund cap, the fee and value movements. The
// repository's IntrinsicGas / state transition is never consulted by the reference.
// DESIGN.md section 4/C06.
package c06

import (
	"context"
	"encoding/hex"
	"fmt"
	"math/big"
	"os"
	"runtime/debug"
	"runtime/pprof"
	"sort"
	"strings"
	"sync"
	"testing"
	"time"

	"golang.org/x/crypto/sha3"

	"gitlab.com/aquachain/aquachain/aquadb"
	"gitlab.com/aquachain/aquachain/common"
	"gitlab.com/aquachain/aquachain/common/log"
	"gitlab.com/aquachain/aquachain/consensus/aquahash"
	"gitlab.com/aquachain/aquachain/core"
	"gitlab.com/aquachain/aquachain/core/state"
	"gitlab.com/aquachain/aquachain/core/types"
	"gitlab.com/aquachain/aquachain/core/vm"
	"gitlab.com/aquachain/aquachain/crypto"
	"gitlab.com/aquachain/aquachain/params"
	"gitlab.com/aquachain/aquachain/zzverif/ev"
)

// ---- fixed cast -----------------------------------------------------------------------------------

func addrN(hexTail string) common.Address { return common.HexToAddress("0x" + hexTail) }

var (
	senderKey, _ = crypto.HexToBtcec("b71c71a67e1177ad4e901695e1b4b9ee17ae16c6668d313eac2f96dbcda3f291")
	burnerKey, _ = crypto.HexToBtcec("8a1f9a8f95be41cd7ccb6168179afb4504aefe388d1e14474d32c45c72ce7b7a")
	senderAddr   = crypto.PubkeyToAddress(senderKey.PubKey())
	burnerAddr   = crypto.PubkeyToAddress(burnerKey.PubKey())

	addrEOA     = addrN("00000000000000000000000000000000000e0a01") // existing, balance 1000
	addrNew     = addrN("00000000000000000000000000000000000e0a02") // absent
	addrCbFresh = addrN("00000000000000000000000000000000000cb001") // absent coinbase
	addrCbOld   = addrN("00000000000000000000000000000000000cb002") // existing coinbase, balance 5
	addrBenef   = addrN("00000000000000000000000000000000000be001") // self-destruct beneficiary, balance 3
	addrBurnC   = addrN("0000000000000000000000000000000000c0ffee") // INVALID: burns every gas it is given
	addrIdent   = addrN("0000000000000000000000000000000000000004") // identity precompile (absent from the state)
	addrCallee  = addrN("000000000000000000000000000000000000c001") // the contract under test (code depends on kind)

	big0     = new(big.Int)
	bigValue = new(big.Int).Exp(big.NewInt(10), big.NewInt(18), nil) // "large" transferred value
	bigLarge = new(big.Int).Exp(big.NewInt(10), big.NewInt(30), nil) // "large" balance
	aqua     = new(big.Int).Exp(big.NewInt(10), big.NewInt(18), nil) // block reward (1 AQUA), property text
)

const (
	genesisGasLimit = 10000000
	// gas limit of block 1 on top of an empty genesis with gas limit 10 000 000: the limit decays by
	// parent/1024-1 towards the target while above it (core.CalcGasLimit); asserted against the builder.
	blockGasLimit = genesisGasLimit - (genesisGasLimit/1024 - 1)
	poolSlack     = 777 // position "second": the preceding transaction leaves intrinsic+exec+777 gas
	roomy         = 10000
)

// ---- callee programs (bytecode) and their hand-computed behaviour --------------------------------

func hx(s string) []byte {
	b, err := hex.DecodeString(strings.ReplaceAll(s, " ", ""))
	if err != nil {
		panic(err)
	}
	return b
}

const (
	slot0 = "0000000000000000000000000000000000000000000000000000000000000000"
	slot1 = "0000000000000000000000000000000000000000000000000000000000000001"
	slot5 = "0000000000000000000000000000000000000000000000000000000000000005"
)

// outcome shapes
const (
	shapeStraight = iota // succeeds iff gas >= exec, otherwise every gas is consumed
	shapeRevert          // REVERT after exec gas (keeps the rest) where the opcode exists; else like INVALID
	shapeBurn            // consumes everything (out-of-gas loop / INVALID / bad instruction)
)

// program is what the reference knows about a piece of code: Yellow Paper fee schedule, EIP-150 prices.
//
//	PUSHn 3, SSTORE 0->1 20000, SSTORE 1->0 5000 (+15000 refund), LOG1 375+375, MSTORE8 3 (+3 first word),
//	JUMPDEST 1, JUMP 8, SELFDESTRUCT 5000 (+24000 refund; beneficiary exists and is not empty),
//	memory: 3*words + words^2/512, code deposit 200/byte, identity precompile 15+3/word.
type program struct {
	name     string
	code     []byte
	shape    int
	exec     uint64 // gas up to the end (straight), up to REVERT (revert), up to the last state change (burn; only a marker for the gas lattice)
	refund   uint64
	nlogs    int
	effect   func(w world, self common.Address) // storage effects on success
	runtime  []byte                             // creation: deployed code
	preStore map[string]string                  // storage the callee starts with
	suicide  bool
}

var (
	codeStore5 = "6001600555"     // PUSH1 1 PUSH1 5 SSTORE              20006
	codeLog1   = "60aa60006000a1" // PUSH1 aa PUSH1 0 PUSH1 0 LOG1         759
	// PUSH1 0 PUSH4 ffffffff MSTORE: expanding memory to 2^32 bytes costs ~3.6e13 gas: out of gas for every limit
	codeHugeMstore = "600063ffffffff52"
	progs          = map[string]*program{}
	progByCode     = map[string]*program{}
)

func reg(p *program) *program {
	progs[p.name] = p
	progByCode[string(p.code)] = p
	return p
}

func setSlot(slot, val string) func(w world, self common.Address) {
	return func(w world, self common.Address) {
		a := w.get(self)
		if val == "" {
			delete(a.storage, slot)
		} else {
			a.storage[slot] = val
		}
	}
}

func both(f, g func(w world, self common.Address)) func(w world, self common.Address) {
	return func(w world, self common.Address) { f(w, self); g(w, self) }
}

func init() {
	// --- message-call callees
	reg(&program{name: "c-ok", code: hx(codeStore5 + codeLog1 + "00"), shape: shapeStraight, exec: 20006 + 759, nlogs: 1, effect: setSlot(slot5, "01")})
	reg(&program{name: "c-revert", code: hx(codeStore5 + codeLog1 + "60006000fd"), shape: shapeRevert, exec: 20006 + 759 + 6})
	reg(&program{name: "c-oog", code: hx(codeStore5 + codeHugeMstore), shape: shapeBurn, exec: 20006})
	reg(&program{name: "c-invalid", code: hx(codeStore5 + codeLog1 + "fe"), shape: shapeBurn, exec: 20006 + 759})
	reg(&program{name: "c-clear2", code: hx("6000600055" + "6000600155" + "00"), shape: shapeStraight, exec: 2 * 5006, refund: 30000,
		preStore: map[string]string{slot0: "01", slot1: "01"}, effect: both(setSlot(slot0, ""), setSlot(slot1, ""))})
	reg(&program{name: "c-clear1", code: hx("6000600055" + codeStore5 + "00"), shape: shapeStraight, exec: 5006 + 20006, refund: 15000,
		preStore: map[string]string{slot0: "01"}, effect: both(setSlot(slot0, ""), setSlot(slot5, "01"))})
	reg(&program{name: "c-suicide", code: hx("73" + hex.EncodeToString(addrBenef[:]) + "ff"), shape: shapeStraight, exec: 3 + 5000, refund: 24000, suicide: true})
	reg(&program{name: "burner", code: hx("fe"), shape: shapeBurn})
	// --- creation init codes
	reg(&program{name: "create-ok", code: hx("6001600055" + "60fe600053" + "60016000f3"), shape: shapeStraight, exec: 20006 + 12 + 6,
		effect: setSlot(slot0, "01"), runtime: hx("fe")})
	reg(&program{name: "create-revert", code: hx("6001600055" + "60006000fd"), shape: shapeRevert, exec: 20006 + 6})
	reg(&program{name: "create-oog", code: hx("6001600055" + codeHugeMstore), shape: shapeBurn, exec: 20006})
	// PUSH3 24577 PUSH1 0 RETURN: memory expansion to 769 words = 3*769 + 769*769/512 = 2307 + 1155
	reg(&program{name: "create-big", code: hx("62006001" + "6000" + "f3"), shape: shapeStraight, exec: 3 + 3 + 2307 + 1155, runtime: make([]byte, 24577)})
}

// ---- world model ---------------------------------------------------------------------------------

type acct struct {
	bal     *big.Int
	nonce   uint64
	code    string // hex
	storage map[string]string
}

type world map[common.Address]*acct

func (w world) get(a common.Address) *acct {
	if x, ok := w[a]; ok {
		return x
	}
	x := &acct{bal: new(big.Int), storage: map[string]string{}}
	w[a] = x
	return x
}

func (w world) bal(a common.Address) *big.Int {
	if x, ok := w[a]; ok {
		return x.bal
	}
	return big0
}

func (a *acct) empty() bool { return a.bal.Sign() == 0 && a.nonce == 0 && a.code == "" }

func (w world) clone() world {
	o := world{}
	for k, v := range w {
		c := &acct{bal: new(big.Int).Set(v.bal), nonce: v.nonce, code: v.code, storage: map[string]string{}}
		for s, x := range v.storage {
			c.storage[s] = x
		}
		o[k] = c
	}
	return o
}

func (w world) String() string {
	var keys []string
	for k := range w {
		keys = append(keys, k.Hex())
	}
	sort.Strings(keys)
	var sb strings.Builder
	for _, k := range keys {
		a := w[common.HexToAddress(k)]
		code := a.code
		if len(code) > 40 {
			code = fmt.Sprintf("%s..(%d bytes)", code[:40], len(a.code)/2)
		}
		var st []string
		for s, v := range a.storage {
			st = append(st, strings.TrimLeft(s, "0")+"="+v)
		}
		sort.Strings(st)
		fmt.Fprintf(&sb, "%s{bal=%s nonce=%d code=%s st=%v} ", k[len(k)-6:], a.bal, a.nonce, code, st)
	}
	return sb.String()
}

func diffWorlds(want, got world) string {
	var out []string
	seen := map[common.Address]bool{}
	for k, a := range want {
		seen[k] = true
		b, ok := got[k]
		if !ok {
			out = append(out, fmt.Sprintf("%s: expected to exist (bal=%s nonce=%d), is absent", k.Hex(), a.bal, a.nonce))
			continue
		}
		if a.bal.Cmp(b.bal) != 0 {
			out = append(out, fmt.Sprintf("%s: balance want %s got %s", k.Hex(), a.bal, b.bal))
		}
		if a.nonce != b.nonce {
			out = append(out, fmt.Sprintf("%s: nonce want %d got %d", k.Hex(), a.nonce, b.nonce))
		}
		if a.code != b.code {
			out = append(out, fmt.Sprintf("%s: code want %d bytes got %d bytes", k.Hex(), len(a.code)/2, len(b.code)/2))
		}
		for s, v := range a.storage {
			if b.storage[s] != v {
				out = append(out, fmt.Sprintf("%s: storage[%s] want %q got %q", k.Hex(), strings.TrimLeft(s, "0"), v, b.storage[s]))
			}
		}
		for s, v := range b.storage {
			if _, ok := a.storage[s]; !ok {
				out = append(out, fmt.Sprintf("%s: storage[%s] want absent got %q", k.Hex(), strings.TrimLeft(s, "0"), v))
			}
		}
	}
	for k, b := range got {
		if !seen[k] {
			out = append(out, fmt.Sprintf("%s: expected absent, exists (bal=%s nonce=%d code=%d bytes)", k.Hex(), b.bal, b.nonce, len(b.code)/2))
		}
	}
	sort.Strings(out)
	return strings.Join(out, "; ")
}

// worldOf reads a committed state through RawDump (complete: every account of the trie).
func worldOf(st *state.StateDB) world {
	d := st.RawDump()
	w := world{}
	for k, a := range d.Accounts {
		b, ok := new(big.Int).SetString(a.Balance, 10)
		if !ok {
			panic("bad balance in dump")
		}
		x := &acct{bal: b, nonce: a.Nonce, code: a.Code, storage: map[string]string{}}
		for s, v := range a.Storage {
			x.storage[s] = v
		}
		w[common.HexToAddress(k)] = x
	}
	return w
}

func (w world) writeTo(st *state.StateDB) {
	for addr, a := range w {
		st.AddBalance(addr, a.bal) // creates the account
		st.SetNonce(addr, a.nonce)
		if a.code != "" {
			st.SetCode(addr, hx(a.code))
		}
		for s, v := range a.storage {
			if v != "01" {
				panic("harness only stores the value 1")
			}
			st.SetState(addr, common.HexToHash(s), common.HexToHash("01"))
		}
	}
}

func (w world) alloc() core.GenesisAlloc {
	ga := core.GenesisAlloc{}
	for addr, a := range w {
		g := core.GenesisAccount{Balance: new(big.Int).Set(a.bal), Nonce: a.nonce}
		if a.code != "" {
			g.Code = hx(a.code)
		}
		if len(a.storage) > 0 {
			g.Storage = map[common.Hash]common.Hash{}
			for s := range a.storage {
				g.Storage[common.HexToHash(s)] = common.HexToHash("01")
			}
		}
		ga[addr] = g
	}
	return ga
}

// ---- reference ----------------------------------------------------------------------------------

type txd struct {
	from  common.Address
	nonce uint64
	price *big.Int
	value *big.Int
	gas   uint64
	to    *common.Address
	data  []byte
}

type renv struct {
	eip158    bool
	hasRevert bool
	coinbase  common.Address
}

type rres struct {
	invalid   string // "" = valid, else which rule makes the block invalid
	gasUsed   uint64
	success   bool
	shape     string // class of the outcome
	nlogs     int
	logAddr   common.Address
	created   common.Address
	isCreate  bool
	intrinsic uint64
	consumed  uint64 // before the refund
	refund    uint64
}

func keccak(b ...[]byte) []byte {
	h := sha3.NewLegacyKeccak256()
	for _, x := range b {
		h.Write(x)
	}
	return h.Sum(nil)
}

// createAddress = rightmost 160 bits of keccak(rlp([sender, nonce])) for nonce < 128.
func createAddress(from common.Address, nonce uint64) common.Address {
	if nonce >= 128 {
		panic("nonce too large for the harness encoder")
	}
	n := []byte{byte(nonce)}
	if nonce == 0 {
		n = []byte{0x80}
	}
	enc := append([]byte{0xc0 + 22, 0x80 + 20}, from[:]...)
	enc = append(enc, n...)
	return common.BytesToAddress(keccak(enc)[12:])
}

func intrinsicGas(data []byte, creation bool) uint64 {
	g := uint64(21000)
	if creation {
		g = 53000
	}
	for _, b := range data {
		if b == 0 {
			g += 4
		} else {
			g += 68
		}
	}
	return g
}

// refApply applies t to w (mutating it when the transaction is valid) with `pool` gas left in the block.
func refApply(w world, t txd, e renv, pool uint64) rres {
	var r rres
	snd, have := w[t.from]
	sNonce, sBal := uint64(0), big0
	if have {
		sNonce, sBal = snd.nonce, snd.bal
	}
	need := new(big.Int).Mul(new(big.Int).SetUint64(t.gas), t.price)
	r.isCreate = t.to == nil
	r.intrinsic = intrinsicGas(t.data, r.isCreate)
	switch {
	case t.nonce != sNonce:
		r.invalid = "nonce"
	case sBal.Cmp(need) < 0:
		r.invalid = "prepay"
	case t.gas > pool:
		r.invalid = "pool"
	case t.gas < r.intrinsic:
		r.invalid = "intrinsic"
	case new(big.Int).Sub(sBal, need).Cmp(t.value) < 0:
		r.invalid = "value"
	}
	if r.invalid != "" {
		return r
	}
	snd = w.get(t.from)
	snd.nonce++
	left := t.gas - r.intrinsic

	// what runs
	var p *program
	var target common.Address
	var execNeed uint64 // gas needed for complete success
	collision := false
	switch {
	case r.isCreate:
		target = createAddress(t.from, t.nonce)
		r.created = target
		p = progByCode[string(t.data)]
		if p == nil {
			panic("unknown init code")
		}
		if ex, ok := w[target]; ok && (ex.nonce != 0 || ex.code != "") {
			collision = true
		}
		execNeed = p.exec + 200*uint64(len(p.runtime))
	case *t.to == addrIdent:
		target = *t.to
		execNeed = 15 + 3*uint64((len(t.data)+31)/32)
		p = &program{name: "identity", shape: shapeStraight, exec: execNeed}
	default:
		target = *t.to
		if a, ok := w[target]; ok && a.code != "" {
			p = progByCode[string(hx(a.code))]
			if p == nil {
				panic("unknown callee code")
			}
			execNeed = p.exec
		} else {
			p = &program{name: "plain", shape: shapeStraight}
		}
	}

	shape := p.shape
	if shape == shapeRevert && !e.hasRevert {
		shape = shapeBurn // 0xfd is not an instruction before the fork: exceptional halt
	}
	tooLarge := r.isCreate && e.eip158 && len(p.runtime) > 24576
	switch {
	case collision, shape == shapeBurn, tooLarge, left < execNeed:
		r.success, r.consumed, r.shape = false, t.gas, "fail-all-gas"
	case shape == shapeRevert:
		r.success, r.consumed, r.shape = false, r.intrinsic+execNeed, "fail-revert-keeps-gas"
	default:
		r.success, r.consumed, r.shape = true, r.intrinsic+execNeed, "success"
	}
	if r.success {
		snd.bal.Sub(snd.bal, t.value)
		ta := w.get(target)
		ta.bal.Add(ta.bal, t.value)
		if r.isCreate {
			if e.eip158 {
				ta.nonce = 1
			}
			ta.code = hex.EncodeToString(p.runtime)
		}
		if p.effect != nil {
			p.effect(w, target)
		}
		if p.suicide {
			b := w.get(addrBenef)
			b.bal.Add(b.bal, ta.bal)
			delete(w, target)
		}
		r.nlogs, r.logAddr = p.nlogs, target
		r.refund = p.refund
		if r.refund > r.consumed/2 {
			r.refund = r.consumed / 2
			r.shape = "success-refund-capped"
		} else if r.refund > 0 {
			r.shape = "success-refund-below-cap"
		}
	}
	r.gasUsed = r.consumed - r.refund
	fee := new(big.Int).Mul(new(big.Int).SetUint64(r.gasUsed), t.price)
	snd.bal.Sub(snd.bal, fee)
	cb := w.get(e.coinbase)
	cb.bal.Add(cb.bal, fee)
	if e.eip158 { // EIP-161: touched accounts that are empty at the end of the transaction disappear
		for _, a := range []common.Address{t.from, e.coinbase, target} {
			if x, ok := w[a]; ok && x.empty() && (a != target || r.success) {
				delete(w, a)
			}
		}
	}
	return r
}

// ---- lattice ------------------------------------------------------------------------------------

type epoch struct {
	name      string
	cfg       *params.ChainConfig
	eip158    bool
	byzantium bool
	hasRevert bool
}

func mkcfg(id int64, hf params.ForkMap, fork *big.Int) *params.ChainConfig {
	return &params.ChainConfig{
		ChainId: big.NewInt(id), HomesteadBlock: big.NewInt(0), EIP150Block: big.NewInt(0),
		EIP155Block: fork, EIP158Block: fork, ByzantiumBlock: fork,
		Aquahash: new(params.AquahashConfig), HF: hf,
	}
}

// Mainnet-shaped epochs (HomesteadBlock = EIP150Block = 0 as on every aquachain network):
//
//	H  height < HF5:        Homestead instruction set, receipts carry a state root, no EIP-158
//	S  HF5 <= height < HF7: "spring" instruction set (REVERT etc.), still root receipts, no EIP-158
//	B  height >= HF7:       spring set + Byzantium rules (status receipts) + EIP-155/158
//
// The block under test is block 1, so each epoch is a config in which height 1 lies in that epoch.
var epochs = []*epoch{
	{name: "H", cfg: mkcfg(77001, params.ForkMap{1: big.NewInt(0), 2: big.NewInt(0), 3: big.NewInt(0), 5: big.NewInt(50), 7: big.NewInt(60)}, big.NewInt(60))},
	{name: "S", cfg: mkcfg(77002, params.ForkMap{1: big.NewInt(0), 2: big.NewInt(0), 3: big.NewInt(0), 5: big.NewInt(0), 6: big.NewInt(0), 7: big.NewInt(60)}, big.NewInt(60)), hasRevert: true},
	{name: "B", cfg: mkcfg(77003, params.ForkMap{1: big.NewInt(0), 2: big.NewInt(0), 3: big.NewInt(0), 5: big.NewInt(0), 6: big.NewInt(0), 7: big.NewInt(0)}, big.NewInt(0)), hasRevert: true, eip158: true, byzantium: true},
}

var kinds = []string{"eoa", "eoa-new", "create-ok", "create-revert", "create-oog", "create-big", "create-collide",
	"c-ok", "c-revert", "c-oog", "c-invalid", "c-clear2", "c-clear1", "c-suicide", "precompile"}

func isCreate(kind string) bool { return strings.HasPrefix(kind, "create-") }

type dataSpec struct {
	fill string
	n    int
}

var datas = []dataSpec{{"none", 0}, {"zero", 1}, {"zero", 31}, {"zero", 32}, {"zero", 33}, {"nonzero", 1}, {"nonzero", 31}, {"nonzero", 32},
	{"nonzero", 33}, {"mixed", 31}, {"mixed", 32}, {"mixed", 33}}

func (d dataSpec) bytes() []byte {
	b := make([]byte, d.n)
	for i := range b {
		switch d.fill {
		case "nonzero":
			b[i] = byte(1 + i%255)
		case "mixed":
			if i%2 == 0 {
				b[i] = 0x80 | byte(i)
			}
		}
	}
	return b
}

var gasClasses = []string{"roomy", "i-1", "i", "i+1", "x-1", "x", "x+1", "pool", "pool+1"}
// the last three make gas x price cross 2^64 with a price below 2^64, at 2^64 and above it (a fee
// computed in 64-bit arithmetic wraps there)
var prices = []*big.Int{big.NewInt(1), big.NewInt(0), big.NewInt(2), big.NewInt(1000000000),
	new(big.Int).Lsh(big.NewInt(1), 50), new(big.Int).Sub(new(big.Int).Lsh(big.NewInt(1), 64), big.NewInt(1)), new(big.Int).Lsh(big.NewInt(1), 64)}
var values = []*big.Int{big0, big.NewInt(1), bigValue}
var balClasses = []string{"large", "zero", "need-1", "need", "need+1", "need+value-1", "need+value"}

type nonceSpec struct {
	acct uint64
	off  int
}

var nonces = []nonceSpec{{7, 0}, {7, -1}, {7, 1}, {0, 0}, {0, 1}}
var positions = []string{"first", "second"}
var coinbases = []string{"fresh", "existing", "sender"}

// caseID indexes the lattice; index 0 of every dimension is the base point.
type caseID struct {
	Level                                        string // "tx" or "block"
	Epoch, Kind                                  int
	Data, Gas, Price, Value, Bal, Nonce, Pos, Cb int
}

func (c caseID) dims() [8]int {
	return [8]int{c.Data, c.Gas, c.Price, c.Value, c.Bal, c.Nonce, c.Pos, c.Cb}
}
func (c caseID) deviations() int {
	n := 0
	for _, d := range c.dims() {
		if d != 0 {
			n++
		}
	}
	return n
}

func (c caseID) String() string {
	d := datas[c.Data]
	return fmt.Sprintf("%s:epoch=%s,kind=%s,data=%s%d,gas=%s,price=%s,value=%s,bal=%s,nonce=%d%+d,pos=%s,cb=%s", c.Level,
		epochs[c.Epoch].name, kinds[c.Kind], d.fill, d.n, gasClasses[c.Gas], prices[c.Price], values[c.Value], balClasses[c.Bal],
		nonces[c.Nonce].acct, nonces[c.Nonce].off, positions[c.Pos], coinbases[c.Cb])
}

func (c caseID) detail() map[string]interface{} {
	return map[string]interface{}{"level": c.Level, "epoch": c.Epoch, "kind": c.Kind, "data": c.Data, "gas": c.Gas, "price": c.Price,
		"value": c.Value, "bal": c.Bal, "nonce": c.Nonce, "pos": c.Pos, "cb": c.Cb, "case": c.String()}
}

func caseFromDetail(d map[string]interface{}) caseID {
	g := func(k string) int { f, _ := d[k].(float64); return int(f) }
	lv, _ := d["level"].(string)
	return caseID{Level: lv, Epoch: g("epoch"), Kind: g("kind"), Data: g("data"), Gas: g("gas"), Price: g("price"), Value: g("value"),
		Bal: g("bal"), Nonce: g("nonce"), Pos: g("pos"), Cb: g("cb")}
}

// concrete is a fully resolved case.
type concrete struct {
	id       caseID
	ep       *epoch
	kind     string
	pre      world // state before the block / transaction (without the sender modifications of the case: included)
	tx       txd
	pool     uint64 // gas left in the block when the transaction is applied
	coinbase common.Address
}

// baseWorld is the fixed part of the pre-state for a callee kind.
func baseWorld(kind string) world {
	w := world{}
	w.get(addrEOA).bal.SetInt64(1000)
	w.get(addrCbOld).bal.SetInt64(5)
	w.get(addrBenef).bal.SetInt64(3)
	w.get(burnerAddr).bal.Set(bigLarge)
	bc := w.get(addrBurnC)
	bc.nonce, bc.code = 1, "fe"
	if p, ok := progs[kind]; ok && !isCreate(kind) {
		c := w.get(addrCallee)
		c.bal.SetInt64(11)
		c.nonce = 1
		c.code = hex.EncodeToString(p.code)
		for s, v := range p.preStore {
			c.storage[s] = v
		}
	}
	return w
}

// resolve turns lattice indices into numbers; ok=false when the point coincides with an earlier class of
// the same dimension (pruned duplicate) or is impossible (negative balance, nonce -1).
func resolve(c caseID) (*concrete, bool) {
	ep := epochs[c.Epoch]
	kind := kinds[c.Kind]
	k := &concrete{id: c, ep: ep, kind: kind}
	if isCreate(kind) && c.Data != 0 {
		return nil, false // the data of a creation is its init code
	}
	ns := nonces[c.Nonce]
	if int(ns.acct)+ns.off < 0 {
		return nil, false
	}
	t := txd{from: senderAddr, nonce: uint64(int(ns.acct) + ns.off), price: prices[c.Price], value: values[c.Value]}
	var execMark uint64
	switch kind {
	case "eoa":
		t.to = &addrEOA
	case "eoa-new":
		t.to = &addrNew
	case "precompile":
		t.to = &addrIdent
	case "create-collide":
		t.data = progs["create-ok"].code
		execMark = progs["create-ok"].exec + 200*uint64(len(progs["create-ok"].runtime))
	default:
		p := progs[kind]
		if isCreate(kind) {
			t.data = p.code
			execMark = p.exec + 200*uint64(len(p.runtime))
		} else {
			t.to = &addrCallee
			execMark = p.exec
		}
	}
	if !isCreate(kind) {
		t.data = datas[c.Data].bytes()
	}
	if kind == "precompile" {
		execMark = 15 + 3*uint64((len(t.data)+31)/32)
	}
	intr := intrinsicGas(t.data, t.to == nil)
	// position
	k.pool = blockGasLimit
	if positions[c.Pos] == "second" {
		k.pool = intr + execMark + poolSlack
	}
	// gas class
	cand := func(name string) uint64 {
		switch name {
		case "roomy":
			g := intr + execMark + roomy
			if g > k.pool {
				g = k.pool
			}
			return g
		case "i-1":
			return intr - 1
		case "i":
			return intr
		case "i+1":
			return intr + 1
		case "x-1":
			return intr + execMark - 1
		case "x":
			return intr + execMark
		case "x+1":
			return intr + execMark + 1
		case "pool":
			return k.pool
		case "pool+1":
			return k.pool + 1
		}
		panic(name)
	}
	t.gas = cand(gasClasses[c.Gas])
	for i := 0; i < c.Gas; i++ {
		if cand(gasClasses[i]) == t.gas {
			return nil, false
		}
	}
	// balance class
	need := new(big.Int).Mul(new(big.Int).SetUint64(t.gas), t.price)
	bcand := func(name string) *big.Int {
		switch name {
		case "large":
			return new(big.Int).Set(bigLarge)
		case "zero":
			return new(big.Int)
		case "need-1":
			return new(big.Int).Sub(need, big.NewInt(1))
		case "need":
			return new(big.Int).Set(need)
		case "need+1":
			return new(big.Int).Add(need, big.NewInt(1))
		case "need+value-1":
			return new(big.Int).Sub(new(big.Int).Add(need, t.value), big.NewInt(1))
		case "need+value":
			return new(big.Int).Add(need, t.value)
		}
		panic(name)
	}
	bal := bcand(balClasses[c.Bal])
	if bal.Sign() < 0 {
		return nil, false
	}
	for i := 0; i < c.Bal; i++ {
		if bcand(balClasses[i]).Cmp(bal) == 0 {
			return nil, false
		}
	}
	// pre-state
	w := baseWorld(kind)
	if bal.Sign() != 0 || ns.acct != 0 {
		s := w.get(senderAddr)
		s.bal.Set(bal)
		s.nonce = ns.acct
	}
	if kind == "create-collide" {
		w.get(createAddress(senderAddr, t.nonce)).nonce = 1
	}
	switch coinbases[c.Cb] {
	case "fresh":
		k.coinbase = addrCbFresh
	case "existing":
		k.coinbase = addrCbOld
	case "sender":
		k.coinbase = senderAddr
	}
	k.pre, k.tx = w, t
	return k, true
}

// ---- driving the real code ----------------------------------------------------------------------

type verdict struct {
	oracle string
	msg    string
	class  string
}

func bad(oracle, f string, a ...interface{}) *verdict {
	return &verdict{oracle: oracle, msg: fmt.Sprintf(f, a...)}
}

type signKey struct {
	epoch        int
	to           string
	nonce, gas   uint64
	price, value string
	data         string
	burner       bool
}

// ctx carries per-worker caches (signed transactions, committed base states).
type ctx struct {
	signed map[signKey]*types.Transaction
	sdb    state.Database
	roots  map[string]common.Hash // committed pre-state by world fingerprint
	nroots int
}

func newCtx() *ctx {
	return &ctx{signed: map[signKey]*types.Transaction{}, sdb: state.NewDatabase(aquadb.NewMemDatabase()), roots: map[string]common.Hash{}}
}

func (x *ctx) sign(ep int, t txd, burner bool) *types.Transaction {
	to := ""
	if t.to != nil {
		to = t.to.Hex()
	}
	key := signKey{ep, to, t.nonce, t.gas, t.price.String(), t.value.String(), string(t.data), burner}
	if tx, ok := x.signed[key]; ok {
		return tx
	}
	var raw *types.Transaction
	if t.to == nil {
		raw = types.NewContractCreation(t.nonce, t.value, t.gas, t.price, t.data)
	} else {
		raw = types.NewTransaction(t.nonce, *t.to, t.value, t.gas, t.price, t.data)
	}
	k := senderKey
	if burner {
		k = burnerKey
	}
	tx, err := types.SignTx(raw, types.MakeSigner(epochs[ep].cfg, big.NewInt(1)), k)
	if err != nil {
		ev.Broken("cannot sign: %v", err)
	}
	if len(x.signed) > 20000 {
		x.signed = map[signKey]*types.Transaction{}
	}
	x.signed[key] = tx
	return tx
}

// stateFor returns a fresh StateDB whose committed content is w.
func (x *ctx) stateFor(w world) *state.StateDB {
	fp := w.String()
	if x.nroots > 4000 { // bound the in-memory trie database of this worker
		x.sdb = state.NewDatabase(aquadb.NewMemDatabase())
		x.roots = map[string]common.Hash{}
		x.nroots = 0
	}
	root, ok := x.roots[fp]
	if !ok {
		st, err := state.New(common.Hash{}, x.sdb)
		if err != nil {
			ev.Broken("state.New: %v", err)
		}
		w.writeTo(st)
		root, err = st.Commit(false)
		if err != nil {
			ev.Broken("commit: %v", err)
		}
		x.roots[fp] = root
		x.nroots++
	}
	st, err := state.New(root, x.sdb)
	if err != nil {
		ev.Broken("state.New(root): %v", err)
	}
	return st
}

func header1(ep *epoch, coinbase common.Address, gasUsed uint64) *types.Header {
	return &types.Header{Number: big.NewInt(1), Coinbase: coinbase, GasLimit: blockGasLimit, GasUsed: gasUsed, Time: big.NewInt(240),
		Difficulty: big.NewInt(131072), Version: ep.cfg.GetBlockVersion(big.NewInt(1))}
}

// checkReceipt compares one receipt with the reference result.
func checkReceipt(ep *epoch, rc *types.Receipt, r rres, cumBefore uint64, txHash common.Hash) *verdict {
	if rc.GasUsed != r.gasUsed {
		return bad("gas-used", "gas used %d, reference %d (intrinsic %d, consumed %d, refund %d, %s)", rc.GasUsed, r.gasUsed, r.intrinsic, r.consumed, r.refund, r.shape)
	}
	if rc.CumulativeGasUsed != cumBefore+r.gasUsed {
		return bad("cumulative-gas", "cumulative gas %d, want %d+%d", rc.CumulativeGasUsed, cumBefore, r.gasUsed)
	}
	if ep.byzantium {
		want := uint(0)
		if r.success {
			want = 1
		}
		if len(rc.PostState) != 0 || rc.Status != want {
			return bad("receipt-status", "post-Byzantium receipt: status %d poststate %x, want status %d and no root", rc.Status, rc.PostState, want)
		}
	} else if len(rc.PostState) != 32 {
		return bad("receipt-status", "pre-Byzantium receipt must carry a 32-byte state root, has %x", rc.PostState)
	}
	if len(rc.Logs) != r.nlogs {
		return bad("logs", "%d logs in the receipt, reference %d (success=%v)", len(rc.Logs), r.nlogs, r.success)
	}
	if r.nlogs == 0 && rc.Bloom != (types.Bloom{}) {
		return bad("logs", "non-empty bloom without logs")
	}
	if r.nlogs == 1 {
		l := rc.Logs[0]
		if l.Address != r.logAddr || len(l.Topics) != 1 || l.Topics[0] != common.HexToHash("aa") || len(l.Data) != 0 {
			return bad("logs", "log differs: %+v", l)
		}
		if rc.Bloom == (types.Bloom{}) {
			return bad("logs", "empty bloom with a log")
		}
	}
	if r.isCreate && rc.ContractAddress != r.created {
		return bad("contract-address", "receipt contract address %s, want %s", rc.ContractAddress.Hex(), r.created.Hex())
	}
	if !r.isCreate && rc.ContractAddress != (common.Address{}) {
		return bad("contract-address", "receipt of a call carries contract address %s", rc.ContractAddress.Hex())
	}
	if rc.TxHash != txHash {
		return bad("receipt-txhash", "receipt tx hash mismatch")
	}
	return nil
}

func safely(f func() *verdict) (v *verdict) {
	defer func() {
		if p := recover(); p != nil {
			v = bad("panic", "panic: %v", p)
		}
	}()
	return f()
}

// evalTx: one core.ApplyTransaction call on a state that holds exactly k.pre.
func evalTx(x *ctx, k *concrete) *verdict {
	ep := k.ep
	want := k.pre.clone()
	r := refApply(want, k.tx, renv{eip158: ep.eip158, hasRevert: ep.hasRevert, coinbase: k.coinbase}, k.pool)
	tx := x.sign(k.id.Epoch, k.tx, false)
	v := safely(func() *verdict {
		st := x.stateFor(k.pre)
		cumBefore := uint64(blockGasLimit) - k.pool
		used := cumBefore
		gp := new(core.GasPool).AddGas(k.pool)
		hdr := header1(ep, k.coinbase, 0)
		idx := 0
		if cumBefore > 0 {
			idx = 1
		}
		st.Prepare(tx.Hash(), common.Hash{}, idx)
		rc, gas, err := core.ApplyTransaction(ep.cfg, nil, nil, gp, st, hdr, tx, &used, vm.Config{})
		if r.invalid != "" {
			if err == nil {
				return bad("invalid-accepted", "reference: consensus-invalid (%s) but ApplyTransaction succeeded (gas %d)", r.invalid, gas)
			}
			return nil // the block is discarded; nothing is required of the half-applied state or pool
		}
		if err != nil {
			return bad("valid-rejected", "reference: valid (%s) but ApplyTransaction failed: %v", r.shape, err)
		}
		if gas != rc.GasUsed {
			return bad("gas-used", "returned gas %d differs from receipt gas %d", gas, rc.GasUsed)
		}
		if v := checkReceipt(ep, rc, r, cumBefore, tx.Hash()); v != nil {
			return v
		}
		if used != cumBefore+r.gasUsed {
			return bad("cumulative-gas", "block gas counter %d, want %d", used, cumBefore+r.gasUsed)
		}
		if gp.Gas() != k.pool-r.gasUsed {
			return bad("gas-pool", "gas pool after the transaction %d, want %d-%d", gp.Gas(), k.pool, r.gasUsed)
		}
		root, err := st.Commit(ep.eip158)
		if err != nil {
			return bad("panic", "commit failed: %v", err)
		}
		if !ep.byzantium && common.BytesToHash(rc.PostState) != root {
			return bad("receipt-status", "receipt root %x is not the state root after the transaction %x", rc.PostState, root)
		}
		got := worldOf(st)
		if d := diffWorlds(want, got); d != "" {
			o := "post-state"
			if !r.success {
				o = "failed-tx-leaves-trace"
			}
			return bad(o, "%s [%s]", d, r.shape)
		}
		return nil
	})
	if v == nil {
		v = &verdict{}
	}
	v.class = classOf(k, r)
	return v
}

func classOf(k *concrete, r rres) string {
	if r.invalid != "" {
		return fmt.Sprintf("%s/%s/%s/invalid-%s", k.id.Level, k.ep.name, k.kind, r.invalid)
	}
	return fmt.Sprintf("%s/%s/%s/%s", k.id.Level, k.ep.name, k.kind, r.shape)
}

// ---- block level --------------------------------------------------------------------------------

// evalBlock: the transaction inside block 1 (alone, or after a transaction that burns all but `pool` gas):
// builder (GenerateChain), StateProcessor.Process and InsertChain for valid cases; a hand-assembled block,
// Process and InsertChain for consensus-invalid ones.
func evalBlock(x *ctx, k *concrete) *verdict {
	ep := k.ep
	env := renv{eip158: ep.eip158, hasRevert: ep.hasRevert, coinbase: k.coinbase}
	want := k.pre.clone()
	var txs []*types.Transaction
	var refs []rres
	if k.pool != blockGasLimit {
		bt := txd{from: burnerAddr, nonce: 0, price: big.NewInt(1), value: big0, gas: blockGasLimit - k.pool, to: &addrBurnC}
		rb := refApply(want, bt, env, blockGasLimit)
		if rb.invalid != "" || rb.gasUsed != blockGasLimit-k.pool {
			ev.Broken("burner transaction is not modelled as burning %d gas: %+v", blockGasLimit-k.pool, rb)
		}
		txs = append(txs, x.sign(k.id.Epoch, bt, true))
		refs = append(refs, rb)
	}
	r := refApply(want, k.tx, env, k.pool)
	tx := x.sign(k.id.Epoch, k.tx, false)
	nPrev := len(txs)
	txs = append(txs, tx)
	refs = append(refs, r)
	reward := func(w world) { c := w.get(k.coinbase); c.bal.Add(c.bal, aqua) }

	v := safely(func() *verdict {
		// the builder works on its own database image
		gdb := aquadb.NewMemDatabase()
		gen := &core.Genesis{Config: ep.cfg, GasLimit: genesisGasLimit, Difficulty: big.NewInt(131072), Alloc: k.pre.alloc()}
		gblock, err := gen.Commit(gdb)
		if err != nil {
			ev.Broken("genesis: %v", err)
		}
		build := func(list []*types.Transaction) (blk *types.Block, rcs types.Receipts, perr interface{}) {
			defer func() { perr = recover() }()
			bl, rc := core.GenerateChain(context.Background(), ep.cfg, gblock, aquahash.NewFaker(), gdb, 1, func(i int, b *core.BlockGen) {
				b.SetCoinbase(k.coinbase)
				for _, t := range list {
					b.AddTx(t)
				}
			})
			return bl[0], rc[0], nil
		}
		// the importing chain shares the database image with the builder (the idiom of the repository's own tests):
		// the builder only adds state trie nodes to it, never the block
		bc, err := core.NewBlockChain(context.Background(), gdb, nil, ep.cfg, aquahash.NewFaker(), vm.Config{})
		if err != nil {
			ev.Broken("chain: %v", err)
		}
		defer bc.Stop()
		proc := core.NewStateProcessor(ep.cfg, bc, aquahash.NewFaker())
		headBefore := bc.CurrentBlock().Hash()

		if r.invalid == "" {
			blk, brcs, perr := build(txs)
			if perr != nil {
				return bad("valid-rejected", "builder panicked on a valid transaction (%s): %v", r.shape, perr)
			}
			if blk.GasLimit() != blockGasLimit {
				ev.Broken("block gas limit %d, harness constant %d", blk.GasLimit(), blockGasLimit)
			}
			st, err := bc.StateAt(gblock.Root())
			if err != nil {
				ev.Broken("StateAt: %v", err)
			}
			rcs, _, usedGas, err := proc.Process(blk, st, vm.Config{})
			if err != nil {
				return bad("valid-rejected", "Process failed on a block with a valid transaction (%s): %v", r.shape, err)
			}
			if len(rcs) != len(txs) || len(brcs) != len(txs) {
				return bad("cumulative-gas", "%d receipts for %d transactions", len(rcs), len(txs))
			}
			cum := uint64(0)
			for i := range txs {
				if v := checkReceipt(ep, rcs[i], refs[i], cum, txs[i].Hash()); v != nil {
					v.msg = fmt.Sprintf("tx %d of block: %s", i, v.msg)
					return v
				}
				if v := checkReceipt(ep, brcs[i], refs[i], cum, txs[i].Hash()); v != nil {
					v.msg = fmt.Sprintf("builder receipt %d: %s", i, v.msg)
					return v
				}
				cum += refs[i].gasUsed
			}
			if usedGas != cum || blk.GasUsed() != cum {
				return bad("cumulative-gas", "block gas used: Process %d header %d, sum over receipts %d", usedGas, blk.GasUsed(), cum)
			}
			if cum > blk.GasLimit() {
				return bad("cumulative-gas", "block gas used %d exceeds the block gas limit %d", cum, blk.GasLimit())
			}
			reward(want)
			if _, err := st.Commit(ep.eip158); err != nil {
				return bad("panic", "commit: %v", err)
			}
			if d := diffWorlds(want, worldOf(st)); d != "" {
				o := "post-state"
				if !r.success {
					o = "failed-tx-leaves-trace"
				}
				return bad(o, "after Process: %s [%s]", d, r.shape)
			}
			if n, err := bc.InsertChain(types.Blocks{blk}); err != nil {
				return bad("valid-rejected", "InsertChain rejected a block with a valid transaction (%s) at %d: %v", r.shape, n, err)
			}
			if bc.CurrentBlock().Hash() != blk.Hash() {
				return bad("valid-rejected", "valid block did not become the head")
			}
			hs, err := bc.State()
			if err != nil {
				return bad("valid-rejected", "head state unavailable: %v", err)
			}
			if d := diffWorlds(want, worldOf(hs)); d != "" {
				return bad("post-state", "head state after InsertChain: %s [%s]", d, r.shape)
			}
			stored := bc.GetReceiptsByHash(blk.Hash())
			if len(stored) != len(txs) {
				return bad("cumulative-gas", "%d stored receipts for %d transactions", len(stored), len(txs))
			}
			return nil
		}

		// consensus-invalid: assemble the block by hand on top of the valid part
		tmpl, trcs, perr := build(txs[:nPrev])
		if perr != nil {
			ev.Broken("template block: %v", perr)
		}
		hdr := tmpl.Header()
		fakeGas := k.tx.gas
		if fakeGas > k.pool {
			fakeGas = k.pool
		}
		fake := types.NewReceipt(tmpl.Root().Bytes(), false, hdr.GasUsed+fakeGas)
		if ep.byzantium {
			fake.PostState = nil
		}
		fake.TxHash, fake.GasUsed = tx.Hash(), fakeGas
		hdr.GasUsed += fakeGas
		forged := types.NewBlock(hdr, txs, nil, append(append(types.Receipts{}, trcs...), fake))
		st, err := bc.StateAt(gblock.Root())
		if err != nil {
			ev.Broken("StateAt: %v", err)
		}
		if _, _, _, err := proc.Process(forged, st, vm.Config{}); err == nil {
			return bad("invalid-accepted", "Process accepted a block whose transaction %d is consensus-invalid (%s)", nPrev, r.invalid)
		}
		n, err := bc.InsertChain(types.Blocks{forged})
		if err == nil {
			return bad("invalid-accepted", "InsertChain accepted a block whose transaction %d is consensus-invalid (%s)", nPrev, r.invalid)
		}
		if n != 0 {
			return bad("invalid-accepted", "InsertChain reports index %d for the only (invalid) block", n)
		}
		if bc.CurrentBlock().Hash() != headBefore || bc.CurrentHeader().Hash() != headBefore {
			return bad("invalid-block-moved-head", "head changed by a rejected block")
		}
		if bc.GetBlockByNumber(1) != nil {
			return bad("invalid-block-moved-head", "rejected block is canonical at height 1")
		}
		hs, err := bc.State()
		if err != nil {
			return bad("invalid-block-moved-head", "head state unavailable: %v", err)
		}
		if d := diffWorlds(k.pre, worldOf(hs)); d != "" {
			return bad("invalid-block-moved-head", "head state changed by a rejected block: %s", d)
		}
		return nil
	})
	if v == nil {
		v = &verdict{}
	}
	v.class = classOf(k, r)
	return v
}

// partEmptyBlock: a block's gas used equals the sum over its receipts also when there are none. In every
// epoch an empty block whose header claims 1, 21000 or the whole gas limit must be refused, the honest
// empty block accepted.
func partEmptyBlock(run *ev.Run) {
	for _, ep := range epochs {
		gdb := aquadb.NewMemDatabase()
		gen := &core.Genesis{Config: ep.cfg, GasLimit: genesisGasLimit, Difficulty: big.NewInt(131072), Alloc: core.GenesisAlloc{senderAddr: {Balance: big.NewInt(1)}}}
		gblock, err := gen.Commit(gdb)
		if err != nil {
			ev.Broken("genesis: %v", err)
		}
		bl, _ := core.GenerateChain(context.Background(), ep.cfg, gblock, aquahash.NewFaker(), gdb, 1, func(i int, b *core.BlockGen) {})
		honest := bl[0]
		for _, gu := range []uint64{1, 21000, honest.GasLimit()} {
			bc, err := core.NewBlockChain(context.Background(), gdb, nil, ep.cfg, aquahash.NewFaker(), vm.Config{})
			if err != nil {
				ev.Broken("chain: %v", err)
			}
			hdr := honest.Header()
			hdr.GasUsed = gu
			forged := types.NewBlock(hdr, nil, nil, nil)
			_, ierr := bc.InsertChain(types.Blocks{forged})
			run.Eval(1)
			if ierr == nil || bc.CurrentBlock().NumberU64() != 0 {
				run.Violate(ev.Violation{Scenario: "block", Oracle: "empty-block-gas-used", CaseID: "epoch=" + ep.name,
					Detail: map[string]interface{}{"part": "empty-block", "epoch": ep.name, "claimed_gas_used": gu,
						"observed": fmt.Sprintf("a block without transactions whose header claims %d gas used was accepted (error %v, head #%d)", gu, ierr, bc.CurrentBlock().NumberU64())}})
			}
			bc.Stop()
		}
		bc, _ := core.NewBlockChain(context.Background(), gdb, nil, ep.cfg, aquahash.NewFaker(), vm.Config{})
		if _, err := bc.InsertChain(types.Blocks{honest}); err != nil {
			ev.Broken("honest empty block rejected: %v", err)
		}
		bc.Stop()
		run.Class("empty-block/epoch=" + ep.name)
	}
}

// ---- enumeration --------------------------------------------------------------------------------

func eval(x *ctx, k *concrete) *verdict {
	if k.id.Level == "block" {
		return evalBlock(x, k)
	}
	return evalTx(x, k)
}

// selected says whether the lattice point belongs to the tier's enumeration.
//
//	tx    quick:    <= 2 deviations from the base point, plus the full gas x price x value x balance product
//	tx    thorough: full product of data x gas x price x value x balance x nonce x position (coinbase base),
//	                plus <= 2 deviations including the coinbase dimension
//	block quick:    <= 1 deviation, plus gas x balance and value x balance
//	block thorough: <= 2 deviations, plus gas x price x value x balance
func selected(c caseID, thorough bool) bool {
	dev := c.deviations()
	econ := c.Data == 0 && c.Nonce == 0 && c.Pos == 0 && c.Cb == 0
	switch {
	case c.Level == "tx" && !thorough:
		return dev <= 2 || econ
	case c.Level == "tx":
		return c.Cb == 0 || dev <= 2
	case !thorough:
		return dev <= 1 || (econ && c.Price == 0 && (c.Value == 0 || c.Gas == 0))
	default:
		return dev <= 2 || econ
	}
}

type item struct {
	level             string
	epoch, kind, data int
}

func TestCheck(t *testing.T) {
	log.Root().SetHandler(log.DiscardHandler())
	debug.SetGCPercent(100)
	run := ev.Start("exploration")
	run.Rule = "a case is a point of the lattice level x epoch x callee kind x data x gas-limit class x gas price x value x sender-balance class x nonce x block position x coinbase; " +
		"points whose numeric value coincides with an earlier class of the same dimension are pruned; a class is (level, epoch, callee kind, reference outcome: which validity rule fails / success / refund capped or not / revert / all gas consumed)"
	run.Assume("HomesteadBlock = EIP150Block = 0 as in every aquachain network config: the creation surcharge (53000) and the EIP-150 fee schedule apply at every height")
	run.Assume("callee programs are the 12 fixed straight-line programs of the harness, whose execution gas is hand-computed from the Yellow Paper fee schedule; general EVM semantics are C07/C08")
	run.Assume("the block under test is block 1 on a fresh genesis; three mainnet-shaped epochs (Homestead set / spring set before HF7 / spring set with Byzantium+EIP-158)")
	run.Assume("consensus-invalid blocks are hand-assembled with the roots of the valid prefix and a fabricated receipt; InsertChain must reject them and leave head and head state untouched")

	if d := ev.Replay(); d != nil {
		if d.Detail["part"] == "empty-block" {
			partEmptyBlock(run)
			run.Finish()
		}
		c := caseFromDetail(d.Detail)
		k, ok := resolve(c)
		if !ok {
			ev.Broken("replay case does not resolve: %v", c)
		}
		v := eval(newCtx(), k)
		run.Eval(1)
		run.Class(v.class)
		if v.oracle != "" {
			run.Violate(mkViolation(k, v))
		}
		run.Finish()
	}

	if pf := os.Getenv("VERIF_CPUPROFILE"); pf != "" { // harness development aid
		if f, err := os.Create(pf); err == nil {
			pprof.StartCPUProfile(f)
			defer pprof.StopCPUProfile()
		}
	}
	partEmptyBlock(run)
	thorough := run.Thorough()
	deadline := run.Deadline(75*time.Second, 12*time.Minute)
	var items []item
	for _, level := range []string{"block", "tx"} {
		for e := range epochs {
			for kd, kind := range kinds {
				nd := len(datas)
				if isCreate(kind) {
					nd = 1
				}
				for d := 0; d < nd; d++ {
					items = append(items, item{level, e, kd, d})
				}
			}
		}
	}
	var capped sync.Once
	var sampleMu sync.Mutex
	sampled := map[string]bool{}
	ev.ParallelFor(len(items), func(i int) {
		it := items[i]
		x := newCtx()
		var c caseID
		c.Level, c.Epoch, c.Kind, c.Data = it.level, it.epoch, it.kind, it.data
		for c.Gas = 0; c.Gas < len(gasClasses); c.Gas++ {
			for c.Price = 0; c.Price < len(prices); c.Price++ {
				for c.Value = 0; c.Value < len(values); c.Value++ {
					for c.Nonce = 0; c.Nonce < len(nonces); c.Nonce++ {
						for c.Pos = 0; c.Pos < len(positions); c.Pos++ {
							for c.Cb = 0; c.Cb < len(coinbases); c.Cb++ {
								for c.Bal = 0; c.Bal < len(balClasses); c.Bal++ {
									if !selected(c, thorough) {
										continue
									}
									k, ok := resolve(c)
									if !ok {
										continue
									}
									if time.Now().After(deadline) {
										capped.Do(func() { run.Cap("deadline reached before the lattice was exhausted") })
										return
									}
									t0 := time.Now()
									v := eval(x, k)
									run.Add("cpu_us_"+c.Level, int64(time.Since(t0)/time.Microsecond))
									run.Eval(1)
									run.Class(v.class)
									run.Add("cases_"+c.Level, 1)
									if v.oracle != "" {
										for n := 0; n < 2; n++ { // deterministic?
											v2 := eval(newCtx(), k)
											if v2.oracle != v.oracle {
												ev.Broken("verdict of %s flips between evaluations: %q vs %q", c, v.oracle+": "+v.msg, v2.oracle+": "+v2.msg)
											}
										}
										run.Violate(mkViolation(k, v))
									} else {
										sampleMu.Lock()
										if !sampled[v.class] && len(sampled) < 6 && (strings.Contains(v.class, "capped") || strings.Contains(v.class, "invalid-value") || strings.Contains(v.class, "revert") || strings.Contains(v.class, "fail-all")) {
											sampled[v.class] = true
											run.Sample(map[string]interface{}{"case": c.String(), "class": v.class, "gas_limit": k.tx.gas, "pool": k.pool})
										}
										sampleMu.Unlock()
									}
								}
							}
						}
					}
				}
			}
		}
	})
	pprof.StopCPUProfile()
	run.Finish()
}

func mkViolation(k *concrete, v *verdict) ev.Violation {
	d := k.id.detail()
	d["observed"] = v.msg
	d["gas_limit"] = k.tx.gas
	d["pool"] = k.pool
	d["pre_state"] = k.pre.String()
	return ev.Violation{Scenario: k.id.Level, Oracle: v.oracle, CaseID: fmt.Sprintf("epoch=%s/kind=%s", k.ep.name, k.kind), Detail: d}
}
