// Package ev is the evidence / violation / replay / known-finding plumbing shared by every check
// (DESIGN.md section 3 and Appendix C).
package ev

import (
	"crypto/sha1"
	"encoding/hex"
	"encoding/json"
	"fmt"
	"os"
	"os/exec"
	"path/filepath"
	"runtime"
	"sort"
	"strconv"
	"strings"
	"sync"
	"sync/atomic"
	"time"
)

// Violation describes one failing case.
type Violation struct {
	Scenario string                 `json:"scenario"`
	Oracle   string                 `json:"oracle"`
	CaseID   string                 `json:"case_id"`
	Detail   map[string]interface{} `json:"detail,omitempty"`
}

// Signature is what known_findings.jsonl entries are matched against.
func (v Violation) Signature() string { return v.Scenario + "/" + v.Oracle + "/" + v.CaseID }

type known struct {
	Property  string `json:"property"`
	Signature string `json:"signature"`
	What      string `json:"what"`
	Status    string `json:"status"`
	Commit    string `json:"commit,omitempty"`
	printed   bool
	hits      int
}

// Run accumulates what one check run covered.
type Run struct {
	ID, Tier, Level string
	Seed            int64
	start           time.Time
	evals           atomic.Int64
	mu              sync.Mutex
	classes         map[string]struct{}
	samples         []interface{}
	extra           map[string]interface{}
	assumptions     []string
	Rule            string
	Exhaustive      bool
	violations      int
	violSigs        map[string]bool
	knownHits       int
	known           []*known
	caps            []string
	MaxReplays      int
}

// Start reads the environment prepared by bin/check.
func Start(level string) *Run {
	r := &Run{
		ID: os.Getenv("VERIF_ID"), Tier: os.Getenv("VERIF_TIER"), Level: level, start: time.Now(),
		classes: map[string]struct{}{}, extra: map[string]interface{}{}, violSigs: map[string]bool{},
		Exhaustive: true, MaxReplays: 25,
	}
	if r.ID == "" {
		r.ID = "CXX"
	}
	if r.Tier != "thorough" {
		r.Tier = "quick"
	}
	r.Seed, _ = strconv.ParseInt(os.Getenv("VERIF_SEED"), 10, 64)
	if p := os.Getenv("VERIF_KNOWN"); p != "" {
		if b, err := os.ReadFile(p); err == nil {
			for _, line := range strings.Split(string(b), "\n") {
				line = strings.TrimSpace(line)
				if line == "" || strings.HasPrefix(line, "#") {
					continue
				}
				var k known
				if json.Unmarshal([]byte(line), &k) == nil && k.Property == r.ID {
					kk := k
					r.known = append(r.known, &kk)
				}
			}
		}
	}
	return r
}

func (r *Run) Quick() bool    { return r.Tier == "quick" }
func (r *Run) Thorough() bool { return r.Tier == "thorough" }

// Jobs is the number of parallel workers to use.
func Jobs() int {
	n, _ := strconv.Atoi(os.Getenv("VERIF_JOBS"))
	if n <= 0 {
		n = runtime.NumCPU()
	}
	return n
}

// Eval counts n evaluated cases.
func (r *Run) Eval(n int) { r.evals.Add(int64(n)) }

// Evals returns the count so far.
func (r *Run) Evals() int64 { return r.evals.Load() }

// Class records a distinct non-trivial case class.
func (r *Run) Class(key string) {
	r.mu.Lock()
	r.classes[key] = struct{}{}
	r.mu.Unlock()
}

// Classes merges a set of class keys.
func (r *Run) Classes(keys []string) {
	r.mu.Lock()
	for _, k := range keys {
		r.classes[k] = struct{}{}
	}
	r.mu.Unlock()
}

// Sample keeps up to 6 concrete cases for the evidence file.
func (r *Run) Sample(v interface{}) {
	r.mu.Lock()
	if len(r.samples) < 6 {
		r.samples = append(r.samples, v)
	}
	r.mu.Unlock()
}

// Set stores an extra coverage key.
func (r *Run) Set(k string, v interface{}) {
	r.mu.Lock()
	r.extra[k] = v
	r.mu.Unlock()
}

// Add adds to an integer coverage key.
func (r *Run) Add(k string, n int64) {
	r.mu.Lock()
	cur, _ := r.extra[k].(int64)
	r.extra[k] = cur + n
	r.mu.Unlock()
}

func (r *Run) Assume(s string) {
	r.mu.Lock()
	for _, a := range r.assumptions {
		if a == s {
			r.mu.Unlock()
			return
		}
	}
	r.assumptions = append(r.assumptions, s)
	r.mu.Unlock()
}

// Cap records that a bound/deadline cut the enumeration short: the run is no longer exhaustive.
func (r *Run) Cap(what string) {
	r.mu.Lock()
	r.Exhaustive = false
	r.caps = append(r.caps, what)
	r.mu.Unlock()
}

// Deadline returns a time after which a harness should stop enumerating and call Cap.
func (r *Run) Deadline(quick, thorough time.Duration) time.Time {
	if r.Quick() {
		return r.start.Add(quick)
	}
	return r.start.Add(thorough)
}

func matchSig(pat, sig string) bool {
	if strings.HasSuffix(pat, "*") {
		return strings.HasPrefix(sig, strings.TrimSuffix(pat, "*"))
	}
	return pat == sig
}

// Violate reports a violation: known open findings print KNOWN-FINDING once, everything else a
// VIOLATION line with a self-contained replay file.
func (r *Run) Violate(v Violation) {
	sig := v.Signature()
	r.mu.Lock()
	defer r.mu.Unlock()
	for _, k := range r.known {
		if k.Status == "open" && matchSig(k.Signature, sig) {
			k.hits++
			r.knownHits++
			if !k.printed {
				k.printed = true
				fmt.Printf("KNOWN-FINDING: property=%s %s [%s]\n", r.ID, k.What, k.Signature)
			}
			return
		}
	}
	if r.violSigs[sig] {
		return
	}
	r.violSigs[sig] = true
	r.violations++
	if r.violations > r.MaxReplays {
		return
	}
	path := r.writeReplay(v)
	fmt.Printf("VIOLATION property=%s replay=%s\n", r.ID, path)
	fmt.Printf("NOTE %s %s\n", sig, compact(noteOf(v.Detail)))
}

func compact(m map[string]interface{}) string {
	b, _ := json.Marshal(m)
	s := string(b)
	if len(s) > 300 {
		s = s[:300] + "..."
	}
	return s
}

func (r *Run) writeReplay(v Violation) string {
	dir := os.Getenv("VERIF_REPLAY_DIR")
	if dir == "" {
		dir = os.TempDir()
	}
	os.MkdirAll(dir, 0o755)
	h := sha1.Sum([]byte(v.Signature()))
	name := sanitize(v.Scenario+"-"+v.Oracle) + "-" + hex.EncodeToString(h[:5]) + ".json"
	path := filepath.Join(dir, name)
	doc := map[string]interface{}{
		"property": r.ID, "tier": r.Tier, "scenario": v.Scenario, "oracle": v.Oracle,
		"case_id": v.CaseID, "detail": v.Detail, "signature": v.Signature(),
	}
	b, _ := json.MarshalIndent(doc, "", " ")
	os.WriteFile(path, b, 0o644)
	return path
}

func sanitize(s string) string {
	var b strings.Builder
	for _, c := range s {
		if c >= 'a' && c <= 'z' || c >= 'A' && c <= 'Z' || c >= '0' && c <= '9' || c == '-' || c == '_' {
			b.WriteRune(c)
		} else {
			b.WriteByte('_')
		}
	}
	x := b.String()
	if len(x) > 60 {
		x = x[:60]
	}
	return x
}

// Violations returns the number of unlisted violations so far.
func (r *Run) Violations() int {
	r.mu.Lock()
	defer r.mu.Unlock()
	return r.violations
}

// ReplayDoc is a parsed replay file.
type ReplayDoc struct {
	Property string                 `json:"property"`
	Scenario string                 `json:"scenario"`
	Oracle   string                 `json:"oracle"`
	CaseID   string                 `json:"case_id"`
	Detail   map[string]interface{} `json:"detail"`
}

// Replay returns the replay request of this invocation, or nil.
func Replay() *ReplayDoc {
	p := os.Getenv("VERIF_REPLAY")
	if p == "" {
		return nil
	}
	b, err := os.ReadFile(p)
	if err != nil {
		Broken("cannot read replay file: %v", err)
	}
	var d ReplayDoc
	if err := json.Unmarshal(b, &d); err != nil {
		Broken("bad replay file: %v", err)
	}
	return &d
}

// Broken aborts with exit status 2: the check itself is wrong, nothing is claimed.
func Broken(f string, a ...interface{}) {
	fmt.Fprintf(os.Stderr, "HARNESS-ERROR: "+f+"\n", a...)
	os.Exit(2)
}

// Finish writes the evidence file and exits 0 / 1.
func (r *Run) Finish() {
	r.mu.Lock()
	cov := map[string]interface{}{}
	for k, v := range r.extra {
		cov[k] = v
	}
	cov["evaluations"] = r.evals.Load()
	cov["distinct_nontrivial"] = len(r.classes)
	cov["rule"] = r.Rule
	if len(r.samples) == 0 {
		r.samples = append(r.samples, "no sample recorded")
	}
	cov["samples"] = r.samples
	cov["exhaustive"] = r.Exhaustive
	if len(r.caps) > 0 {
		cov["caps_hit"] = r.caps
	}
	var kf []map[string]interface{}
	for _, k := range r.known {
		if k.Status == "open" {
			kf = append(kf, map[string]interface{}{"signature": k.Signature, "hits": k.hits})
		}
	}
	if kf != nil {
		cov["known_findings_seen"] = kf
	}
	sort.Strings(r.assumptions)
	doc := map[string]interface{}{
		"property_id": r.ID, "tier": r.Tier, "seed": r.Seed, "level": r.Level, "coverage": cov,
		"assumptions": r.assumptions, "wall_s": time.Since(r.start).Seconds(), "violations": r.violations,
	}
	viol := r.violations
	r.mu.Unlock()
	if p := os.Getenv("VERIF_EVIDENCE"); p != "" && os.Getenv("VERIF_REPLAY") == "" {
		b, _ := json.MarshalIndent(doc, "", " ")
		os.MkdirAll(filepath.Dir(p), 0o755)
		if err := os.WriteFile(p, b, 0o644); err != nil {
			Broken("cannot write evidence: %v", err)
		}
	}
	fmt.Printf("SUMMARY property=%s tier=%s evaluations=%d distinct=%d violations=%d known=%d exhaustive=%v wall=%.1fs\n",
		r.ID, r.Tier, r.evals.Load(), len(r.classes), viol, r.knownHits, r.Exhaustive, time.Since(r.start).Seconds())
	if viol > 0 {
		os.Exit(1)
	}
	os.Exit(0)
}

// ---- parallel helpers ---------------------------------------------------------------------------

// ParallelFor runs f(i) for i in [0,n) on Jobs() goroutines.
func ParallelFor(n int, f func(i int)) {
	jobs := Jobs()
	if jobs > n {
		jobs = n
	}
	if jobs <= 1 {
		for i := 0; i < n; i++ {
			f(i)
		}
		return
	}
	var next atomic.Int64
	var wg sync.WaitGroup
	for w := 0; w < jobs; w++ {
		wg.Add(1)
		go func() {
			defer wg.Done()
			for {
				i := int(next.Add(1)) - 1
				if i >= n {
					return
				}
				f(i)
			}
		}()
	}
	wg.Wait()
}

// WorkerResult is what a shard subprocess reports back to the parent.
type WorkerResult struct {
	Evals      int64                    `json:"evals"`
	Classes    []string                 `json:"classes"`
	Samples    []interface{}            `json:"samples"`
	Counters   map[string]int64         `json:"counters"`
	Violations []Violation              `json:"violations"`
	Caps       []string                 `json:"caps"`
	Extra      map[string]interface{}   `json:"extra"`
}

// Shard returns (index, total, true) inside a worker subprocess.
func Shard() (int, int, bool) {
	s := os.Getenv("VERIF_SHARD")
	if s == "" {
		return 0, 1, false
	}
	var i, n int
	fmt.Sscanf(s, "%d/%d", &i, &n)
	return i, n, true
}

// WorkerDone writes the shard's result and exits.
func WorkerDone(res *WorkerResult) {
	b, _ := json.Marshal(res)
	if err := os.WriteFile(os.Getenv("VERIF_SHARD_OUT"), b, 0o644); err != nil {
		Broken("worker cannot write result: %v", err)
	}
	os.Exit(0)
}

// RunWorkers re-executes the test binary n times with VERIF_SHARD=i/n and extra environment, and
// merges the results into r. A worker that dies is reported through crash (may be nil => Broken).
func (r *Run) RunWorkers(n int, extraEnv []string, crash func(shard int, output string)) []*WorkerResult {
	scr := os.Getenv("VERIF_SCRATCH")
	if scr == "" {
		scr = os.TempDir()
	}
	out := make([]*WorkerResult, n)
	var wg sync.WaitGroup
	var tag = strconv.FormatInt(time.Now().UnixNano(), 36)
	for i := 0; i < n; i++ {
		wg.Add(1)
		go func(i int) {
			defer wg.Done()
			resPath := filepath.Join(scr, fmt.Sprintf("shard-%s-%d.json", tag, i))
			cmd := exec.Command(os.Args[0], "-test.run", "^TestCheck$", "-test.timeout", "0")
			cmd.Env = append(os.Environ(), fmt.Sprintf("VERIF_SHARD=%d/%d", i, n), "VERIF_SHARD_OUT="+resPath)
			cmd.Env = append(cmd.Env, extraEnv...)
			ob, err := cmd.CombinedOutput()
			b, rerr := os.ReadFile(resPath)
			os.Remove(resPath)
			if rerr != nil {
				if crash != nil {
					crash(i, string(ob))
					return
				}
				Broken("worker %d died: %v\n%s", i, err, tail(string(ob), 3000))
			}
			var wr WorkerResult
			if json.Unmarshal(b, &wr) != nil {
				Broken("worker %d wrote garbage", i)
			}
			out[i] = &wr
		}(i)
	}
	wg.Wait()
	for _, wr := range out {
		if wr == nil {
			continue
		}
		r.Eval(int(wr.Evals))
		r.Classes(wr.Classes)
		for _, s := range wr.Samples {
			r.Sample(s)
		}
		for k, v := range wr.Counters {
			r.Add(k, v)
		}
		for _, c := range wr.Caps {
			r.Cap(c)
		}
		for _, v := range wr.Violations {
			r.Violate(v)
		}
	}
	return out
}

func tail(s string, n int) string {
	if len(s) > n {
		return s[len(s)-n:]
	}
	return s
}

// Hex is a small helper for case ids.
func Hex(b []byte) string { return hex.EncodeToString(b) }

// noteOf picks the human-readable parts of a violation detail for the NOTE line.
func noteOf(d map[string]interface{}) map[string]interface{} {
	out := map[string]interface{}{}
	for _, k := range []string{"msg", "msgs", "fails", "why", "observed", "expected", "error"} {
		if v, ok := d[k]; ok {
			out[k] = v
		}
	}
	if len(out) == 0 {
		return d
	}
	return out
}
