package vrt

import "reflect"

// Sel is the runtime side of the instrumenter's rewrite of native `select` statements: the cases
// are registered in source order and Do picks one. Under the scheduler the pick among several ready
// cases is an enumerated choice (see Select); unmanaged goroutines get reflect.Select, i.e. the
// runtime's own semantics.
type Sel struct {
	cases []reflect.SelectCase
	recv  reflect.Value
	ok    bool
	chose int
}

// NewSel starts a select with n expected cases.
func NewSel(hasDefault bool) *Sel {
	s := &Sel{}
	if hasDefault {
		s.cases = append(s.cases, reflect.SelectCase{Dir: reflect.SelectDefault})
	}
	return s
}

// SelSend registers `case ch <- v`.
func SelSend[T any](s *Sel, ch chan<- T, v T) {
	s.cases = append(s.cases, reflect.SelectCase{Dir: reflect.SelectSend, Chan: reflect.ValueOf(ch), Send: reflect.ValueOf(&v).Elem()})
}

// SelRecv registers `case ... <-ch`.
func SelRecv[T any](s *Sel, ch <-chan T) {
	s.cases = append(s.cases, reflect.SelectCase{Dir: reflect.SelectRecv, Chan: reflect.ValueOf(ch)})
}

// Do performs the select and returns the index of the chosen case in registration order
// (-1 = default).
func (s *Sel) Do() int {
	i, v, ok := Select(s.cases)
	s.recv, s.ok, s.chose = v, ok, i
	hasDef := len(s.cases) > 0 && s.cases[0].Dir == reflect.SelectDefault
	if hasDef {
		return i - 1
	}
	return i
}

// SelVal returns the value received by the chosen case (typed through ch).
func SelVal[T any](s *Sel, ch <-chan T) T {
	var zero T
	if !s.recv.IsValid() {
		return zero
	}
	v, _ := s.recv.Interface().(T)
	return v
}

// SelOk is the second result of `x, ok := <-ch`.
func (s *Sel) SelOk() bool { return s.ok }
