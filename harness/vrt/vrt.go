// Package vrt is the controlled-scheduler runtime of engine E1 (DESIGN.md 2.2).
//
// Instrumented repository code and the vsync shim call Point/After/Go/Select. When the calling
// goroutine is not a logical thread of a running execution these calls pass straight through, so
// instrumented packages also work outside the explorer (free-running -race pass, other checks).
package vrt

import (
	"fmt"
	"reflect"
	"runtime"
	"sync"
	"sync/atomic"
	"testing/synctest"
)

type tstate int32

const (
	stNew tstate = iota
	stParked
	stRunning // running, or blocked in a native operation
	stFinished
)

// Thread is one logical thread of an execution.
type Thread struct {
	ID      int
	Name    string
	Daemon  bool // need not finish for the execution to be complete
	s       *Sched
	state   atomic.Int32
	resume  chan struct{}
	loc     string
	enabled func() bool
	panicV  interface{}
	stack   string
}

func (t *Thread) State() string {
	switch tstate(t.state.Load()) {
	case stNew:
		return "new"
	case stParked:
		return "parked@" + t.loc
	case stRunning:
		return "blocked-native-after@" + t.loc
	}
	return "finished"
}

// PointRec records one decision point of an execution.
type PointRec struct {
	N              int  // number of alternatives
	Env            bool // environment choice (every non-default answer is a deviation)
	RunningEnabled bool // scheduling point at which the previously running thread could continue
	Chosen         int
	Desc           string
}

// Sched drives one execution.
type Sched struct {
	mu       sync.Mutex
	threads  []*Thread
	free     atomic.Bool // free-run mode: points are no-ops
	prefix   []int
	Points   []PointRec
	last     int
	Steps    int
	Horizon  int
	Deadlock bool
	HitCap   bool
	BadReplay string
	digest   uint64
	Events   []Event
	Trace    []string
	KeepTrace bool
	Adopt     bool // goroutines started by instrumented code on unmanaged goroutines become daemon threads
	Quiesce   bool // keep scheduling daemon threads after the last non-daemon thread finished, until none is enabled
}

// Event is a harness observation stamped with logical time.
type Event struct {
	Step   int
	Thread int
	Kind   string
	A, B   int
}

var (
	regMu sync.RWMutex
	reg   = map[uint64]*Thread{}
	nManaged atomic.Int32
	curSched atomic.Pointer[Sched] // execution under construction / running (one at a time per process)
)

func gid() uint64 {
	var b [40]byte
	n := runtime.Stack(b[:], false)
	// "goroutine 123 ["
	var id uint64
	for i := 10; i < n; i++ {
		c := b[i]
		if c < '0' || c > '9' {
			break
		}
		id = id*10 + uint64(c-'0')
	}
	return id
}

// Cur returns the logical thread of the calling goroutine, or nil.
func Cur() *Thread {
	if nManaged.Load() == 0 {
		return nil
	}
	g := gid()
	regMu.RLock()
	t := reg[g]
	regMu.RUnlock()
	if t == nil || t.s.free.Load() {
		return nil
	}
	return t
}

// Managed reports whether the caller runs under the scheduler.
func Managed() bool { return Cur() != nil }

func (s *Sched) mix(v uint64) {
	s.digest = (s.digest ^ v) * 1099511628211
}

func hashStr(x string) uint64 {
	var h uint64 = 14695981039346656037
	for i := 0; i < len(x); i++ {
		h = (h ^ uint64(x[i])) * 1099511628211
	}
	return h
}

// NewSched prepares an execution that replays prefix and then takes default choices.
func NewSched(prefix []int, horizon int) *Sched {
	s := &Sched{prefix: prefix, last: -1, Horizon: horizon, digest: 14695981039346656037}
	curSched.Store(s)
	return s
}

// Done detaches the execution (goroutines started by unmanaged code are plain goroutines again).
func (s *Sched) Done() { curSched.CompareAndSwap(s, nil) }

// Digest summarises every quiescent state seen so far (parked sets, locations, events).
func (s *Sched) Digest() uint64 { return s.digest }

func (t *Thread) park(loc string, en func() bool) {
	t.loc = loc
	t.enabled = en
	t.state.Store(int32(stParked))
	<-t.resume
}

// Point is a scheduling point before a synchronisation operation.
func Point(loc string) {
	if t := Cur(); t != nil {
		t.park(loc, nil)
	}
}

// After is the scheduling point after a natively blocking operation, so that a goroutine woken by
// somebody else's channel operation parks again at once.
func After(loc string) {
	if t := Cur(); t != nil {
		t.park(loc, nil)
	}
}

// WaitPoint parks the caller until en() holds and the scheduler picks it. Used by the vsync shim.
// Returns false when the caller is not managed (the shim then uses the real primitive).
func WaitPoint(loc string, en func() bool) bool {
	t := Cur()
	if t == nil {
		return false
	}
	t.park(loc, en)
	return true
}

// Go starts fn as a new logical thread when the caller is managed, else as a plain goroutine.
func Go(loc string, fn func()) {
	t := Cur()
	if t == nil {
		// instrumented code running on the scenario's root goroutine (object construction in Build):
		// its goroutines belong to the execution
		if s := curSched.Load(); s != nil && !s.free.Load() && s.Adopt {
			s.spawn(loc, true, fn)
			return
		}
		go fn()
		return
	}
	t.s.spawn(loc, true, fn)
}

// Spawn is used by harnesses (from the scheduler goroutine) to create the scenario's threads.
func (s *Sched) Spawn(name string, daemon bool, fn func()) *Thread {
	return s.spawn(name, daemon, fn)
}

func (s *Sched) spawn(name string, daemon bool, fn func()) *Thread {
	s.mu.Lock()
	t := &Thread{ID: len(s.threads), Name: name, Daemon: daemon, s: s, resume: make(chan struct{}, 1)}
	s.threads = append(s.threads, t)
	s.mu.Unlock()
	nManaged.Add(1)
	started := make(chan struct{})
	go func() {
		g := gid()
		regMu.Lock()
		reg[g] = t
		regMu.Unlock()
		defer func() {
			if r := recover(); r != nil {
				t.panicV = r
				buf := make([]byte, 4096)
				t.stack = string(buf[:runtime.Stack(buf, false)])
			}
			regMu.Lock()
			delete(reg, g)
			regMu.Unlock()
			nManaged.Add(-1)
			t.state.Store(int32(stFinished))
		}()
		t.loc = "start:" + name
		t.state.Store(int32(stParked))
		close(started)
		<-t.resume
		fn()
	}()
	<-started
	return t
}

// Choose is an environment choice point with n answers; answer 0 is the default, any other answer
// counts as one deviation. Unmanaged callers get 0.
func Choose(loc string, n int) int {
	t := Cur()
	if t == nil || n <= 1 {
		return 0
	}
	return t.s.decide(n, true, false, loc)
}

func (s *Sched) decide(n int, env, runningEnabled bool, desc string) int {
	i := len(s.Points)
	c := 0
	if i < len(s.prefix) {
		c = s.prefix[i]
		if c < 0 || c >= n {
			s.BadReplay = fmt.Sprintf("choice %d at point %d out of range (n=%d, %s)", c, i, n, desc)
			c = 0
		}
	}
	s.Points = append(s.Points, PointRec{N: n, Env: env, RunningEnabled: runningEnabled, Chosen: c, Desc: desc})
	s.mix(uint64(n)<<8 | uint64(c))
	return c
}

// Emit records a harness observation (only meaningful from managed threads or the scheduler).
func (s *Sched) Emit(thread int, kind string, a, b int) {
	s.mu.Lock()
	s.Events = append(s.Events, Event{Step: s.Steps, Thread: thread, Kind: kind, A: a, B: b})
	s.mix(hashStr(kind) ^ uint64(thread)<<40 ^ uint64(a)<<20 ^ uint64(b))
	s.mu.Unlock()
}

// Threads returns the threads created so far.
func (s *Sched) Threads() []*Thread {
	s.mu.Lock()
	defer s.mu.Unlock()
	return append([]*Thread(nil), s.threads...)
}

// Run schedules until every non-daemon thread has finished, a deadlock is found or the horizon is
// hit. Must be called from the bubble's root goroutine.
func (s *Sched) Run() {
	for {
		synctest.Wait()
		ths := s.Threads()
		var en []*Thread
		done := true
		for _, t := range ths {
			st := tstate(t.state.Load())
			if st != stFinished && !t.Daemon {
				done = false
			}
			if st == stParked && (t.enabled == nil || t.enabled()) {
				en = append(en, t)
			}
			s.mix(uint64(t.ID)<<32 ^ uint64(st)<<24 ^ hashStr(t.loc))
		}
		if done && (!s.Quiesce || len(en) == 0) {
			return
		}
		if len(en) == 0 {
			s.Deadlock = true
			return
		}
		if s.Steps >= s.Horizon {
			s.HitCap = true
			return
		}
		// canonical order: the thread that ran last first (if enabled), then ascending ids
		runningEnabled := false
		for i, t := range en {
			if t.ID == s.last {
				runningEnabled = true
				copy(en[1:i+1], en[:i])
				en[0] = t
				break
			}
		}
		c := 0
		if len(en) > 1 {
			c = s.decide(len(en), false, runningEnabled, "sched")
		}
		t := en[c]
		if s.KeepTrace {
			s.Trace = append(s.Trace, fmt.Sprintf("%d:%s@%s", t.ID, t.Name, t.loc))
		}
		s.last = t.ID
		s.Steps++
		t.state.Store(int32(stRunning))
		t.resume <- struct{}{}
	}
}

// Settle runs the threads that exist so far (normally adopted background loops of freshly built
// objects) with the default policy and without recording decision points, until none is enabled.
// Harnesses call it from Build to model "the object is fully started" before the scenario threads exist.
func (s *Sched) Settle() {
	for i := 0; i < s.Horizon; i++ {
		synctest.Wait()
		var pick *Thread
		for _, t := range s.Threads() {
			if tstate(t.state.Load()) == stParked && (t.enabled == nil || t.enabled()) {
				pick = t
				break
			}
		}
		if pick == nil {
			return
		}
		pick.state.Store(int32(stRunning))
		pick.resume <- struct{}{}
	}
}

// Release switches to free-run mode: every parked thread continues natively and all later points
// are no-ops. Used for scenario clean-up after the explored part of an execution.
func (s *Sched) Release() {
	s.free.Store(true)
	for _, t := range s.Threads() {
		if tstate(t.state.Load()) == stParked {
			t.state.Store(int32(stRunning))
			select {
			case t.resume <- struct{}{}:
			default:
			}
		}
	}
}

// Unfinished lists threads that have not terminated (call after Release + synctest.Wait).
func (s *Sched) Unfinished() []string {
	var out []string
	for _, t := range s.Threads() {
		if tstate(t.state.Load()) != stFinished {
			out = append(out, fmt.Sprintf("%d:%s %s", t.ID, t.Name, t.State()))
		}
	}
	return out
}

// Panics lists threads that ended in a panic.
func (s *Sched) Panics() []string {
	var out []string
	for _, t := range s.Threads() {
		if t.panicV != nil {
			out = append(out, fmt.Sprintf("%d:%s panic: %v\n%s", t.ID, t.Name, t.panicV, t.stack))
		}
	}
	return out
}

// Describe lists every thread with its state (for deadlock reports).
func (s *Sched) Describe() []string {
	var out []string
	for _, t := range s.Threads() {
		out = append(out, fmt.Sprintf("%d:%s %s", t.ID, t.Name, t.State()))
	}
	return out
}

// Select replaces reflect.Select in instrumented code. Under the scheduler the runtime's random
// pick among several ready cases is replaced by an enumerated choice: cases are tried without
// blocking in a rotated order (rotation = environment choice), and only if none is ready does the
// caller block in the real reflect.Select, where the first counterpart operation decides.
func Select(cases []reflect.SelectCase) (int, reflect.Value, bool) {
	t := Cur()
	if t == nil {
		return reflect.Select(cases)
	}
	n := len(cases)
	rot := 0
	if n > 1 {
		rot = t.s.decide(n, true, false, "select-rotation")
	}
	two := make([]reflect.SelectCase, 2)
	two[1] = reflect.SelectCase{Dir: reflect.SelectDefault}
	for k := 0; k < n; k++ {
		i := (k + rot) % n
		if cases[i].Dir == reflect.SelectDefault {
			continue
		}
		two[0] = cases[i]
		c, v, ok := reflect.Select(two)
		if c == 0 {
			return i, v, ok
		}
	}
	for i := range cases {
		if cases[i].Dir == reflect.SelectDefault {
			return i, reflect.Value{}, false
		}
	}
	return reflect.Select(cases)
}
