package vrt

import (
	"fmt"
	"testing"
	"testing/synctest"
	"time"
)

// Scenario is a closed harness: Build creates fresh objects and spawns the threads (s.Spawn) from the
// bubble's root goroutine. verify runs after the scheduled part (threads may still be parked when a
// deadlock was found) and returns oracle failures plus a short outcome string; cleanup runs in
// free-run mode and must make every remaining goroutine terminate.
type Scenario struct {
	Name    string
	Horizon int
	Build   func(s *Sched) (verify func() (fails []string, outcome string), cleanup func())
	Adopt   bool
	Quiesce bool
}

// Failure is a violating execution.
type Failure struct {
	Scenario string   `json:"scenario"`
	Choices  []int    `json:"choices"`
	Msgs     []string `json:"msgs"`
	Trace    []string `json:"trace"`
	Kind     string   `json:"kind"`
}

// Result summarises an exploration.
type Result struct {
	Scenario   string
	Bound      int
	Execs      int64
	ByCost     []int64
	MaxPoints  int
	MaxSteps   int
	Outcomes   map[string]int64
	Fail       *Failure
	CapHit     bool
	TimedOut   bool
	Replayed   int64
	SampleRun  []string
}

type ExecRec struct {
	Points []PointRec
	Fails  []string
	Kind   string
	Out    string
	Digest uint64
	Steps  int
	Trace  []string
	Cap    bool
	Bad    string
}

// RunOnce executes the scenario once, replaying prefix and then taking default choices.
func RunOnce(t *testing.T, sc Scenario, prefix []int, keepTrace bool, exitOnFail func(*ExecRec)) *ExecRec {
	rec := &ExecRec{}
	synctest.Test(t, func(t *testing.T) {
		h := sc.Horizon
		if h == 0 {
			h = 4000
		}
		s := NewSched(prefix, h)
		s.KeepTrace = keepTrace
		s.Adopt, s.Quiesce = sc.Adopt, sc.Quiesce
		defer s.Done()
		verify, cleanup := sc.Build(s)
		s.Run()
		rec.Points = s.Points
		rec.Steps = s.Steps
		rec.Trace = s.Trace
		rec.Bad = s.BadReplay
		if s.HitCap {
			rec.Cap = true
		}
		if p := s.Panics(); len(p) > 0 {
			rec.Kind = "panic"
			rec.Fails = append(rec.Fails, p...)
		}
		if s.Deadlock {
			rec.Kind = "deadlock"
			rec.Fails = append(rec.Fails, "deadlock: no enabled thread; "+fmt.Sprint(s.Describe()))
		}
		if verify != nil && !s.HitCap {
			f, out := verify()
			rec.Out = out
			if len(f) > 0 && rec.Kind == "" {
				rec.Kind = "oracle"
			}
			rec.Fails = append(rec.Fails, f...)
		}
		rec.Digest = s.Digest()
		if len(rec.Fails) > 0 && exitOnFail != nil {
			// goroutines of a deadlocked execution can never leave the bubble: the caller ends the process
			exitOnFail(rec)
		}
		s.Release()
		if cleanup != nil {
			cleanup()
		}
		synctest.Wait()
		if left := s.Unfinished(); len(left) > 0 {
			rec.Kind = "leak"
			rec.Fails = append(rec.Fails, "goroutines still alive after clean-up: "+fmt.Sprint(left))
			if exitOnFail != nil {
				exitOnFail(rec)
			}
		}
	})
	return rec
}

// Explorer is the stateless depth-first search over choice sequences with a deviation bound
// (preemptions + non-default environment answers), as in the brief's idiom.
type Explorer struct {
	T        *testing.T
	Sc       Scenario
	Bound    int
	Shard    int
	NShards  int
	Deadline time.Time
	OnFail   func(f *Failure) // must not return if the execution cannot be cleaned up
	ReplayEvery int64
	res      *Result
	topIdx   int
}

func choicesOf(pts []PointRec) []int {
	c := make([]int, len(pts))
	for i, p := range pts {
		c[i] = p.Chosen
	}
	return c
}

func (e *Explorer) Run() *Result {
	e.res = &Result{Scenario: e.Sc.Name, Bound: e.Bound, ByCost: make([]int64, e.Bound+1), Outcomes: map[string]int64{}}
	if e.ReplayEvery == 0 {
		e.ReplayEvery = 97
	}
	e.explore(nil, 0, true)
	return e.res
}

func (e *Explorer) fail(rec *ExecRec, choices []int) {
	f := &Failure{Scenario: e.Sc.Name, Choices: choices, Msgs: rec.Fails, Kind: rec.Kind, Trace: rec.Trace}
	e.res.Fail = f
	if e.OnFail != nil {
		e.OnFail(f)
	}
}

func (e *Explorer) explore(prefix []int, cost int, top bool) {
	if e.res.Fail != nil || e.res.TimedOut {
		return
	}
	if !e.Deadline.IsZero() && time.Now().After(e.Deadline) {
		e.res.TimedOut = true
		return
	}
	var full []int
	rec := RunOnce(e.T, e.Sc, prefix, false, func(r *ExecRec) {
		// re-run with trace for the report, then hand over (OnFail normally exits the process)
		e.fail(r, choicesOf(r.Points))
	})
	if rec.Bad != "" {
		panic("vrt: replay divergence: " + rec.Bad)
	}
	full = choicesOf(rec.Points)
	mine := !top || e.Shard == 0
	if mine {
		e.res.Execs++
		e.res.ByCost[cost]++
		e.res.Outcomes[rec.Out]++
		if len(rec.Points) > e.res.MaxPoints {
			e.res.MaxPoints = len(rec.Points)
		}
		if rec.Steps > e.res.MaxSteps {
			e.res.MaxSteps = rec.Steps
		}
		if rec.Cap {
			e.res.CapHit = true
		}
		if len(rec.Fails) > 0 {
			e.fail(rec, full)
			return
		}
		if e.res.Execs%e.ReplayEvery == 1 {
			r2 := RunOnce(e.T, e.Sc, full, false, nil)
			e.res.Replayed++
			if r2.Digest != rec.Digest || len(r2.Points) != len(rec.Points) {
				panic(fmt.Sprintf("vrt: nondeterminism not owned: scenario %s choices %v digest %x vs %x", e.Sc.Name, full, rec.Digest, r2.Digest))
			}
		}
	}
	// cost of the deviations inside the replayed prefix is `cost`; walk the free suffix
	c := cost
	for i := len(prefix); i < len(rec.Points); i++ {
		p := rec.Points[i]
		for alt := 1; alt < p.N; alt++ {
			ac := c
			if p.Env || p.RunningEnabled {
				ac++
			}
			if ac > e.Bound {
				continue
			}
			if top {
				e.topIdx++
				if e.NShards > 1 && e.topIdx%e.NShards != e.Shard {
					continue
				}
			}
			np := make([]int, i+1)
			copy(np, full[:i])
			np[i] = alt
			e.explore(np, ac, false)
			if e.res.Fail != nil || e.res.TimedOut {
				return
			}
		}
		// the default choice at point i costs nothing (it was choice 0)
	}
}
