// C18 - no RPC endpoint can make the node sign unless explicitly opted in.
//
// A real node.Node with the aqua service, a real keystore (one locked, one unlocked, both funded)
// and all four RPC transports is started in a worker subprocess per opt-in environment combination
// (the opt-in variables are read at package initialisation of rpc). The method universe is obtained
// from the node (overlay accessor VerifAPIs) and the server's own reflection rule; arguments are
// synthesised from small per-type lattices; every call goes through a real client on every transport.
// Signing is observed, never inferred from method names:
//
//	(w) a recording wallet interposed between the account manager and the real keystore wallet,
//	(p) new transaction-pool entries whose sender is a keystore address,
//	(r) signatures / signed transactions in RPC results that recover to a keystore address.
//
// DESIGN.md section 4/C18.
package c18

import (
	"context"
	"encoding/hex"
	"encoding/json"
	"fmt"
	"math/big"
	"os"
	"os/exec"
	"path/filepath"
	"reflect"
	"runtime/pprof"
	"sort"
	"strconv"
	"strings"
	"sync"
	"testing"
	"time"

	"github.com/btcsuite/btcd/btcec/v2"
	"gitlab.com/aquachain/aquachain/aqua"
	"gitlab.com/aquachain/aquachain/aqua/accounts"
	"gitlab.com/aquachain/aquachain/aqua/accounts/keystore"
	"gitlab.com/aquachain/aquachain/aqua/event"
	"gitlab.com/aquachain/aquachain/common"
	"gitlab.com/aquachain/aquachain/common/log"
	"gitlab.com/aquachain/aquachain/consensus/aquahash"
	"gitlab.com/aquachain/aquachain/consensus/clique"
	"gitlab.com/aquachain/aquachain/core"
	"gitlab.com/aquachain/aquachain/core/types"
	"gitlab.com/aquachain/aquachain/crypto"
	"gitlab.com/aquachain/aquachain/internal/debug"
	"gitlab.com/aquachain/aquachain/node"
	"gitlab.com/aquachain/aquachain/p2p"
	"gitlab.com/aquachain/aquachain/params"
	"gitlab.com/aquachain/aquachain/rlp"
	"gitlab.com/aquachain/aquachain/rpc"
	rpcclient "gitlab.com/aquachain/aquachain/rpc/rpcclient"
	"gitlab.com/aquachain/aquachain/zzverif/ev"
)

// ---- configurations -----------------------------------------------------------------------------

// optVars are the opt-in variables rpc/server.go reads at package initialisation.
var optVars = []string{
	"UNSAFE_RPC_SIGNING", "UNSAFE_ALLOW_SIGN_IPC", "UNSAFE_RPC_SIGNING_HTTP", "UNSAFE_RPC_SIGNING_WS", "UNSAFE_ALLOW_SIGN_INPROC",
}

// transportOfVar: which transport a variable opts in. UNSAFE_RPC_SIGNING is not a per-transport
// opt-in (the property speaks of "opting in for one transport"); it must not enable anything by itself.
var transportOfVar = map[string]string{
	"UNSAFE_ALLOW_SIGN_IPC": "ipc", "UNSAFE_RPC_SIGNING_HTTP": "http", "UNSAFE_RPC_SIGNING_WS": "ws", "UNSAFE_ALLOW_SIGN_INPROC": "inproc",
}

var transports = []string{"inproc", "ipc", "http", "ws"}

type config struct {
	Name  string            `json:"name"`
	Env   map[string]string `json:"env"`
	Chain string            `json:"chain"` // "pow" (default bound) or "clique"
}

func (c config) optedIn() map[string]bool {
	m := map[string]bool{}
	for v, t := range transportOfVar {
		if truthy(c.Env[v]) {
			m[t] = true
		}
	}
	return m
}

// truthy mirrors common/sense.EnvBool for the values this harness uses ("1", "0", "false").
func truthy(s string) bool {
	switch strings.ToLower(s) {
	case "", "false", "no", "0", "off", "disabled", "disable":
		return false
	}
	return true
}

func maskConfig(mask int) config {
	c := config{Env: map[string]string{}, Chain: "pow"}
	var names []string
	for i, v := range optVars {
		if mask&(1<<i) != 0 {
			c.Env[v] = "1"
			names = append(names, v)
		}
	}
	switch {
	case mask == 0:
		c.Name = "none"
	case mask == 1<<len(optVars)-1:
		c.Name = "all"
	default:
		c.Name = strings.Join(names, "+")
	}
	return c
}

func configsFor(thorough bool) []config {
	var out []config
	if !thorough {
		out = append(out, maskConfig(0))
		for i := range optVars {
			out = append(out, maskConfig(1<<i))
		}
		out = append(out, maskConfig(1<<len(optVars)-1))
		return out
	}
	for m := 0; m < 1<<len(optVars); m++ {
		out = append(out, maskConfig(m))
	}
	// falsy values are not an opt-in
	z := config{Name: "all=0", Env: map[string]string{}, Chain: "pow"}
	f := config{Name: "all=false", Env: map[string]string{}, Chain: "pow"}
	for _, v := range optVars {
		z.Env[v] = "0"
		f.Env[v] = "false"
	}
	out = append(out, z, f)
	// NO_SIGN together with every opt-in (informational: keystore-level kill switch)
	ns := maskConfig(1<<len(optVars) - 1)
	ns.Name = "all+NO_SIGN"
	ns.Env["NO_SIGN"] = "1"
	out = append(out, ns)
	// clique chain (outside the stated bound, listed for what it is)
	cl := maskConfig(0)
	cl.Name = "none/clique"
	cl.Chain = "clique"
	out = append(out, cl)
	return out
}

// ---- fixed material -----------------------------------------------------------------------------

const (
	passRight = "c18-right-passphrase"
	passWrong = "c18-wrong-passphrase"
	chainID   = 3 // params.TestChainConfig
)

func keyOf(seed string) (*btcec.PrivateKey, common.Address) {
	k := crypto.ToECDSAUnsafe(crypto.Keccak256([]byte(seed)))
	return k, crypto.PubkeyToAddress(k.PubKey())
}

var (
	keyLocked, addrLocked     = keyOf("c18 locked keystore account")
	keyUnlocked, addrUnlocked = keyOf("c18 unlocked keystore account")
	keyOutsider, addrOutsider = keyOf("c18 outsider, never in the keystore")
	addrUnknown               = common.HexToAddress("0x00000000000000000000000000000000c18dead0")
	msg32                     = crypto.Keccak256([]byte("c18 message"))
	msg4                      = []byte{0xde, 0xad, 0xbe, 0xef}
)

// disruptive: methods that would stop, stall or reconfigure the harness itself. They are called last
// (thorough) or skipped (quick) and always listed by name in the evidence. Everything else in the
// universe is called in the main enumeration.
var disruptive = map[string]string{
	"admin_shutdown": "stops the node", "admin_stopRPC": "stops the HTTP endpoint", "admin_startRPC": "starts an HTTP endpoint",
	"admin_stopWS": "stops the WS endpoint", "admin_startWS": "starts a WS endpoint",
	"admin_importChain": "chain import", "admin_exportChain": "chain export", "admin_exportState": "state export", "admin_exportRealloc": "state export",
	"debug_setHead": "rewinds the chain", "miner_start": "starts CPU mining", "miner_stop": "stops mining",
	"debug_cpuProfile": "sleeps nsec seconds", "debug_blockProfile": "sleeps nsec seconds", "debug_goTrace": "sleeps nsec seconds",
	"debug_startCPUProfile": "profiler", "debug_stopCPUProfile": "profiler", "debug_startGoTrace": "profiler", "debug_stopGoTrace": "profiler",
	"debug_writeBlockProfile": "profiler", "debug_writeMemProfile": "profiler", "debug_writeMutexProfile": "profiler", "debug_mutexProfile": "sleeps nsec seconds",
	"debug_traceChain": "long-running subscription", "debug_freeOSMemory": "forces a full GC and scavenge (seconds per call)",
}

// ---- recorder: every use of a keystore key through the account manager --------------------------

type sigEvent struct {
	Seq   int    `json:"seq"`
	Via   string `json:"via"` // SignHash, SignTx, SignHashWithPassphrase, SignTxWithPassphrase, CliqueSigner
	Addr  string `json:"addr"`
	OK    bool   `json:"ok"`
	Err   string `json:"err,omitempty"`
	Token string `json:"token,omitempty"` // signature (r||s) hex, identifies the signature wherever it shows up
}

type recorder struct {
	mu     sync.Mutex
	events []sigEvent
}

func (r *recorder) note(via string, a common.Address, err error, token string) {
	r.mu.Lock()
	e := sigEvent{Seq: len(r.events), Via: via, Addr: a.Hex(), OK: err == nil, Token: token}
	if err != nil {
		e.Err = err.Error()
	}
	r.events = append(r.events, e)
	r.mu.Unlock()
}

func (r *recorder) mark() int {
	r.mu.Lock()
	defer r.mu.Unlock()
	return len(r.events)
}

func (r *recorder) since(n int) []sigEvent {
	r.mu.Lock()
	defer r.mu.Unlock()
	return append([]sigEvent(nil), r.events[n:]...)
}

func sigToken(sig []byte) string {
	if len(sig) >= 64 {
		return hex.EncodeToString(sig[:64])
	}
	return ""
}

func txToken(tx *types.Transaction) string {
	if tx == nil {
		return ""
	}
	_, r, s := tx.RawSignatureValues()
	if r == nil || s == nil {
		return ""
	}
	return fmt.Sprintf("%064x%064x", r, s)
}

// recWallet delegates to the real keystore wallet and records the four signing entry points of
// accounts.Wallet plus the clique signer hook.
type recWallet struct {
	accounts.Wallet
	rec *recorder
}

func (w *recWallet) SignHash(a accounts.Account, h []byte) ([]byte, error) {
	sig, err := w.Wallet.SignHash(a, h)
	w.rec.note("SignHash", a.Address, err, sigToken(sig))
	return sig, err
}
func (w *recWallet) SignTx(a accounts.Account, tx *types.Transaction, id *big.Int) (*types.Transaction, error) {
	out, err := w.Wallet.SignTx(a, tx, id)
	w.rec.note("SignTx", a.Address, err, txToken(out))
	return out, err
}
func (w *recWallet) SignHashWithPassphrase(a accounts.Account, p string, h []byte) ([]byte, error) {
	sig, err := w.Wallet.SignHashWithPassphrase(a, p, h)
	w.rec.note("SignHashWithPassphrase", a.Address, err, sigToken(sig))
	return sig, err
}
func (w *recWallet) SignTxWithPassphrase(a accounts.Account, p string, tx *types.Transaction, id *big.Int) (*types.Transaction, error) {
	out, err := w.Wallet.SignTxWithPassphrase(a, p, tx, id)
	w.rec.note("SignTxWithPassphrase", a.Address, err, txToken(out))
	return out, err
}

// CliqueSigner is looked up by aqua.StartMining through a type assertion on the wallet.
func (w *recWallet) CliqueSigner() clique.SignerFn {
	inner := w.Wallet.(interface{ CliqueSigner() clique.SignerFn }).CliqueSigner()
	w.rec.note("CliqueSignerHandedOut", w.Wallet.Accounts()[0].Address, nil, "") // synchronous with aqua.StartMining
	return func(a accounts.Account, h []byte) ([]byte, error) {
		sig, err := inner(a, h)
		w.rec.note("CliqueSigner", a.Address, err, sigToken(sig))
		return sig, err
	}
}

// recBackend serves the real keystore's wallets, wrapped.
type recBackend struct {
	ks    *keystore.KeyStore
	rec   *recorder
	mu    sync.Mutex
	cache map[accounts.URL]*recWallet
}

func (b *recBackend) wrap(w accounts.Wallet) accounts.Wallet {
	b.mu.Lock()
	defer b.mu.Unlock()
	if rw, ok := b.cache[w.URL()]; ok {
		return rw
	}
	rw := &recWallet{Wallet: w, rec: b.rec}
	b.cache[w.URL()] = rw
	return rw
}

func (b *recBackend) Wallets() []accounts.Wallet {
	ws := b.ks.Wallets()
	out := make([]accounts.Wallet, len(ws))
	for i, w := range ws {
		out[i] = b.wrap(w)
	}
	return out
}

func (b *recBackend) Subscribe(sink chan<- accounts.WalletEvent) event.Subscription {
	inner := make(chan accounts.WalletEvent, 64)
	sub := b.ks.Subscribe(inner)
	return event.NewSubscription(func(quit <-chan struct{}) error {
		defer sub.Unsubscribe()
		for {
			select {
			case e := <-inner:
				e.Wallet = b.wrap(e.Wallet)
				select {
				case sink <- e:
				case <-quit:
					return nil
				}
			case err := <-sub.Err():
				return err
			case <-quit:
				return nil
			}
		}
	})
}

// ---- the node -----------------------------------------------------------------------------------

type world struct {
	cfg     config
	dir     string
	ks      *keystore.KeyStore
	am      *accounts.Manager
	rec     *recorder
	stack   *node.Node
	aq      *aqua.Aquachain
	genesis common.Hash
	clients map[string]*rpcclient.Client
	signer  types.Signer

	known     map[string]bool // signature tokens of every transaction that has ever been in the pool
	ksAddrs   map[common.Address]bool
	sealSeen  map[string]bool
	gasPrice0 *big.Int
}

func genesisFor(chain string) *core.Genesis {
	funds := new(big.Int).Exp(big.NewInt(10), big.NewInt(24), nil)
	alloc := core.GenesisAlloc{
		addrLocked: {Balance: funds}, addrUnlocked: {Balance: funds}, addrOutsider: {Balance: funds},
	}
	if chain == "clique" {
		g := core.DeveloperGenesisBlock(1, addrUnlocked)
		cc := *g.Config
		cc.ChainId = big.NewInt(chainID + 1000)
		g.Config = &cc
		for a, b := range alloc {
			g.Alloc[a] = b
		}
		return g
	}
	return &core.Genesis{Config: params.TestChainConfig, GasLimit: 6283185, Difficulty: big.NewInt(131072), Alloc: alloc}
}

func (w *world) chainID() uint64 {
	if w.cfg.Chain == "clique" {
		return chainID + 1000
	}
	return chainID
}

var cliqueRegistered bool

func (w *world) startNode(ctx context.Context, full bool, modules []string) error {
	gen := genesisFor(w.cfg.Chain)
	if w.cfg.Chain == "clique" && !cliqueRegistered {
		params.AddChainConfig("c18clique", gen.Config)
		cliqueRegistered = true
	}
	if w.cfg.Chain == "clique" {
		gen.Config = params.GetChainConfigByChainId(big.NewInt(int64(w.chainID())))
	}
	nc := &node.Config{
		Context:   ctx,
		CloseMain: func(err error) {},
		Name:      "testc18",
		DataDir:   "", // ephemeral: memory databases, no instance lock under $HOME
		P2P:       &p2p.Config{ChainId: w.chainID(), NoDiscovery: true, NoDial: true, ListenAddr: "", MaxPeers: 0},
	}
	if full {
		nc.IPCPath = filepath.Join(w.dir, "n.ipc")
		nc.HTTPHost, nc.HTTPPort, nc.HTTPModules = "127.0.0.1", 0, modules
		nc.HTTPVirtualHosts = []string{"*"}
		nc.WSHost, nc.WSPort, nc.WSModules, nc.WSOrigins, nc.WSExposeAll = "127.0.0.1", 0, modules, []string{"*"}, true
		nc.RPCAllowIP = []string{"127.0.0.1/32"}
	}
	stack, err := node.New(nc)
	if err != nil {
		return fmt.Errorf("node.New: %v", err)
	}
	stack.VerifSetAccountManager(w.am)
	ac := &aqua.Config{
		Genesis: gen, ChainId: w.chainID(), Aquabase: addrUnlocked,
		Aquahash: &aquahash.Config{PowMode: aquahash.ModeTest},
		GasPrice: 1_000_000_000, TxPool: core.DefaultTxPoolConfig, NoPruning: true,
	}
	ac.TxPool.Journal = ""
	if w.cfg.Chain == "clique" {
		ac.Aquahash = &aquahash.Config{PowMode: aquahash.ModeNormal}
	}
	def := node.NewDefaultConfig()
	def.Name = "testc18"
	nodename := def.NodeName()
	if err := stack.Register(func(sc *node.ServiceContext) (node.Service, error) {
		return aqua.New(ctx, sc, ac, nodename)
	}); err != nil {
		return err
	}
	if err := stack.Start(ctx); err != nil {
		return fmt.Errorf("node start: %v", err)
	}
	w.stack = stack
	if err := stack.Service(&w.aq); err != nil {
		return err
	}
	w.genesis = w.aq.BlockChain().Genesis().Hash()
	w.signer = types.NewEIP155Signer(new(big.Int).SetUint64(w.chainID()))
	return nil
}

func (w *world) setupKeystore() error {
	kd := filepath.Join(w.dir, "keystore")
	if err := os.MkdirAll(kd, 0o700); err != nil {
		return err
	}
	// scrypt N=2,P=1 (as the keystore's own tests): the KDF strength is irrelevant to C18 and every
	// passphrase attempt / restore would otherwise cost ~0.1 s
	w.ks = keystore.NewKeyStore(kd, 2, 1)
	if _, err := w.ks.ImportECDSA(keyLocked, passRight); err != nil {
		return err
	}
	au, err := w.ks.ImportECDSA(keyUnlocked, passRight)
	if err != nil {
		return err
	}
	if err := w.ks.Unlock(au, passRight); err != nil {
		return err
	}
	w.rec = &recorder{}
	rb := &recBackend{ks: w.ks, rec: w.rec, cache: map[accounts.URL]*recWallet{}}
	w.am = accounts.NewManager(rb)
	w.am.VerifIndexBackend(w.ks) // internal/aquaapi.fetchKeystore type-asserts the concrete keystore
	return nil
}

func (w *world) dial(ctx context.Context) error {
	w.clients = map[string]*rpcclient.Client{}
	c, err := w.stack.Attach(ctx, "c18")
	if err != nil {
		return fmt.Errorf("attach: %v", err)
	}
	w.clients["inproc"] = c
	if c, err = rpcclient.DialIPC(ctx, w.stack.IPCEndpoint()); err != nil {
		return fmt.Errorf("ipc: %v", err)
	}
	w.clients["ipc"] = c
	ha, wa := w.stack.VerifListenAddrs()
	if c, err = rpcclient.DialHTTP("http://" + ha); err != nil {
		return fmt.Errorf("http: %v", err)
	}
	w.clients["http"] = c
	if c, err = rpcclient.DialWebsocket(ctx, "ws://"+wa, "http://localhost"); err != nil {
		return fmt.Errorf("ws: %v", err)
	}
	w.clients["ws"] = c
	return nil
}

// restore puts the keystore back into the stated initial condition: one locked, one unlocked.
func (w *world) restore() {
	// miner_setAquabase / miner_setGasPrice reconfigure the node for every later call: undo them
	if eb, _ := w.aq.Aquabase(); eb != addrUnlocked {
		w.aq.SetAquabase(addrUnlocked)
	}
	if w.gasPrice0 == nil {
		w.gasPrice0 = w.aq.TxPool().GasPrice()
	} else if w.aq.TxPool().GasPrice().Cmp(w.gasPrice0) != 0 {
		w.aq.TxPool().SetGasPrice(new(big.Int).Set(w.gasPrice0))
	}
	if w.aq.IsMining() {
		// aqua_getWork / testing_getBlockTemplate / miner_start leave the CPU miner running
		w.aq.StopMining()
	}
	// Each keystore account has one pending transaction in the pool that its owner signed offline (it
	// equals the "full" transaction-argument object of the lattice): methods that act on an existing
	// pending transaction of an account (re-send with another price) find something to act on.
	for _, k := range []struct {
		key  *btcec.PrivateKey
		from common.Address
	}{{keyUnlocked, addrUnlocked}, {keyLocked, addrLocked}} {
		seed := types.NewTransaction(0, addrUnknown, big.NewInt(1), 21000, big.NewInt(1_000_000_000), nil)
		if signed, err := types.SignTx(seed, w.signer, k.key); err == nil && w.aq.TxPool().Get(signed.Hash()) == nil {
			w.aq.TxPool().AddRemote(signed)
			w.known[txToken(signed)] = true
		}
	}
	for _, wl := range w.ks.Wallets() {
		for _, a := range wl.Accounts() {
			st, _ := wl.Status()
			switch a.Address {
			case addrLocked:
				if st != "Locked" {
					w.ks.Lock(a.Address)
				}
			case addrUnlocked:
				if st != "Unlocked" {
					if err := w.ks.Unlock(a, passRight); err != nil {
						ev.Broken("cannot restore unlocked account: %v", err)
					}
				}
			}
		}
	}
}

func (w *world) keystoreAddrs() map[common.Address]bool {
	m := map[common.Address]bool{}
	for _, a := range w.ks.Accounts() {
		m[a.Address] = true
	}
	return m
}

// ---- method universe ----------------------------------------------------------------------------

type method struct {
	NS, Name, Svc, GoName string
	Args                  []reflect.Type
	Sub                   bool
}

func (m method) wire() string { return m.NS + "_" + m.Name }

func universe(apis []rpc.API) []method {
	var out []method
	for _, a := range apis {
		if a.Service == nil {
			continue
		}
		for _, cb := range rpc.VerifSuitableCallbacks(a.Service) {
			out = append(out, method{NS: a.Namespace, Name: cb.Name, Svc: fmt.Sprintf("%T", a.Service), GoName: cb.GoName, Args: cb.ArgTypes, Sub: cb.IsSubscribe})
		}
	}
	sort.SliceStable(out, func(i, j int) bool { return out[i].wire() < out[j].wire() })
	return out
}

// ---- argument lattices --------------------------------------------------------------------------

type argVal struct {
	JSON string
	Tag  string
}

type lattices struct {
	pool    []argVal // candidates for types with their own JSON/text decoding
	strs    []argVal
	objects []argVal
	cache   map[reflect.Type][]argVal
}

func hx(b []byte) string { return `"0x` + hex.EncodeToString(b) + `"` }

func (w *world) newLattices() *lattices {
	// a raw transaction signed by a key that is not in the keystore
	raw := types.NewTransaction(0, addrUnknown, big.NewInt(1), 21000, big.NewInt(1_000_000_000), nil)
	raw, err := types.SignTx(raw, w.signer, keyOutsider)
	if err != nil {
		ev.Broken("cannot sign outsider tx: %v", err)
	}
	rawb, _ := rlp.EncodeToBytes(raw)
	var url string
	for _, wl := range w.ks.Wallets() {
		if wl.Accounts()[0].Address == addrUnlocked {
			url = wl.URL().String()
		}
	}
	l := &lattices{cache: map[reflect.Type][]argVal{}}
	// order matters: each type keeps the first perTypeCap candidates its own decoder accepts
	l.pool = []argVal{
		{`"0x0"`, "num:0x0"}, {`"0x1"`, "num:0x1"}, {`"latest"`, "num:latest"}, {`"pending"`, "num:pending"}, {`0`, "num:0"}, {`1`, "num:1"},
		{hx(msg32), "bytes:32"}, {hx(msg4), "bytes:4"}, {`"0x"`, "bytes:empty"}, {hx(rawb), "bytes:rawtx-outsider"},
		{hx(addrUnlocked[:]), "addr:unlocked"}, {hx(addrLocked[:]), "addr:locked"}, {hx(addrUnknown[:]), "addr:unknown"},
		{hx(w.genesis[:]), "hash:genesis"},
	}
	q := func(s string) string { b, _ := json.Marshal(s); return string(b) }
	l.strs = []argVal{
		{q(passRight), "str:pass-right"}, {q(passWrong), "str:pass-wrong"}, {`""`, "str:empty"}, {q(url), "str:wallet-url"},
	}
	for _, f := range []struct {
		a   common.Address
		tag string
	}{{addrUnlocked, "unlocked"}, {addrLocked, "locked"}, {addrUnknown, "unknown"}} {
		l.objects = append(l.objects,
			argVal{fmt.Sprintf(`{"from":%s,"to":%s,"value":"0x1"}`, hx(f.a[:]), hx(addrUnknown[:])), "tx:from=" + f.tag + ",minimal"},
			argVal{fmt.Sprintf(`{"from":%s,"to":%s,"gas":"0x5208","gasPrice":"0x3b9aca00","value":"0x1","nonce":"0x0","data":"0x"}`, hx(f.a[:]), hx(addrUnknown[:])), "tx:from=" + f.tag + ",full"})
	}
	l.objects = append(l.objects, argVal{`{}`, "obj:empty"})
	return l
}

var (
	jsonUnm = reflect.TypeOf((*json.Unmarshaler)(nil)).Elem()
	textUnm = reflect.TypeOf((*interface{ UnmarshalText([]byte) error })(nil)).Elem()
)

const perTypeCap = 6

// decodable keeps the candidates t's own decoder accepts, one per distinct decoded value.
func decodable(t reflect.Type, cands []argVal) []argVal {
	var out []argVal
	var seen []interface{}
next:
	for _, c := range cands {
		p := reflect.New(t)
		if json.Unmarshal([]byte(c.JSON), p.Interface()) != nil {
			continue
		}
		v := p.Elem().Interface()
		for _, s := range seen {
			if reflect.DeepEqual(s, v) {
				continue next
			}
		}
		seen = append(seen, v)
		out = append(out, c)
		if len(out) == perTypeCap {
			break
		}
	}
	return out
}

func (l *lattices) of(t reflect.Type) []argVal {
	if v, ok := l.cache[t]; ok {
		return v
	}
	var out []argVal
	switch {
	case t.Kind() == reflect.Ptr:
		out = append([]argVal{{`null`, "nil"}}, l.of(t.Elem())...)
	case reflect.PtrTo(t).Implements(jsonUnm) || reflect.PtrTo(t).Implements(textUnm):
		cands := append([]argVal(nil), l.pool...)
		if t.Kind() == reflect.Struct || t.Kind() == reflect.Map {
			cands = append(append([]argVal(nil), l.objects...), cands...)
		}
		out = decodable(t, cands)
		if len(out) == 0 {
			if zb, err := json.Marshal(reflect.Zero(t).Interface()); err == nil {
				out = decodable(t, []argVal{{string(zb), "zero"}})
			}
		}
	default:
		switch t.Kind() {
		case reflect.String:
			out = l.strs
		case reflect.Bool:
			out = []argVal{{`false`, "false"}, {`true`, "true"}}
		case reflect.Int, reflect.Int8, reflect.Int16, reflect.Int32, reflect.Int64,
			reflect.Uint, reflect.Uint8, reflect.Uint16, reflect.Uint32, reflect.Uint64, reflect.Float32, reflect.Float64:
			out = []argVal{{`0`, "num:0"}, {`1`, "num:1"}}
		case reflect.Struct:
			out = decodable(t, l.objects)
		case reflect.Map:
			out = []argVal{{`{}`, "obj:empty"}}
		case reflect.Slice, reflect.Array:
			if t.Elem().Kind() == reflect.Uint8 && t.Kind() == reflect.Slice {
				// plain []byte decodes from base64
				out = decodable(t, []argVal{{`""`, "b64:empty"}, {`"3q2+7w=="`, "b64:4"}, {`null`, "nil"}})
				break
			}
			out = []argVal{{`[]`, "list:empty"}}
			el := l.of(t.Elem())
			for i := 0; i < len(el) && i < 2; i++ {
				out = append(out, argVal{"[" + el[i].JSON + "]", "list:" + el[i].Tag})
			}
			out = decodable(t, out)
		case reflect.Interface:
			out = []argVal{{`null`, "nil"}, {`"latest"`, "num:latest"}, {hx(addrUnlocked[:]), "addr:unlocked"}}
		}
	}
	if len(out) == 0 {
		out = []argVal{{`null`, "nil"}}
	}
	l.cache[t] = out
	return out
}

// relevance orders argument positions: the ones that can name a keystore account or carry a
// passphrase vary first when a method has more than three arguments.
func relevance(t reflect.Type) int {
	for t.Kind() == reflect.Ptr {
		t = t.Elem()
	}
	addr := reflect.TypeOf(common.Address{})
	switch {
	case t.Kind() == reflect.Struct && t != addr:
		for i := 0; i < t.NumField(); i++ {
			if t.Field(i).Type == addr {
				return 0
			}
		}
		return 4
	case t == addr:
		return 1
	case t.Kind() == reflect.String:
		return 2
	case t.Kind() == reflect.Slice && t.Elem().Kind() == reflect.Uint8:
		return 3
	}
	return 5
}

const tupleCap = 400

// tuples enumerates the cartesian product of the argument lattices; at most the three most relevant
// positions vary when a method has more than three arguments, and the product is trimmed to tupleCap
// by shortening the longest lattices (reported as "reduced").
func (l *lattices) tuples(m method) (out [][]argVal, reduced bool) {
	n := len(m.Args)
	lat := make([][]argVal, n)
	for i, t := range m.Args {
		lat[i] = l.of(t)
	}
	if n > 3 {
		idx := make([]int, n)
		for i := range idx {
			idx[i] = i
		}
		sort.SliceStable(idx, func(a, b int) bool { return relevance(m.Args[idx[a]]) < relevance(m.Args[idx[b]]) })
		for _, i := range idx[3:] {
			if len(lat[i]) > 1 {
				lat[i] = lat[i][:1]
				reduced = true
			}
		}
	}
	for {
		p := 1
		big, bi := 0, -1
		for i := range lat {
			p *= len(lat[i])
			if len(lat[i]) > big {
				big, bi = len(lat[i]), i
			}
		}
		if p <= tupleCap || bi < 0 || big <= 1 {
			break
		}
		lat[bi] = lat[bi][:big-1]
		reduced = true
	}
	cur := make([]argVal, n)
	var rec func(i int)
	rec = func(i int) {
		if i == n {
			out = append(out, append([]argVal(nil), cur...))
			return
		}
		for _, v := range lat[i] {
			cur[i] = v
			rec(i + 1)
		}
	}
	rec(0)
	return out, reduced
}

// ---- calls --------------------------------------------------------------------------------------

type callSpec struct {
	Transport string   `json:"transport"`
	Variant   string   `json:"variant"` // plain | eth-alias | bare-btc | batch | subscribe
	Wire      string   `json:"wire"`    // method name put on the wire
	Method    string   `json:"method"`  // canonical ns_name
	Args      []string `json:"args"`    // JSON texts
	Tags      []string `json:"tags"`
}

type callResult struct {
	Result  json.RawMessage
	Err     string
	Code    int
	Outcome string // ok | notfound | badparams | error | transport-error | timeout
}

func (w *world) call(cs callSpec) callResult {
	c := w.clients[cs.Transport]
	ctx, cancel := context.WithTimeout(context.Background(), 20*time.Second)
	defer cancel()
	args := make([]interface{}, len(cs.Args))
	for i, a := range cs.Args {
		args[i] = json.RawMessage(a)
	}
	var raw json.RawMessage
	var err error
	if cs.Variant == "batch" {
		be := []rpcclient.BatchElem{{Method: cs.Wire, Args: args, Result: &raw}}
		if err = c.BatchCallContext(ctx, be); err == nil {
			err = be[0].Error
		}
	} else {
		err = c.CallContext(ctx, &raw, cs.Wire, args...)
	}
	res := callResult{Result: raw, Outcome: "ok"}
	if err != nil {
		res.Err = err.Error()
		res.Outcome = "transport-error"
		if je, ok := err.(*rpc.JsonError); ok {
			res.Code = je.Code
			switch je.Code {
			case -32601:
				res.Outcome = "notfound"
			case -32602:
				res.Outcome = "badparams"
			default:
				res.Outcome = "error"
			}
		} else if err == rpcclient.ErrNoResult {
			res.Outcome = "ok"
			res.Err = ""
		} else if ctx.Err() != nil {
			res.Outcome = "timeout"
		}
	}
	return res
}

// ---- observation --------------------------------------------------------------------------------

type finding struct {
	Kind   string `json:"kind"` // wallet | pool | result-signature | result-tx
	Addr   string `json:"addr"`
	Detail string `json:"detail"`
	Token  string `json:"-"`
}

func (w *world) senderOf(tx *types.Transaction) (common.Address, bool) {
	var s types.Signer = types.HomesteadSigner{}
	if tx.Protected() {
		s = types.NewEIP155Signer(tx.ChainId())
	}
	a, err := types.Sender(s, tx)
	return a, err == nil
}

func (w *world) poolTxs() []*types.Transaction {
	p, q := w.aq.TxPool().Content()
	var out []*types.Transaction
	for _, m := range []map[common.Address]types.Transactions{p, q} {
		for _, txs := range m {
			out = append(out, txs...)
		}
	}
	return out
}

// candidateHashes: what a signature returned by a call with these arguments could be over.
func candidateHashes(args []string) [][]byte {
	var out [][]byte
	add := func(b []byte) {
		out = append(out, crypto.Keccak256([]byte(fmt.Sprintf("\x19Aquachain Signed Message:\n%d%s", len(b), b))))
		out = append(out, crypto.Keccak256([]byte(fmt.Sprintf("\x19Ethereum Signed Message:\n%d%s", len(b), b))))
		out = append(out, crypto.Keccak256(b))
		if len(b) == 32 {
			out = append(out, b)
		}
	}
	for _, a := range args {
		var s string
		if json.Unmarshal([]byte(a), &s) != nil {
			continue
		}
		add([]byte(s))
		if strings.HasPrefix(s, "0x") {
			if b, err := hex.DecodeString(s[2:]); err == nil {
				add(b)
			}
		}
	}
	return out
}

// scanResult walks an RPC result for signatures and signed transactions attributable to keystore keys.
func (w *world) scanResult(raw json.RawMessage, args []string, ksAddrs map[common.Address]bool, before map[string]bool) []finding {
	if len(raw) == 0 {
		return nil
	}
	var v interface{}
	if json.Unmarshal(raw, &v) != nil {
		return nil
	}
	hashes := candidateHashes(args)
	var out []finding
	checkTx := func(tx *types.Transaction, how string) {
		from, ok := w.senderOf(tx)
		tok := txToken(tx)
		if ok && ksAddrs[from] && !before[tok] {
			out = append(out, finding{Kind: "result-tx", Addr: from.Hex(), Detail: how + " tx " + tx.Hash().Hex(), Token: tok})
		}
	}
	var walk func(x interface{})
	walk = func(x interface{}) {
		switch t := x.(type) {
		case map[string]interface{}:
			if _, ok := t["r"]; ok {
				if _, ok := t["s"]; ok {
					if b, err := json.Marshal(t); err == nil {
						tx := new(types.Transaction)
						if tx.UnmarshalJSON(b) == nil {
							checkTx(tx, "json")
						}
					}
				}
			}
			for _, y := range t {
				walk(y)
			}
		case []interface{}:
			for _, y := range t {
				walk(y)
			}
		case string:
			if !strings.HasPrefix(t, "0x") || len(t)%2 != 0 {
				return
			}
			b, err := hex.DecodeString(t[2:])
			if err != nil {
				return
			}
			if len(b) == 65 {
				for _, vv := range []byte{b[64], b[64] - 27} {
					if vv > 1 {
						continue
					}
					sig := append(append([]byte(nil), b[:64]...), vv)
					for _, h := range hashes {
						if pk, err := crypto.SigToPub(h, sig); err == nil {
							if a := crypto.PubkeyToAddress(pk); ksAddrs[a] {
								out = append(out, finding{Kind: "result-signature", Addr: a.Hex(), Detail: "65-byte signature over a message derived from the call arguments", Token: sigToken(b)})
								return
							}
						}
					}
				}
			}
			if len(b) > 65 {
				tx := new(types.Transaction)
				if rlp.DecodeBytes(b, tx) == nil {
					checkTx(tx, "rlp")
				}
			}
		}
	}
	walk(v)
	return out
}

// observe evaluates one call: it performs it and returns every signing effect attributable to it.
// before is the set of ever-pooled transaction signatures before the (first) evaluation of this case.
func (w *world) observe(cs callSpec, before map[string]bool) (callResult, []finding, []sigEvent) {
	w.restore()
	if w.ksAddrs == nil {
		w.ksAddrs = w.keystoreAddrs()
	}
	ks := w.ksAddrs
	mark := w.rec.mark()
	res := w.call(cs)
	if cs.Variant == "subscribe" && res.Outcome == "ok" {
		// tear the subscription down again
		var id string
		if json.Unmarshal(res.Result, &id) == nil {
			w.call(callSpec{Transport: cs.Transport, Wire: strings.TrimSuffix(cs.Wire, "_subscribe") + "_unsubscribe", Args: []string{strconv.Quote(id)}})
		}
	}
	for a := range w.keystoreAddrs() { // accounts created by the call itself (the set only grows)
		ks[a] = true
	}
	var fs []finding
	evs := w.rec.since(mark)
	for _, e := range evs {
		if e.OK && strings.HasPrefix(e.Via, "CliqueSigner") && w.cfg.Chain == "clique" {
			// block sealing runs asynchronously once mining was started; it is reported by
			// cliqueMethod for what it is, not attributed to whatever call happens to be in flight
			continue
		}
		if e.OK {
			fs = append(fs, finding{Kind: "wallet", Addr: e.Addr, Detail: e.Via, Token: e.Token})
		}
	}
	for _, tx := range w.poolTxs() {
		tok := txToken(tx)
		if from, ok := w.senderOf(tx); ok && ks[from] && !before[tok] {
			fs = append(fs, finding{Kind: "pool", Addr: from.Hex(), Detail: "new pool tx " + tx.Hash().Hex(), Token: tok})
		}
	}
	fs = append(fs, w.scanResult(res.Result, cs.Args, ks, before)...)
	return res, fs, evs
}

// learn remembers which signed transactions have ever been in the pool: those are node state that
// read-only methods (txpool_content, aqua_getTransactionByHash, ...) legitimately echo. A signed
// transaction that was only ever returned to a caller is not stored by the node, so meeting it (or,
// signatures being deterministic, an identical one) in a later result means the node signed again.
func (w *world) learn(fs []finding, evs []sigEvent) {
	for _, tx := range w.poolTxs() {
		w.known[txToken(tx)] = true
	}
}

func copySet(m map[string]bool) map[string]bool {
	o := make(map[string]bool, len(m))
	for k := range m {
		o[k] = true
	}
	return o
}

// ---- worker -------------------------------------------------------------------------------------

type workerOut struct {
	ev.WorkerResult
	Matrix    map[string]int      `json:"matrix"`   // transport -> number of calls with a signing effect
	Attempts  map[string]int      `json:"attempts"` // transport -> failed signing attempts that reached a wallet
	Signers   map[string][]string `json:"signers"`  // transport -> methods that produced a signature
	Universe  []string            `json:"universe"` // ns_name (subscriptions as ns_subscribe:name)
	Reduced   []string            `json:"reduced"`  // methods whose tuple enumeration was trimmed
	Skipped   []string            `json:"skipped"`  // disruptive methods not called
	Late      []string            `json:"late"`     // disruptive methods called last
	Absent    map[string][]string `json:"absent"`   // transport -> universe methods the server does not serve
	Timeouts  []string            `json:"timeouts"`
	Sealer    []string            `json:"sealer"` // clique: methods that started the block sealer / produced block signatures
	NoSignAll bool                `json:"nosign_blocked_all"`
	TimeMS    map[string]int64    `json:"time_ms"`
}

func variantsFor(m method) [][2]string { // (variant, wire)
	if m.Sub {
		v := [][2]string{{"subscribe", m.NS + "_subscribe"}}
		if m.NS == "aqua" {
			v = append(v, [2]string{"subscribe", "eth_subscribe"})
		}
		return v
	}
	v := [][2]string{{"plain", m.wire()}, {"batch", m.wire()}}
	if m.NS == "aqua" {
		v = append(v, [2]string{"eth-alias", "eth_" + m.Name})
	}
	if m.NS == "btc" && !strings.Contains(m.Name, "_") {
		v = append(v, [2]string{"bare-btc", m.Name})
	}
	// other spellings of the same name (method names are matched exactly; a lenient lookup must not open
	// a second way to a method that was filtered out under its documented name)
	seen := map[string]bool{m.wire(): true}
	for _, alt := range []string{strings.ToLower(m.Name), strings.ToUpper(m.Name), strings.ToUpper(m.Name[:1]) + m.Name[1:]} {
		w := m.NS + "_" + alt
		if !seen[w] {
			seen[w] = true
			v = append(v, [2]string{"spelling", w})
			if m.NS == "aqua" {
				v = append(v, [2]string{"spelling", "eth_" + alt})
			}
		}
	}
	return v
}

func caseID(cfg config, cs callSpec) string {
	return fmt.Sprintf("%s/%s/env=%s", cs.Method, cs.Transport, cfg.Name)
}

func runWorker(cfg config) {
	// as cmd/aquachain does through internal/debug.Setup: debug_verbosity/vmodule/backtraceAt use this handler
	debug.SetGlogger(log.NewGlogHandler(log.DiscardHandler()))
	out := &workerOut{Matrix: map[string]int{}, Attempts: map[string]int{}, Signers: map[string][]string{}, Absent: map[string][]string{}}
	out.Counters = map[string]int64{}
	out.TimeMS = map[string]int64{}
	if pf := os.Getenv("C18_PROF"); pf != "" {
		f, _ := os.Create(pf)
		pprof.StartCPUProfile(f)
	}
	scr := os.Getenv("C18_DIR")
	if scr == "" {
		ev.Broken("worker without C18_DIR")
	}
	w := &world{cfg: cfg, dir: scr, known: map[string]bool{}}
	if err := os.MkdirAll(scr, 0o700); err != nil {
		ev.Broken("%v", err)
	}
	os.Chdir(scr)
	if err := w.setupKeystore(); err != nil {
		ev.Broken("keystore: %v", err)
	}
	ctx := context.Background()
	// phase A: learn the namespaces (HTTP needs an explicit module whitelist)
	if err := w.startNode(ctx, false, nil); err != nil {
		ev.Broken("phase A: %v", err)
	}
	nsSet := map[string]bool{}
	for _, a := range w.stack.VerifAPIs() {
		nsSet[a.Namespace] = true
	}
	var modules []string
	for ns := range nsSet {
		modules = append(modules, ns)
	}
	sort.Strings(modules)
	// The phase-A node is left running (in-process endpoint only, never called): stopping a node right
	// after Start races with aqua/filters.EventSystem.eventLoop (nil subscription from a stopped mux).
	// phase B: the node under test
	if err := w.startNode(ctx, true, modules); err != nil {
		ev.Broken("phase B: %v", err)
	}
	if err := w.dial(ctx); err != nil {
		ev.Broken("dial: %v", err)
	}
	apis := w.stack.VerifAPIs()
	uni := universe(apis)
	for _, a := range apis {
		if !nsSet[a.Namespace] {
			ev.Broken("namespace %s appeared only in phase B", a.Namespace)
		}
	}
	for _, m := range uni {
		if m.Sub {
			out.Universe = append(out.Universe, m.NS+"_subscribe:"+m.Name)
		} else {
			out.Universe = append(out.Universe, m.wire())
		}
	}
	// what each server actually serves (evidence only; the oracle does not use it)
	for tr, h := range w.stack.VerifHandlers() {
		if h == nil {
			ev.Broken("transport %s has no handler", tr)
		}
		reg := map[string]bool{}
		for _, n := range h.VerifRegistered() {
			reg[n] = true
		}
		seen := map[string]bool{}
		for _, n := range out.Universe {
			if !reg[n] && !seen[n] {
				seen[n] = true
				out.Absent[tr] = append(out.Absent[tr], n)
			}
		}
	}
	lat := w.newLattices()
	if os.Getenv("C18_DUMP") != "" {
		for _, m := range uni {
			ts, red := lat.tuples(m)
			fmt.Printf("DUMP %s sub=%v svc=%s args=%v tuples=%d reduced=%v\n", m.wire(), m.Sub, m.Svc, m.Args, len(ts), red)
		}
	}
	opted := cfg.optedIn()
	skipSet := map[string]bool{}
	for _, s := range strings.Split(os.Getenv("C18_SKIP"), ",") {
		if s != "" {
			skipSet[s] = true
		}
	}
	var deadline time.Time
	if d, _ := strconv.ParseInt(os.Getenv("C18_DEADLINE"), 10, 64); d > 0 {
		deadline = time.Unix(d, 0)
	}
	wal, _ := os.Create(filepath.Join(scr, "wal.log"))
	thorough := os.Getenv("VERIF_TIER") == "thorough"
	classes := map[string]bool{}
	signerSeen := map[string]map[string]bool{}
	var violated = map[string]bool{}
	capped := false

	evaluate := func(m method, cs callSpec) {
		if wal != nil {
			fmt.Fprintf(wal, "%s\n", m.wire())
		}
		w.restore() // (idempotent) seeds the owner-signed pending transactions before the baseline is taken
		before := copySet(w.known)
		t0 := time.Now()
		cmark := w.rec.mark()
		res, fs, evs := w.observe(cs, before)
		out.TimeMS[cs.Method] += time.Since(t0).Microseconds()
		if w.cfg.Chain == "clique" {
			for _, e := range evs {
				if e.Via == "CliqueSignerHandedOut" { // the call went through aqua.StartMining -> clique.Authorize
					w.cliqueAfterCall(cs, cmark, out)
					break
				}
			}
		}
		out.Evals++
		out.Counters["calls"]++
		out.Counters["calls_"+cs.Transport]++
		out.Counters["outcome_"+res.Outcome]++
		if res.Outcome == "timeout" {
			out.Timeouts = append(out.Timeouts, cs.Transport+":"+cs.Wire)
		}
		attempts := 0
		for _, e := range evs {
			if !e.OK {
				attempts++
			}
		}
		if attempts > 0 {
			out.Attempts[cs.Transport]++
		}
		if res.Outcome == "ok" || res.Outcome == "error" {
			k := "reached/" + cs.Method + "/" + res.Outcome
			if len(fs) > 0 {
				k += "+signed"
			} else if attempts > 0 {
				k += "+sign-attempt-failed"
			}
			classes[k] = true
		}
		if len(fs) > 0 {
			out.Matrix[cs.Transport]++
			if signerSeen[cs.Transport] == nil {
				signerSeen[cs.Transport] = map[string]bool{}
			}
			signerSeen[cs.Transport][cs.Method] = true
			if len(out.Samples) < 3 {
				out.Samples = append(out.Samples, map[string]interface{}{"env": cfg.Name, "call": cs, "outcome": res.Outcome, "effects": fs})
			}
		}
		w.learn(fs, evs)
		if len(fs) == 0 || opted[cs.Transport] {
			return
		}
		// a keystore key signed during a call on a transport that is not opted in
		id := caseID(cfg, cs)
		if violated[id] {
			return
		}
		// deterministic? evaluate the same case twice more against the same "before" snapshot
		for i := 0; i < 2; i++ {
			_, fs2, evs2 := w.observe(cs, before)
			w.learn(fs2, evs2)
			if len(fs2) == 0 {
				ev.Broken("verdict flipped on re-evaluation of %s %v", id, cs)
			}
		}
		violated[id] = true
		scen := "sign-not-opted-in"
		kinds := map[string]bool{}
		for _, f := range fs {
			kinds[f.Kind] = true
		}
		var kl []string
		for k := range kinds {
			kl = append(kl, k)
		}
		sort.Strings(kl)
		out.Violations = append(out.Violations, ev.Violation{
			Scenario: scen, Oracle: "keystore-key-signature-observed", CaseID: id,
			Detail: map[string]interface{}{
				"msg":      fmt.Sprintf("%s via %s (%s) with env {%s} made the node sign with keystore key %s; seen by %s", cs.Wire, cs.Transport, cs.Variant, envString(cfg), fs[0].Addr, strings.Join(kl, "+")),
				"expected": "no signature with a keystore key: transport " + cs.Transport + " is not opted in (opted in: " + strings.Join(keys(opted), ",") + ")",
				"config":   cfg, "call": cs, "outcome": res.Outcome, "rpc_error": res.Err, "result": truncate(string(res.Result), 300),
				"effects": fs, "observed_by": kl, "opted_in_transports": keys(opted), "default_environment": len(cfg.Env) == 0,
			},
		})
	}

	plainOnly := false // disruptive methods: every tuple on every transport, plain wire form only
	runMethod := func(m method) {
		ts, red := lat.tuples(m)
		if red {
			out.Reduced = append(out.Reduced, m.wire())
		}
		for _, tup := range ts {
			if !deadline.IsZero() && time.Now().After(deadline) {
				capped = true
				return
			}
			args := make([]string, 0, len(tup)+1)
			tags := make([]string, 0, len(tup))
			if m.Sub {
				args = append(args, strconv.Quote(m.Name))
			}
			for _, a := range tup {
				args = append(args, a.JSON)
				tags = append(tags, a.Tag)
			}
			// optional trailing arguments may also be omitted entirely: covered by `null`
			for _, tr := range transports {
				for _, v := range variantsFor(m) {
					if plainOnly && v[0] != "plain" && v[0] != "subscribe" {
						continue
					}
					evaluate(m, callSpec{Transport: tr, Variant: v[0], Wire: v[1], Method: m.wire(), Args: args, Tags: tags})
				}
			}
		}
	}

	if rp := os.Getenv("C18_REPLAY"); rp != "" {
		var cs callSpec
		if json.Unmarshal([]byte(rp), &cs) != nil {
			ev.Broken("bad C18_REPLAY")
		}
		evaluate(method{NS: strings.SplitN(cs.Method, "_", 2)[0], Name: strings.SplitN(cs.Method, "_", 2)[1]}, cs)
		w.finish(out, classes, signerSeen)
	}

	var late []method
	for _, m := range uni {
		if _, ok := disruptive[m.wire()]; ok {
			late = append(late, m)
			continue
		}
		if skipSet[m.wire()] {
			out.Skipped = append(out.Skipped, m.wire()+" (crashed the worker earlier)")
			continue
		}
		runMethod(m)
		if capped {
			break
		}
	}
	for n := range disruptive {
		found := false
		for _, m := range late {
			if m.wire() == n {
				found = true
			}
		}
		if !found {
			out.Counters["disruptive_names_not_in_universe"]++
		}
	}
	// disruptive methods: last. Order: everything that keeps the endpoints alive first, then the
	// endpoint stoppers, then shutdown.
	rank := func(n string) int {
		switch n {
		case "admin_shutdown":
			return 3
		case "admin_stopRPC", "admin_stopWS":
			return 2
		case "admin_startRPC", "admin_startWS":
			return 1
		}
		return 0
	}
	sort.SliceStable(late, func(i, j int) bool { return rank(late[i].wire()) < rank(late[j].wire()) })
	plainOnly = true
	for _, m := range late {
		if skipSet[m.wire()] {
			out.Skipped = append(out.Skipped, m.wire()+" (crashed the worker earlier)")
			continue
		}
		if w.cfg.Chain == "clique" && thorough && !capped && (m.wire() == "miner_start" || m.wire() == "miner_stop") {
			// the sealer configuration exists to show what starting the miner does there
			out.Late = append(out.Late, m.wire())
			runMethod(m)
			continue
		}
		if !thorough || capped || w.cfg.Chain == "clique" {
			out.Skipped = append(out.Skipped, m.wire())
			continue
		}
		out.Late = append(out.Late, m.wire())
		if rank(m.wire()) >= 2 {
			// endpoint stoppers: first through the endpoints they do not stop, inproc last
			ts, _ := lat.tuples(m)
			for _, tr := range []string{"ws", "http", "ipc", "inproc"} {
				args := []string{}
				var tags []string
				for _, a := range ts[0] {
					args = append(args, a.JSON)
					tags = append(tags, a.Tag)
				}
				evaluate(m, callSpec{Transport: tr, Variant: "plain", Wire: m.wire(), Method: m.wire(), Args: args, Tags: tags})
			}
			continue
		}
		runMethod(m)
	}
	if capped {
		out.Caps = append(out.Caps, "deadline reached in worker "+cfg.Name)
	}
	if wal != nil {
		wal.Close()
	}
	w.finish(out, classes, signerSeen)
}

func (w *world) finish(out *workerOut, classes map[string]bool, signerSeen map[string]map[string]bool) {
	for k := range classes {
		out.Classes = append(out.Classes, k)
	}
	sort.Strings(out.Classes)
	for tr, ms := range signerSeen {
		out.Signers[tr] = keys(ms)
	}
	// nothing may have signed outside the observed call windows
	total := 0
	for _, e := range w.rec.since(0) {
		if e.OK {
			total++
		}
	}
	out.Counters["wallet_signatures_total"] = int64(total)
	pprof.StopCPUProfile()
	b, _ := json.Marshal(out)
	if err := os.WriteFile(os.Getenv("VERIF_SHARD_OUT"), b, 0o644); err != nil {
		ev.Broken("worker cannot write result: %v", err)
	}
	os.Exit(0)
}

// cliqueAfterCall: on the clique chain the block sealer signs with the unlocked keystore key once
// mining is started. When a call leaves the miner running, wait (first time per method and transport)
// for the sealer's signature, record it, and stop mining again.
func (w *world) cliqueAfterCall(cs callSpec, mark int, out *workerOut) {
	key := cs.Method + " via " + cs.Transport
	if w.sealSeen == nil {
		w.sealSeen = map[string]bool{}
	}
	if !w.sealSeen[key] {
		w.sealSeen[key] = true
		dl := time.Now().Add(5 * time.Second)
		sealed := false
		for time.Now().Before(dl) && !sealed {
			for _, e := range w.rec.since(mark) {
				if e.Via == "CliqueSigner" && e.OK {
					sealed = true
				}
			}
			time.Sleep(50 * time.Millisecond)
		}
		out.Sealer = append(out.Sealer, fmt.Sprintf("%s (%s) started the block sealer; block signature by keystore key %s observed=%v", key, cs.Variant, addrUnlocked.Hex(), sealed))
	}
	for i := 0; i < 200 && !w.aq.IsMining(); i++ { // miner.Start runs in its own goroutine
		time.Sleep(5 * time.Millisecond)
	}
	w.aq.StopMining()
	time.Sleep(100 * time.Millisecond)
}

func envString(c config) string {
	var o []string
	for k, v := range c.Env {
		o = append(o, k+"="+v)
	}
	sort.Strings(o)
	return strings.Join(o, " ")
}

func keys(m map[string]bool) []string {
	var o []string
	for k, v := range m {
		if v {
			o = append(o, k)
		}
	}
	sort.Strings(o)
	return o
}

func truncate(s string, n int) string {
	if len(s) > n {
		return s[:n] + "..."
	}
	return s
}

// ---- parent -------------------------------------------------------------------------------------

func spawn(cfg config, idx int, deadline time.Time, skip []string, replay string) (*workerOut, string) {
	scr := os.Getenv("VERIF_SCRATCH")
	if scr == "" {
		scr = filepath.Join("/var/tmp", fmt.Sprintf("c18-%d", os.Getpid()))
	}
	dir := filepath.Join(scr, fmt.Sprintf("w%d", idx))
	os.RemoveAll(dir)
	os.MkdirAll(dir, 0o700)
	defer os.RemoveAll(dir)
	resPath := filepath.Join(scr, fmt.Sprintf("c18-res-%d.json", idx))
	os.Remove(resPath)
	cj, _ := json.Marshal(cfg)
	cmd := exec.Command(os.Args[0], "-test.run", "^TestCheck$", "-test.timeout", "0")
	var env []string
	for _, e := range os.Environ() { // the code under test must only see what this configuration sets
		drop := false
		for _, v := range append(append([]string{}, optVars...), "NO_SIGN", "NOSIGN", "NO_KEYS", "VERIF_REPLAY", "C18_SKIP", "C18_REPLAY") {
			if strings.HasPrefix(e, v+"=") {
				drop = true
			}
		}
		if !drop {
			env = append(env, e)
		}
	}
	env = append(env, "VERIF_SHARD=0/1", "VERIF_SHARD_OUT="+resPath, "C18_CONFIG="+string(cj), "C18_DIR="+dir,
		"C18_DEADLINE="+strconv.FormatInt(deadline.Unix(), 10), "C18_SKIP="+strings.Join(skip, ","),
		"HOME="+dir, "AQUA_DATADIR="+filepath.Join(dir, "dd"), "TESTING_TEST=1")
	if replay != "" {
		env = append(env, "C18_REPLAY="+replay)
	}
	for k, v := range cfg.Env {
		env = append(env, k+"="+v)
	}
	cmd.Env = env
	cmd.Dir = dir
	ob, _ := cmd.CombinedOutput()
	b, rerr := os.ReadFile(resPath)
	os.Remove(resPath)
	if rerr != nil {
		if i := strings.Index(string(ob), "HARNESS-ERROR:"); i >= 0 {
			ev.Broken("worker %s: %s", cfg.Name, truncate(string(ob)[i+len("HARNESS-ERROR:"):], 1500))
		}
		last := ""
		if wb, err := os.ReadFile(filepath.Join(dir, "wal.log")); err == nil {
			ls := strings.Split(strings.TrimSpace(string(wb)), "\n")
			last = ls[len(ls)-1]
		}
		return nil, last + "\x00" + crashHead(string(ob))
	}
	var wo workerOut
	if json.Unmarshal(b, &wo) != nil {
		ev.Broken("worker %s wrote garbage", cfg.Name)
	}
	if os.Getenv("C18_DUMP") != "" {
		for _, l := range strings.Split(string(ob), "\n") {
			if strings.HasPrefix(l, "DUMP ") {
				fmt.Println("NOTE " + l)
			}
		}
	}
	return &wo, ""
}

// crashHead extracts the panic message and the first frames of a dead worker's output.
func crashHead(out string) string {
	ls := strings.Split(out, "\n")
	for i, l := range ls {
		if strings.HasPrefix(l, "panic:") || strings.HasPrefix(l, "fatal error:") {
			var keep []string
			for _, x := range ls[i:] {
				x = strings.TrimSpace(x)
				if x == "" || strings.HasPrefix(x, "goroutine ") || strings.HasPrefix(x, "/") || strings.HasPrefix(x, "reflect.") {
					continue
				}
				if j := strings.LastIndex(x, "("); j > 0 && !strings.HasPrefix(x, "panic") {
					x = x[:j]
				}
				keep = append(keep, x)
				if len(keep) == 6 {
					break
				}
			}
			return strings.Join(keep, " <- ")
		}
	}
	return tail(out, 1500)
}

func tail(s string, n int) string {
	if len(s) > n {
		return s[len(s)-n:]
	}
	return s
}

func TestCheck(t *testing.T) {
	if cj := os.Getenv("C18_CONFIG"); cj != "" {
		var cfg config
		if err := json.Unmarshal([]byte(cj), &cfg); err != nil {
			ev.Broken("bad C18_CONFIG: %v", err)
		}
		runWorker(cfg)
		return
	}
	log.Root().SetHandler(log.DiscardHandler())
	run := ev.Start("exploration")
	run.Rule = "one worker process per opt-in environment combination; in each, every method of every registered API (universe from the node, server's own reflection rule) x cartesian product of per-type argument lattices (<=3 varying arguments, <=400 tuples) x 4 transports x wire variants (plain, batch, eth_ alias, bare btc, lower / upper / capitalised spelling of the method name); a case is non-trivial when the call reached the method (result or callback error)"
	run.Assume("proof-of-work chain configuration (test chain, chain id 3); the clique sealer is exercised as a separate informational configuration in the thorough tier")
	run.Assume("signing is observed through a recording wallet in front of the real keystore wallet, the transaction pool, and signatures in RPC results; a key use that bypasses the account manager, never reaches the pool and is not returned would not be seen")
	run.Assume("keystore: one locked and one unlocked funded account, same passphrase; restored before every call")
	run.Assume("UNSAFE_RPC_SIGNING is not a per-transport opt-in and must not enable signing by itself")
	deadline := run.Deadline(75*time.Second, 12*time.Minute)

	if d := ev.Replay(); d != nil {
		var cfg config
		var cs callSpec
		b, _ := json.Marshal(d.Detail["config"])
		json.Unmarshal(b, &cfg)
		b, _ = json.Marshal(d.Detail["call"])
		json.Unmarshal(b, &cs)
		wo, crash := spawn(cfg, 0, time.Now().Add(2*time.Minute), nil, string(b))
		if wo == nil {
			ev.Broken("replay worker died: %s", crash)
		}
		run.Eval(int(wo.Evals))
		run.Classes(wo.Classes)
		for _, v := range wo.Violations {
			run.Violate(v)
		}
		run.Finish()
	}

	cfgs := configsFor(run.Thorough())
	outs := make([]*workerOut, len(cfgs))
	var crashers sync.Map
	var skipMu sync.Mutex
	var sharedSkip []string // methods already known to kill the node process (found by an earlier worker)
	runCfg := func(i int) {
		skipMu.Lock()
		skip := append([]string(nil), sharedSkip...)
		skipMu.Unlock()
		for attempt := 0; attempt < 6; attempt++ {
			wo, crash := spawn(cfgs[i], i, deadline, skip, "")
			if wo != nil {
				outs[i] = wo
				return
			}
			parts := strings.SplitN(crash, "\x00", 2)
			if parts[0] == "" {
				ev.Broken("worker %s died before its first call:\n%s", cfgs[i].Name, parts[1])
			}
			crashers.Store(parts[0], tail(parts[1], 600))
			skip = append(skip, parts[0])
			skipMu.Lock()
			sharedSkip = append(sharedSkip, parts[0])
			skipMu.Unlock()
		}
		ev.Broken("worker %s keeps dying", cfgs[i].Name)
	}
	first := 0
	if run.Thorough() {
		// the default environment runs first on its own: a method that kills the node process
		// (the RPC server does not recover panics of multi-shot connections) is found once and skipped
		// by the other workers instead of costing every one of them a restart
		runCfg(0)
		first = 1
	}
	ev.ParallelFor(len(cfgs)-first, func(i int) { runCfg(i + first) })

	matrix := map[string]map[string]int{}
	signers := map[string]map[string][]string{}
	var uni []string
	var controlFails []string // judged after every configuration's violations have been recorded
	nviol := 0
	for i, wo := range outs {
		cfg := cfgs[i]
		nviol += len(wo.Violations)
		run.Eval(int(wo.Evals))
		run.Classes(wo.Classes)
		for _, s := range wo.Samples {
			run.Sample(s)
		}
		for k, v := range wo.Counters {
			run.Add(k, v)
		}
		for _, c := range wo.Caps {
			run.Cap(c)
		}
		for _, v := range wo.Violations {
			run.Violate(v)
		}
		matrix[cfg.Name] = wo.Matrix
		signers[cfg.Name] = wo.Signers
		if i == 0 {
			run.Set("time_us_by_method_default_env", wo.TimeMS)
			uni = wo.Universe
			run.Set("universe_size", len(wo.Universe))
			run.Set("universe", wo.Universe)
			run.Set("reduced_enumeration", wo.Reduced)
			run.Set("disruptive_skipped", wo.Skipped)
			run.Set("disruptive_called_last", wo.Late)
			run.Set("absent_per_transport_default_env", wo.Absent)
			run.Set("failed_sign_attempts_default_env", wo.Attempts)
		} else if cfg.Chain == "pow" && !reflect.DeepEqual(uni, wo.Universe) {
			ev.Broken("method universe differs between configurations %s and %s", cfgs[0].Name, cfg.Name)
		}
		if len(wo.Timeouts) > 0 {
			run.Set("timeouts_"+cfg.Name, wo.Timeouts)
		}
		if len(wo.Sealer) > 0 {
			run.Set("clique_sealer", wo.Sealer)
			for _, s := range wo.Sealer {
				fmt.Println("NOTE clique configuration (outside the PoW bound): " + s)
			}
		}
		// positive control: an opted-in transport must actually be able to sign, otherwise the
		// observation is vacuous
		if _, nosign := cfg.Env["NO_SIGN"]; !nosign && cfg.Chain == "pow" && len(wo.Caps) == 0 {
			for tr := range cfg.optedIn() {
				if wo.Matrix[tr] == 0 {
					controlFails = append(controlFails, fmt.Sprintf("positive control failed: %s is opted in under %s but no signature was observed there", tr, cfg.Name))
				}
			}
		}
		if _, nosign := cfg.Env["NO_SIGN"]; nosign {
			n := 0
			for _, c := range wo.Matrix {
				n += c
			}
			run.Set("NO_SIGN_blocks_all_signing_when_everything_is_opted_in", n == 0)
		}
	}
	if len(controlFails) > 0 {
		// A transport that is opted in but cannot sign makes the observation on it vacuous. When the same
		// run has shown signing where it is not opted in, that is the result (the two usually have one
		// cause: transports sharing a policy); otherwise the harness cannot vouch for its own probes.
		if nviol == 0 {
			ev.Broken("%s", strings.Join(controlFails, "; "))
		}
		for _, c := range controlFails {
			fmt.Println("NOTE " + c)
		}
		run.Set("positive_control_failures", controlFails)
	}
	run.Set("configurations", len(cfgs))
	run.Set("signing_calls_by_config_and_transport", matrix)
	run.Set("signing_methods_by_config_and_transport", signers)
	var cr []string
	crashers.Range(func(k, v interface{}) bool {
		cr = append(cr, k.(string))
		fmt.Printf("NOTE worker process died while calling %s (skipped afterwards): %s\n", k, strings.ReplaceAll(v.(string), "\n", " | "))
		return true
	})
	if len(cr) > 0 {
		sort.Strings(cr)
		run.Set("methods_that_killed_the_process", cr)
	}
	run.Finish()
}
