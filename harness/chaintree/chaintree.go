// Package chaintree enumerates small weighted block trees, builds them as real blocks, and
// enumerates arrival histories (linear extensions x batchings x fork-choice coin answers).
// Used by C02 and C03 (DESIGN.md 4/C02, 4/C03).
package chaintree

import (
	"fmt"
	"math/big"
	"sort"
	"strings"

	"gitlab.com/aquachain/aquachain/common"
	"gitlab.com/aquachain/aquachain/core"
	"gitlab.com/aquachain/aquachain/core/types"
	"gitlab.com/aquachain/aquachain/zzverif/chainkit"
)

// Shape is a rooted tree over non-genesis nodes: Parent[i] < i, -1 = child of genesis.
type Shape struct {
	Parent []int
	Diff   []int64
}

func (s Shape) String() string {
	var b strings.Builder
	for i := range s.Parent {
		fmt.Fprintf(&b, "%d<-%d:d%d ", s.Parent[i], i, s.Diff[i])
	}
	return strings.TrimSpace(b.String())
}

// canon is the canonical encoding of the unordered weighted tree (isomorphic shapes collapse).
func (s Shape) canon() string {
	n := len(s.Parent)
	kids := make([][]int, n+1) // index n = genesis
	for i, p := range s.Parent {
		if p < 0 {
			p = n
		}
		kids[p] = append(kids[p], i)
	}
	var enc func(v int) string
	enc = func(v int) string {
		var cs []string
		for _, c := range kids[v] {
			cs = append(cs, enc(c))
		}
		sort.Strings(cs)
		d := int64(0)
		if v < n {
			d = s.Diff[v]
		}
		return fmt.Sprintf("(%d%s)", d, strings.Join(cs, ""))
	}
	return enc(n)
}

// Shapes enumerates every unordered rooted tree with exactly n non-genesis nodes and per-node
// difficulty from diffs, one representative per isomorphism class.
func Shapes(n int, diffs []int64) []Shape {
	seen := map[string]bool{}
	var out []Shape
	parent := make([]int, n)
	diff := make([]int64, n)
	var recP func(i int)
	var recD func(i int)
	recD = func(i int) {
		if i == n {
			s := Shape{Parent: append([]int(nil), parent...), Diff: append([]int64(nil), diff...)}
			c := s.canon()
			if !seen[c] {
				seen[c] = true
				out = append(out, s)
			}
			return
		}
		for _, d := range diffs {
			diff[i] = d
			recD(i + 1)
		}
	}
	recP = func(i int) {
		if i == n {
			recD(0)
			return
		}
		for p := -1; p < i; p++ {
			parent[i] = p
			recP(i + 1)
		}
	}
	recP(0)
	return out
}

// Tree is a shape realised as real blocks.
type Tree struct {
	Shape  Shape
	Blocks []*types.Block
	TD     []*big.Int // reference total difficulty (own arithmetic)
	GenTD  *big.Int
}

// Builder realises shapes as blocks, memoising generated blocks by (parent hash, sibling index).
type Builder struct {
	Env  *chainkit.Env
	memo map[string]*types.Block
	// TxFor, if set, returns the transactions to put into node i of shape s.
	TxFor func(s Shape, i int, g *core.BlockGen, sib int)
	Built int
}

func NewBuilder(env *chainkit.Env) *Builder { return &Builder{Env: env, memo: map[string]*types.Block{}} }

// Build creates the blocks of s. Siblings are told apart by their extra-data byte.
func (b *Builder) Build(s Shape) *Tree {
	n := len(s.Parent)
	t := &Tree{Shape: s, Blocks: make([]*types.Block, n), TD: make([]*big.Int, n), GenTD: new(big.Int).Set(b.Env.Genesis.Difficulty())}
	sibCount := map[int]int{}
	for i := 0; i < n; i++ {
		p := s.Parent[i]
		parent := b.Env.Genesis
		ptd := t.GenTD
		if p >= 0 {
			parent = t.Blocks[p]
			ptd = t.TD[p]
		}
		sib := sibCount[p]
		sibCount[p]++
		key := fmt.Sprintf("%x/%d/%v", parent.Hash(), sib, b.TxFor != nil)
		raw, ok := b.memo[key]
		if !ok {
			blocks, _ := b.Env.Gen(parent, chainkit.FullFaker(), 1, func(_ int, g *core.BlockGen) {
				g.SetExtra([]byte{byte(sib)})
				if b.TxFor != nil {
					b.TxFor(s, i, g, sib)
				}
			})
			raw = blocks[0]
			b.memo[key] = raw
			b.Built++
		}
		t.Blocks[i] = chainkit.Reseal(raw, s.Diff[i], nil)
		t.TD[i] = new(big.Int).Add(ptd, big.NewInt(s.Diff[i]))
	}
	return t
}

// Ancestor returns the node index of the ancestor of node v at block number num (num>=1), or -1 for genesis.
func (t *Tree) Ancestor(v int, num uint64) int {
	for v >= 0 && t.Blocks[v].NumberU64() > num {
		v = t.Shape.Parent[v]
	}
	if v >= 0 && t.Blocks[v].NumberU64() != num {
		return -1
	}
	return v
}

// Index returns the node index of the block with the given hash, -1 for genesis, -2 unknown.
func (t *Tree) Index(h common.Hash, genesis common.Hash) int {
	if h == genesis {
		return -1
	}
	for i, b := range t.Blocks {
		if b.Hash() == h {
			return i
		}
	}
	return -2
}

// Orders enumerates every linear extension of the tree order (parents before children).
func Orders(s Shape) [][]int {
	n := len(s.Parent)
	var out [][]int
	used := make([]bool, n)
	cur := make([]int, 0, n)
	var rec func()
	rec = func() {
		if len(cur) == n {
			out = append(out, append([]int(nil), cur...))
			return
		}
		for i := 0; i < n; i++ {
			if used[i] || (s.Parent[i] >= 0 && !used[s.Parent[i]]) {
				continue
			}
			used[i] = true
			cur = append(cur, i)
			rec()
			cur = cur[:len(cur)-1]
			used[i] = false
		}
	}
	rec()
	return out
}

// Segmentations enumerates every way to cut order into consecutive InsertChain calls such that
// every call is a linked chain segment of length <= maxSeg.
func Segmentations(s Shape, order []int, maxSeg int) [][][]int {
	var out [][][]int
	var rec func(pos int, acc [][]int)
	rec = func(pos int, acc [][]int) {
		if pos == len(order) {
			cp := make([][]int, len(acc))
			copy(cp, acc)
			out = append(out, cp)
			return
		}
		for l := 1; l <= maxSeg && pos+l <= len(order); l++ {
			if l > 1 && s.Parent[order[pos+l-1]] != order[pos+l-2] {
				break
			}
			rec(pos+l, append(acc, order[pos:pos+l]))
		}
	}
	rec(0, nil)
	return out
}
