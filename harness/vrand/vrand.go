// Package vrand replaces math/rand in the overlay copies of core/blockchain.go and
// core/headerchain.go (rewrite "mathrand"), so that the fork-choice coin flip on an exact
// total-difficulty tie is an enumerated environment answer instead of process-global randomness.
package vrand

import (
	"math/rand"
	"sync"
)

type (
	Rand   = rand.Rand
	Source = rand.Source
)

func New(src rand.Source) *rand.Rand   { return rand.New(src) }
func NewSource(seed int64) rand.Source { return rand.NewSource(1) } // deterministic: seed ignored
func Intn(n int) int                   { return 0 }

var (
	mu      sync.Mutex
	script  []float64
	used    int
	def     = 0.25
)

// SetScript installs the answers for the next Float64 calls (then the default 0.25 = "reorg").
func SetScript(s []float64) { mu.Lock(); script = append([]float64(nil), s...); used = 0; mu.Unlock() }

// Used reports how many coin flips were consumed since SetScript.
func Used() int { mu.Lock(); defer mu.Unlock(); return used }

// Float64 is the fork-choice coin.
func Float64() float64 {
	mu.Lock()
	defer mu.Unlock()
	v := def
	if used < len(script) {
		v = script[used]
	}
	used++
	return v
}
