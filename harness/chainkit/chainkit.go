// Package chainkit is scaffolding shared by the chain-level checks (C01-C04, C15): a tiny genesis,
// fixed keys, a block-tree builder on top of the repository's exported core.GenerateChain, and
// helpers to open real core.BlockChain objects on memory databases.
package chainkit

import (
	"context"
	"fmt"
	"math/big"
	"sort"

	"gitlab.com/aquachain/aquachain/aquadb"
	"gitlab.com/aquachain/aquachain/common"
	"gitlab.com/aquachain/aquachain/common/log"
	"gitlab.com/aquachain/aquachain/consensus"
	"gitlab.com/aquachain/aquachain/consensus/aquahash"
	"gitlab.com/aquachain/aquachain/core"
	"gitlab.com/aquachain/aquachain/core/types"
	"gitlab.com/aquachain/aquachain/core/vm"
	"gitlab.com/aquachain/aquachain/crypto"
	"gitlab.com/aquachain/aquachain/params"

	"github.com/btcsuite/btcd/btcec/v2"
)

// Quiet installs a discarding log handler.
func Quiet() { log.Root().SetHandler(log.DiscardHandler()) }

var keyHex = []string{
	"b71c71a67e1177ad4e901695e1b4b9ee17ae16c6668d313eac2f96dbcda3f291",
	"8a1f9a8f95be41cd7ccb6168179afb4504aefe388d1e14474d32c45c72ce7b7a",
	"49a7b37aa6f6645917e7b807e9d1c00d4fa71f18343b0d4122a4d2df64dd6fee",
}

// Env is a genesis plus a generator database that holds the state of every generated block.
type Env struct {
	Config  *params.ChainConfig
	Gspec   *core.Genesis
	GenDB   aquadb.Database
	Genesis *types.Block
	Keys    []*btcec.PrivateKey
	Addrs   []common.Address
	Signer  types.Signer
	Ctx     context.Context
}

// NewEnv creates the environment; alloc may add accounts (e.g. contracts) to the three funded keys.
func NewEnv(config *params.ChainConfig, alloc core.GenesisAlloc) *Env {
	return NewEnvDifficulty(config, alloc, big.NewInt(131072))
}

// NewEnvDifficulty is NewEnv with a chosen genesis difficulty (= genesis total difficulty).
func NewEnvDifficulty(config *params.ChainConfig, alloc core.GenesisAlloc, difficulty *big.Int) *Env {
	e := &Env{Config: config, GenDB: aquadb.NewMemDatabase(), Ctx: context.Background()}
	ga := core.GenesisAlloc{}
	for _, h := range keyHex {
		k, err := crypto.HexToBtcec(h)
		if err != nil {
			panic(err)
		}
		e.Keys = append(e.Keys, k)
		a := crypto.PubkeyToAddress(k.PubKey())
		e.Addrs = append(e.Addrs, a)
		ga[a] = core.GenesisAccount{Balance: new(big.Int).Mul(big.NewInt(1e18), big.NewInt(1000))}
	}
	for a, acc := range alloc {
		ga[a] = acc
	}
	e.Gspec = &core.Genesis{Config: config, GasLimit: 4712388, Difficulty: new(big.Int).Set(difficulty), Alloc: ga}
	e.Genesis = e.Gspec.MustCommit(e.GenDB)
	e.Signer = types.NewEIP155Signer(config.ChainId)
	return e
}

// Gen generates n blocks on parent with the exported builder (states go to the generator db).
func (e *Env) Gen(parent *types.Block, engine consensus.Engine, n int, gen func(i int, g *core.BlockGen)) ([]*types.Block, []types.Receipts) {
	return core.GenerateChain(e.Ctx, e.Config, parent, engine, e.GenDB, n, gen)
}

// Reseal returns block with its header difficulty (and optionally extra) replaced; the state root is
// unchanged, so children can be generated on the result. Only meaningful with the full-fake engine.
func Reseal(b *types.Block, difficulty int64, extra []byte) *types.Block {
	h := types.CopyHeader(b.Header())
	h.Difficulty = big.NewInt(difficulty)
	if extra != nil {
		h.Extra = extra
	}
	return b.WithSeal(h)
}

// NewChainDB returns a fresh database holding only the genesis block.
func (e *Env) NewChainDB() *aquadb.MemDatabase {
	db := aquadb.NewMemDatabase()
	e.Gspec.MustCommit(db)
	return db
}

// Open opens a real BlockChain on db.
func (e *Env) Open(db aquadb.Database, cc *core.CacheConfig, engine consensus.Engine) (*core.BlockChain, error) {
	return core.NewBlockChain(e.Ctx, db, cc, e.Config, engine, vm.Config{})
}

// Archive / Pruning cache configurations.
func Archive() *core.CacheConfig { return &core.CacheConfig{Disabled: true} }
func Pruning() *core.CacheConfig {
	return &core.CacheConfig{TrieNodeLimit: 256 * 1024 * 1024, TrieTimeLimit: 5 * 60 * 1e9}
}

// FullFaker / Faker engines.
func FullFaker() consensus.Engine { return aquahash.NewFullFaker() }
func Faker() consensus.Engine     { return aquahash.NewFaker() }

// Image returns a sorted key/value dump of a memory database (hex), used to compare images.
func Image(db *aquadb.MemDatabase) []string {
	var out []string
	for _, k := range db.Keys() {
		v, _ := db.Get(k)
		out = append(out, fmt.Sprintf("%x=%x", k, v))
	}
	sort.Strings(out)
	return out
}

// CopyDB clones a memory database.
func CopyDB(db *aquadb.MemDatabase) *aquadb.MemDatabase {
	n := aquadb.NewMemDatabase()
	for _, k := range db.Keys() {
		v, _ := db.Get(k)
		n.Put(k, v)
	}
	return n
}

// Transfer builds a signed value transfer from key index `from`.
func (e *Env) Transfer(from int, nonce uint64, to common.Address, value int64) *types.Transaction {
	tx, err := types.SignTx(types.NewTransaction(nonce, to, big.NewInt(value), params.TxGas, big.NewInt(1), nil), e.Signer, e.Keys[from])
	if err != nil {
		panic(err)
	}
	return tx
}

// Transfer0 is Transfer with the nonce taken from the block being generated.
func (e *Env) Transfer0(g *core.BlockGen, from int, to common.Address, value int64) *types.Transaction {
	return e.Transfer(from, g.TxNonce(e.Addrs[from]), to, value)
}
