// C05 - coins are created only by the block reward schedule.
//
// Engine E4 (+ a small E2 chain scenario). The sum of all balances (state.RawDump) is measured before and
// after (a) core.ApplyTransaction for one transaction that drives a value-moving macro program,
// (b) StateProcessor.Process for a hand-assembled block (transactions, uncles, the HF4 block, the
// 42 000 000 cut-off), (c) Engine.Finalize alone at synthetic heights with every uncle set, and
// (d) every block of generated chains imported with InsertChain across the fork schedule.
// The reference is the issuance schedule of the property text, written here as integer arithmetic.
// A vm.Tracer records whether a SELFDESTRUCT executed in a frame that was not reverted: only then
// "<=" instead of "==" is required. DESIGN.md section 4/C05.
package c05

import (
	"context"
	"encoding/hex"
	"fmt"
	"math/big"
	"strings"
	"sync"
	"testing"
	"time"

	"gitlab.com/aquachain/aquachain/aquadb"
	"gitlab.com/aquachain/aquachain/common"
	"gitlab.com/aquachain/aquachain/common/log"
	"gitlab.com/aquachain/aquachain/consensus/aquahash"
	"gitlab.com/aquachain/aquachain/consensus/misc"
	"gitlab.com/aquachain/aquachain/core"
	"gitlab.com/aquachain/aquachain/core/state"
	"gitlab.com/aquachain/aquachain/core/types"
	"gitlab.com/aquachain/aquachain/core/vm"
	"gitlab.com/aquachain/aquachain/crypto"
	"gitlab.com/aquachain/aquachain/params"
	"gitlab.com/aquachain/aquachain/zzverif/ev"
)

// ---- cast ---------------------------------------------------------------------------------------

func addrN(tail string) common.Address { return common.HexToAddress("0x" + tail) }

var (
	senderKey, _ = crypto.HexToBtcec("b71c71a67e1177ad4e901695e1b4b9ee17ae16c6668d313eac2f96dbcda3f291")
	senderAddr   = crypto.PubkeyToAddress(senderKey.PubKey())

	addrA      = addrN("00000000000000000000000000000000000000a1") // outer contract (tx recipient), balance 100
	addrM      = addrN("00000000000000000000000000000000000000b1") // middle contract, balance 50
	addrEOA    = addrN("0000000000000000000000000000000000000e0a") // plain account, balance 3
	addrMiss   = addrN("0000000000000000000000000000000000000e0b") // absent
	addrSha    = addrN("0000000000000000000000000000000000000002") // precompile (absent from state)
	addrFresh  = addrN("000000000000000000000000000000000000f4e5") // absent self-destruct beneficiary
	addrMiner  = addrN("00000000000000000000000000000000000c01b5") // coinbase, balance 9
	addrUncleX = addrN("00000000000000000000000000000000000c01b6")
	addrUncleY = addrN("00000000000000000000000000000000000c01b7")

	aqua     = new(big.Int).Exp(big.NewInt(10), big.NewInt(18), nil)
	maxMoney = uint64(42000000)
)

// leaf behaviours (runtime code; also used as init code for CREATE)
type leaf struct {
	name string
	code string
	addr common.Address
	sd   bool
}

var leaves = []*leaf{
	{name: "stop", code: "00"},
	{name: "revert", code: "60006000fd"},
	{name: "oog", code: "600063ffffffff52"}, // MSTORE at 2^32: out of gas for every limit
	{name: "invalid", code: "fe"},
	{name: "sd-self", code: "30ff", sd: true},
	{name: "sd-caller", code: "33ff", sd: true},
	{name: "sd-fresh", code: "73" + hex.EncodeToString(addrFresh[:]) + "ff", sd: true},
	{name: "sd-coinbase", code: "41ff", sd: true},
	// re-enter: CALL(gas, CALLER, value = own balance, in = 1 byte) ; POP ; STOP
	{name: "reenter", code: "6000600060016000" + "3031" + "33" + "5a" + "f1" + "50" + "00"},
}

// non-code targets of a call
var plainTargets = []struct {
	name string
	addr common.Address
}{{"eoa", addrEOA}, {"missing", addrMiss}, {"precompile", addrSha}}

func init() {
	for i, l := range leaves {
		l.addr = addrN(fmt.Sprintf("00000000000000000000000000000000001eaf%02x", i))
	}
}

var actions = []string{"CALL", "CALLCODE", "DELEGATECALL", "STATICCALL", "CREATE"}
var actionOp = map[string]string{"CALL": "f1", "CALLCODE": "f2", "DELEGATECALL": "f4", "STATICCALL": "fa", "CREATE": "f0"}
var valueNames = []string{"0", "1", "bal", "bal+1"}
var valueExpr = map[string]string{"0": "6000", "1": "6001", "bal": "3031", "bal+1": "6001303101"}
var trailers = []string{"stop", "revert", "invalid"}
var trailerCode = map[string]string{"stop": "00", "revert": "60006000fd", "invalid": "fe"}

func hasValue(action string) bool {
	return action == "CALL" || action == "CALLCODE" || action == "CREATE"
}

// actionCode: bytecode that performs the action and leaves the result on the stack.
func actionCode(action, value string, target common.Address, initCode string) string {
	switch action {
	case "CALL", "CALLCODE":
		return "6000600060006000" + valueExpr[value] + "73" + hex.EncodeToString(target[:]) + "5a" + actionOp[action]
	case "DELEGATECALL", "STATICCALL":
		return "6000600060006000" + "73" + hex.EncodeToString(target[:]) + "5a" + actionOp[action]
	case "CREATE":
		n := len(initCode) / 2
		if n < 1 || n > 32 {
			panic("init code must fit a word")
		}
		// PUSHn init ; PUSH1 0 ; MSTORE ; PUSH1 n ; PUSH1 32-n ; value ; CREATE
		return fmt.Sprintf("%02x", 0x5f+n) + initCode + "6000" + "52" + fmt.Sprintf("60%02x60%02x", n, 32-n) + valueExpr[value] + "f0"
	}
	panic(action)
}

// contractCode: re-entry guard (non-empty calldata => STOP) + action + POP + trailer.
func contractCode(body, trailer string) []byte {
	b := body + "50" + trailerCode[trailer]
	dest := 4 + len(b)/2
	if dest > 255 {
		panic("program too long for PUSH1 jump")
	}
	s := "36" + fmt.Sprintf("60%02x", dest) + "57" + b + "5b" + "00"
	out, err := hex.DecodeString(s)
	if err != nil {
		panic(err)
	}
	return out
}

// ---- epochs -------------------------------------------------------------------------------------

type epoch struct {
	name   string
	cfg    *params.ChainConfig
	eip158 bool
	quick  bool
}

func mkcfg(id int64, hf params.ForkMap, e155, e158, byz *big.Int) *params.ChainConfig {
	return &params.ChainConfig{ChainId: big.NewInt(id), HomesteadBlock: big.NewInt(0), EIP150Block: big.NewInt(0),
		EIP155Block: e155, EIP158Block: e158, ByzantiumBlock: byz, Aquahash: new(params.AquahashConfig), HF: hf}
}

var z = big.NewInt(0)

// instruction set x EIP-158: Homestead set (mainnet < HF5), Byzantium set (test config before HF5), "spring" set (>= HF5);
// the combinations that occur on mainnet / the test config are in the quick tier, the synthetic ones in thorough.
var epochs = []*epoch{
	{name: "homestead/158-off", cfg: mkcfg(88001, params.ForkMap{1: z}, nil, nil, nil), quick: true},
	{name: "spring/158-off", cfg: mkcfg(88002, params.ForkMap{1: z, 5: z}, nil, nil, nil), quick: true},
	{name: "spring+byz/158-on", cfg: mkcfg(88003, params.ForkMap{1: z, 5: z, 7: z}, z, z, z), eip158: true, quick: true},
	{name: "byzantium/158-on", cfg: mkcfg(88004, params.ForkMap{1: z}, z, z, z), eip158: true},
	{name: "homestead/158-on", cfg: mkcfg(88005, params.ForkMap{1: z}, nil, z, nil), eip158: true},
	{name: "spring/158-on", cfg: mkcfg(88006, params.ForkMap{1: z, 5: z}, nil, z, nil), eip158: true},
}

// ---- tracer -------------------------------------------------------------------------------------

// sdTracer decides whether a SELFDESTRUCT executed in a frame none of whose ancestors (itself included) was reverted.
type sdTracer struct {
	frames    []bool // per open frame: a surviving SELFDESTRUCT happened in it or in a successful descendant
	executed  int    // SELFDESTRUCT instructions executed at all
	effective bool   // ... in frames that survived up to a successful top level (accumulated over transactions)
	unsure    bool
}

func (t *sdTracer) CaptureStart(from, to common.Address, create bool, input []byte, gas uint64, value *big.Int) error {
	t.frames = t.frames[:0]
	return nil
}

func (t *sdTracer) step(op vm.OpCode, stack *vm.Stack, depth int, err error) {
	if len(t.frames) > depth+1 {
		t.unsure = true // cannot happen: a frame always executes (or faults on) an instruction after a child returns
	}
	for len(t.frames) > depth { // a child frame returned into this one: its result is on top of the stack
		child := t.frames[len(t.frames)-1]
		t.frames = t.frames[:len(t.frames)-1]
		d := stack.Data()
		if len(d) == 0 {
			t.unsure = true
			continue
		}
		if child && d[len(d)-1].Sign() != 0 && len(t.frames) > 0 {
			t.frames[len(t.frames)-1] = true
		}
	}
	for len(t.frames) < depth {
		t.frames = append(t.frames, false)
	}
	if op == vm.SELFDESTRUCT && err == nil {
		t.executed++
		t.frames[depth-1] = true
	}
}

func (t *sdTracer) CaptureState(env *vm.EVM, pc uint64, op vm.OpCode, gas, cost uint64, memory *vm.Memory, stack *vm.Stack, contract *vm.Contract, depth int, err error) error {
	t.step(op, stack, depth, err)
	return nil
}

func (t *sdTracer) CaptureFault(env *vm.EVM, pc uint64, op vm.OpCode, gas, cost uint64, memory *vm.Memory, stack *vm.Stack, contract *vm.Contract, depth int, err error) error {
	return nil
}

func (t *sdTracer) CaptureEnd(output []byte, gasUsed uint64, tm time.Duration, err error) error {
	if len(t.frames) > 1 {
		t.unsure = true
	}
	if err == nil && len(t.frames) >= 1 && t.frames[0] {
		t.effective = true
	}
	t.frames = t.frames[:0]
	return nil
}

func (t *sdTracer) mayBurn() bool { return t.effective || (t.unsure && t.executed > 0) }

// ---- state helpers ------------------------------------------------------------------------------

type ctx struct {
	sdb    state.Database
	roots  map[string]common.Hash
	n      int
	signed map[string]*types.Transaction
	chains map[string]*core.BlockChain
}

func newCtx() *ctx {
	return &ctx{sdb: state.NewDatabase(aquadb.NewMemDatabase()), roots: map[string]common.Hash{}, signed: map[string]*types.Transaction{}, chains: map[string]*core.BlockChain{}}
}

func (x *ctx) close() {
	for _, bc := range x.chains {
		bc.Stop()
	}
}

// chain returns a BlockChain object for the config (Process needs one for Config() and BLOCKHASH only).
func (x *ctx) chain(cfg *params.ChainConfig) *core.BlockChain {
	key := cfg.ChainId.String() + cfg.HF.String()
	if bc, ok := x.chains[key]; ok {
		return bc
	}
	db := aquadb.NewMemDatabase()
	gen := &core.Genesis{Config: cfg, GasLimit: 10000000, Difficulty: big.NewInt(131072), Alloc: core.GenesisAlloc{senderAddr: {Balance: big.NewInt(1)}}}
	if _, err := gen.Commit(db); err != nil {
		ev.Broken("genesis: %v", err)
	}
	bc, err := core.NewBlockChain(context.Background(), db, nil, cfg, aquahash.NewFaker(), vm.Config{})
	if err != nil {
		ev.Broken("chain: %v", err)
	}
	x.chains[key] = bc
	return bc
}

// baseState: committed pre-state shared by the program cases; extra funds listed HF4 addresses when asked.
func (x *ctx) baseState(hf4Funded int) *state.StateDB {
	if x.n > 3000 {
		x.sdb = state.NewDatabase(aquadb.NewMemDatabase())
		x.roots = map[string]common.Hash{}
		x.n = 0
	}
	x.n++
	key := fmt.Sprint(hf4Funded)
	root, ok := x.roots[key]
	if !ok {
		st, _ := state.New(common.Hash{}, x.sdb)
		st.AddBalance(senderAddr, new(big.Int).Mul(aqua, big.NewInt(1000)))
		st.AddBalance(addrA, big.NewInt(100))
		st.SetNonce(addrA, 1)
		st.SetCode(addrA, []byte{0})
		st.AddBalance(addrM, big.NewInt(50))
		st.SetNonce(addrM, 1)
		st.SetCode(addrM, []byte{0})
		st.AddBalance(addrEOA, big.NewInt(3))
		st.AddBalance(addrMiner, big.NewInt(9))
		for _, l := range leaves {
			st.AddBalance(l.addr, big.NewInt(7))
			st.SetNonce(l.addr, 1)
			c, _ := hex.DecodeString(l.code)
			st.SetCode(l.addr, c)
		}
		for i := 0; i < hf4Funded; i++ {
			st.AddBalance(common.HexToAddress(misc.DeallocListHF4[i*1000]), new(big.Int).Mul(aqua, big.NewInt(int64(5+i))))
		}
		var err error
		root, err = st.Commit(false)
		if err != nil {
			ev.Broken("commit: %v", err)
		}
		x.roots[key] = root
	}
	st, err := state.New(root, x.sdb)
	if err != nil {
		ev.Broken("state.New: %v", err)
	}
	return st
}

// supply sums every balance of the committed state; neg reports a negative balance.
func supply(st *state.StateDB) (sum *big.Int, neg string) {
	sum = new(big.Int)
	for a, acc := range st.RawDump().Accounts {
		b, ok := new(big.Int).SetString(acc.Balance, 10)
		if !ok {
			ev.Broken("unparsable balance %q", acc.Balance)
		}
		if b.Sign() < 0 {
			neg = a + "=" + acc.Balance
		}
		sum.Add(sum, b)
	}
	return sum, neg
}

func (x *ctx) tx(ep *epoch, num uint64, nonce uint64, to common.Address, value int64) *types.Transaction {
	return x.txGas(ep, num, nonce, to, value, 0)
}

func (x *ctx) txGas(ep *epoch, num uint64, nonce uint64, to common.Address, value int64, gas uint64) *types.Transaction {
	if gas == 0 {
		gas = 600000
	}
	key := fmt.Sprintf("%s/%d/%d/%s/%d/%d", ep.name, num, nonce, to.Hex(), value, gas)
	if t, ok := x.signed[key]; ok {
		return t
	}
	raw := types.NewTransaction(nonce, to, big.NewInt(value), gas, big.NewInt(2), nil)
	t, err := types.SignTx(raw, types.MakeSigner(ep.cfg, new(big.Int).SetUint64(num)), senderKey)
	if err != nil {
		ev.Broken("sign: %v", err)
	}
	x.signed[key] = t
	return t
}

// ---- program cases ------------------------------------------------------------------------------

type progCase struct {
	Level  string `json:"level"` // "tx" | "block"
	Epoch  int    `json:"epoch"`
	TxVal  int64  `json:"txval"`
	A1     string `json:"a1"`
	V1     string `json:"v1"`
	T1     string `json:"t1"`     // trailer of the outer contract
	Target string `json:"target"` // leaf name, plain target name, or "M"
	Rep    int    `json:"rep"`    // depth 1: the outer action is performed once, twice or three times in a row
	A2     string `json:"a2,omitempty"`
	V2     string `json:"v2,omitempty"`
	T2     string `json:"t2,omitempty"`
	Leaf2  string `json:"leaf2,omitempty"`
	Gas    uint64 `json:"gas,omitempty"` // gas limit of the transaction (0: 600000)
}

func (p progCase) String() string {
	s := fmt.Sprintf("%s:%s,txval=%d,A:%s(%s)->%s", p.Level, epochs[p.Epoch].name, p.TxVal, p.A1, p.V1, p.Target)
	if p.Rep >= 2 {
		s += fmt.Sprintf(" x%d", p.Rep)
	}
	s += ";" + p.T1
	if p.Target == "M" {
		s += fmt.Sprintf(",M:%s(%s)->%s;%s", p.A2, p.V2, p.Leaf2, p.T2)
	}
	return s
}

func leafByName(n string) *leaf {
	for _, l := range leaves {
		if l.name == n {
			return l
		}
	}
	return nil
}

func targetAddr(name string) (common.Address, string, bool) {
	if l := leafByName(name); l != nil {
		return l.addr, l.code, true
	}
	for _, p := range plainTargets {
		if p.name == name {
			return p.addr, "", true
		}
	}
	return common.Address{}, "", false
}

// codes returns the outer and middle contract code of a case.
func (p progCase) codes() (a, m []byte, ok bool) {
	m = []byte{0}
	if p.Target == "M" {
		ta, init, found := targetAddr(p.Leaf2)
		if !found || (p.A2 == "CREATE" && init == "") {
			return nil, nil, false
		}
		m = contractCode(actionCode(p.A2, p.V2, ta, init), p.T2)
		if p.A1 == "CREATE" {
			return nil, nil, false
		}
		return contractCode(actionCode(p.A1, p.V1, addrM, ""), p.T1), m, true
	}
	ta, init, found := targetAddr(p.Target)
	if !found || (p.A1 == "CREATE" && init == "") {
		return nil, nil, false
	}
	body := actionCode(p.A1, p.V1, ta, init)
	if p.Rep >= 2 {
		one := body
		for k := 1; k < p.Rep; k++ {
			body += "50" + one
		}
	}
	return contractCode(body, p.T1), m, true
}

type verdict struct {
	oracle, msg, class string
	tally              string
}

func recovering(f func() *verdict) (v *verdict) {
	defer func() {
		if r := recover(); r != nil {
			v = &verdict{oracle: "panic", msg: fmt.Sprint(r)}
		}
	}()
	return f()
}

func blockReward(height uint64, uncleDist []int) *big.Int {
	r := new(big.Int)
	if height >= maxMoney {
		return r // fees only
	}
	r.Set(aqua)
	for _, d := range uncleDist {
		u := new(big.Int).Mul(aqua, big.NewInt(int64(8-d))) // (8 + uncleHeight - height)/8 AQUA
		r.Add(r, u.Div(u, big.NewInt(8)))
		r.Add(r, new(big.Int).Div(aqua, big.NewInt(32)))
	}
	return r
}

// evalProg runs one macro program through ApplyTransaction (level tx) or Process (level block, height 1).
func evalProg(x *ctx, p progCase) *verdict {
	ep := epochs[p.Epoch]
	codeA, codeM, ok := p.codes()
	if !ok {
		return nil
	}
	tr := &sdTracer{}
	var failed, burnt bool
	v := recovering(func() *verdict {
		st := x.baseState(0)
		before, _ := supply(st)
		st.SetCode(addrA, codeA)
		st.SetCode(addrM, codeM)
		num := big.NewInt(1)
		tx := x.txGas(ep, 1, 0, addrA, p.TxVal, p.Gas)
		hdr := &types.Header{Number: num, Coinbase: addrMiner, GasLimit: 8000000, Time: big.NewInt(240), Difficulty: big.NewInt(131072),
			Version: ep.cfg.GetBlockVersion(num)}
		want := new(big.Int)
		if p.Level == "tx" {
			used := uint64(0)
			st.Prepare(tx.Hash(), common.Hash{}, 0)
			rc, _, err := core.ApplyTransaction(ep.cfg, nil, nil, new(core.GasPool).AddGas(hdr.GasLimit), st, hdr, tx, &used, vm.Config{Debug: true, Tracer: tr})
			if err != nil {
				ev.Broken("harness transaction rejected: %v (%s)", err, p)
			}
			failed = rc.Status == types.ReceiptStatusFailed
		} else {
			bc := x.chain(ep.cfg)
			proc := core.NewStateProcessor(ep.cfg, bc, aquahash.NewFaker())
			blk := types.NewBlock(hdr, []*types.Transaction{tx}, nil, nil)
			rcs, _, _, err := proc.Process(blk, st, vm.Config{Debug: true, Tracer: tr})
			if err != nil {
				ev.Broken("harness block rejected by Process: %v (%s)", err, p)
			}
			failed = rcs[0].Status == types.ReceiptStatusFailed
			want = blockReward(1, nil)
		}
		if _, err := st.Commit(ep.eip158); err != nil {
			return &verdict{oracle: "panic", msg: "commit: " + err.Error()}
		}
		after, neg := supply(st)
		if neg != "" {
			return &verdict{oracle: "negative-balance", msg: neg}
		}
		delta := new(big.Int).Sub(after, before)
		burnt = delta.Cmp(want) < 0
		switch c := delta.Cmp(want); {
		case c > 0:
			return &verdict{oracle: "supply-increased", msg: fmt.Sprintf("sum of balances changed by %s, scheduled issuance %s (selfdestruct executed=%d effective=%v, top-level failed=%v)", delta, want, tr.executed, tr.effective, failed)}
		case c < 0 && !tr.mayBurn():
			return &verdict{oracle: "supply-decreased-without-selfdestruct", msg: fmt.Sprintf("sum of balances changed by %s, scheduled issuance %s, no surviving SELFDESTRUCT (executed=%d, top-level failed=%v)", delta, want, tr.executed, failed)}
		}
		return nil
	})
	if v == nil {
		v = &verdict{}
	}
	out := "ok"
	if failed {
		out = "top-failed"
	}
	sd := "no-sd"
	if tr.effective {
		sd = "sd-survives"
	} else if tr.executed > 0 {
		sd = "sd-reverted"
	}
	tgt := p.Target
	if p.Rep >= 2 {
		tgt += fmt.Sprintf("x%d", p.Rep)
	}
	if p.Target == "M" {
		tgt = "M/" + p.A2 + "/" + p.Leaf2
	}
	v.class = fmt.Sprintf("%s/%s/%s/%s/%s/%s", p.Level, ep.name, p.A1, tgt, out, sd)
	v.tally = out + "/" + sd
	if burnt {
		v.tally += "/supply-decreased"
	}
	return v
}

// enumProgs lists the macro programs of a tier.
func enumProgs(thorough bool) []progCase {
	var out []progCase
	txvals := []int64{13}
	if thorough {
		txvals = []int64{13, 0}
	}
	vals := func(action string, all []string) []string {
		if hasValue(action) {
			return all
		}
		return []string{"0"}
	}
	targetsOf := func(action string) []string {
		var t []string
		if action != "CREATE" {
			for _, p := range plainTargets {
				t = append(t, p.name)
			}
		}
		for _, l := range leaves {
			t = append(t, l.name)
		}
		return t
	}
	for e, ep := range epochs {
		if !thorough && !ep.quick {
			continue
		}
		for _, tv := range txvals {
			for _, level := range []string{"tx", "block"} {
				for _, a1 := range actions {
					for _, v1 := range vals(a1, valueNames) {
						for _, t1 := range trailers {
							// depth 1
							for _, tg := range targetsOf(a1) {
								if a1 == "CREATE" {
									// a frame that creates while holding most of a block's gas (the 63/64 rule has to take
									// gas away from the creating frame, not hand it out twice)
									out = append(out, progCase{Level: level, Epoch: e, TxVal: tv, A1: a1, V1: v1, T1: t1, Target: tg, Rep: 1, Gas: 7000000})
									out = append(out, progCase{Level: level, Epoch: e, TxVal: tv, A1: a1, V1: v1, T1: t1, Target: tg, Rep: 3, Gas: 7000000})
								}
								out = append(out, progCase{Level: level, Epoch: e, TxVal: tv, A1: a1, V1: v1, T1: t1, Target: tg, Rep: 1})
								out = append(out, progCase{Level: level, Epoch: e, TxVal: tv, A1: a1, V1: v1, T1: t1, Target: tg, Rep: 2})
								out = append(out, progCase{Level: level, Epoch: e, TxVal: tv, A1: a1, V1: v1, T1: t1, Target: tg, Rep: 3})
							}
							// depth 2 through the middle contract
							if a1 == "CREATE" || level == "block" && !thorough {
								continue
							}
							v2all := valueNames
							if !thorough { // quick: the two extreme values at the inner level, a successful or reverting outer trailer
								v2all = []string{"1", "bal"}
								if t1 == "invalid" {
									continue
								}
							}
							for _, a2 := range actions {
								for _, v2 := range vals(a2, v2all) {
									for _, t2 := range trailers {
										for _, lf := range targetsOf(a2) {
											out = append(out, progCase{Level: level, Epoch: e, TxVal: tv, A1: a1, V1: v1, T1: t1, Target: "M", A2: a2, V2: v2, T2: t2, Leaf2: lf})
										}
									}
								}
							}
						}
					}
				}
			}
		}
	}
	return out
}

// ---- Finalize alone / hand-made blocks at synthetic heights -------------------------------------

type finCase struct {
	Level  string `json:"level"` // "finalize" | "process"
	Epoch  int    `json:"epoch"`
	Height uint64 `json:"height"`
	Dist   []int  `json:"dist"`   // uncle distances
	Miners []int  `json:"miners"` // per uncle: 0 = the block's miner, 1 = X, 2 = Y
	HF4    int    `json:"hf4"`    // 0: no HF4 at this height; 1: HF4 block, listed addresses unfunded; 2: three listed addresses funded
	WithTx bool   `json:"withtx"`
}

func (f finCase) String() string {
	return fmt.Sprintf("%s:%s,height=%d,uncle-distances=%v,uncle-miners=%v,hf4=%d,tx=%v", f.Level, epochs[f.Epoch].name, f.Height, f.Dist, f.Miners, f.HF4, f.WithTx)
}

type stubChain struct{ cfg *params.ChainConfig }

func (s stubChain) Config() *params.ChainConfig                             { return s.cfg }
func (s stubChain) GetContext() context.Context                             { return context.Background() }
func (s stubChain) CurrentHeader() *types.Header                            { return nil }
func (s stubChain) GetHeader(hash common.Hash, number uint64) *types.Header { return nil }
func (s stubChain) GetHeaderByNumber(number uint64) *types.Header           { return nil }
func (s stubChain) GetHeaderByHash(hash common.Hash) *types.Header          { return nil }
func (s stubChain) GetBlock(hash common.Hash, number uint64) *types.Block   { return nil }

func evalFin(x *ctx, f finCase) *verdict {
	ep := epochs[f.Epoch]
	cfg := ep.cfg
	if f.HF4 > 0 { // a config whose HF4 is exactly this height
		c := *ep.cfg
		c.HF = params.ForkMap{}
		for k, v := range ep.cfg.HF {
			c.HF[k] = v
		}
		c.HF[4] = new(big.Int).SetUint64(f.Height)
		cfg = &c
	}
	v := recovering(func() *verdict {
		funded := 0
		if f.HF4 == 2 {
			funded = 3
		}
		st := x.baseState(funded)
		before, _ := supply(st)
		num := new(big.Int).SetUint64(f.Height)
		hdr := &types.Header{Number: num, Coinbase: addrMiner, GasLimit: 8000000, Time: big.NewInt(240), Difficulty: big.NewInt(131072), Version: cfg.GetBlockVersion(num)}
		var uncles []*types.Header
		for i, d := range f.Dist {
			cb := []common.Address{addrMiner, addrUncleX, addrUncleY}[f.Miners[i]]
			uncles = append(uncles, &types.Header{Number: new(big.Int).SetUint64(f.Height - uint64(d)), Coinbase: cb, Time: big.NewInt(1), Difficulty: big.NewInt(1), Extra: []byte{byte(i)}})
		}
		want := blockReward(f.Height, f.Dist)
		tr := &sdTracer{}
		if f.Level == "finalize" {
			if _, err := aquahash.NewFaker().Finalize(stubChain{cfg}, hdr, st, nil, uncles, nil); err != nil {
				return &verdict{oracle: "panic", msg: "Finalize: " + err.Error()}
			}
		} else {
			var txs []*types.Transaction
			if f.WithTx {
				// a plain value transfer and a call into a contract that moves value and stops
				st.SetCode(addrA, contractCode(actionCode("CALL", "bal", addrEOA, ""), "stop"))
				epx := *ep
				epx.cfg = cfg
				txs = append(txs, x.tx(&epx, f.Height, 0, addrEOA, 1000), x.tx(&epx, f.Height, 1, addrA, 13))
			}
			bc := x.chain(cfg)
			proc := core.NewStateProcessor(cfg, bc, aquahash.NewFaker())
			blk := types.NewBlock(hdr, txs, uncles, nil)
			if _, _, _, err := proc.Process(blk, st, vm.Config{Debug: true, Tracer: tr}); err != nil {
				ev.Broken("harness block rejected by Process: %v (%s)", err, f)
			}
			if f.HF4 == 2 {
				for i := 0; i < 3; i++ {
					want.Sub(want, new(big.Int).Mul(aqua, big.NewInt(int64(5+i)))) // the one-time zeroing
				}
			}
		}
		if _, err := st.Commit(cfg.IsEIP158(num)); err != nil {
			return &verdict{oracle: "panic", msg: "commit: " + err.Error()}
		}
		after, neg := supply(st)
		if neg != "" {
			return &verdict{oracle: "negative-balance", msg: neg}
		}
		delta := new(big.Int).Sub(after, before)
		if delta.Cmp(want) != 0 {
			o := "issuance-below-schedule"
			if delta.Cmp(want) > 0 {
				o = "issuance-above-schedule"
			}
			return &verdict{oracle: o, msg: fmt.Sprintf("sum of balances changed by %s, schedule says %s", delta, want)}
		}
		return nil
	})
	if v == nil {
		v = &verdict{}
	}
	side := "below-cutoff"
	if f.Height >= maxMoney {
		side = "at-or-above-cutoff"
	}
	v.class = fmt.Sprintf("%s/%s/%s/uncles=%v/hf4=%d/tx=%v", f.Level, ep.name, side, f.Dist, f.HF4, f.WithTx)
	return v
}

func enumFin(thorough bool) []finCase {
	var out []finCase
	heights := []uint64{41999998, 41999999, 42000000, 42000001}
	var sets [][2][]int // distances, miners
	sets = append(sets, [2][]int{nil, nil})
	for d := 1; d <= 7; d++ {
		for m := 0; m < 3; m++ {
			sets = append(sets, [2][]int{{d}, {m}})
		}
	}
	for d1 := 1; d1 <= 7; d1++ {
		for d2 := 1; d2 <= 7; d2++ {
			for m1 := 0; m1 < 3; m1++ {
				for m2 := 0; m2 < 3; m2++ {
					sets = append(sets, [2][]int{{d1, d2}, {m1, m2}})
				}
			}
		}
	}
	for e, ep := range epochs {
		if !ep.quick {
			continue
		}
		for _, h := range heights {
			for _, s := range sets {
				out = append(out, finCase{Level: "finalize", Epoch: e, Height: h, Dist: s[0], Miners: s[1]})
			}
		}
		// Process on hand-made blocks: cut-off heights and an ordinary height, with transactions, a few uncle sets, HF4
		for _, h := range append([]uint64{20}, heights...) {
			for si, s := range sets {
				if !thorough && si%9 != 0 {
					continue
				}
				out = append(out, finCase{Level: "process", Epoch: e, Height: h, Dist: s[0], Miners: s[1], WithTx: true})
			}
		}
		for _, hf4 := range []int{1, 2} {
			for _, withTx := range []bool{false, true} {
				for _, s := range [][2][]int{{nil, nil}, {{1}, {1}}, {{2, 7}, {0, 2}}} {
					out = append(out, finCase{Level: "process", Epoch: e, Height: 20, Dist: s[0], Miners: s[1], HF4: hf4, WithTx: withTx})
				}
			}
		}
	}
	return out
}

// ---- generated chains imported with InsertChain -------------------------------------------------

type chainCase struct {
	Level string `json:"level"` // "chain"
	Name  string `json:"name"`
}

// evalChain builds a 9-block chain across HF1..HF7 (transfers, a creation, self-destructs, uncles, the HF4 block with
// a funded listed address), imports it block by block and compares the supply at every block root with the schedule.
func evalChain(name string) (vs []*verdict, classes []string) {
	var cfg *params.ChainConfig
	switch name {
	case "test-config": // forks 1..7 at heights 1..7, Byzantium/EIP-158 from 0
		cfg = mkcfg(88101, params.ForkMap{1: big.NewInt(1), 2: big.NewInt(2), 3: big.NewInt(3), 4: big.NewInt(4), 5: big.NewInt(5), 6: big.NewInt(6), 7: big.NewInt(7)}, z, z, z)
	case "mainnet-shaped": // EIP-155/158/Byzantium only at HF7, i.e. after HF5
		cfg = mkcfg(88102, params.ForkMap{1: big.NewInt(1), 2: big.NewInt(2), 3: big.NewInt(3), 4: big.NewInt(4), 5: big.NewInt(5), 6: big.NewInt(6), 7: big.NewInt(7)}, big.NewInt(7), big.NewInt(7), big.NewInt(7))
	}
	listed := common.HexToAddress(misc.DeallocListHF4[17])
	sdSelf, sdFresh := leafByName("sd-self"), leafByName("sd-fresh")
	alloc := core.GenesisAlloc{
		senderAddr: {Balance: new(big.Int).Mul(aqua, big.NewInt(1000))},
		listed:     {Balance: new(big.Int).Mul(aqua, big.NewInt(77))},
		addrEOA:    {Balance: big.NewInt(3)},
	}
	for _, l := range []*leaf{sdSelf, sdFresh} {
		c, _ := hex.DecodeString(l.code)
		alloc[l.addr] = core.GenesisAccount{Balance: big.NewInt(7000), Nonce: 1, Code: c}
	}
	gen := &core.Genesis{Config: cfg, GasLimit: 10000000, Difficulty: big.NewInt(131072), Alloc: alloc}
	gdb := aquadb.NewMemDatabase()
	gblock := gen.MustCommit(gdb)
	nonce := uint64(0)
	mk := func(num uint64, to *common.Address, value int64, data []byte) *types.Transaction {
		var raw *types.Transaction
		if to == nil {
			raw = types.NewContractCreation(nonce, big.NewInt(value), 300000, big.NewInt(3), data)
		} else {
			raw = types.NewTransaction(nonce, *to, big.NewInt(value), 300000, big.NewInt(3), data)
		}
		nonce++
		t, err := types.SignTx(raw, types.MakeSigner(cfg, new(big.Int).SetUint64(num)), senderKey)
		if err != nil {
			ev.Broken("sign: %v", err)
		}
		return t
	}
	// per block: uncle distances and whether a SELFDESTRUCT survives in it
	uncleDist := map[uint64][]int{}
	burns := map[uint64]bool{}
	blocks, _ := core.GenerateChain(context.Background(), cfg, gblock, aquahash.NewFaker(), gdb, 9, func(i int, b *core.BlockGen) {
		n := uint64(i + 1)
		b.SetCoinbase(common.Address{0: 0xc0, 19: byte(n)})
		addUncle := func(back int) { // a sibling of the block `back` positions behind this one
			h := b.PrevBlock(i - back).Header()
			h.Extra = []byte{0xee, byte(n), byte(back)}
			h.Coinbase = common.Address{0: 0xcc, 19: byte(n), 18: byte(back)}
			b.AddUncle(h)
			uncleDist[n] = append(uncleDist[n], back)
		}
		switch n {
		case 1:
			b.AddTx(mk(n, &addrEOA, 1000, nil))
		case 2:
			b.AddTx(mk(n, nil, 5, []byte{0x60, 0x00, 0x60, 0x00, 0xf3})) // creation with endowment, empty code
		case 3:
			addUncle(1)
			addUncle(2)
			b.AddTx(mk(n, &sdSelf.addr, 9, nil)) // burns the contract's balance
			burns[n] = true
		case 4: // HF4: the listed address is zeroed
			b.AddTx(mk(n, &listed, 1, nil))
		case 5:
			b.AddTx(mk(n, &addrMiss, 0, nil))
		case 6:
			addUncle(1)
			b.AddTx(mk(n, &sdFresh.addr, 2, nil)) // moves the balance to a fresh account: nothing is burnt
		case 7, 9:
			// the address a creation is about to use already holds coins (sent to it earlier in this block),
			// and the creation then fails: nothing may be lost or created (7: INVALID, 9: REVERT with endowment)
			future := crypto.CreateAddress(senderAddr, nonce+1)
			b.AddTx(mk(n, &future, 1234, nil))
			init := []byte{0xfe}
			if n == 9 {
				init = []byte{0x60, 0x00, 0x60, 0x00, 0xfd}
			}
			b.AddTx(mk(n, nil, 5, init))
			b.AddTx(mk(n, &future, 4321, nil))
		case 8:
			addUncle(3)
			b.AddTx(mk(n, &addrEOA, 1, nil))
		}
	})
	db := aquadb.NewMemDatabase()
	gen.MustCommit(db)
	bc, err := core.NewBlockChain(context.Background(), db, nil, cfg, aquahash.NewFaker(), vm.Config{})
	if err != nil {
		ev.Broken("chain: %v", err)
	}
	defer bc.Stop()
	st, _ := bc.StateAt(gblock.Root())
	prev, _ := supply(st)
	for _, blk := range blocks {
		n := blk.NumberU64()
		v := recovering(func() *verdict {
			if _, err := bc.InsertChain(types.Blocks{blk}); err != nil {
				// builder (core.GenerateChain) and importer are both the repository's code: when they disagree
				// about the state after a block, one of them moves coins differently from the other
				return &verdict{oracle: "import-disagrees-with-builder", msg: fmt.Sprintf("block %d built by core.GenerateChain is rejected by InsertChain: %v", n, err)}
			}
			st, err := bc.StateAt(blk.Root())
			if err != nil {
				return &verdict{oracle: "panic", msg: "state of imported block missing: " + err.Error()}
			}
			cur, neg := supply(st)
			if neg != "" {
				return &verdict{oracle: "negative-balance", msg: neg}
			}
			delta := new(big.Int).Sub(cur, prev)
			prev = cur
			want := blockReward(n, uncleDist[n])
			if n == 4 {
				// HF4 zeroes the listed account (77 AQUA); the 1 wei sent to it afterwards in this block stays in the supply
				want.Sub(want, new(big.Int).Mul(aqua, big.NewInt(77)))
			}
			switch c := delta.Cmp(want); {
			case c > 0:
				return &verdict{oracle: "issuance-above-schedule", msg: fmt.Sprintf("block %d: sum of balances changed by %s, schedule %s", n, delta, want)}
			case c < 0 && !burns[n]:
				return &verdict{oracle: "issuance-below-schedule", msg: fmt.Sprintf("block %d: sum of balances changed by %s, schedule %s", n, delta, want)}
			}
			return nil
		})
		if v == nil {
			v = &verdict{}
		}
		v.class = fmt.Sprintf("chain/%s/block=%d/uncles=%v/burn=%v", name, n, uncleDist[n], burns[n])
		vs = append(vs, v)
	}
	return vs, nil
}

// ---- driver -------------------------------------------------------------------------------------

func violationOf(level, caseID string, v *verdict, detail map[string]interface{}) ev.Violation {
	detail["observed"] = v.msg
	return ev.Violation{Scenario: level, Oracle: v.oracle, CaseID: caseID, Detail: detail}
}

func progDetail(p progCase) map[string]interface{} {
	a, m, _ := p.codes()
	return map[string]interface{}{"kind": "prog", "level": p.Level, "epoch": p.Epoch, "txval": p.TxVal, "a1": p.A1, "v1": p.V1, "t1": p.T1, "target": p.Target, "rep": p.Rep,
		"a2": p.A2, "v2": p.V2, "t2": p.T2, "leaf2": p.Leaf2, "case": p.String(), "code_outer": hex.EncodeToString(a), "code_middle": hex.EncodeToString(m)}
}

func progCaseID(p progCase) string {
	id := fmt.Sprintf("%s/%s->%s", epochs[p.Epoch].name, p.A1, p.Target)
	if p.Rep >= 2 {
		id += fmt.Sprintf("x%d", p.Rep)
	}
	if p.Target == "M" {
		id += fmt.Sprintf("/%s->%s", p.A2, p.Leaf2)
	}
	return id
}

func finDetail(f finCase) map[string]interface{} {
	return map[string]interface{}{"kind": "fin", "level": f.Level, "epoch": f.Epoch, "height": f.Height, "dist": f.Dist, "miners": f.Miners, "hf4": f.HF4, "withtx": f.WithTx, "case": f.String()}
}

func ints(v interface{}) []int {
	var out []int
	if a, ok := v.([]interface{}); ok {
		for _, x := range a {
			f, _ := x.(float64)
			out = append(out, int(f))
		}
	}
	return out
}

func TestCheck(t *testing.T) {
	log.Root().SetHandler(log.DiscardHandler())
	run := ev.Start("exploration")
	run.Rule = "program cases: level (ApplyTransaction / Process) x epoch (instruction set x EIP-158) x tx value x outer action x value {0,1,balance,balance+1} x target " +
		"{EOA, missing, precompile, 9 callee behaviours, middle contract with its own action/value/leaf/trailer} x trailer; issuance cases: Finalize/Process x height x uncle distances x uncle miners x HF4; " +
		"a class is (level, epoch, outer action, target[/inner action/leaf], top-level outcome, selfdestruct survives / reverted / none) resp. (level, epoch, side of the 42M cut-off, uncle distances, HF4, tx)"
	run.Assume("at and above height 42 000 000 the schedule is 'fees only' (params.MaxMoney comment): neither the 1 AQUA nor the uncle-related rewards are issued; this is also within the literal upper bound of the statement")
	run.Assume("value-moving programs come from the macro alphabet of the harness (nesting depth <= 2 below the transaction's recipient); arbitrary bytecode is C07/C08")
	run.Assume("the HF4 zeroing is checked as: supply change = scheduled issuance - balances of the listed accounts before the block (stricter than 'can only lower')")

	if d := ev.Replay(); d != nil {
		x := newCtx()
		g := func(k string) string { s, _ := d.Detail[k].(string); return s }
		n := func(k string) int { f, _ := d.Detail[k].(float64); return int(f) }
		var v *verdict
		var viol ev.Violation
		switch g("kind") {
		case "prog":
			p := progCase{Level: g("level"), Epoch: n("epoch"), TxVal: int64(n("txval")), A1: g("a1"), V1: g("v1"), T1: g("t1"), Target: g("target"), Rep: n("rep"), A2: g("a2"), V2: g("v2"), T2: g("t2"), Leaf2: g("leaf2")}
			v = evalProg(x, p)
			if v != nil && v.oracle != "" {
				viol = violationOf(p.Level, progCaseID(p), v, progDetail(p))
			}
		case "fin":
			wt, _ := d.Detail["withtx"].(bool)
			f := finCase{Level: g("level"), Epoch: n("epoch"), Height: uint64(n("height")), Dist: ints(d.Detail["dist"]), Miners: ints(d.Detail["miners"]), HF4: n("hf4"), WithTx: wt}
			v = evalFin(x, f)
			if v.oracle != "" {
				viol = violationOf(f.Level, fmt.Sprintf("%s/height=%d/hf4=%d", epochs[f.Epoch].name, f.Height, f.HF4), v, finDetail(f))
			}
		case "chain":
			vs, _ := evalChain(g("name"))
			for _, cv := range vs {
				if cv.oracle != "" {
					v = cv
					viol = violationOf("chain", strings.TrimPrefix(cv.class, "chain/"), cv, map[string]interface{}{"kind": "chain", "name": g("name")})
					break
				}
			}
		default:
			ev.Broken("unknown replay kind")
		}
		run.Eval(1)
		if v != nil && v.oracle != "" {
			run.Violate(viol)
		}
		run.Finish()
	}

	thorough := run.Thorough()
	deadline := run.Deadline(70*time.Second, 12*time.Minute)
	var capped sync.Once
	expired := func() bool {
		if time.Now().After(deadline) {
			capped.Do(func() { run.Cap("deadline reached before the enumeration was complete") })
			return true
		}
		return false
	}
	confirm := func(again func() *verdict, first *verdict, what string) {
		for i := 0; i < 2; i++ {
			v2 := again()
			if v2 == nil || v2.oracle != first.oracle {
				ev.Broken("verdict flips between evaluations of %s", what)
			}
		}
	}

	// (d) chains
	for _, name := range []string{"test-config", "mainnet-shaped"} {
		vs, _ := evalChain(name)
		for _, v := range vs {
			run.Eval(1)
			run.Class(v.class)
			run.Add("cases_chain_blocks", 1)
			if v.oracle != "" {
				run.Violate(violationOf("chain", strings.TrimPrefix(v.class, "chain/"), v, map[string]interface{}{"kind": "chain", "name": name}))
			}
		}
	}

	// (c) + hand-made blocks
	fins := enumFin(thorough)
	const chunk = 64
	ev.ParallelFor((len(fins)+chunk-1)/chunk, func(ci int) {
		x := newCtx()
		defer x.close()
		for i := ci * chunk; i < len(fins) && i < (ci+1)*chunk; i++ {
			if expired() {
				return
			}
			f := fins[i]
			v := evalFin(x, f)
			run.Eval(1)
			run.Class(v.class)
			run.Add("cases_"+f.Level, 1)
			if v.oracle != "" {
				confirm(func() *verdict { return evalFin(newCtx(), f) }, v, f.String())
				run.Violate(violationOf(f.Level, fmt.Sprintf("%s/height=%d/hf4=%d", epochs[f.Epoch].name, f.Height, f.HF4), v, finDetail(f)))
			} else if len(f.Dist) == 2 && f.Dist[0] == 7 && f.Dist[1] == 1 && f.Miners[0] == 0 && f.Miners[1] == 2 && f.Epoch == 0 {
				run.Sample(map[string]interface{}{"case": f.String(), "class": v.class})
			}
		}
	})

	// (a)/(b) programs
	progs := enumProgs(thorough)
	const pchunk = 256
	ev.ParallelFor((len(progs)+pchunk-1)/pchunk, func(ci int) {
		x := newCtx()
		defer x.close()
		for i := ci * pchunk; i < len(progs) && i < (ci+1)*pchunk; i++ {
			if expired() {
				return
			}
			p := progs[i]
			v := evalProg(x, p)
			if v == nil {
				continue // impossible combination (CREATE of a non-code target)
			}
			run.Eval(1)
			run.Class(v.class)
			run.Add("cases_prog_"+p.Level, 1)
			run.Add("prog_outcome_"+v.tally, 1)
			if v.oracle != "" {
				confirm(func() *verdict { return evalProg(newCtx(), p) }, v, p.String())
				run.Violate(violationOf(p.Level, progCaseID(p), v, progDetail(p)))
			} else if strings.HasSuffix(v.class, "sd-survives") && p.Target == "M" && p.A2 == "DELEGATECALL" && p.Leaf2 == "sd-self" && p.V1 == "bal" {
				run.Sample(map[string]interface{}{"case": p.String(), "class": v.class})
			}
		}
	})
	run.Finish()
}
