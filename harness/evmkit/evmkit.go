// Package evmkit is shared by the C07 and C08 harnesses: the instruction-set epochs of the built-in
// fork schedules (as a literal transcription, see Schedules), and construction of a real vm.EVM on a
// fresh in-memory state.
package evmkit

import (
	"math/big"

	"gitlab.com/aquachain/aquachain/aquadb"
	"gitlab.com/aquachain/aquachain/common"
	"gitlab.com/aquachain/aquachain/core"
	"gitlab.com/aquachain/aquachain/core/state"
	"gitlab.com/aquachain/aquachain/core/vm"
	"gitlab.com/aquachain/aquachain/params"
	"gitlab.com/aquachain/aquachain/zzverif/ref/refevm"
)

// Never marks a fork that a schedule does not contain.
const Never = int64(-1)

// Schedule is the literal transcription of one built-in chain configuration, reduced to what selects
// the EVM instruction set and gas table. Sources: the fork maps and their comments in
// params/config.go (HF1 = first gas-table change "GasTableHF1", HF5 = "argonated", HF7 = "EIP 155, 158"
// = ByzantiumBlock in every built-in config) and the selection rule documented in
// core/vm/interpreter.go + jump_table.go (HF5 selects the "spring" set = Byzantium + EIP-145 shifts;
// otherwise ByzantiumBlock selects the Byzantium set; otherwise Homestead, which is active from 0).
type Schedule struct {
	Name   string
	Config *params.ChainConfig
	HF1    int64   // EXP byte price 10 -> 50 (params.GasTableHF1)
	HF5    int64   // spring instruction set
	Byz    int64   // Byzantium rules (precompiles 5-8, static-call enforcement) and, without HF5, the Byzantium set
	Others []int64 // remaining fork heights of the schedule: must not change the instruction set
}

// Schedules lists every chain configuration built into params.
func Schedules() []Schedule {
	return []Schedule{
		{"mainnet", params.MainnetChainConfig, 3600, 22800, 36050, []int64{7200, 13026, 21800, 36000}},
		{"testnet", params.TestnetChainConfig, 1, 5, 25, []int64{2, 3, 4, 6, 650}},
		{"testnet2", params.Testnet2ChainConfig, Never, 0, 0, []int64{8, 19}},
		{"testnet3", params.Testnet3ChainConfig, Never, 0, 0, nil},
		{"dev", params.AllAquahashProtocolChanges, 0, 0, 0, nil},
		{"devclique", params.AllCliqueProtocolChanges, 0, 0, 0, nil},
		{"test", params.TestChainConfig, 1, 5, 0, []int64{2, 3, 4, 6, 7}},
	}
}

func at(fork, h int64) bool { return fork != Never && h >= fork }

// ForkAt is the instruction set / price expected at height h.
func (s Schedule) ForkAt(h int64) refevm.Fork {
	f := refevm.Fork{ExpByteGas: 10}
	if at(s.HF1, h) {
		f.ExpByteGas = 50
	}
	if at(s.Byz, h) || at(s.HF5, h) {
		f.Byzantium = true
	}
	if at(s.HF5, h) {
		f.Shifts = true
	}
	return f
}

// ByzRulesAt tells whether Byzantium *rules* (static-call write protection, precompiles 5-8) apply.
func (s Schedule) ByzRulesAt(h int64) bool { return at(s.Byz, h) }

// Heights returns 0 and h-1, h, h+1 for every fork height h of the schedule, sorted, without duplicates.
func (s Schedule) Heights() []int64 {
	seen := map[int64]bool{}
	var out []int64
	add := func(h int64) {
		if h >= 0 && !seen[h] {
			seen[h] = true
			out = append(out, h)
		}
	}
	add(0)
	for _, f := range append([]int64{s.HF1, s.HF5, s.Byz}, s.Others...) {
		if f == Never {
			continue
		}
		add(f - 1)
		add(f)
		add(f + 1)
	}
	for i := range out {
		for j := i + 1; j < len(out); j++ {
			if out[j] < out[i] {
				out[i], out[j] = out[j], out[i]
			}
		}
	}
	return out
}

// Epoch is one (configuration, height) at which programs are run.
type Epoch struct {
	Name     string
	Sched    Schedule
	Height   int64
	Fork     refevm.Fork
	ByzRules bool
}

func mk(name string, s Schedule, h int64) Epoch {
	return Epoch{Name: name, Sched: s, Height: h, Fork: s.ForkAt(h), ByzRules: s.ByzRulesAt(h)}
}

// Epochs returns the instruction-set epochs: the three main ones first (homestead-like, Byzantium,
// HF5 "spring" under Byzantium rules), then the variants (other EXP price, spring before Byzantium rules).
func Epochs() []Epoch {
	var main, test Schedule
	for _, s := range Schedules() {
		if s.Name == "mainnet" {
			main = s
		}
		if s.Name == "test" {
			test = s
		}
	}
	return []Epoch{
		mk("homestead(mainnet@22799)", main, 22799),
		mk("byzantium(test@4)", test, 4),
		mk("spring(mainnet@36050)", main, 36050),
		mk("homestead-exp10(mainnet@3599)", main, 3599),
		mk("byzantium-exp10(test@0)", test, 0),
		mk("spring-prebyz(mainnet@22800)", main, 22800),
	}
}

// EpochByName finds an epoch of Epochs() or a "sched@height" one.
func EpochByName(name string) (Epoch, bool) {
	for _, e := range Epochs() {
		if e.Name == name {
			return e, true
		}
	}
	for _, s := range Schedules() {
		var h int64
		pre := s.Name + "@"
		if len(name) > len(pre) && name[:len(pre)] == pre {
			ok := true
			for _, c := range name[len(pre):] {
				if c < '0' || c > '9' {
					ok = false
					break
				}
				h = h*10 + int64(c-'0')
			}
			if ok {
				return mk(name, s, h), true
			}
		}
	}
	return Epoch{}, false
}

// Fixed block context. All values are distinct and non-zero so the information opcodes are told apart.
var (
	Origin     = common.HexToAddress("0x00000000000000000000000000000000000a11ce")
	CallerAddr = Origin
	Contract   = common.HexToAddress("0x000000000000000000000000000000c0de000001")
	Coinbase   = common.HexToAddress("0x00000000000000000000000000000000c01bba5e")
	GasPrice   = big.NewInt(7)
	Time       = big.NewInt(1526400000)
	Difficulty = big.NewInt(99999999)
	GasLimit   = uint64(4712388)
)

// NewState returns an empty state on a fresh memory database.
func NewState() *state.StateDB {
	st, err := state.New(common.Hash{}, state.NewDatabase(aquadb.NewMemDatabase()))
	if err != nil {
		panic(err)
	}
	return st
}

// NewEVM builds the real EVM for an epoch. tracer may be nil.
func NewEVM(ep Epoch, st *state.StateDB, tracer vm.Tracer) *vm.EVM {
	ctx := vm.Context{
		CanTransfer: core.CanTransfer,
		Transfer:    core.Transfer,
		GetHash:     func(n uint64) common.Hash { return common.BigToHash(new(big.Int).SetUint64(n + 0x1000)) },
		Origin:      Origin,
		GasPrice:    new(big.Int).Set(GasPrice),
		Coinbase:    Coinbase,
		GasLimit:    GasLimit,
		BlockNumber: big.NewInt(ep.Height),
		Time:        new(big.Int).Set(Time),
		Difficulty:  new(big.Int).Set(Difficulty),
	}
	cfg := vm.Config{}
	if tracer != nil {
		cfg.Debug, cfg.Tracer = true, tracer
	}
	return vm.NewEVM(ctx, st, ep.Sched.Config, cfg)
}

// RefEnv is the refevm environment matching NewEVM + a Call from CallerAddr to Contract with value 0.
func RefEnv(ep Epoch, code, input []byte, gas uint64) *refevm.Env {
	return &refevm.Env{
		Code: code, Input: input, Gas: gas, Fork: ep.Fork,
		Address: new(big.Int).SetBytes(Contract[:]), Origin: new(big.Int).SetBytes(Origin[:]),
		Caller: new(big.Int).SetBytes(CallerAddr[:]), CallValue: new(big.Int), GasPrice: GasPrice,
		Coinbase: new(big.Int).SetBytes(Coinbase[:]), Timestamp: Time, Number: big.NewInt(ep.Height),
		Difficulty: Difficulty, GasLimit: new(big.Int).SetUint64(GasLimit),
	}
}
