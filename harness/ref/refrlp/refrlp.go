// Package refrlp is a strict reference implementation of RLP (Recursive Length Prefix), written
// from the specification (Ethereum Yellow Paper, appendix B) and not from the repository's rlp
// package. It is deliberately boring: one recursive-descent parser over a byte slice, one encoder.
//
// Specification, restated:
//
//	item   = string | list
//	string : a single byte b < 0x80 is its own encoding;
//	         otherwise, for a payload of n bytes,
//	           n <= 55 : 0x80+n  payload
//	           n >= 56 : 0xb7+k  BE_k(n)  payload      (k = minimal number of bytes of n, 1..8)
//	list   : payload = concatenation of the encodings of the elements, n = len(payload)
//	           n <= 55 : 0xc0+n  payload
//	           n >= 56 : 0xf7+k  BE_k(n)  payload
//
// An encoding is canonical (and only then accepted here) when
//   - a one-byte string below 0x80 is NOT wrapped (0x81 0x00 .. 0x81 0x7f are rejected),
//   - the long form is used only for n >= 56,
//   - BE_k(n) has no leading zero byte,
//   - the payload is completely present, and a list payload is exactly a sequence of canonical items.
package refrlp

import (
	"errors"
)

// Item is a decoded RLP item.
type Item struct {
	IsList bool
	Str    []byte  // payload when !IsList
	Elems  []*Item // elements when IsList
}

// Str and List are constructors used by models.
func Str(b []byte) *Item        { return &Item{Str: append([]byte{}, b...)} }
func List(elems ...*Item) *Item { return &Item{IsList: true, Elems: elems} }

// Uint is the canonical integer item: big-endian, no leading zeros, zero = empty string.
func Uint(v uint64) *Item {
	var b []byte
	for v > 0 {
		b = append([]byte{byte(v)}, b...)
		v >>= 8
	}
	return &Item{Str: b}
}

// BigBytes is the canonical integer item for a big-endian magnitude (leading zeros removed).
func BigBytes(mag []byte) *Item {
	for len(mag) > 0 && mag[0] == 0 {
		mag = mag[1:]
	}
	return Str(mag)
}

// Reasons for rejection. They are only used for statistics; the oracles compare accept/reject.
var (
	ErrEmpty        = errors.New("refrlp: empty input")
	ErrTruncated    = errors.New("refrlp: input shorter than announced")
	ErrSingleByte   = errors.New("refrlp: non-canonical: single byte below 0x80 wrapped in a string header")
	ErrLongForShort = errors.New("refrlp: non-canonical: long form used for a length below 56")
	ErrLeadingZero  = errors.New("refrlp: non-canonical: length with leading zero byte")
	ErrTrailing     = errors.New("refrlp: bytes after the item")
)

// Head describes the header of the first item of an input.
type Head struct {
	IsList bool
	Single bool   // the item is a single byte below 0x80 (no header)
	Off    uint64 // offset of the payload
	Len    uint64 // length of the payload
}

// Total is the encoded size of the item.
func (h Head) Total() uint64 { return h.Off + h.Len }

// ParseHead parses (and fully validates) the header of the first item in b, including the presence
// of the whole payload. It does not look into list payloads.
func ParseHead(b []byte) (Head, error) {
	if len(b) == 0 {
		return Head{}, ErrEmpty
	}
	t := b[0]
	avail := uint64(len(b))
	switch {
	case t < 0x80:
		return Head{Single: true, Off: 0, Len: 1}, nil
	case t <= 0xb7, t >= 0xc0 && t <= 0xf7:
		isList := t >= 0xc0
		var n uint64
		if isList {
			n = uint64(t - 0xc0)
		} else {
			n = uint64(t - 0x80)
		}
		if avail-1 < n {
			return Head{}, ErrTruncated
		}
		if !isList && n == 1 && b[1] < 0x80 {
			return Head{}, ErrSingleByte
		}
		return Head{IsList: isList, Off: 1, Len: n}, nil
	default:
		isList := t >= 0xf8
		var k uint64
		if isList {
			k = uint64(t - 0xf7)
		} else {
			k = uint64(t - 0xb7)
		}
		if avail-1 < k {
			return Head{}, ErrTruncated
		}
		if b[1] == 0 {
			return Head{}, ErrLeadingZero
		}
		var n uint64
		for i := uint64(0); i < k; i++ {
			n = n<<8 | uint64(b[1+i])
		}
		if n < 56 {
			return Head{}, ErrLongForShort
		}
		if avail-1-k < n {
			return Head{}, ErrTruncated
		}
		return Head{IsList: isList, Off: 1 + k, Len: n}, nil
	}
}

// DecodeFirst decodes (deeply) the first item of b and returns the remaining bytes.
func DecodeFirst(b []byte) (*Item, []byte, error) {
	h, err := ParseHead(b)
	if err != nil {
		return nil, b, err
	}
	payload := b[h.Off : h.Off+h.Len]
	rest := b[h.Off+h.Len:]
	if !h.IsList {
		return &Item{Str: append([]byte{}, payload...)}, rest, nil
	}
	it := &Item{IsList: true, Elems: []*Item{}}
	for len(payload) > 0 {
		var e *Item
		e, payload, err = DecodeFirst(payload)
		if err != nil {
			return nil, b, err
		}
		it.Elems = append(it.Elems, e)
	}
	return it, rest, nil
}

// Decode decodes b, which must be exactly one canonical item.
func Decode(b []byte) (*Item, error) {
	it, rest, err := DecodeFirst(b)
	if err != nil {
		return nil, err
	}
	if len(rest) != 0 {
		return nil, ErrTrailing
	}
	return it, nil
}

// DecodeAll decodes b as a sequence of items. It returns the items decoded before the first
// failure and the error (nil when the whole input was consumed).
func DecodeAll(b []byte) ([]*Item, error) {
	var out []*Item
	for len(b) > 0 {
		it, rest, err := DecodeFirst(b)
		if err != nil {
			return out, err
		}
		out = append(out, it)
		b = rest
	}
	return out, nil
}

// Count counts the items of a concatenation looking only at their headers (what a splitter that does
// not descend into lists can know).
func Count(b []byte) (int, error) {
	n := 0
	for len(b) > 0 {
		h, err := ParseHead(b)
		if err != nil {
			return 0, err
		}
		b = b[h.Total():]
		n++
	}
	return n, nil
}

func beMinimal(n uint64) []byte {
	var b []byte
	for n > 0 {
		b = append([]byte{byte(n)}, b...)
		n >>= 8
	}
	return b
}

func header(short byte, n uint64) []byte {
	if n <= 55 {
		return []byte{short + byte(n)}
	}
	l := beMinimal(n)
	return append([]byte{short + 55 + byte(len(l))}, l...)
}

// Encode returns the canonical encoding.
func Encode(it *Item) []byte {
	if !it.IsList {
		if len(it.Str) == 1 && it.Str[0] < 0x80 {
			return []byte{it.Str[0]}
		}
		return append(header(0x80, uint64(len(it.Str))), it.Str...)
	}
	var payload []byte
	for _, e := range it.Elems {
		payload = append(payload, Encode(e)...)
	}
	return append(header(0xc0, uint64(len(payload))), payload...)
}

// Equal compares two items structurally.
func Equal(a, b *Item) bool {
	if a.IsList != b.IsList {
		return false
	}
	if !a.IsList {
		if len(a.Str) != len(b.Str) {
			return false
		}
		for i := range a.Str {
			if a.Str[i] != b.Str[i] {
				return false
			}
		}
		return true
	}
	if len(a.Elems) != len(b.Elems) {
		return false
	}
	for i := range a.Elems {
		if !Equal(a.Elems[i], b.Elems[i]) {
			return false
		}
	}
	return true
}

// Depth is the nesting depth (a string has depth 0, an empty list 1).
func Depth(it *Item) int {
	if !it.IsList {
		return 0
	}
	d := 0
	for _, e := range it.Elems {
		if x := Depth(e); x > d {
			d = x
		}
	}
	return d + 1
}

// SelfTest checks the implementation against the examples of the specification text.
func SelfTest() error {
	lorem := []byte("Lorem ipsum dolor sit amet, consectetur adipisicing elit")
	vectors := []struct {
		it  *Item
		enc []byte
	}{
		{Str([]byte("dog")), []byte{0x83, 'd', 'o', 'g'}},
		{List(Str([]byte("cat")), Str([]byte("dog"))), []byte{0xc8, 0x83, 'c', 'a', 't', 0x83, 'd', 'o', 'g'}},
		{Str(nil), []byte{0x80}},
		{List(), []byte{0xc0}},
		{Uint(0), []byte{0x80}},
		{Str([]byte{0}), []byte{0x00}},
		{Uint(15), []byte{0x0f}},
		{Uint(1024), []byte{0x82, 0x04, 0x00}},
		{List(List(), List(List()), List(List(), List(List()))), []byte{0xc7, 0xc0, 0xc1, 0xc0, 0xc3, 0xc0, 0xc1, 0xc0}},
		{Str(lorem), append([]byte{0xb8, 0x38}, lorem...)},
	}
	for i, v := range vectors {
		enc := Encode(v.it)
		if string(enc) != string(v.enc) {
			return errors.New("encode vector " + string(rune('0'+i)))
		}
		it, err := Decode(v.enc)
		if err != nil || !Equal(it, v.it) {
			return errors.New("decode vector " + string(rune('0'+i)))
		}
	}
	rejects := [][]byte{
		{}, {0x81, 0x00}, {0x81, 0x7f}, {0xb8, 0x37}, {0xb8, 0x00}, {0xb9, 0x00, 0x38}, {0xf8, 0x37}, {0xf9, 0x00, 0x38},
		{0x81}, {0xc1}, {0xc1, 0x81}, {0xc2, 0x81, 0x00}, {0x01, 0x02}, {0xc0, 0x00}, {0xb8}, {0xbf, 1, 0, 0, 0, 0, 0, 0},
		{0xbf, 0xff, 0xff, 0xff, 0xff, 0xff, 0xff, 0xff, 0xff, 0x01},
	}
	for _, r := range rejects {
		if _, err := Decode(r); err == nil {
			return errors.New("reject vector accepted")
		}
	}
	if _, err := Decode([]byte{0x81, 0x80}); err != nil {
		return errors.New("0x8180 rejected")
	}
	return nil
}
