// Package refevm is a deliberately boring single-frame reference interpreter for the
// "computational" subset of the EVM, written from the text of the Yellow Paper (sections 9.x and
// Appendix G/H), EIP-140 (REVERT), EIP-145 (SHL/SHR/SAR), EIP-160 (EXP byte price) and EIP-211
// (RETURNDATASIZE/RETURNDATACOPY). It shares no code with core/vm: all word arithmetic is math/big
// reduced modulo 2^256, memory is a byte slice, gas is computed with math/big and compared with the
// remaining gas, so nothing in here can overflow.
//
// Covered: STOP ADD MUL SUB DIV SDIV MOD SMOD ADDMOD MULMOD EXP SIGNEXTEND LT GT SLT SGT EQ ISZERO AND
// OR XOR NOT BYTE SHL SHR SAR SHA3 ADDRESS ORIGIN CALLER CALLVALUE CALLDATALOAD CALLDATASIZE
// CALLDATACOPY CODESIZE CODECOPY GASPRICE RETURNDATASIZE RETURNDATACOPY COINBASE TIMESTAMP NUMBER
// DIFFICULTY GASLIMIT POP MLOAD MSTORE MSTORE8 JUMP JUMPI PC MSIZE GAS JUMPDEST PUSH1..32 DUP1..16
// SWAP1..16 RETURN REVERT INVALID. Opcodes that are valid in the fork but touch world state or
// create frames (BALANCE, EXTCODE*, BLOCKHASH, SLOAD, SSTORE, LOG*, CREATE, CALL*, SELFDESTRUCT) make
// Run stop with Result.Unsupported set; callers must not build such programs.
package refevm

import (
	"math/big"
	"sync"

	"golang.org/x/crypto/sha3"
)

// Fork selects the instruction set and the one fork-dependent price of the covered subset.
type Fork struct {
	Byzantium  bool   // REVERT, RETURNDATASIZE, RETURNDATACOPY (and STATICCALL) are valid opcodes
	Shifts     bool   // EIP-145 SHL, SHR, SAR are valid opcodes
	ExpByteGas uint64 // G_expbyte: 10 before EIP-160, 50 after
}

// Env is the execution environment I of the frame.
type Env struct {
	Code, Input []byte
	Gas         uint64
	Fork        Fork
	// information opcodes (all default to zero when nil)
	Address, Origin, Caller, CallValue, GasPrice      *big.Int
	Coinbase, Timestamp, Number, Difficulty, GasLimit *big.Int
	// ReturnData is the return-data buffer at frame entry (always empty for a fresh frame).
	ReturnData []byte
}

// Status is how the frame ended.
type Status int

const (
	Stopped  Status = iota // STOP, RETURN or running off the end of the code
	Reverted               // REVERT: output and remaining gas survive
	Failed                 // exceptional halt: all gas consumed, no output
)

func (s Status) String() string { return [...]string{"ok", "revert", "fail"}[s] }

// Step is the machine state handed to the observer for every instruction that passed the
// exceptional-halt checks that can be evaluated before execution (validity, stack, gas), after its gas
// was charged and memory was expanded, before its effect on stack and pc.
type Step struct {
	PC    uint64
	Op    byte
	Gas   uint64     // gas before this instruction was charged
	Cost  uint64     // what was charged for it
	Stack []*big.Int // live view, bottom first; do not modify
	Mem   []byte     // live view after expansion for this instruction
	Index int
}

// Result is the outcome of a frame.
type Result struct {
	Status      Status
	Why         string // for Failed: which exceptional condition; "" otherwise
	Ret         []byte
	GasLeft     uint64
	Steps       int
	Unsupported bool // hit an opcode outside the covered subset (Status is meaningless)
	// LastOp/LastIn describe the last instruction that was examined (for reporting): its opcode and its
	// delta stack inputs, top first (fewer if the stack underflowed).
	LastPC uint64
	LastOp byte
	LastIn []*big.Int
}

var (
	one    = big.NewInt(1)
	two256 = new(big.Int).Lsh(one, 256)
	two255 = new(big.Int).Lsh(one, 255)
	mask   = new(big.Int).Sub(two256, one)
)

func wrap(x *big.Int) *big.Int { // x mod 2^256, result in [0, 2^256)
	return x.Mod(x, two256)
}

func signed(x *big.Int) *big.Int { // two's complement interpretation, fresh value
	if x.Cmp(two255) >= 0 {
		return new(big.Int).Sub(x, two256)
	}
	return new(big.Int).Set(x)
}

func boolWord(b bool) *big.Int {
	if b {
		return big.NewInt(1)
	}
	return new(big.Int)
}

func z(x *big.Int) *big.Int {
	if x == nil {
		return new(big.Int)
	}
	return new(big.Int).And(x, mask)
}

// opInfo: delta (items removed), alpha (items added), constant part of the gas cost.
type opInfo struct {
	valid        bool
	delta, alpha int
	gas          uint64
	unsupported  bool
}

const (
	gZero     = 0
	gBase     = 2
	gVeryLow  = 3
	gLow      = 5
	gMid      = 8
	gHigh     = 10
	gJumpdest = 1
	gExp      = 10
	gSha3     = 30
	gSha3Word = 6
	gCopy     = 3
	gMemory   = 3
)

// Table returns the instruction table of a fork (Yellow Paper Appendix H plus the EIPs above).
func Table(f Fork) [256]opInfo {
	var t [256]opInfo
	set := func(op int, d, a int, g uint64) { t[op] = opInfo{valid: true, delta: d, alpha: a, gas: g} }
	uns := func(op int, d, a int) { t[op] = opInfo{valid: true, delta: d, alpha: a, unsupported: true} }
	set(0x00, 0, 0, gZero)    // STOP
	set(0x01, 2, 1, gVeryLow) // ADD
	set(0x02, 2, 1, gLow)     // MUL
	set(0x03, 2, 1, gVeryLow) // SUB
	set(0x04, 2, 1, gLow)     // DIV
	set(0x05, 2, 1, gLow)     // SDIV
	set(0x06, 2, 1, gLow)     // MOD
	set(0x07, 2, 1, gLow)     // SMOD
	set(0x08, 3, 1, gMid)     // ADDMOD
	set(0x09, 3, 1, gMid)     // MULMOD
	set(0x0a, 2, 1, gExp)     // EXP (+ per byte)
	set(0x0b, 2, 1, gLow)     // SIGNEXTEND
	set(0x10, 2, 1, gVeryLow) // LT
	set(0x11, 2, 1, gVeryLow) // GT
	set(0x12, 2, 1, gVeryLow) // SLT
	set(0x13, 2, 1, gVeryLow) // SGT
	set(0x14, 2, 1, gVeryLow) // EQ
	set(0x15, 1, 1, gVeryLow) // ISZERO
	set(0x16, 2, 1, gVeryLow) // AND
	set(0x17, 2, 1, gVeryLow) // OR
	set(0x18, 2, 1, gVeryLow) // XOR
	set(0x19, 1, 1, gVeryLow) // NOT
	set(0x1a, 2, 1, gVeryLow) // BYTE
	if f.Shifts {
		set(0x1b, 2, 1, gVeryLow) // SHL
		set(0x1c, 2, 1, gVeryLow) // SHR
		set(0x1d, 2, 1, gVeryLow) // SAR
	}
	set(0x20, 2, 1, gSha3)    // SHA3 (+ per word + memory)
	set(0x30, 0, 1, gBase)    // ADDRESS
	uns(0x31, 1, 1)           // BALANCE
	set(0x32, 0, 1, gBase)    // ORIGIN
	set(0x33, 0, 1, gBase)    // CALLER
	set(0x34, 0, 1, gBase)    // CALLVALUE
	set(0x35, 1, 1, gVeryLow) // CALLDATALOAD
	set(0x36, 0, 1, gBase)    // CALLDATASIZE
	set(0x37, 3, 0, gVeryLow) // CALLDATACOPY (+ per word + memory)
	set(0x38, 0, 1, gBase)    // CODESIZE
	set(0x39, 3, 0, gVeryLow) // CODECOPY
	set(0x3a, 0, 1, gBase)    // GASPRICE
	uns(0x3b, 1, 1)           // EXTCODESIZE
	uns(0x3c, 4, 0)           // EXTCODECOPY
	if f.Byzantium {
		set(0x3d, 0, 1, gBase)    // RETURNDATASIZE
		set(0x3e, 3, 0, gVeryLow) // RETURNDATACOPY
	}
	uns(0x40, 1, 1)           // BLOCKHASH
	set(0x41, 0, 1, gBase)    // COINBASE
	set(0x42, 0, 1, gBase)    // TIMESTAMP
	set(0x43, 0, 1, gBase)    // NUMBER
	set(0x44, 0, 1, gBase)    // DIFFICULTY
	set(0x45, 0, 1, gBase)    // GASLIMIT
	set(0x50, 1, 0, gBase)    // POP
	set(0x51, 1, 1, gVeryLow) // MLOAD
	set(0x52, 2, 0, gVeryLow) // MSTORE
	set(0x53, 2, 0, gVeryLow) // MSTORE8
	uns(0x54, 1, 1)           // SLOAD
	uns(0x55, 2, 0)           // SSTORE
	set(0x56, 1, 0, gMid)     // JUMP
	set(0x57, 2, 0, gHigh)    // JUMPI
	set(0x58, 0, 1, gBase)    // PC
	set(0x59, 0, 1, gBase)    // MSIZE
	set(0x5a, 0, 1, gBase)    // GAS
	set(0x5b, 0, 0, gJumpdest)
	for i := 0; i < 32; i++ {
		set(0x60+i, 0, 1, gVeryLow) // PUSHn
	}
	for i := 0; i < 16; i++ {
		set(0x80+i, i+1, i+2, gVeryLow) // DUPn
		set(0x90+i, i+2, i+2, gVeryLow) // SWAPn
	}
	for i := 0; i <= 4; i++ {
		uns(0xa0+i, i+2, 0) // LOGn
	}
	uns(0xf0, 3, 1)        // CREATE
	uns(0xf1, 7, 1)        // CALL
	uns(0xf2, 7, 1)        // CALLCODE
	set(0xf3, 2, 0, gZero) // RETURN
	uns(0xf4, 6, 1)        // DELEGATECALL (Homestead)
	if f.Byzantium {
		uns(0xfa, 6, 1)        // STATICCALL
		set(0xfd, 2, 0, gZero) // REVERT
	}
	// 0xfe INVALID: designated invalid, stays !valid
	uns(0xff, 1, 0) // SELFDESTRUCT
	return t
}

var tables sync.Map // Fork -> *[256]opInfo

func tableOf(f Fork) *[256]opInfo {
	if t, ok := tables.Load(f); ok {
		return t.(*[256]opInfo)
	}
	t := Table(f)
	tables.Store(f, &t)
	return &t
}

// Delta is the number of stack items the opcode removes (0 for opcodes that are not instructions of the fork).
func Delta(f Fork, op byte) int { return tableOf(f)[op].delta }

// Supported tells whether Run can execute the opcode in this fork.
func Supported(f Fork, op byte) bool { t := tableOf(f)[op]; return t.valid && !t.unsupported }

// ValidOpcodes lists the opcodes that are instructions of the fork (whether or not refevm can execute them).
func ValidOpcodes(f Fork) [256]bool {
	var v [256]bool
	t := Table(f)
	for i := range t {
		v[i] = t[i].valid
	}
	return v
}

// JumpDests computes D(c): positions of JUMPDEST bytes that are not PUSH data.
func JumpDests(code []byte) map[uint64]bool {
	d := map[uint64]bool{}
	for i := 0; i < len(code); {
		op := code[i]
		if op == 0x5b {
			d[uint64(i)] = true
		}
		if op >= 0x60 && op <= 0x7f {
			i += int(op-0x60) + 2
		} else {
			i++
		}
	}
	return d
}

// memWords is ceil(n/32) as a big integer.
func memWords(n *big.Int) *big.Int {
	w := new(big.Int).Add(n, big.NewInt(31))
	return w.Rsh(w, 5)
}

// cMem is C_mem(a) = G_memory*a + floor(a^2/512).
func cMem(words *big.Int) *big.Int {
	q := new(big.Int).Mul(words, words)
	q.Rsh(q, 9)
	l := new(big.Int).Mul(words, big.NewInt(gMemory))
	return q.Add(q, l)
}

// Run executes one frame. observe (may be nil) is called once per executed instruction.
func Run(env *Env, observe func(*Step)) *Result {
	var (
		tab    = tableOf(env.Fork)
		code   = env.Code
		dests  = JumpDests(code)
		stack  = make([]*big.Int, 0, 16)
		mem    []byte // len(mem) = 32 * active words
		gas    = env.Gas
		pc     uint64
		res    = &Result{}
		retbuf = env.ReturnData
	)
	fail := func(why string) *Result {
		res.Status, res.Why, res.Ret, res.GasLeft = Failed, why, nil, 0
		return res
	}
	for {
		var op byte // running off the end of the code is STOP
		if pc < uint64(len(code)) {
			op = code[pc]
		}
		info := tab[op]
		res.LastPC, res.LastOp, res.LastIn = pc, op, nil
		if !info.valid {
			return fail("invalid-opcode")
		}
		n := len(stack)
		for i := 0; i < info.delta && i < n; i++ {
			res.LastIn = append(res.LastIn, new(big.Int).Set(stack[n-1-i]))
		}
		if n < info.delta {
			return fail("stack-underflow")
		}
		if n-info.delta+info.alpha > 1024 {
			return fail("stack-overflow")
		}
		if info.unsupported {
			res.Unsupported = true
			return res
		}
		s := func(i int) *big.Int { return stack[n-1-i] } // mu_s[i]

		// ---- gas: constant part + dynamic part + memory expansion -------------------------------
		cost := new(big.Int).SetUint64(info.gas)
		var memOff, memLen *big.Int // memory range touched by this instruction
		switch {
		case op == 0x0a: // EXP
			if s(1).Sign() != 0 {
				bytes := uint64((s(1).BitLen() + 7) / 8)
				cost.Add(cost, new(big.Int).SetUint64(bytes*env.Fork.ExpByteGas))
			}
		case op == 0x20: // SHA3
			memOff, memLen = s(0), s(1)
			cost.Add(cost, new(big.Int).Mul(memWords(s(1)), big.NewInt(gSha3Word)))
		case op == 0x37 || op == 0x39 || op == 0x3e: // *COPY
			memOff, memLen = s(0), s(2)
			cost.Add(cost, new(big.Int).Mul(memWords(s(2)), big.NewInt(gCopy)))
		case op == 0x51 || op == 0x52:
			memOff, memLen = s(0), big.NewInt(32)
		case op == 0x53:
			memOff, memLen = s(0), big.NewInt(1)
		case op == 0xf3 || op == 0xfd:
			memOff, memLen = s(0), s(1)
		}
		newWords := big.NewInt(int64(len(mem) / 32))
		if memLen != nil && memLen.Sign() != 0 {
			need := memWords(new(big.Int).Add(memOff, memLen))
			if need.Cmp(newWords) > 0 {
				cost.Add(cost, new(big.Int).Sub(cMem(need), cMem(newWords)))
				newWords = need
			}
		}
		if cost.Cmp(new(big.Int).SetUint64(gas)) > 0 {
			return fail("out-of-gas")
		}
		c := cost.Uint64()
		gasBefore := gas
		gas -= c
		if nw := int(newWords.Int64()) * 32; nw > len(mem) { // affordable => small
			mem = append(mem, make([]byte, nw-len(mem))...)
		}
		if observe != nil {
			observe(&Step{PC: pc, Op: op, Gas: gasBefore, Cost: c, Stack: stack, Mem: mem, Index: res.Steps})
		}
		res.Steps++

		// ---- effect -------------------------------------------------------------------------
		pop := func(k int) { stack = stack[:len(stack)-k] }
		push := func(v *big.Int) { stack = append(stack, v) }
		bin := func(v *big.Int) { pop(2); push(v) }
		next := pc + 1
		switch {
		case op == 0x00:
			res.Status, res.GasLeft = Stopped, gas
			return res
		case op == 0x01:
			bin(wrap(new(big.Int).Add(s(0), s(1))))
		case op == 0x02:
			bin(wrap(new(big.Int).Mul(s(0), s(1))))
		case op == 0x03:
			bin(wrap(new(big.Int).Sub(s(0), s(1))))
		case op == 0x04:
			if s(1).Sign() == 0 {
				bin(new(big.Int))
			} else {
				bin(new(big.Int).Quo(s(0), s(1)))
			}
		case op == 0x05: // SDIV: truncated signed division; -2^255 / -1 = -2^255 (falls out of wrap)
			a, b := signed(s(0)), signed(s(1))
			if b.Sign() == 0 {
				bin(new(big.Int))
			} else {
				bin(wrap(new(big.Int).Quo(a, b))) // Quo truncates toward zero
			}
		case op == 0x06:
			if s(1).Sign() == 0 {
				bin(new(big.Int))
			} else {
				bin(new(big.Int).Rem(s(0), s(1)))
			}
		case op == 0x07: // SMOD: sign of the dividend
			a, b := signed(s(0)), signed(s(1))
			if b.Sign() == 0 {
				bin(new(big.Int))
			} else {
				bin(wrap(new(big.Int).Rem(a, b))) // Rem has the sign of the dividend
			}
		case op == 0x08:
			a, b, m := s(0), s(1), s(2)
			pop(3)
			if m.Sign() == 0 {
				push(new(big.Int))
			} else {
				t := new(big.Int).Add(a, b)
				push(t.Rem(t, m))
			}
		case op == 0x09:
			a, b, m := s(0), s(1), s(2)
			pop(3)
			if m.Sign() == 0 {
				push(new(big.Int))
			} else {
				t := new(big.Int).Mul(a, b)
				push(t.Rem(t, m))
			}
		case op == 0x0a:
			bin(new(big.Int).Exp(s(0), s(1), two256))
		case op == 0x0b: // SIGNEXTEND: mu_s[0] = index of the byte holding the sign, counted from the low end
			k, x := s(0), s(1)
			if k.Cmp(big.NewInt(31)) >= 0 {
				bin(new(big.Int).Set(x))
			} else {
				bit := uint(k.Uint64()*8 + 7)
				low := new(big.Int).Lsh(one, bit+1)
				low.Sub(low, one) // bits 0..bit
				v := new(big.Int).And(x, low)
				if x.Bit(int(bit)) == 1 {
					v.Or(v, new(big.Int).Xor(mask, low)) // all bits above
				}
				bin(v)
			}
		case op == 0x10:
			bin(boolWord(s(0).Cmp(s(1)) < 0))
		case op == 0x11:
			bin(boolWord(s(0).Cmp(s(1)) > 0))
		case op == 0x12:
			bin(boolWord(signed(s(0)).Cmp(signed(s(1))) < 0))
		case op == 0x13:
			bin(boolWord(signed(s(0)).Cmp(signed(s(1))) > 0))
		case op == 0x14:
			bin(boolWord(s(0).Cmp(s(1)) == 0))
		case op == 0x15:
			v := boolWord(s(0).Sign() == 0)
			pop(1)
			push(v)
		case op == 0x16:
			bin(new(big.Int).And(s(0), s(1)))
		case op == 0x17:
			bin(new(big.Int).Or(s(0), s(1)))
		case op == 0x18:
			bin(new(big.Int).Xor(s(0), s(1)))
		case op == 0x19:
			v := new(big.Int).Xor(s(0), mask)
			pop(1)
			push(v)
		case op == 0x1a: // BYTE: index 0 is the most significant byte
			i, x := s(0), s(1)
			if i.Cmp(big.NewInt(32)) >= 0 {
				bin(new(big.Int))
			} else {
				v := new(big.Int).Rsh(x, uint(8*(31-i.Uint64())))
				bin(v.And(v, big.NewInt(0xff)))
			}
		case op == 0x1b: // SHL: mu_s[0] = shift, mu_s[1] = value
			sh, v := s(0), s(1)
			if sh.Cmp(big.NewInt(256)) >= 0 {
				bin(new(big.Int))
			} else {
				bin(wrap(new(big.Int).Lsh(v, uint(sh.Uint64()))))
			}
		case op == 0x1c:
			sh, v := s(0), s(1)
			if sh.Cmp(big.NewInt(256)) >= 0 {
				bin(new(big.Int))
			} else {
				bin(new(big.Int).Rsh(v, uint(sh.Uint64())))
			}
		case op == 0x1d: // SAR: floor(signed value / 2^shift); for shift >= 256: 0 if value >= 0 else -1
			sh, v := s(0), signed(s(1))
			if sh.Cmp(big.NewInt(256)) >= 0 {
				if v.Sign() >= 0 {
					bin(new(big.Int))
				} else {
					bin(new(big.Int).Set(mask))
				}
			} else {
				// big.Int.Rsh on negative values is an arithmetic shift (rounds toward -infinity)
				bin(wrap(v.Rsh(v, uint(sh.Uint64()))))
			}
		case op == 0x20:
			off, l := s(0), s(1)
			h := sha3.NewLegacyKeccak256()
			if l.Sign() != 0 {
				h.Write(mem[off.Uint64() : off.Uint64()+l.Uint64()])
			}
			bin(new(big.Int).SetBytes(h.Sum(nil)))
		case op == 0x30:
			push(z(env.Address))
		case op == 0x32:
			push(z(env.Origin))
		case op == 0x33:
			push(z(env.Caller))
		case op == 0x34:
			push(z(env.CallValue))
		case op == 0x35:
			v := new(big.Int).SetBytes(dataSlice(env.Input, s(0), 32))
			pop(1)
			push(v)
		case op == 0x36:
			push(big.NewInt(int64(len(env.Input))))
		case op == 0x37 || op == 0x39 || op == 0x3e:
			mo, do, l := s(0), s(1), s(2)
			pop(3)
			src := env.Input
			if op == 0x39 {
				src = code
			}
			if op == 0x3e {
				src = retbuf
				end := new(big.Int).Add(do, l)
				if end.Cmp(big.NewInt(int64(len(retbuf)))) > 0 {
					return fail("returndata-out-of-bounds")
				}
			}
			if l.Sign() != 0 {
				copy(mem[mo.Uint64():], dataSlice(src, do, l.Uint64()))
			}
		case op == 0x38:
			push(big.NewInt(int64(len(code))))
		case op == 0x3a:
			push(z(env.GasPrice))
		case op == 0x3d:
			push(big.NewInt(int64(len(retbuf))))
		case op == 0x41:
			push(z(env.Coinbase))
		case op == 0x42:
			push(z(env.Timestamp))
		case op == 0x43:
			push(z(env.Number))
		case op == 0x44:
			push(z(env.Difficulty))
		case op == 0x45:
			push(z(env.GasLimit))
		case op == 0x50:
			pop(1)
		case op == 0x51:
			o := s(0).Uint64()
			pop(1)
			push(new(big.Int).SetBytes(mem[o : o+32]))
		case op == 0x52:
			o, v := s(0).Uint64(), s(1)
			pop(2)
			var w [32]byte
			v.FillBytes(w[:])
			copy(mem[o:], w[:])
		case op == 0x53:
			o, v := s(0).Uint64(), s(1)
			pop(2)
			mem[o] = byte(new(big.Int).And(v, big.NewInt(0xff)).Uint64())
		case op == 0x56:
			d := s(0)
			pop(1)
			if !d.IsUint64() || !dests[d.Uint64()] {
				return fail("bad-jump")
			}
			next = d.Uint64()
		case op == 0x57:
			d, cond := s(0), s(1)
			pop(2)
			if cond.Sign() != 0 {
				if !d.IsUint64() || !dests[d.Uint64()] {
					return fail("bad-jump")
				}
				next = d.Uint64()
			}
		case op == 0x58:
			push(new(big.Int).SetUint64(pc))
		case op == 0x59:
			push(big.NewInt(int64(len(mem))))
		case op == 0x5a:
			push(new(big.Int).SetUint64(gas))
		case op == 0x5b:
		case op >= 0x60 && op <= 0x7f:
			nb := uint64(op-0x60) + 1
			push(new(big.Int).SetBytes(dataSlice(code, new(big.Int).SetUint64(pc+1), nb)))
			next = pc + 1 + nb
		case op >= 0x80 && op <= 0x8f:
			push(new(big.Int).Set(s(int(op - 0x80))))
		case op >= 0x90 && op <= 0x9f:
			k := int(op-0x90) + 1
			stack[n-1], stack[n-1-k] = stack[n-1-k], stack[n-1]
		case op == 0xf3 || op == 0xfd:
			off, l := s(0), s(1)
			var out []byte
			if l.Sign() != 0 {
				out = append([]byte{}, mem[off.Uint64():off.Uint64()+l.Uint64()]...)
			}
			res.Ret, res.GasLeft = out, gas
			res.Status = Stopped
			if op == 0xfd {
				res.Status = Reverted
			}
			return res
		default:
			panic("refevm: table and switch disagree")
		}
		pc = next
	}
}

// dataSlice returns n bytes of data starting at off, zero-filled beyond its end.
func dataSlice(data []byte, off *big.Int, n uint64) []byte {
	out := make([]byte, n)
	if off.IsUint64() && off.Uint64() < uint64(len(data)) {
		copy(out, data[off.Uint64():])
	}
	return out
}
