// Package refbloom is a tiny independent reference for the Yellow Paper log bloom M3:2048.
//
// Yellow Paper (4.3.1): the bloom of a byte sequence x sets three bits of a 2048-bit (256-byte)
// filter: for i in {0, 2, 4}, m(x, i) = KEC(x)[i, i+1] mod 2048 (the two bytes read big-endian) and
// bit m of the filter is set, where bit 0 is the least significant bit of the LAST byte of the
// 256-byte array (B_2047-m in Yellow Paper indexing from the most significant bit).
//
// Nothing here is shared with the code under test: keccak comes from golang.org/x/crypto/sha3, the
// filter is a plain byte array, no big integers.
package refbloom

import "golang.org/x/crypto/sha3"

// Bloom is a 2048-bit filter, byte 0 is the most significant.
type Bloom [256]byte

// Indices returns the three bit numbers (0..2047) of item.
func Indices(item []byte) [3]uint {
	h := sha3.NewLegacyKeccak256()
	h.Write(item)
	d := h.Sum(nil)
	var out [3]uint
	for k := 0; k < 3; k++ {
		hi, lo := uint(d[2*k]), uint(d[2*k+1])
		out[k] = (hi*256 + lo) % 2048
	}
	return out
}

// SetBit sets bit number m (0 = least significant bit of the last byte).
func (b *Bloom) SetBit(m uint) { b[255-m/8] |= 1 << (m % 8) }

// Bit reports bit number m.
func (b *Bloom) Bit(m uint) bool { return b[255-m/8]&(1<<(m%8)) != 0 }

// Add ORs the three bits of item into b.
func (b *Bloom) Add(item []byte) {
	for _, m := range Indices(item) {
		b.SetBit(m)
	}
}

// Has reports whether all three bits of item are set in b.
func Has(b [256]byte, item []byte) bool {
	bb := Bloom(b)
	for _, m := range Indices(item) {
		if !bb.Bit(m) {
			return false
		}
	}
	return true
}

// Of is the bloom of a set of items.
func Of(items ...[]byte) Bloom {
	var b Bloom
	for _, it := range items {
		b.Add(it)
	}
	return b
}

// Covers reports whether every bit of sub is set in b.
func Covers(b, sub [256]byte) bool {
	for i := range b {
		if b[i]&sub[i] != sub[i] {
			return false
		}
	}
	return true
}
