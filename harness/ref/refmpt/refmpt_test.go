package refmpt

import (
	"encoding/hex"
	"testing"
)

func hx(s string) []byte { b, _ := hex.DecodeString(s); return b }

// Known roots from the public Ethereum trie test vectors (trieanyorder.json / trietest.json).
func TestKnownVectors(t *testing.T) {
	type kv = map[string][]byte
	cases := []struct {
		name string
		in   kv
		root string
	}{
		{"empty", kv{}, "56e81f171bcc55a6ff8345e692c0f86e5b48e01b996cadc001622fb5e363b421"},
		{"singleItem", kv{"A": []byte("aaaaaaaaaaaaaaaaaaaaaaaaaaaaaaaaaaaaaaaaaaaaaaaaaa")}, "d23786fb4a010da3ce639d66d5e904a11dbc02746d1ce25029e53290cabf28ab"},
		{"dogs", kv{"doe": []byte("reindeer"), "dog": []byte("puppy"), "dogglesworth": []byte("cat")}, "8aad789dff2f538bca5d8ea56e8abe10f4c7ba3a5dea95fea4cd6e7c3a1168d3"},
		{"puppy", kv{"do": []byte("verb"), "horse": []byte("stallion"), "doge": []byte("coin"), "dog": []byte("puppy")}, "5991bb8c6514148a29db676a14ac506cd2cd5775ace63c30a4fe457715e9ac84"},
		{"foo", kv{"foo": []byte("bar"), "food": []byte("bass")}, "17beaa1648bafa633cda809c90c04af50fc8aed3cb40d16efbddee6fdf63c4c3"},
		{"smallValues", kv{"be": []byte("e"), "dog": []byte("puppy"), "bed": []byte("d")}, "3f67c7a47520f79faa29255d2d3c084a7a6df0453116ed7232ff10277a8be68b"},
		{"testy", kv{"test": []byte("test"), "te": []byte("testy")}, "8452568af70d8d140f58d941338542f645fcca50094b20f3c3d8c3df49337928"},
		{"hex", kv{string(hx("0045")): hx("0123456789"), string(hx("4500")): hx("9876543210")}, "285505fcabe84badc8aa310e2aae17eddc7d120aabec8a476902c8184b3a3503"},
		{"emptyValueIsAbsent", kv{"A": []byte("aaaaaaaaaaaaaaaaaaaaaaaaaaaaaaaaaaaaaaaaaaaaaaaaaa"), "B": nil}, "d23786fb4a010da3ce639d66d5e904a11dbc02746d1ce25029e53290cabf28ab"},
	}
	for _, c := range cases {
		got := Root(c.in)
		if hex.EncodeToString(got[:]) != c.root {
			t.Errorf("%s: got %x want %s", c.name, got, c.root)
		}
	}
	// secure-trie vector (hex_encoded_securetrie_test.json "test1" is large; use the well-known
	// single-entry check instead: SecureRoot(k→v) == Root(keccak(k)→v))
	k := Keccak256([]byte("doe"))
	a, b := SecureRoot(kv{"doe": []byte("reindeer")}), Root(kv{string(k[:]): []byte("reindeer")})
	if a != b {
		t.Errorf("SecureRoot != Root over hashed key")
	}
	if e := EmptyRoot(); hex.EncodeToString(e[:]) != "56e81f171bcc55a6ff8345e692c0f86e5b48e01b996cadc001622fb5e363b421" {
		t.Errorf("EmptyRoot %x", e)
	}
	if h := Keccak256(nil); hex.EncodeToString(h[:]) != "c5d2460186f7233c927e7db2dcc703c0e500b653ca82273b7bfad8045d85a470" {
		t.Errorf("keccak(empty) %x", h)
	}
}

func TestRlpAndHP(t *testing.T) {
	eq := func(name string, got []byte, want string) {
		if hex.EncodeToString(got) != want {
			t.Errorf("%s: got %x want %s", name, got, want)
		}
	}
	eq("str0", RlpString(nil), "80")
	eq("str1", RlpString([]byte{0x7f}), "7f")
	eq("str80", RlpString([]byte{0x80}), "8180")
	eq("dog", RlpString([]byte("dog")), "83646f67")
	eq("u0", RlpUint(0), "80")
	eq("u127", RlpUint(127), "7f")
	eq("u128", RlpUint(128), "8180")
	eq("u1024", RlpUint(1024), "820400")
	eq("big", RlpBig([]byte{0, 0, 1, 0}), "820100")
	eq("list", RlpList(RlpString([]byte("cat")), RlpString([]byte("dog"))), "c88363617483646f67")
	s56 := make([]byte, 56)
	eq("str56", RlpString(s56)[:3], "b83800")
	eq("list56", RlpList(RlpString(s56))[:4], "f83ab838")
	// hex-prefix examples of the Yellow Paper / wiki
	eq("hp1", HexPrefix([]byte{1, 2, 3, 4, 5}, false), "112345")
	eq("hp2", HexPrefix([]byte{0, 1, 2, 3, 4, 5}, false), "00012345")
	eq("hp3", HexPrefix([]byte{0, 15, 1, 12, 11, 8}, true), "200f1cb8")
	eq("hp4", HexPrefix([]byte{15, 1, 12, 11, 8}, true), "3f1cb8")
}
