package refmpt_test

import (
	"testing"

	"gitlab.com/aquachain/aquachain/aquadb"
	"gitlab.com/aquachain/aquachain/trie"
	"gitlab.com/aquachain/aquachain/zzverif/ref/refmpt"
)

// Sanity only: the reference agrees with the repository's trie on all subsets of a few small key
// families (the real comparison, over histories, is check C10).
func TestAgainstRepoTinyTries(t *testing.T) {
	fams := [][]string{
		{"", "a", "ab", "abc", "ac", "b"},
		{"\x00", "\x01", "\x10", "\x11", "\x11\x00", "\x11\x01"},
	}
	vals := [][]byte{{1}, make([]byte, 31), make([]byte, 32), make([]byte, 33)}
	n := 0
	for _, fam := range fams {
		for mask := 0; mask < 1<<len(fam); mask++ {
			for vi := range vals {
				m := map[string][]byte{}
				tr := new(trie.Trie)
				for i, k := range fam {
					if mask>>i&1 == 1 {
						v := append([]byte{byte(i + 1)}, vals[(vi+i)%len(vals)]...)
						m[k] = v
						tr.Update([]byte(k), v)
					}
				}
				if got, want := [32]byte(tr.Hash()), refmpt.Root(m); got != want {
					t.Fatalf("mask %b vi %d: repo %x ref %x", mask, vi, got, want)
				}
				st, _ := trie.NewSecure([32]byte{}, trie.NewDatabase(aquadb.NewMemDatabase()), 0)
				for k, v := range m {
					st.Update([]byte(k), v)
				}
				if got, want := [32]byte(st.Hash()), refmpt.SecureRoot(m); got != want {
					t.Fatalf("secure mask %b vi %d: repo %x ref %x", mask, vi, got, want)
				}
				n++
			}
		}
	}
	t.Logf("%d tries compared", n)
}
