// Package refmpt is a deliberately boring reference for the root of a Merkle-Patricia trie, written
// from the Yellow Paper (appendix D, "Modified Merkle Patricia Tree") definition:
//
//	TRIE(J)  = KEC(c(J,0))
//	n(J,i)   = ()            if J is empty
//	         = c(J,i)        if len(c(J,i)) < 32          (embedded structure, not a string)
//	         = KEC(c(J,i))   otherwise
//	c(J,i)   = RLP((HP(I0[i..],true), I1))                 if |J| = 1                    (leaf)
//	         = RLP((HP(I0[i..j-1],false), n(J,j)))         if j = common prefix len > i  (extension)
//	         = RLP((u(0),…,u(15), v))                      otherwise                     (branch)
//
// The whole key set is recomputed on every call; nothing is cached, nothing is incremental, nothing
// is shared with /repo/trie or /repo/rlp.
package refmpt

import (
	"sort"

	"golang.org/x/crypto/sha3"
)

// Keccak256 is the legacy (pre-NIST padding) Keccak-256 the protocol uses.
func Keccak256(data ...[]byte) [32]byte {
	h := sha3.NewLegacyKeccak256()
	for _, d := range data {
		h.Write(d)
	}
	var out [32]byte
	h.Sum(out[:0])
	return out
}

// ---- minimal RLP ------------------------------------------------------------------------------

func bigEndian(n uint64) []byte {
	var b []byte
	for n > 0 {
		b = append([]byte{byte(n)}, b...)
		n >>= 8
	}
	return b
}

func rlpHeader(short byte, n int) []byte {
	if n <= 55 {
		return []byte{short + byte(n)}
	}
	l := bigEndian(uint64(n))
	return append([]byte{short + 55 + byte(len(l))}, l...)
}

// RlpString is the RLP encoding of a byte string.
func RlpString(b []byte) []byte {
	if len(b) == 1 && b[0] < 0x80 {
		return []byte{b[0]}
	}
	return append(rlpHeader(0x80, len(b)), b...)
}

// RlpList is the RLP encoding of a list whose items are given already encoded.
func RlpList(items ...[]byte) []byte {
	n := 0
	for _, it := range items {
		n += len(it)
	}
	out := rlpHeader(0xc0, n)
	for _, it := range items {
		out = append(out, it...)
	}
	return out
}

// RlpUint is the RLP encoding of a scalar (big-endian, no leading zeros; 0 = empty string).
func RlpUint(n uint64) []byte { return RlpString(bigEndian(n)) }

// RlpBig is the RLP encoding of a non-negative big-endian magnitude with leading zeros trimmed.
func RlpBig(mag []byte) []byte {
	for len(mag) > 0 && mag[0] == 0 {
		mag = mag[1:]
	}
	return RlpString(mag)
}

// ---- hex-prefix -------------------------------------------------------------------------------

// HexPrefix is HP(nibbles, t) of the Yellow Paper, appendix C.
func HexPrefix(nib []byte, leaf bool) []byte {
	f := byte(0)
	if leaf {
		f = 2
	}
	var out []byte
	if len(nib)%2 == 1 {
		out = append(out, 16*(f+1)+nib[0])
		nib = nib[1:]
	} else {
		out = append(out, 16*f)
	}
	for i := 0; i < len(nib); i += 2 {
		out = append(out, 16*nib[i]+nib[i+1])
	}
	return out
}

// ---- the trie function ------------------------------------------------------------------------

type pair struct {
	nib []byte // key as nibbles
	val []byte
}

func nibbles(key string) []byte {
	out := make([]byte, 0, 2*len(key))
	for i := 0; i < len(key); i++ {
		out = append(out, key[i]>>4, key[i]&15)
	}
	return out
}

// c returns the RLP structure of the (non-empty) pair set J whose keys agree on the first i nibbles.
func c(J []pair, i int) []byte {
	if len(J) == 1 {
		return RlpList(RlpString(HexPrefix(J[0].nib[i:], true)), RlpString(J[0].val))
	}
	// longest common prefix of all keys (bounded by the shortest key)
	j := len(J[0].nib)
	for _, p := range J[1:] {
		k := i
		for k < len(p.nib) && k < j && p.nib[k] == J[0].nib[k] {
			k++
		}
		if k < j {
			j = k
		}
	}
	if j > i {
		return RlpList(RlpString(HexPrefix(J[0].nib[i:j], false)), n(J, j))
	}
	items := make([][]byte, 17)
	for d := 0; d < 16; d++ {
		var sub []pair
		for _, p := range J {
			if len(p.nib) > i && p.nib[i] == byte(d) {
				sub = append(sub, p)
			}
		}
		items[d] = n(sub, i+1)
	}
	items[16] = RlpString(nil)
	for _, p := range J {
		if len(p.nib) == i {
			items[16] = RlpString(p.val)
		}
	}
	return RlpList(items...)
}

// n is the node-reference function: empty string, the structure itself when shorter than 32 bytes,
// otherwise its hash (as a 32-byte string).
func n(J []pair, i int) []byte {
	if len(J) == 0 {
		return RlpString(nil)
	}
	enc := c(J, i)
	if len(enc) < 32 {
		return enc
	}
	h := Keccak256(enc)
	return RlpString(h[:])
}

func pairs(content map[string][]byte, secure bool) []pair {
	var J []pair
	for k, v := range content {
		if len(v) == 0 {
			continue // an empty value is the absence of the key
		}
		if secure {
			h := Keccak256([]byte(k))
			k = string(h[:])
		}
		J = append(J, pair{nibbles(k), v})
	}
	sort.Slice(J, func(a, b int) bool { return string(J[a].nib) < string(J[b].nib) })
	return J
}

func root(J []pair) [32]byte {
	if len(J) == 0 {
		return Keccak256(RlpString(nil))
	}
	return Keccak256(c(J, 0))
}

// EmptyRoot is the root of the empty trie, keccak256(0x80).
func EmptyRoot() [32]byte { return root(nil) }

// Root is the Merkle-Patricia root of content with the map keys used as trie keys verbatim. Entries
// with an empty value are not part of the content.
func Root(content map[string][]byte) [32]byte { return root(pairs(content, false)) }

// SecureRoot is Root with every key replaced by its keccak256 hash (state and storage tries).
func SecureRoot(content map[string][]byte) [32]byte { return root(pairs(content, true)) }

// ListRoot is the root of the trie mapping rlp(i) to items[i] (transaction / receipt list roots).
func ListRoot(items [][]byte) [32]byte {
	m := make(map[string][]byte, len(items))
	for i, it := range items {
		m[string(RlpUint(uint64(i)))] = it
	}
	return Root(m)
}
