// Package refhdr is the reference model of check C13: header validity relative to the parent
// (written from the property text) and the fork-scheduled difficulty formula (refdiff, a LITERAL
// table transcribed once from consensus/aquahash/difficulty.go and params/protocol_params.go at the
// pinned commit - a later change of a constant or of an epoch boundary there is a disagreement).
//
// It imports nothing from the repository.
package refhdr

import (
	"fmt"
	"math/big"
)

// Hdr carries the header fields the rules talk about.
type Hdr struct {
	Number     *big.Int
	Time       *big.Int
	Difficulty *big.Int
	GasLimit   uint64
	GasUsed    uint64
	ExtraLen   int
}

// ---- refdiff ------------------------------------------------------------------------------------

// Algo of one epoch.
type Algo int

const (
	Homestead Algo = iota // parent + parent/2048 * max(1 - delta/10, -99), floor at Min only where FloorApplies
	Simple                // parent +/- parent/Divisor depending on delta < Limit, floor at Min
)

// Epoch describes the rule for blocks From..To (inclusive, To < 0: open end).
type Epoch struct {
	From, To int64
	Algo     Algo
	Divisor  int64
	Min      int64
	Limit    int64 // duration limit in seconds (Simple)
	Floor    bool  // Homestead only: the minimum applies (mainnet chain id only)
}

// Network is the literal difficulty schedule of one built-in network.
type Network struct {
	Name    string
	ChainID int64
	Epochs  []Epoch
	Resets  map[int64]int64 // fork blocks whose difficulty is a constant
	MaxUnc  func(height int64) int
}

const (
	minGenesis = 99999999
	minHF1     = 100001792
	minHF3     = 30959185800
	minHF5     = 46039386
)

func uncles(hf5 int64) func(int64) int {
	return func(h int64) int {
		if hf5 >= 0 && h >= hf5 {
			return 1
		}
		return 2
	}
}

// Networks: mainnet, testnet, testnet2, dev (all forks at 0) and the test schedule.
var Networks = []Network{
	{
		Name: "mainnet", ChainID: 61717561,
		Epochs: []Epoch{
			{From: 1, To: 3599, Algo: Homestead, Divisor: 2048, Min: minGenesis, Floor: true},
			{From: 3601, To: 7199, Algo: Homestead, Divisor: 2048, Min: minHF1, Floor: true},
			{From: 7200, To: 13025, Algo: Simple, Divisor: 2048, Min: minHF1, Limit: 240},
			{From: 13027, To: 22799, Algo: Simple, Divisor: 2048, Min: minHF3, Limit: 240},
			{From: 22801, To: 35999, Algo: Simple, Divisor: 16, Min: minHF5, Limit: 240},
			{From: 36000, To: -1, Algo: Simple, Divisor: 128, Min: minHF5, Limit: 180},
		},
		Resets: map[int64]int64{3600: minHF1, 13026: minHF3, 22800: minHF5},
		MaxUnc: uncles(22800),
	},
	{
		Name: "testnet", ChainID: 617175611,
		Epochs: []Epoch{
			{From: 2, To: 2, Algo: Simple, Divisor: 2048, Min: minHF1, Limit: 240},
			{From: 4, To: 4, Algo: Simple, Divisor: 2048, Min: minHF3, Limit: 240},
			{From: 6, To: 649, Algo: Simple, Divisor: 128, Min: minHF5, Limit: 180},
			{From: 651, To: -1, Algo: Simple, Divisor: 1024, Min: minHF5, Limit: 180},
		},
		Resets: map[int64]int64{1: minHF1, 3: minHF3, 5: minHF5, 650: minHF5},
		MaxUnc: uncles(5),
	},
	{
		Name: "testnet2", ChainID: 617175612,
		// HF1..HF3 are not scheduled on testnet2, so calcDifficultyHFX never reaches the "simple" formula
		// (it requires HF2): every non-fork block uses the original Homestead formula, and since the floor
		// of that formula applies to the mainnet chain id only, there is NO minimum here (pinned behaviour).
		Epochs: []Epoch{
			{From: 1, To: 7, Algo: Homestead, Divisor: 2048, Min: minGenesis, Floor: false},
			{From: 9, To: -1, Algo: Homestead, Divisor: 2048, Min: minGenesis, Floor: false},
		},
		Resets: map[int64]int64{8: minHF5},
		MaxUnc: uncles(0),
	},
	{
		Name: "dev", ChainID: 1337,
		Epochs: []Epoch{
			{From: 1, To: -1, Algo: Simple, Divisor: 128, Min: minHF5, Limit: 180},
		},
		Resets: map[int64]int64{},
		MaxUnc: uncles(0),
	},
	{
		Name: "test", ChainID: 3,
		Epochs: []Epoch{
			{From: 2, To: 2, Algo: Simple, Divisor: 2048, Min: minHF1, Limit: 240},
			{From: 4, To: 4, Algo: Simple, Divisor: 2048, Min: minHF3, Limit: 240},
			{From: 6, To: -1, Algo: Simple, Divisor: 128, Min: minHF5, Limit: 180},
		},
		Resets: map[int64]int64{1: minHF1, 3: minHF3, 5: minHF5},
		MaxUnc: uncles(5),
	},
}

// ByName finds a network.
func ByName(n string) *Network {
	for i := range Networks {
		if Networks[i].Name == n {
			return &Networks[i]
		}
	}
	return nil
}

// ForkHeights lists the heights at which the difficulty rule changes (epoch starts and resets).
func (n *Network) ForkHeights() []int64 {
	seen := map[int64]bool{}
	var out []int64
	add := func(h int64) {
		if !seen[h] {
			seen[h] = true
			out = append(out, h)
		}
	}
	for _, e := range n.Epochs {
		add(e.From)
	}
	for h := range n.Resets {
		add(h)
	}
	return out
}

// Diff is the difficulty the child of parent must carry when created at time t.
func (n *Network) Diff(parentNumber, parentTime, parentDiff, t *big.Int) *big.Int {
	next := new(big.Int).Add(parentNumber, big.NewInt(1))
	if !next.IsInt64() {
		next = big.NewInt(1 << 62)
	}
	h := next.Int64()
	if v, ok := n.Resets[h]; ok {
		return big.NewInt(v)
	}
	var ep *Epoch
	for i := range n.Epochs {
		e := &n.Epochs[i]
		if h >= e.From && (e.To < 0 || h <= e.To) {
			ep = e
		}
	}
	if ep == nil {
		panic(fmt.Sprintf("refdiff: no epoch for %s height %d", n.Name, h))
	}
	delta := new(big.Int).Sub(t, parentTime)
	adj := new(big.Int).Div(parentDiff, big.NewInt(ep.Divisor))
	d := new(big.Int)
	switch ep.Algo {
	case Simple:
		if delta.Cmp(big.NewInt(ep.Limit)) < 0 {
			d.Add(parentDiff, adj)
		} else {
			d.Sub(parentDiff, adj)
		}
		if d.Cmp(big.NewInt(ep.Min)) < 0 {
			d.SetInt64(ep.Min)
		}
	case Homestead:
		x := new(big.Int).Div(delta, big.NewInt(10)) // delta > 0 wherever the formula is consulted
		x.Sub(big.NewInt(1), x)
		if x.Cmp(big.NewInt(-99)) < 0 {
			x.SetInt64(-99)
		}
		d.Add(parentDiff, x.Mul(x, adj))
		if ep.Floor && d.Cmp(big.NewInt(ep.Min)) < 0 {
			d.SetInt64(ep.Min)
		}
	}
	return d
}

// ---- refhdr -------------------------------------------------------------------------------------

var maxGas = new(big.Int).SetUint64(1<<63 - 1)

// Check returns "" when header h is acceptable as a child of parent p at wall-clock time now
// (unix seconds), else the name of the first violated rule (in the order of the property text).
// uncle: the clock bound does not apply (an uncle is judged relative to its own parent only).
func (n *Network) Check(p, h *Hdr, now int64, uncle bool) string {
	if new(big.Int).Sub(h.Number, p.Number).Cmp(big.NewInt(1)) != 0 {
		return "number"
	}
	if h.Time.Cmp(p.Time) <= 0 {
		return "time-not-later"
	}
	if !uncle && h.Time.Cmp(big.NewInt(now+15)) > 0 {
		return "time-future"
	}
	if h.ExtraLen > 32 {
		return "extra"
	}
	if h.GasUsed > h.GasLimit {
		return "gas-used"
	}
	if new(big.Int).SetUint64(h.GasLimit).Cmp(maxGas) > 0 {
		return "gas-limit-cap"
	}
	if h.GasLimit < 5000 {
		return "gas-limit-min"
	}
	move := new(big.Int).Sub(new(big.Int).SetUint64(h.GasLimit), new(big.Int).SetUint64(p.GasLimit))
	move.Abs(move)
	if move.Cmp(new(big.Int).SetUint64(p.GasLimit/1024)) >= 0 {
		return "gas-limit-move"
	}
	if h.Difficulty.Cmp(n.Diff(p.Number, p.Time, p.Difficulty, h.Time)) != 0 {
		return "difficulty"
	}
	return ""
}
