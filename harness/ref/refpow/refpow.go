// Package refpow is the reference model of check C14: an independent evaluation of the
// proof-of-work acceptance predicate, the header / seal-free hashes and the version schedule.
//
// It deliberately imports nothing from the repository: RLP is a 40-line encoder written from the
// Yellow Paper appendix B, keccak comes from golang.org/x/crypto/sha3 (legacy padding), argon2id
// from golang.org/x/crypto/argon2 called with LITERAL parameters, ethash is written from the
// ethash specification (revision 23) with the sizes passed in by the caller.
package refpow

import (
	"encoding/binary"
	"math/big"

	"golang.org/x/crypto/argon2"
	"golang.org/x/crypto/sha3"
)

// Header carries the fifteen serialised header fields plus the (never serialised) version.
type Header struct {
	ParentHash  [32]byte
	UncleHash   [32]byte
	Coinbase    [20]byte
	Root        [32]byte
	TxHash      [32]byte
	ReceiptHash [32]byte
	Bloom       [256]byte
	Difficulty  *big.Int
	Number      *big.Int
	GasLimit    uint64
	GasUsed     uint64
	Time        *big.Int
	Extra       []byte
	MixDigest   [32]byte
	Nonce       uint64 // serialised as 8 bytes big endian
	Version     byte
}

// ---- RLP (encoder only) -------------------------------------------------------------------------

func rlpLen(n int, off byte) []byte {
	if n <= 55 {
		return []byte{off + byte(n)}
	}
	var b []byte
	for x := n; x > 0; x >>= 8 {
		b = append([]byte{byte(x)}, b...)
	}
	return append([]byte{off + 55 + byte(len(b))}, b...)
}

func rlpBytes(b []byte) []byte {
	if len(b) == 1 && b[0] < 0x80 {
		return []byte{b[0]}
	}
	return append(rlpLen(len(b), 0x80), b...)
}

func rlpBig(x *big.Int) []byte {
	if x == nil || x.Sign() == 0 {
		return []byte{0x80}
	}
	return rlpBytes(x.Bytes()) // minimal big endian; negative values are not encodable (caller's duty)
}

func rlpUint(x uint64) []byte { return rlpBig(new(big.Int).SetUint64(x)) }

func rlpList(items ...[]byte) []byte {
	var p []byte
	for _, it := range items {
		p = append(p, it...)
	}
	return append(rlpLen(len(p), 0xc0), p...)
}

func (h *Header) sealFreeItems() [][]byte {
	return [][]byte{
		rlpBytes(h.ParentHash[:]), rlpBytes(h.UncleHash[:]), rlpBytes(h.Coinbase[:]), rlpBytes(h.Root[:]),
		rlpBytes(h.TxHash[:]), rlpBytes(h.ReceiptHash[:]), rlpBytes(h.Bloom[:]), rlpBig(h.Difficulty),
		rlpBig(h.Number), rlpUint(h.GasLimit), rlpUint(h.GasUsed), rlpBig(h.Time), rlpBytes(h.Extra),
	}
}

// SealFreeRLP is the RLP list of the thirteen non-seal fields.
func (h *Header) SealFreeRLP() []byte { return rlpList(h.sealFreeItems()...) }

// FullRLP is the RLP list of all fifteen serialised fields.
func (h *Header) FullRLP() []byte {
	var n [8]byte
	binary.BigEndian.PutUint64(n[:], h.Nonce)
	return rlpList(append(h.sealFreeItems(), rlpBytes(h.MixDigest[:]), rlpBytes(n[:]))...)
}

// ---- hashes -------------------------------------------------------------------------------------

func Keccak256(b []byte) []byte {
	d := sha3.NewLegacyKeccak256()
	d.Write(b)
	return d.Sum(nil)
}

func Keccak512(b []byte) []byte {
	d := sha3.NewLegacyKeccak512()
	d.Write(b)
	return d.Sum(nil)
}

// VersionHash: version 1 keccak-256; versions 2, 3, 4 argon2id, one pass, one lane, no salt,
// 32 bytes out, memory 1 KiB / 16 KiB / 32 KiB.
func VersionHash(version byte, data []byte) []byte {
	switch version {
	case 1:
		return Keccak256(data)
	case 2:
		return argon2.IDKey(data, nil, 1, 1, 1, 32)
	case 3:
		return argon2.IDKey(data, nil, 1, 16, 1, 32)
	case 4:
		return argon2.IDKey(data, nil, 1, 32, 1, 32)
	}
	panic("refpow: no such version")
}

// HeaderHash is the block / header hash: the version's hash of the full header RLP.
func (h *Header) HeaderHash() []byte { return VersionHash(h.Version, h.FullRLP()) }

// SealFreeHash is the hash the proof-of-work search runs on.
//
// PINNED QUIRK (transcribed from core/types/block.go HashNoNonce, not derivable from the property
// text): the seal-free hash is keccak-256 for versions 1, 2 and 4 and argon2id/16 KiB for version 3.
func (h *Header) SealFreeHash() []byte {
	if h.Version == 3 {
		return VersionHash(3, h.SealFreeRLP())
	}
	return Keccak256(h.SealFreeRLP())
}

// Seed is seal-free hash || nonce (little endian).
func Seed(sealFree []byte, nonce uint64) []byte {
	s := make([]byte, 40)
	copy(s, sealFree)
	binary.LittleEndian.PutUint64(s[32:], nonce)
	return s
}

// EthashParams fixes the dataset of the version-1 evaluation.
type EthashParams struct {
	FullSize uint64                // dataset size in bytes
	Lookup   func(uint32) []uint32 // i-th 64-byte dataset node as 16 words
}

// LightParams evaluates dataset nodes on demand from the cache.
func LightParams(cache []uint32, fullSize uint64) *EthashParams {
	return &EthashParams{FullSize: fullSize, Lookup: func(i uint32) []uint32 { return DatasetItem(cache, i) }}
}

// FullParams precomputes the whole dataset (small sizes only).
func FullParams(cache []uint32, fullSize uint64) *EthashParams {
	n := uint32(fullSize / hashBytes)
	tab := make([][]uint32, n)
	for i := range tab {
		tab[i] = DatasetItem(cache, uint32(i))
	}
	return &EthashParams{FullSize: fullSize, Lookup: func(i uint32) []uint32 { return tab[i] }}
}

// PoW evaluates the version's work function: (expected mix digest, result).
func (h *Header) PoW(ep *EthashParams) (digest, result []byte) {
	sf := h.SealFreeHash()
	if h.Version == 1 {
		return Hashimoto(sf, h.Nonce, ep.FullSize, ep.Lookup)
	}
	return make([]byte, 32), VersionHash(h.Version, Seed(sf, h.Nonce))
}

var two256 = new(big.Int).Lsh(big.NewInt(1), 256)

// Verdict of the acceptance predicate.
type Verdict struct {
	Accept bool
	Why    string // "ok", "difficulty", "digest", "pow"
	Result []byte
}

// Accept: difficulty > 0, mix digest is the expected one, int(result) <= floor(2^256 / difficulty).
func (h *Header) Accept(ep *EthashParams) Verdict {
	if h.Difficulty == nil || h.Difficulty.Sign() <= 0 {
		return Verdict{false, "difficulty", nil}
	}
	digest, result := h.PoW(ep)
	if string(digest) != string(h.MixDigest[:]) {
		return Verdict{false, "digest", result}
	}
	target := new(big.Int).Div(two256, h.Difficulty)
	if new(big.Int).SetBytes(result).Cmp(target) > 0 {
		return Verdict{false, "pow", result}
	}
	return Verdict{true, "ok", result}
}

// ---- ethash, from the specification -----------------------------------------------------------

const (
	hashBytes      = 64
	mixBytes       = 128
	datasetParents = 256
	cacheRounds    = 3
	accesses       = 64
	fnvPrime       = 0x01000193
)

func fnv(a, b uint32) uint32 { return a*fnvPrime ^ b }

// EpochSeed is keccak-256 iterated epoch times over 32 zero bytes.
func EpochSeed(epoch uint64) []byte {
	s := make([]byte, 32)
	for i := uint64(0); i < epoch; i++ {
		s = Keccak256(s)
	}
	return s
}

// MakeCache builds the verification cache of the given size in bytes (a multiple of 64).
func MakeCache(sizeBytes uint64, seed []byte) []uint32 {
	n := int(sizeBytes / hashBytes)
	rows := make([][]byte, n)
	rows[0] = Keccak512(seed)
	for i := 1; i < n; i++ {
		rows[i] = Keccak512(rows[i-1])
	}
	for r := 0; r < cacheRounds; r++ {
		for i := 0; i < n; i++ {
			v := int(binary.LittleEndian.Uint32(rows[i]) % uint32(n))
			prev := rows[(i-1+n)%n]
			x := make([]byte, hashBytes)
			for k := range x {
				x[k] = prev[k] ^ rows[v][k]
			}
			rows[i] = Keccak512(x)
		}
	}
	out := make([]uint32, 0, n*16)
	for _, r := range rows {
		for k := 0; k < hashBytes; k += 4 {
			out = append(out, binary.LittleEndian.Uint32(r[k:]))
		}
	}
	return out
}

// DatasetItem computes the i-th 64-byte dataset node as 16 little-endian words.
func DatasetItem(cache []uint32, i uint32) []uint32 {
	n := uint32(len(cache) / 16)
	mix := make([]uint32, 16)
	copy(mix, cache[(i%n)*16:(i%n)*16+16])
	mix[0] ^= i
	mix = words(Keccak512(bytesOf(mix)))
	for j := uint32(0); j < datasetParents; j++ {
		p := fnv(i^j, mix[j%16]) % n
		for k := 0; k < 16; k++ {
			mix[k] = fnv(mix[k], cache[p*16+uint32(k)])
		}
	}
	return words(Keccak512(bytesOf(mix)))
}

func bytesOf(w []uint32) []byte {
	b := make([]byte, 4*len(w))
	for i, v := range w {
		binary.LittleEndian.PutUint32(b[4*i:], v)
	}
	return b
}

func words(b []byte) []uint32 {
	w := make([]uint32, len(b)/4)
	for i := range w {
		w[i] = binary.LittleEndian.Uint32(b[4*i:])
	}
	return w
}

// Hashimoto returns (mix digest, result).
func Hashimoto(headerHash []byte, nonce uint64, fullSize uint64, lookup func(uint32) []uint32) ([]byte, []byte) {
	n := uint32(fullSize / mixBytes)
	s := Keccak512(Seed(headerHash, nonce))
	sw := words(s)
	mix := make([]uint32, 32)
	for i := range mix {
		mix[i] = sw[i%16]
	}
	for i := uint32(0); i < accesses; i++ {
		p := fnv(i^sw[0], mix[i%32]) % n
		var page []uint32
		page = append(page, lookup(2*p)...)
		page = append(page, lookup(2*p+1)...)
		for k := range mix {
			mix[k] = fnv(mix[k], page[k])
		}
	}
	cmix := make([]uint32, 8)
	for i := 0; i < 32; i += 4 {
		cmix[i/4] = fnv(fnv(fnv(mix[i], mix[i+1]), mix[i+2]), mix[i+3])
	}
	digest := bytesOf(cmix)
	return digest, Keccak256(append(append([]byte{}, s...), digest...))
}

// ---- version schedule ---------------------------------------------------------------------------

// Schedule gives the activation heights of the three version-changing forks of one built-in
// network (-1: not scheduled). LITERAL transcription of params/config.go at the pinned commit.
type Schedule struct {
	Name          string
	ChainID       int64
	HF5, HF8, HF9 int64
}

var Schedules = []Schedule{
	{"mainnet", 61717561, 22800, -1, -1},
	{"testnet", 617175611, 5, 650, -1},
	{"testnet2", 617175612, 0, 8, 19},
	{"testnet3", 617175613, 0, -1, -1},
	{"dev", 1337, 0, -1, -1},
	{"test", 3, 5, -1, -1},
}

// Version is the scheduled hash version at a height: 4 from HF9, 3 from HF8, 2 from HF5, else 1.
func (s Schedule) Version(height uint64) byte {
	at := func(f int64) bool { return f >= 0 && height >= uint64(f) }
	switch {
	case at(s.HF9):
		return 4
	case at(s.HF8):
		return 3
	case at(s.HF5):
		return 2
	}
	return 1
}
